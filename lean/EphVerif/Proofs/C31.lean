import EphVerif.Lemmas.C31

/-!
# C31 — fetch output stays inside the chosen directory

Property: *when `eph fetch` targets a directory, the file it creates is a direct child of that directory with
a name containing no path separators, control or reserved characters and never `.` or `..`, whatever filename
the manifest suggests; the node likewise only records such sanitised names in the manifests it issues.*

`Filename.cliSanitize` models the CLI's `sanitize_filename`, `Filename.nodeName` what `Node::store_chunk`
records, `Filename.hint` is `sanitize_filename_hint` (the daemon's STORE command feeds its result to
`store_chunk`: `Filename.viaHint`); `Filename.join` / `parentPath` model `destination /= name` and
`parent_path()`.  `Spec.Filename.safeName` is the property's notion of a safe name (literal numbers).
No bound on the length of the suggested name.
-/
namespace EphVerif.C31
open EphVerif EphVerif.Filename EphVerif.C31L EphVerif.Gen.C31
open EphVerif.Spec.Filename (safeName goodByte goodN ctlN sepN resN acceptable)

/-! ## generated-constant obligations (the literal numbers of the property) -/

/-- the CLI's replacement list covers both separators and all seven reserved characters -/
theorem cli_reserved_covers : Covers cliReserved := by
  unfold Covers; decide +kernel
/-- so does the node's -/
theorem node_reserved_covers : Covers nodeReserved := by
  unfold Covers; decide +kernel
/-- the `.`/`..` guards are present and every length limit is 255 -/
theorem guards_and_limits :
    cliDotCheck ≠ 0 ∧ nodeDotCheck ≠ 0 ∧ hintDotCheck ≠ 0 ∧ cliMaxLen = 255 ∧ nodeMaxLen = 255 ∧ hintMaxLen = 255 := by
  decide

/-! ## `C31.name` -/

/-- **C31.name (CLI).**  For every suggested name (any byte string), the CLI's sanitiser returns either the
empty string (the caller then uses the hex chunk id) or a safe name: no `/` or `\`, no byte `< 0x20` or `0x7f`,
none of `: * ? " < > |`, not `.` / `..`, at most 255 bytes. -/
theorem name_cli (candidate : Bytes) : acceptable (cliSanitize candidate) = true := by
  unfold cliSanitize
  simp only []
  generalize hb : replaceReserved cliReserved ((filename candidate).filter fun b => !isCntrl b) = base
  have hgood : base.all goodByte = true := by
    rw [← hb]; exact replace_all_good _ cli_reserved_covers _ (filter_not_cntrl _)
  by_cases hguard : (base.isEmpty || (cliDotCheck != 0 && isDots base)) = true
  · rw [if_pos hguard]; rfl
  · rw [if_neg hguard]
    have hg : (base.isEmpty || (cliDotCheck != 0 && isDots base)) = false := by simpa using hguard
    rw [Bool.or_eq_false_iff] at hg
    have hd : isDots base = false := by
      have := hg.2
      simpa [cliDotCheck] using this
    have := safe_of_parts base cliMaxLen (by decide) (by decide) hgood hg.1 hd
    simp [acceptable, this]

/-- **C31.name (node).**  Whatever original name a client supplies, the name `Node::store_chunk` records in the
manifest it issues (if it records one at all) is a safe name. -/
theorem name_node (original n : Bytes) (h : nodeName original = some n) : safeName n = true := by
  unfold nodeName at h
  simp only [] at h
  generalize hb : nodeLambda (filename original) = base at h
  by_cases he : base.isEmpty = true
  · rw [if_pos he] at h; cases h
  · rw [if_neg he] at h
    have he' : base.isEmpty = false := by simpa using he
    injection h with h
    subst h
    unfold nodeLambda at hb
    simp only [] at hb
    generalize hv : replaceReserved nodeReserved ((filename original).filter fun b => !isCntrl b) = v at hb
    have hgood : v.all goodByte = true := by
      rw [← hv]; exact replace_all_good _ node_reserved_covers _ (filter_not_cntrl _)
    by_cases hdots : (nodeDotCheck != 0 && isDots v) = true
    · rw [if_pos hdots] at hb; subst hb; simp at he'
    · rw [if_neg hdots] at hb
      subst hb
      have hd : isDots v = false := by simpa [nodeDotCheck] using hdots
      exact safe_of_parts v nodeMaxLen (by decide) (by decide) hgood he' hd

/-- **C31.name (daemon STORE route).**  The same holds when the name first passes `sanitize_filename_hint`. -/
theorem name_via_hint (raw n : Bytes) (h : viaHint raw = some n) : safeName n = true := by
  unfold viaHint at h
  cases hh : hint raw with
  | none => rw [hh] at h; cases h
  | some x => rw [hh] at h; exact name_node x n h

/-! ## `C31.child` -/

/-- **C31.child.**  For every directory text and every safe name, `dir / name` has `dir` (as `parent_path()`
reports it: trailing separators dropped, the root kept) as its parent and `name` as its file name: the created
file is a direct child of the chosen directory. -/
theorem child (dir n : Bytes) (hs : safeName n = true) :
    parentPath (join dir n) = normDir dir ∧ filename (join dir n) = n := by
  have hns := safe_no_slash hs
  have hne := safe_nonempty hs
  have hrev : ∀ b ∈ n.reverse, (b != slash) = true := fun b hb => hns b (List.mem_reverse.mp hb)
  have hhead : (n.head? == some slash) = false := by
    cases n with
    | nil => exact absurd rfl hne
    | cons a t =>
      have := hns a (by simp)
      simp only [List.head?_cons, beq_eq_false_iff_ne, ne_eq, Option.some.injEq]
      simpa using this
  have hslash : (slash != slash) = false := by decide
  unfold join
  rw [hhead]
  simp only [Bool.false_eq_true, if_false]
  by_cases hde : dir.isEmpty = true
  · rw [if_pos hde]
    have : dir = [] := by simpa using hde
    subst this
    constructor
    · unfold parentPath normDir
      simp only [dropWhile_all _ n.reverse hrev, List.isEmpty_nil, if_true]
    · unfold filename
      rw [takeWhile_all _ n.reverse hrev, List.reverse_reverse]
  · rw [if_neg hde]
    have hdne : dir ≠ [] := by simpa using hde
    have hnorm : normDir dir = (if (dir.reverse.dropWhile (· == slash)).isEmpty then [slash]
        else (dir.reverse.dropWhile (· == slash)).reverse) := by
      unfold normDir; rw [if_neg hde]
    by_cases hlast : (dir.getLast? == some slash) = true
    · rw [if_pos hlast]
      obtain ⟨d', hd'⟩ : ∃ d', dir = d' ++ [slash] := by
        have := List.getLast?_eq_some_iff.mp (by simpa using hlast)
        obtain ⟨ys, hys⟩ := this
        exact ⟨ys, hys⟩
      have hrevj : (dir ++ n).reverse = n.reverse ++ slash :: d'.reverse := by
        rw [hd']; simp
      constructor
      · unfold parentPath
        rw [hrevj, dropWhile_app _ _ _ _ hrev hslash]
        rw [hnorm, hd']
        simp
      · unfold filename
        rw [hrevj, takeWhile_app _ _ _ _ hrev hslash, List.reverse_reverse]
    · rw [if_neg hlast]
      have hrevj : (dir ++ [slash] ++ n).reverse = n.reverse ++ slash :: dir.reverse := by simp
      constructor
      · unfold parentPath
        rw [hrevj, dropWhile_app _ _ _ _ hrev hslash, hnorm]
        simp
      · unfold filename
        rw [hrevj, takeWhile_app _ _ _ _ hrev hslash, List.reverse_reverse]

/-- **C31.child (CLI).**  Whatever the manifest suggests: if the sanitiser yields a name, the file created in
`dir` is a direct child of `dir` carrying exactly that name. -/
theorem child_cli (dir candidate : Bytes) (h : cliSanitize candidate ≠ []) :
    parentPath (join dir (cliSanitize candidate)) = normDir dir ∧
      filename (join dir (cliSanitize candidate)) = cliSanitize candidate := by
  have hacc := name_cli candidate
  have hs : safeName (cliSanitize candidate) = true := by
    simp only [acceptable, Bool.or_eq_true] at hacc
    rcases hacc with he | hs
    · have : cliSanitize candidate = [] := by simpa using he
      exact absurd this h
    · exact hs
  exact child dir _ hs

/-! ## non-vacuity -/

/-- a traversal attempt `../../etc/passwd` is reduced to its last component `passwd` -/
example : cliSanitize [0x2e, 0x2e, 0x2f, 0x2e, 0x2e, 0x2f, 0x65, 0x74, 0x63, 0x2f, 0x70, 0x61, 0x73, 0x73, 0x77, 0x64]
    = [0x70, 0x61, 0x73, 0x73, 0x77, 0x64] := by decide
/-- reserved and control bytes are neutralised, not merely detected: `a:\x01b\c` becomes `a_b_c` -/
example : cliSanitize [0x61, 0x3a, 0x01, 0x62, 0x5c, 0x63] = [0x61, 0x5f, 0x62, 0x5f, 0x63] := by decide
/-- `..` (also when it only appears after control bytes are removed) yields the fall-back -/
example : cliSanitize [0x2e, 0x07, 0x2e] = [] ∧ nodeName [0x2e, 0x07, 0x2e] = none := by decide
/-- the hypothesis of `child` is satisfiable (`r.pdf`) and the conclusion is about a real path:
`/t/o/` joined with `r.pdf` is `/t/o/r.pdf`, whose parent is `/t/o` -/
example : safeName [0x72, 0x2e, 0x70, 0x64, 0x66] = true ∧
    join [0x2f, 0x74, 0x2f, 0x6f, 0x2f] [0x72, 0x2e, 0x70, 0x64, 0x66]
      = [0x2f, 0x74, 0x2f, 0x6f, 0x2f, 0x72, 0x2e, 0x70, 0x64, 0x66] ∧
    parentPath [0x2f, 0x74, 0x2f, 0x6f, 0x2f, 0x72, 0x2e, 0x70, 0x64, 0x66] = [0x2f, 0x74, 0x2f, 0x6f] := by decide
/-- the sanitiser is what makes `child` true: an unsanitised `../x` joined to `/t/o` would leave the directory -/
example : parentPath (join [0x2f, 0x74, 0x2f, 0x6f] [0x2e, 0x2e, 0x2f, 0x78]) ≠ normDir [0x2f, 0x74, 0x2f, 0x6f] := by decide

end EphVerif.C31
