/-
C22 — swarm plans hand every shard to exactly one eligible provider, evenly.
Property theorems only; helper lemmas are in Lemmas/C22.lean.
Everything is stated for EVERY ranking of the candidates (any permutation), every shard list,
every configuration value: no bound on sizes.
-/
import EphVerif.Lemmas.C22

namespace EphVerif.C22
open EphVerif.Swarm

/-- the provider count exactly as the property statement writes it:
    min(candidates, shards, max(target, min(max(minimum providers, threshold), candidates, shards))) -/
def specCount (c s thr mn tg : Nat) : Nat :=
  min c (min s (max tg (min (max mn thr) (min c s))))

/-- (T) the formula transcribed from the source equals the property's formula -/
theorem count_formula (c s thr mn tg : Nat) :
    providerCount c s thr mn tg = specCount c s thr mn tg := by
  simp only [providerCount, EphVerif.Gen.C22.providerCount, specCount]
  omega

theorem range_map_getD_eq_take (l : List String) (n : Nat) (h : n ≤ l.length) :
    (List.range n).map (fun i => l.getD i "") = l.take n := by
  apply List.ext_getElem
  · simp [Nat.min_eq_left h]
  · intro i h1 h2
    simp at h1
    simp [List.getD_eq_getElem?_getD, List.getElem?_eq_getElem (by omega : i < l.length)]

/-- Shape of every plan: the providers are the first `N` ranked candidates with
    `N = specCount`, and provider `i` receives the shards at positions `j ≡ i (mod N)`. -/
theorem plan_shape (ranked : List String) (labels : List Nat) (thr mn tg : Nat) :
    let n := if labels = [] then 0 else specCount ranked.length labels.length thr mn tg
    computePlan ranked labels thr mn tg =
      (List.range n).map (fun i =>
        { peer := ranked.getD i "", shards := (slots labels.length n i).map (fun j => labels.getD j 0) })
    ∧ n ≤ ranked.length ∧ n ≤ labels.length := by
  intro n
  have hn : n = if labels = [] then 0 else specCount ranked.length labels.length thr mn tg := rfl
  unfold computePlan
  by_cases hl : labels = []
  · simp [hl] at hn ⊢
    simp [hn]
  · have hl' : labels.isEmpty = false := by simpa using hl
    simp only [hl', Bool.false_eq_true, if_false]
    simp only [hl, if_false] at hn
    have hle1 : n ≤ ranked.length := by rw [hn]; unfold specCount; omega
    have hle2 : n ≤ labels.length := by rw [hn]; unfold specCount; omega
    by_cases hr : ranked = []
    · have : n = 0 := by rw [hr] at hle1; simpa using hle1
      simp [hr, this]
    · have hr' : ranked.isEmpty = false := by simpa using hr
      simp only [hr', Bool.false_eq_true, if_false]
      rw [count_formula, ← hn]
      by_cases h0 : n = 0
      · simp [h0]
      · have : (n == 0) = false := by simpa using h0
        simp [this, hle1, hle2]

/-- the providers are the first `N` ranked candidates -/
theorem providers (ranked : List String) (labels : List Nat) (thr mn tg : Nat) :
    (computePlan ranked labels thr mn tg).map (·.peer) =
      ranked.take (if labels = [] then 0 else specCount ranked.length labels.length thr mn tg) := by
  obtain ⟨h, hle, _⟩ := plan_shape ranked labels thr mn tg
  rw [h, List.map_map]
  exact range_map_getD_eq_take ranked _ hle

/-- Providers are distinct, are never the node itself, and are among the live peers that the
    routing table returned (C07 proves those are distinct and unexpired) — for every ranking. -/
theorem providers_eligible (closest : List String) (hnd : closest.Nodup) (self : String)
    (ranked : List String) (hperm : ranked.Perm (candidatePeers closest self))
    (labels : List Nat) (thr mn tg : Nat) :
    ((computePlan ranked labels thr mn tg).map (·.peer)).Nodup ∧
    ∀ p ∈ (computePlan ranked labels thr mn tg).map (·.peer), p ≠ self ∧ p ∈ closest := by
  rw [providers]
  have hrn : ranked.Nodup := hperm.nodup_iff.mpr (List.filter_sublist.nodup hnd)
  refine ⟨(List.take_sublist _ _).nodup hrn, ?_⟩
  intro p hp
  have hp' : p ∈ candidatePeers closest self := hperm.mem_iff.mp (List.mem_of_mem_take hp)
  simp [candidatePeers] at hp'
  exact ⟨hp'.2, hp'.1⟩

/-- every shard position goes to exactly one provider (`j` goes to provider `j mod N`), once -/
theorem shard_exactly_one (s n : Nat) (j : Nat) (hj : j < s) (i : Nat) :
    j ∈ slots s n i ↔ i = j % n := by
  rw [mem_slots]
  constructor
  · intro h; exact h.2.symm
  · intro h; exact ⟨hj, h.symm⟩

theorem slots_nodup (s n i : Nat) : (slots s n i).Nodup :=
  List.filter_sublist.nodup List.nodup_range

/-- every provider of a plan holds at least one shard, and shard counts differ by at most one -/
theorem even (ranked : List String) (labels : List Nat) (thr mn tg : Nat) :
    ∀ a ∈ computePlan ranked labels thr mn tg, 1 ≤ a.shards.length ∧
      ∀ b ∈ computePlan ranked labels thr mn tg, a.shards.length ≤ b.shards.length + 1 := by
  obtain ⟨h, _, hle2⟩ := plan_shape ranked labels thr mn tg
  rw [h]
  intro a ha
  simp only [List.mem_map, List.mem_range] at ha
  obtain ⟨i, hi, rfl⟩ := ha
  refine ⟨?_, ?_⟩
  · simpa using slots_nonempty _ _ i hi hle2
  · intro b hb
    simp only [List.mem_map, List.mem_range] at hb
    obtain ⟨k, hk, rfl⟩ := hb
    simpa using slots_balanced _ _ i k hi hk

/-- number of providers = the property's formula (0 when the manifest has no shards) -/
theorem provider_count (ranked : List String) (labels : List Nat) (thr mn tg : Nat) :
    (computePlan ranked labels thr mn tg).length =
      if labels = [] then 0 else specCount ranked.length labels.length thr mn tg := by
  obtain ⟨h, _, _⟩ := plan_shape ranked labels thr mn tg
  rw [h]
  simp

-- non-vacuity: 5 shards, threshold 3, 4 candidates, target 3, min 2 → 3 providers, 2/2/1 shards
example : computePlan ["a", "b", "c", "d"] [1, 2, 3, 4, 5] 3 2 3 =
    [⟨"a", [1, 4]⟩, ⟨"b", [2, 5]⟩, ⟨"c", [3]⟩] := by decide
example : specCount 4 5 3 2 3 = 3 := by decide
-- fewer candidates than the minimum: proceed with what is available
example : computePlan ["a"] [7, 8, 9] 3 2 3 = [⟨"a", [7, 8, 9]⟩] := by decide

end EphVerif.C22
