/-
System-level composition: handshake (C12) → signed message (C13 ∘ C15, C16) → transport frame (C14),
with the cryptographic functions first as their standards (RFC 2104 HMAC-SHA256, FIPS 180-4 SHA-256,
RFC 8439 ChaCha20) and then as the models of the C++ (`HmacSha256::compute/verify`, `Sha256::digest`,
`ChaCha20::apply`), which C08 and C09 prove equal to the standards.

Every theorem here is obtained by instantiating and composing imported theorems; the statements are
the predicates of `Lemmas/SystemMessaging.lean` (`SignedRoundtrip`, `SessionAccepts`,
`WrongSessionCollides`, `TransportCarries`, `TamperVerdict`).  All are ∀ over messages, keys,
identities, nonces, PoW settings, stream chunkings; no bound on sizes except the transport's own
1 MiB frame limit, which is a hypothesis where frames are sent.

What is and is not claimed about tampering: ChaCha20 is a keystream XOR, so it gives **no
integrity** (`malleability`): any change to a frame's ciphertext is delivered by the transport as the
correspondingly changed plaintext, without the session noticing.  Integrity comes from the HMAC
inside the payload: the changed plaintext is rejected by `decode_signed` unless it is itself a
correctly tagged buffer (`tampered_frame`): impossible when only the tag was hit, an HMAC collision
when only the body was hit, in general a forged (body, tag) pair.  That HMAC-SHA256 admits no
feasible forgery is a cryptographic assumption and is not claimed.
-/
import EphVerif.Lemmas.SystemMessaging

namespace EphVerif.System
open EphVerif.Message EphVerif.MessageSpec

/-! ## (1) signing round trip with the real HMAC -/

/-- ∀ faithful m (version 1..4, tag = kind, fields in range, nonce carried), ∀ key:
    `decodeSigned (encodeSigned m key) key = ok m` with RFC 2104 HMAC-SHA256 as the MAC.
    (`C15.roundtrip ∘ C13.sign_then_verify`, instantiated by `C13.hmac_length`.) -/
theorem signed_roundtrip_hmac : SignedRoundtrip hmac (decodeSigned hmac) :=
  signedRoundtrip_of_mac32 hmac C13.hmac_length

/-- for every sendable message and any version byte the receiver gets `arrives m` (nearest version,
    nonce from version 3) — the unconditional form -/
theorem signed_roundtrip_hmac_any_version (m : Msg) (key : Bytes) (h : Sendable m) :
    decodeSigned hmac (encodeSigned hmac m key) key = .ok (arrives m) := by
  rw [C13.sign_then_verify hmac C13.hmac_length]
  exact C15.roundtrip_any_version m h

/-! ## (2) messages between two nodes that completed the handshake -/

/-- ∀ identities A, B (scalars below 2^32), PoW settings and nonces: if each accepts the other's
    handshake (C12's model of `Node::perform_handshake`, SHA-256 and HMAC-SHA256 as in the code),
    then the two session keys are one 32-byte key, and every faithful message A signs with its key
    is accepted by B with B's key as exactly that message. -/
theorem session_message_accepted : SessionAccepts EphVerif.Spec.sha256 hmac (decodeSigned hmac) := by
  intro A B bitsA bitsB nonceA nonceB kA kB hA hB h1 h2
  have hk : kA = kB := C12.key EphVerif.Spec.sha256 hmac A B bitsA bitsB nonceA nonceB kA kB hA hB h1 h2
  have hl : kA.length = 32 := C12.key_length EphVerif.Spec.sha256 hmac C13.hmac_length A bitsA B.peerId B.pub nonceB kA h1
  refine ⟨hl, hk.symm, fun m hm => ?_⟩
  rw [← hk]
  exact signed_roundtrip_hmac m kA hm

/-- the message of a session verified under any other key `k'` (another session's, a stale one, an
    attacker's) is accepted only if `HMAC(k', encoding) = HMAC(k, encoding)` — an explicit cross-key
    collision (`C13.accepted_tag`); nothing else about `k'` matters -/
theorem session_message_wrong_session : WrongSessionCollides hmac (decodeSigned hmac) :=
  wrongSession_of_mac32 hmac C13.hmac_length

/-- … so under a key without that collision the message is rejected (never `oob`: C16) -/
theorem session_message_wrong_session_rejected (m : Msg) (k k' : Bytes)
    (hnc : hmac k' (encode m) ≠ hmac k (encode m)) : decodeSigned hmac (encodeSigned hmac m k) k' = .reject := by
  cases h : decodeSigned hmac (encodeSigned hmac m k) k' with
  | reject => rfl
  | oob => exact absurd h ((C16.total hmac).2 _ _)
  | ok m' => exact absurd (session_message_wrong_session m m' k k' h).1 hnc

/-! ## (3) signed messages over the encrypted transport -/

/-- generic form: any 32-byte-tag MAC, frames as `SessionManager::send` writes them -/
theorem transport_carries_of (mac : Bytes → Bytes → Bytes) (hmac32 : C13.Mac32 mac) :
    TransportCarries mac (decodeSigned mac) Frames.encodeFrame := by
  intro tk sk sends chunks htk hn hf hsize hchunks
  have hst := frames_stream tk (sends.map fun s => (s.1, encodeSigned mac s.2 sk)) chunks htk
    (by intro f hf'; obtain ⟨s, hs, rfl⟩ := List.mem_map.mp hf'; exact hn s hs)
    (by intro f hf'; obtain ⟨s, hs, rfl⟩ := List.mem_map.mp hf'; exact hsize s hs)
    (by rw [hchunks, List.flatMap_map])
  refine ⟨?_, hst.2.1⟩
  rw [hst.1, List.map_map, List.map_map]
  apply List.map_congr_left
  intro s hs
  exact signedRoundtrip_of_mac32 mac hmac32 s.2 sk (hf s hs)

/-- ∀ transport key (32 bytes), signing key, list of (12-byte frame nonce, faithful message) whose
    signed encodings fit a frame, and ∀ cutting of the TCP stream into pieces: the reader thread
    (C14) delivers payloads which `decode_signed` turns into exactly the messages sent, once each, in
    order; the session stays up.  In the code signing key and transport key are the same session key;
    the theorem does not need that. -/
theorem transport_carries_signed_messages : TransportCarries hmac (decodeSigned hmac) Frames.encodeFrame :=
  transport_carries_of hmac C13.hmac_length

/-- **ChaCha20 gives no integrity.** Flipping the bits `d` of a frame's ciphertext flips exactly the
    bits `d` of what the receiver decrypts — for every key, nonce, counter and difference. -/
theorem malleability (key nonce : Bytes) (counter : UInt32) (payload d : Bytes) (hd : d.length = payload.length)
    (hk : key.length = 32) (hn : nonce.length = 12) :
    EphVerif.Spec.chacha20 key nonce counter
        (List.zipWith (· ^^^ ·) (EphVerif.Spec.chacha20 key nonce counter payload) d)
      = List.zipWith (· ^^^ ·) payload d := by
  rw [chacha20_malleable key nonce counter _ d (by rw [Frames.Cipher.chacha20_length key nonce counter payload hk hn, hd]),
    Frames.Cipher.chacha20_involution key nonce counter payload hk hn]

/-- generic form of the tamper verdict -/
theorem tampered_frame_of (mac : Bytes → Bytes → Bytes) (hmac32 : C13.Mac32 mac) :
    TamperVerdict mac (decodeSigned mac) Frames.encodeFrame (fun k n c => Frames.cipher k n 0 c) := by
  intro tk sk nonce m pre post ct' chunks htk hnonce hpp hsize p p' hlen hne hchunks r
  have hp'len : p'.length = p.length := (cipher_length tk nonce ct' htk hnonce).trans hlen
  -- the tampered stream is the well-formed stream of pre ++ [(nonce, p')] ++ post
  have hframe := tampered_frame_is_frame tk nonce ct' p.length htk hnonce hlen
  have hst := frames_stream tk (pre ++ [(nonce, p')] ++ post) chunks htk
    (by
      intro f hf
      simp only [List.mem_append, List.mem_singleton] at hf
      rcases hf with (hf | rfl) | hf
      · exact (hpp f (List.mem_append_left _ hf)).1
      · exact hnonce
      · exact (hpp f (List.mem_append_right _ hf)).1)
    (by
      intro f hf
      simp only [List.mem_append, List.mem_singleton] at hf
      rcases hf with (hf | rfl) | hf
      · exact (hpp f (List.mem_append_left _ hf)).2
      · show p'.length ≤ 1048576
        rw [hp'len]; exact hsize
      · exact (hpp f (List.mem_append_right _ hf)).2)
    (by
      rw [hchunks, hframe]
      simp only [List.flatMap_append, List.flatMap_cons, List.flatMap_nil, List.append_nil]
      rfl)
  have hne' : p' ≠ p := by
    intro heq
    apply hne
    rw [hframe]
    show Frames.encodeFrame tk nonce p = Frames.encodeFrame tk nonce p'
    rw [heq]
  obtain ⟨hl32, htake, hdrop⟩ := encodeSigned_split mac hmac32 m sk
  have hverdict : decodeSigned mac p' sk = .reject ∨ ∃ m', decodeSigned mac p' sk = .ok m' ∧ C13.Tagged mac sk p' := by
    cases h : decodeSigned mac p' sk with
    | reject => exact Or.inl rfl
    | oob => exact absurd h ((C16.total mac).2 _ _)
    | ok m' =>
      have := (C13.iff mac hmac32 p' sk m').mp h
      exact Or.inr ⟨m', rfl, this.1, this.2.1⟩
  -- p' splits at the same place as p
  have hsplit' : p' = p'.take (p'.length - 32) ++ p'.drop (p'.length - 32) := (List.take_append_drop _ _).symm
  have hsplit : p = encode m ++ mac sk (encode m) := rfl
  refine ⟨⟨by simpa using hst.1, hst.2.1⟩, hne', hp'len, hverdict, ?_, ?_⟩
  · -- body untouched: the tag must have changed, and a wrong tag is rejected
    intro hbody
    apply C13.rejected_unless_tagged mac hmac32
    rintro ⟨_, htag⟩
    apply hne'
    rw [hsplit', hsplit, hbody, htag, hbody]
  · -- tag untouched: acceptance is a collision on a different body
    intro htag m' hacc
    have hacc' := (C13.iff mac hmac32 p' sk m').mp hacc
    refine ⟨?_, ?_⟩
    · intro hbody
      apply hne'
      rw [hsplit', hsplit, hbody, htag]
    · rw [← hacc'.2.1, htag]

/-- any change to the ciphertext of one frame of a stream of signed messages, with the real HMAC:
    delivered unnoticed by the transport, then rejected by `decode_signed` unless the changed
    plaintext carries a valid HMAC tag of its own (see `TamperVerdict` for the three refinements) -/
theorem tampered_frame : TamperVerdict hmac (decodeSigned hmac) Frames.encodeFrame (fun k n c => Frames.cipher k n 0 c) :=
  tampered_frame_of hmac C13.hmac_length

/-! ## (4) the same statements for the implementation models

`Model/Hmac.lean` (`compute`, `verify`), `Model/Sha256.lean` (`digest`) and `Model/ChaCha20.lean`
(`apply`) are the transcriptions of `src/crypto/*.cpp` that C08 and C09 tie to the code by their own
differential runs and prove equal to the standards.  Chain: code ⇄ model (C08/C09 harness) ;
model = standard (`C08.hmac`, `C08.verify`, `C08.sha_digest`, `C09.apply_spec`) ; standard-level
composition (above) ; hence the composition for the models (below). -/

theorem implementation_level_signed_roundtrip : SignedRoundtrip EphVerif.Model.Hmac.compute decodeSignedViaVerify := by
  rw [hmac_impl, decodeSignedViaVerify_eq]; exact signed_roundtrip_hmac

theorem implementation_level_session :
    SessionAccepts EphVerif.Model.Sha256.digest EphVerif.Model.Hmac.compute decodeSignedViaVerify := by
  rw [hmac_impl, sha_impl, decodeSignedViaVerify_eq]; exact session_message_accepted

theorem implementation_level_wrong_session : WrongSessionCollides EphVerif.Model.Hmac.compute decodeSignedViaVerify := by
  rw [hmac_impl, decodeSignedViaVerify_eq]; exact session_message_wrong_session

/-- frames written with `ChaCha20::apply` (C09's model) -/
theorem implementation_level_transport : TransportCarries EphVerif.Model.Hmac.compute decodeSignedViaVerify implFrame := by
  rw [hmac_impl, decodeSignedViaVerify_eq]
  intro tk sk sends chunks htk hn hf hsize hchunks
  apply transport_carries_signed_messages tk sk sends chunks htk hn hf hsize
  rw [hchunks]
  exact flatMap_congr_mem fun s hs => implFrame_eq tk s.1 _ htk (hn s hs)

/-- tampering, with frames written and decrypted by `ChaCha20::apply` -/
theorem implementation_level_tamper :
    TamperVerdict EphVerif.Model.Hmac.compute decodeSignedViaVerify implFrame implDecrypt := by
  rw [hmac_impl, decodeSignedViaVerify_eq]
  intro tk sk nonce m pre post ct' chunks htk hnonce hpp hsize p p' hlen hne hchunks
  have hdec : p' = Frames.cipher tk nonce 0 ct' := cipher_impl tk nonce ct' htk hnonce
  have hfm : ∀ l : List (Bytes × Bytes), (∀ f ∈ l, f.1.length = 12) →
      (l.flatMap fun f => implFrame tk f.1 f.2) = l.flatMap fun f => Frames.encodeFrame tk f.1 f.2 :=
    fun l hl => flatMap_congr_mem fun f hf => implFrame_eq tk f.1 f.2 htk (hl f hf)
  have := tampered_frame tk sk nonce m pre post ct' chunks htk hnonce hpp hsize hlen
    (by rw [← implFrame_eq tk nonce _ htk hnonce]; exact hne)
    (by
      rw [hchunks, hfm pre (fun f hf => (hpp f (List.mem_append_left _ hf)).1),
        hfm post (fun f hf => (hpp f (List.mem_append_right _ hf)).1)])
  rw [hdec]
  exact this

/-- **(4) in one statement**: (1), (2), (2'), (3), (3') hold word for word with the implementation
    models in the roles of hash, MAC, verification, frame cipher and frame decryption. -/
theorem implementation_level :
    SignedRoundtrip EphVerif.Model.Hmac.compute decodeSignedViaVerify ∧
    SessionAccepts EphVerif.Model.Sha256.digest EphVerif.Model.Hmac.compute decodeSignedViaVerify ∧
    WrongSessionCollides EphVerif.Model.Hmac.compute decodeSignedViaVerify ∧
    TransportCarries EphVerif.Model.Hmac.compute decodeSignedViaVerify implFrame ∧
    TamperVerdict EphVerif.Model.Hmac.compute decodeSignedViaVerify implFrame implDecrypt :=
  ⟨implementation_level_signed_roundtrip, implementation_level_session, implementation_level_wrong_session,
    implementation_level_transport, implementation_level_tamper⟩

/-- the reader thread of C14's model decrypts with the RFC 8439 function; that is `ChaCha20::apply` -/
theorem reader_decrypts_with_apply (key nonce ct : Bytes) (hk : key.length = 32) (hn : nonce.length = 12) :
    Frames.cipher key nonce EphVerif.Gen.C14.recvCounter ct = EphVerif.ChaCha20.apply key nonce ct 0 :=
  (cipher_impl key nonce ct hk hn).symm

/-! ## non-vacuity: concrete small instances, evaluated by the kernel with the real SHA-256 / HMAC /
ChaCha20 specifications (no `native_decide`) -/

def sampleMsg : Msg := ⟨4, 5, .handshake 7 9 4⟩
def sampleAnnounce : Msg :=
  ⟨3, 1, .announce { chunkId := List.replicate 32 7, peerId := List.replicate 32 9, endpoint := [1, 2, 3], ttl := 3600,
                      manifestUri := [], shards := [0, 5], nonce := 77 }⟩
def sampleKey : Bytes := (List.range 32).map UInt8.ofNat
def sampleNonce : Bytes := List.replicate 12 7
def idA : Kex.Identity := ⟨[1], 123456789⟩
def idB : Kex.Identity := ⟨[2], 4000000000⟩

set_option maxRecDepth 100000 in
/-- the hypothesis of (1)–(3) is met by a handshake message and by a version-3 announce with a nonce -/
example : Faithful sampleMsg ∧ Faithful sampleAnnounce := by decide +kernel

set_option maxRecDepth 100000 in
/-- (1) on a concrete message and key, with RFC 2104 HMAC-SHA256 computed by the kernel -/
example : decodeSigned hmac (encodeSigned hmac sampleMsg [1, 2, 3]) [1, 2, 3] = .ok sampleMsg := by decide +kernel

set_option maxRecDepth 100000 in
/-- (2): two concrete identities accept each other's handshake (PoW off), so `session_message_accepted`
    is not vacuous -/
example : (Kex.performHandshake EphVerif.Spec.sha256 hmac idA 0 idB.peerId idB.pub 0).isSome = true ∧
    (Kex.performHandshake EphVerif.Spec.sha256 hmac idB 0 idA.peerId idA.pub 0).isSome = true := by decide +kernel

set_option maxRecDepth 100000 in
/-- (3): one frame carrying a signed message, cut after 5 bytes, is delivered and decodes -/
example :
    let wire := Frames.encodeFrame sampleKey sampleNonce (encodeSigned hmac sampleMsg sampleKey)
    ((Frames.feedChunks sampleKey Frames.Reader.init [wire.take 5, wire.drop 5]).delivered.map (decodeSigned hmac · sampleKey))
      = [.ok sampleMsg] := by decide +kernel

set_option maxRecDepth 100000 in
/-- (3'): the same frame with one ciphertext bit flipped — in the tag (last byte) or in the body
    (byte 20 of the frame = byte 4 of the plaintext): delivered by the transport, session up, rejected
    by `decode_signed` -/
example :
    let wire := Frames.encodeFrame sampleKey sampleNonce (encodeSigned hmac sampleMsg sampleKey)
    let flip (i : Nat) : Bytes := wire.set i ((wire.getD i 0) ^^^ 1)
    ((Frames.feedChunks sampleKey Frames.Reader.init [flip (wire.length - 1)]).delivered.map (decodeSigned hmac · sampleKey)) = [.reject] ∧
    ((Frames.feedChunks sampleKey Frames.Reader.init [flip 20]).delivered.map (decodeSigned hmac · sampleKey)) = [.reject] ∧
    (Frames.feedChunks sampleKey Frames.Reader.init [flip 20]).ended = none := by decide +kernel

end EphVerif.System
