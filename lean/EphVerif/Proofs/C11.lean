/-
C11 — stored content round-trips and tampered replicas are never accepted.

Model: `EphVerif.StorePipeline` (Model/StorePipeline.lean: Node::store_chunk / fetch_chunk / receive_chunk /
export_chunk_record and the CLI's decrypt_chunk_with_manifest, composed from the models of Sha256 (C08),
ChaCha20 + CryptoManager (C09) and Shamir (C10)).  Spec functions: `Spec.sha256` (FIPS 180-4),
`Spec.chacha20` (RFC 8439).  Helper lemmas: Lemmas/C11Pipeline.lean.

Every theorem quantifies over all payloads, chunk ids, requested TTLs, shard configurations that fit the
`uint8_t` fields (so 1 ≤ t ≤ n ≤ 255 after `store_chunk`'s `max`), nonces, Shamir coefficient draws `rd`, previous
node states, and over the replacement keys `rk…` a temporary `CryptoManager` would draw.  The chunk key is any
32-byte string other than the all-zero one; that excluded point is characterised by `zero_key*` below.
-/
import EphVerif.Lemmas.C11Pipeline

namespace EphVerif.C11
open EphVerif EphVerif.StorePipeline EphVerif.C11L EphVerif.Gen

/-- the configured shard counts fit their `std::uint8_t` fields -/
def ShardCfg (cfg : Config) : Prop := cfg.shardThreshold ≤ 255 ∧ cfg.shardTotal ≤ 255

/-- a chunk key as the property speaks of it: 32 bytes, not all zero -/
def ChunkKey (key : Bytes) : Prop := key.length = 32 ∧ key ≠ List.replicate 32 0

/-- the block counter the cipher is started with: the little-endian 32-bit integer in `id[0..3]` -/
def counterOf (id : Bytes) : UInt32 := Spec.ChaCha.le32 (id.getD 0 0) (id.getD 1 0) (id.getD 2 0) (id.getD 3 0)

theorem ShardCfg.bits {cfg : Config} (h : ShardCfg cfg) :
    cfg.shardThreshold < 2 ^ C11.kShardCountBits ∧ cfg.shardTotal < 2 ^ C11.kShardCountBits := by
  have e : C11.kShardCountBits = 8 := rfl
  rw [e]
  exact ⟨by have := h.1; omega, by have := h.2; omega⟩

theorem ChunkKey.notZero {key : Bytes} (h : ChunkKey key) : ChaCha20.allZero key = false := by
  cases hz : ChaCha20.allZero key with
  | false => rfl
  | true =>
    have := (C09.allZero_iff key).1 hz
    rw [h.1] at this
    exact absurd this h.2

/-! ## (T) what was read from the source -/

/-- `receive_chunk` and the CLI function perform their steps in this order: every effect (manifest cache, shard
    table, announcement, chunk store, seed ledger, broadcast) and the `return plaintext` come after the hash
    comparison, the comparison after the digest, the digest after the decryption. -/
theorem gen_order :
    C11.receiveSteps = ["decode", "validate", "ttl", "combine", "decrypt", "digest", "compare", "cache", "publish",
      "announce", "put", "clear", "seed", "broadcast", "return"] ∧
    C11.cliSteps = ["validate", "combine", "decrypt", "digest", "compare", "return"] ∧
    (∀ e ∈ ["cache", "publish", "announce", "put", "clear", "seed", "broadcast", "return"],
      C11.receiveSteps.idxOf "compare" < C11.receiveSteps.idxOf e ∧ e ∈ C11.receiveSteps) := by
  decide

/-- the data flow of the four functions: the content hash is the digest of the *payload* (store) and is compared
    with the digest of the *decrypted* bytes (receive, CLI); the cipher is keyed with the manifest's / the caller's
    chunk id and the manifest's / the record's nonce; what is kept is the sealed bytes / the received replica. -/
theorem gen_roles :
    C11.storeHashRole = "payload" ∧ C11.storeEncryptRole = "payload" ∧ C11.storeEncryptIdRole = "id" ∧
    C11.storeManifestNonceRole = "sealed" ∧ C11.storePutDataRole = "sealed" ∧ C11.storePutNonceRole = "sealed" ∧
    C11.storeSplitRole = "key" ∧
    C11.receiveHashRole = "decrypted" ∧ C11.receiveCompareRole = "digest!=manifest.chunk_hash" ∧
    C11.receiveDecryptIdArg = "manifest.chunk_id" ∧ C11.receiveDecryptNonceArg = "manifest.nonce" ∧
    C11.receiveCombineThresholdArg = "manifest.threshold" ∧ C11.receivePutDataRole = "ciphertext" ∧
    C11.receiveReturnRole = "decrypted" ∧
    C11.fetchDecryptIdRole = "id" ∧ C11.fetchNonceRole = "record" ∧ C11.fetchDataRole = "record" ∧
    C11.cliHashRole = "decrypted" ∧ C11.cliCompareRole = "digest!=manifest.chunk_hash" ∧
    C11.cliDecryptIdArg = "manifest.chunk_id" ∧ C11.cliDecryptNonceArg = "manifest.nonce" ∧
    C11.cliCombineThresholdArg = "manifest.threshold" ∧ C11.cliReturnRole = "decrypted" := by
  decide

theorem gen_sizes :
    C11.kKeyBytes = 32 ∧ C11.kNonceBytes = 12 ∧ C11.kShardValueBytes = 32 ∧ C11.kShardCountBits = 8 ∧
    C11.kStoreMinThreshold = 1 ∧ C11.kMinAllowedManifestTtl = 1 := by
  decide

/-! ## store_chunk: what is held and what the manifest says -/

/-- **C11, second sentence.** `store_chunk` succeeds; the bytes held for the chunk (`export_chunk_record`) are the
    RFC 8439 ChaCha20 encryption of the payload under the chunk key, the recorded nonce and the counter `LE32(id[0..3])`;
    the manifest carries that id, that nonce, the FIPS 180-4 SHA-256 of the *payload*, `t = max(1, shard_threshold)`,
    `n = max(t, shard_total)` and `n` shares; its first `t` shares — indeed any selection of its shares whose first `t`
    members have distinct indices, in any order — reconstruct exactly the chunk key. -/
theorem held_bytes (cfg : Config) (hcfg : ShardCfg cfg) (st : NodeState) (wallNowNs : Int) (id payload : Bytes) (ttl : Int)
    (key nonce rk : Bytes) (rd : Nat → Nat) (hkey : ChunkKey key) (hn : nonce.length = 12) :
    ∃ r held, storeChunk cfg st wallNowNs id payload ttl key nonce rk rd = .value r ∧
      exportRecord r.node id = some held ∧
      held.data = Spec.chacha20 key nonce (counterOf id) payload ∧ held.nonce = nonce ∧ held.encrypted = true ∧
      r.manifest.chunkId = id ∧ r.manifest.nonce = nonce ∧ r.manifest.chunkHash = Spec.sha256 payload ∧
      r.manifest.threshold = max 1 cfg.shardThreshold ∧
      r.manifest.totalShares = max (max 1 cfg.shardThreshold) cfg.shardTotal ∧
      r.manifest.shards.length = r.manifest.totalShares ∧
      1 ≤ r.manifest.threshold ∧ r.manifest.threshold ≤ r.manifest.totalShares ∧ r.manifest.totalShares ≤ 255 ∧
      Shamir.combine r.manifest.shards r.manifest.threshold = .ok (toNats key) ∧
      ∀ sel : List Shamir.Share, (∀ s ∈ sel, s ∈ r.manifest.shards) → r.manifest.threshold ≤ sel.length →
        ((sel.take r.manifest.threshold).map (·.index)).Nodup →
        Shamir.combine sel r.manifest.threshold = .ok (toNats key) := by
  obtain ⟨h1, h2⟩ := hcfg.bits
  obtain ⟨shares, hs, hlen, _⟩ := split_facts cfg h1 h2 key rd
  obtain ⟨b1, b2, b3⟩ := eff_bounds cfg h1 h2
  refine ⟨_, recordOf cfg id payload ttl key nonce rk, storeChunk_eq cfg st wallNowNs id payload ttl key nonce rk rd shares hs,
    find_upsert _ _ _, ?_, rfl, rfl, rfl, rfl, C08.sha_digest payload, rfl, rfl, hlen, b1, b2, b3,
    combine_stored cfg h1 h2 key hkey.1 rd shares hs, ?_⟩
  · exact (C09.manager_encrypt_spec key id payload nonce rk hkey.notZero hkey.1 hn).1
  · intro sel hsub hl hnd
    exact combine_selection cfg h1 h2 key hkey.1 rd shares hs sel hsub hl hnd

/-! ## round trip -/

/-- **C11, first sentence.** For every payload, id, requested TTL, shard configuration, non-zero chunk key, nonce and
    coefficient draws, with `r` the result of `store_chunk` on node A and `held` the bytes A holds:
    * the local lookup `fetch_chunk(id)` on A returns the payload;
    * on any other node B (any state, any configuration) `receive_chunk(manifest, held)` at any time at which B's TTL
      window admits the manifest returns the payload, B then holds exactly `held` under `id`, lists itself as
      provider, and B's own `fetch_chunk(id)` returns the payload;
    * the CLI's `decrypt_chunk_with_manifest(manifest, held)` returns the payload.
    The manifest is taken as it comes out of the URI codec (`wire`: expiry in whole seconds). -/
theorem roundtrip (cfg : Config) (hcfg : ShardCfg cfg) (stA : NodeState) (wallNowNs : Int) (id payload : Bytes) (ttl : Int)
    (key nonce rk : Bytes) (rd : Nat → Nat) (hkey : ChunkKey key) :
    ∃ r held, storeChunk cfg stA wallNowNs id payload ttl key nonce rk rd = .value r ∧
      exportRecord r.node id = some held ∧
      (∀ rk1, fetchChunk r.node id rk1 = .value (some payload)) ∧
      (∀ (cfgB : Config) (stB : NodeState) (now' ttl' : Int) (rk2 : Bytes),
        manifestTtl (wire r.manifest).expiresNs now' cfgB.minTtl cfgB.maxTtl = some ttl' →
        (receiveChunk cfgB stB now' (some (wire r.manifest)) held.data rk2).2 = .accepted payload ∧
        (exportRecord (receiveChunk cfgB stB now' (some (wire r.manifest)) held.data rk2).1 id).map (·.data) = some held.data ∧
        (find (receiveChunk cfgB stB now' (some (wire r.manifest)) held.data rk2).1.announced id).isSome = true ∧
        ∀ rk3, fetchChunk (receiveChunk cfgB stB now' (some (wire r.manifest)) held.data rk2).1 id rk3 = .value (some payload)) ∧
      (∀ rk4, decryptChunkWithManifest (wire r.manifest) held.data rk4 = .accepted payload) := by
  obtain ⟨h1, h2⟩ := hcfg.bits
  obtain ⟨shares, hs, hlen, _⟩ := split_facts cfg h1 h2 key rd
  obtain ⟨b1, b2, _⟩ := eff_bounds cfg h1 h2
  have hcomb := combine_stored cfg h1 h2 key hkey.1 rd shares hs
  have hz := hkey.notZero
  refine ⟨_, recordOf cfg id payload ttl key nonce rk, storeChunk_eq cfg stA wallNowNs id payload ttl key nonce rk rd shares hs,
    find_upsert _ _ _, ?_, ?_, ?_⟩
  · -- local lookup
    intro rk1
    rw [fetchChunk_of (nodeAfterStore cfg stA wallNowNs id payload ttl key nonce rk shares) id rk1
      (recordOf cfg id payload ttl key nonce rk) _ (toNats key) (find_upsert _ _ _) rfl (find_upsert _ _ _)
      (by show 0 < effThreshold cfg; omega) (by show effThreshold cfg ≤ shares.length; omega) hcomb]
    exact congrArg _ (decrypt_sealed key id payload nonce rk rk1 hz)
  · -- replica import on another node
    intro cfgB stB now' ttl' rk2 httl
    have hacc : Accepts cfgB now' (wire (manifestOf cfg wallNowNs id payload ttl nonce shares))
        (sealedData key id payload nonce rk) rk2 ttl' payload :=
      ⟨by show 0 < effThreshold cfg; omega, by show effThreshold cfg ≤ shares.length; omega, httl, toNats key, hcomb,
        decrypt_sealed key id payload nonce rk rk2 hz, rfl⟩
    have hrecv := receive_accepts cfgB stB now' _ _ rk2 ttl' payload hacc
    have hrecv' : receiveChunk cfgB stB now'
        (some (wire (Stored.manifest ⟨nodeAfterStore cfg stA wallNowNs id payload ttl key nonce rk shares,
          manifestOf cfg wallNowNs id payload ttl nonce shares⟩)))
        (recordOf cfg id payload ttl key nonce rk).data rk2
        = (acceptEffects stB (wire (manifestOf cfg wallNowNs id payload ttl nonce shares)) ttl'
            (sealedData key id payload nonce rk), .accepted payload) := hrecv
    rw [hrecv']
    refine ⟨rfl, ?_, ?_, ?_⟩
    · show (find (upsert stB.chunks id _) id).map (·.data) = _
      rw [find_upsert]; rfl
    · show (find (upsert stB.announced id ttl') id).isSome = true
      rw [find_upsert]; rfl
    · intro rk3
      show fetchChunk (acceptEffects stB (wire (manifestOf cfg wallNowNs id payload ttl nonce shares)) ttl'
          (sealedData key id payload nonce rk)) id rk3 = _
      rw [fetchChunk_of (acceptEffects stB (wire (manifestOf cfg wallNowNs id payload ttl nonce shares)) ttl'
          (sealedData key id payload nonce rk)) id rk3
        { data := sealedData key id payload nonce rk, nonce := nonce, encrypted := true, ttl := ttl' }
        { shards := shares, threshold := effThreshold cfg, totalShares := effTotal cfg, ttl := ttl' } (toNats key)
        (find_upsert _ _ _) rfl (find_upsert _ _ _) (by show 0 < effThreshold cfg; omega)
        (by show effThreshold cfg ≤ shares.length; omega) hcomb]
      exact congrArg _ (decrypt_sealed key id payload nonce rk rk3 hz)
  · -- CLI
    intro rk4
    exact cli_accepts _ _ rk4 payload
      ⟨by show 0 < effThreshold cfg; omega, by show effThreshold cfg ≤ shares.length; omega, toNats key, hcomb,
        decrypt_sealed key id payload nonce rk rk4 hz, rfl⟩

/-- The TTL hypothesis of `roundtrip` is met, for instance, by a node with the same TTL window as the publisher
    (`0 < min ≤ max`) that receives the replica at the instant of the store, when the wall clock shows a whole second:
    it then grants the clamped TTL of the store. -/
theorem admitted_same_instant (cfg : Config) (hmin : 0 < cfg.minTtl) (hmm : cfg.minTtl ≤ cfg.maxTtl)
    (wallNowNs : Int) (hnow : 0 ≤ wallNowNs) (hsec : wallNowNs % 1000000000 = 0) (id payload : Bytes) (ttl : Int)
    (nonce : Bytes) (shares : List Shamir.Share) :
    manifestTtl (wire (manifestOf cfg wallNowNs id payload ttl nonce shares)).expiresNs wallNowNs cfg.minTtl cfg.maxTtl
      = some (sanitizedTtl cfg ttl) := by
  have hs1 : cfg.minTtl ≤ sanitizedTtl cfg ttl ∧ sanitizedTtl cfg ttl ≤ cfg.maxTtl := by
    have e : (C11.kMinAllowedManifestTtl : Int) = 1 := rfl
    simp only [sanitizedTtl, clampChunkTtl, e]
    split <;> split <;> split <;> split <;> omega
  obtain ⟨q, hq⟩ : ∃ q, wallNowNs = q * 1000000000 := ⟨wallNowNs / 1000000000, by omega⟩
  have hq0 : 0 ≤ q := by omega
  have he : (wire (manifestOf cfg wallNowNs id payload ttl nonce shares)).expiresNs
      = wallNowNs + sanitizedTtl cfg ttl * 1000000000 := by
    show Int.tdiv (wallNowNs + sanitizedTtl cfg ttl * 1000000000) 1000000000 * 1000000000 = _
    rw [hq, ← Int.add_mul, Int.mul_tdiv_cancel _ (by decide)]
  rw [he]
  have hd : Int.tdiv (wallNowNs + sanitizedTtl cfg ttl * 1000000000 - wallNowNs) 1000000000 = sanitizedTtl cfg ttl := by
    rw [show wallNowNs + sanitizedTtl cfg ttl * 1000000000 - wallNowNs = sanitizedTtl cfg ttl * 1000000000 by omega,
      Int.mul_tdiv_cancel _ (by decide)]
  simp only [manifestTtl, hd, enforceManifestTtl]
  rw [if_neg (by omega), if_neg (by omega), if_neg (by omega), if_neg (by omega), if_neg (by omega)]

/-! ## tampered replicas -/

/-- **C11, third sentence (receive_chunk).** Whatever manifest (decoded or not) and replica bytes arrive, in whatever
    state: either `receive_chunk` accepts — then the manifest decoded, had `0 < t ≤ #shards`, was admitted by the TTL
    window, its first `t` shares combined to some key, the returned bytes are the decryption of the replica under that
    key with the manifest's id and nonce, **their SHA-256 equals the manifest's content hash**, and the new state is
    the old one plus exactly the accept effects for that manifest — or it does not accept (`nullopt` or an exception
    out of `Shamir::combine`) and the node state is unchanged: nothing stored, announced, cached or returned. -/
theorem tamper (cfg : Config) (st : NodeState) (wallNowNs : Int) (decoded : Option Manifest) (ct rk : Bytes) :
    (∃ m ttl pt keyN, decoded = some m ∧ 0 < m.threshold ∧ m.threshold ≤ m.shards.length ∧
        manifestTtl m.expiresNs wallNowNs cfg.minTtl cfg.maxTtl = some ttl ∧
        Shamir.combine m.shards m.threshold = .ok keyN ∧
        ChaCha20.decrypt_with_key (ofNats keyN) m.chunkId ct m.nonce rk = some pt ∧
        Spec.sha256 pt = m.chunkHash ∧
        receiveChunk cfg st wallNowNs decoded ct rk = (acceptEffects st m ttl ct, .accepted pt)) ∨
    ((receiveChunk cfg st wallNowNs decoded ct rk).1 = st ∧
      (receiveChunk cfg st wallNowNs decoded ct rk).2.isAccepted = false) := by
  rcases receive_cases cfg st wallNowNs decoded ct rk with ⟨m, ttl, pt, hd, ⟨a1, a2, a3, keyN, a4, a5, a6⟩, hr⟩ | h
  · left
    exact ⟨m, ttl, pt, keyN, hd, a1, a2, a3, a4, a5, by rw [← C08.sha_digest]; exact a6, hr⟩
  · right; exact h

/-- … in the form the property states it: a replica whose decryption (under the key the manifest's shares
    reconstruct) does not hash to the manifest's content hash is not returned and leaves the node exactly as it was. -/
theorem tamper_rejected (cfg : Config) (st : NodeState) (wallNowNs : Int) (m : Manifest) (ct rk : Bytes)
    (hbad : ∀ keyN pt, Shamir.combine m.shards m.threshold = .ok keyN →
      ChaCha20.decrypt_with_key (ofNats keyN) m.chunkId ct m.nonce rk = some pt → Spec.sha256 pt ≠ m.chunkHash) :
    (receiveChunk cfg st wallNowNs (some m) ct rk).1 = st ∧
    (receiveChunk cfg st wallNowNs (some m) ct rk).2.isAccepted = false := by
  rcases tamper cfg st wallNowNs (some m) ct rk with ⟨m', ttl, pt, keyN, hd, _, _, _, a4, a5, a6, _⟩ | h
  · cases hd
    exact absurd a6 (hbad keyN pt a4 a5)
  · exact h

/-- … and with the cipher spelled out: when the shares reconstruct a non-zero 32-byte key `k` and the manifest carries
    a 12-byte nonce, the test is `SHA-256(ChaCha20_k,nonce,LE32(id)(replica)) = content hash`. -/
theorem tamper_rejected_spec (cfg : Config) (st : NodeState) (wallNowNs : Int) (m : Manifest) (ct rk : Bytes) (key : Bytes)
    (hkey : ChunkKey key) (hn : m.nonce.length = 12)
    (hcomb : Shamir.combine m.shards m.threshold = .ok (toNats key))
    (hbad : Spec.sha256 (Spec.chacha20 key m.nonce (counterOf m.chunkId) ct) ≠ m.chunkHash) :
    (receiveChunk cfg st wallNowNs (some m) ct rk).1 = st ∧
    (receiveChunk cfg st wallNowNs (some m) ct rk).2.isAccepted = false := by
  refine tamper_rejected cfg st wallNowNs m ct rk ?_
  intro keyN pt h1 h2
  rw [hcomb] at h1
  cases h1
  rw [ofNats_toNats, C09.manager_decrypt_spec key m.chunkId ct m.nonce rk hkey.notZero hkey.1 hn] at h2
  cases h2
  exact hbad

/-- frame corollary: the chunk store, the provider list, the shard table and the manifest cache of the node can differ
    after `receive_chunk` only if the replica was accepted (hence hashed correctly) -/
theorem stored_or_announced_only_if_verified (cfg : Config) (st : NodeState) (wallNowNs : Int) (decoded : Option Manifest)
    (ct rk : Bytes)
    (hchg : (receiveChunk cfg st wallNowNs decoded ct rk).1 ≠ st) :
    ∃ m pt, decoded = some m ∧ (receiveChunk cfg st wallNowNs decoded ct rk).2 = .accepted pt ∧ Spec.sha256 pt = m.chunkHash := by
  rcases tamper cfg st wallNowNs decoded ct rk with ⟨m, ttl, pt, keyN, hd, _, _, _, _, _, a6, hr⟩ | h
  · exact ⟨m, pt, hd, by rw [hr], a6⟩
  · exact absurd h.1 hchg

/-- **the CLI** returns bytes only if they hash to the manifest's content hash (it has no state to change) -/
theorem tamper_cli (m : Manifest) (data rk : Bytes) :
    (∃ pt keyN, 0 < m.threshold ∧ m.threshold ≤ m.shards.length ∧ Shamir.combine m.shards m.threshold = .ok keyN ∧
        ChaCha20.decrypt_with_key (ofNats keyN) m.chunkId data m.nonce rk = some pt ∧ Spec.sha256 pt = m.chunkHash ∧
        decryptChunkWithManifest m data rk = .accepted pt) ∨
    (decryptChunkWithManifest m data rk).isAccepted = false := by
  rcases cli_cases m data rk with ⟨pt, ⟨a1, a2, keyN, a4, a5, a6⟩, hr⟩ | h
  · left; exact ⟨pt, keyN, a1, a2, a4, a5, by rw [← C08.sha_digest]; exact a6, hr⟩
  · right; exact h

/-! ## manifests that arrive without the chunk cannot poison a held chunk

`Node::ingest_manifest` (control FETCH, `request_chunk`, the dispatch of a pending fetch) and the accepting branch of
`handle_announce` take a manifest with nothing to check it against.  On the tree before
fixes/C11-ingest-must-not-poison-held-chunk.patch they overwrote the key-share record and cached manifest of a chunk the
node itself holds, after which `fetch_chunk` decrypted the held bytes under another key and returned the result as a hit
(witness corpus/C11/observation-ingest-poisons-lookup.ops).  The repaired code (`Gen.C11.ingestGuard = announceGuard =
"held-key"`, pinned by `guard_ingest` / `guard_announce`) adopts such a manifest for a held chunk only if it stands for
the same content hash and the same key. -/

theorem gen_guards : C11.ingestGuard = "held-key" ∧ C11.announceGuard = "held-key" := by decide

/-- a manifest arriving without the chunk: through `ingest_manifest` (decoded or not), or in an ANNOUNCE that passed the
    admission chain — any manifest, at any time -/
inductive Forged where
  | ingest (wallNowNs : Int) (decoded : Option Manifest)
  | announce (wallNowNs : Int) (m : Manifest)

def applyForged (cfg : Config) (st : NodeState) : Forged → NodeState
  | .ingest now d => (ingestManifest cfg st now d).1
  | .announce now m => announceAdmitted cfg st now m

def runForged (cfg : Config) (st : NodeState) (ops : List Forged) : NodeState := ops.foldl (applyForged cfg) st

/-- **held-chunk-poisoned never happens.**  If a node holds an encrypted chunk and reads it with key `k`, then after any
    sequence of ingested / announced manifests (arbitrary content, arbitrary times) it still holds the same record, still
    reads it with `k`, and `fetch_chunk` returns exactly what it returned before. -/
theorem held_chunk_not_poisoned (cfg : Config) (st : NodeState) (id : Bytes) (record : Record) (k : List Nat)
    (h : KeyedBy st id record k) (ops : List Forged) :
    KeyedBy (runForged cfg st ops) id record k ∧ ∀ rk, fetchChunk (runForged cfg st ops) id rk = fetchChunk st id rk := by
  have hk : KeyedBy (runForged cfg st ops) id record k := by
    unfold runForged
    induction ops generalizing st with
    | nil => exact h
    | cons op rest ih =>
      rw [List.foldl_cons]
      apply ih
      cases op with
      | ingest now d => exact ingest_keeps_key cfg st now d id record k h
      | announce now m => exact announce_keeps_key cfg st now m id record k h
  exact ⟨hk, fun rk => by rw [fetchChunk_keyed hk rk, fetchChunk_keyed h rk]⟩

/-- the publisher: after `store_chunk`, whatever manifests are ingested or announced afterwards, the local lookup returns
    the payload -/
theorem store_then_forged (cfg : Config) (hcfg : ShardCfg cfg) (st : NodeState) (wallNowNs : Int) (id payload : Bytes) (ttl : Int)
    (key nonce rk : Bytes) (rd : Nat → Nat) (hkey : ChunkKey key) (ops : List Forged) :
    ∃ r, storeChunk cfg st wallNowNs id payload ttl key nonce rk rd = .value r ∧
      ∀ rk1, fetchChunk (runForged cfg r.node ops) id rk1 = .value (some payload) := by
  obtain ⟨h1, h2⟩ := hcfg.bits
  obtain ⟨shares, hs, _, _⟩ := split_facts cfg h1 h2 key rd
  refine ⟨_, storeChunk_eq cfg st wallNowNs id payload ttl key nonce rk rd shares hs, ?_⟩
  intro rk1
  have hk := keyed_after_store cfg h1 h2 st wallNowNs id payload ttl key nonce rk hkey.1 rd shares hs
  rw [(held_chunk_not_poisoned cfg _ id _ _ hk ops).2 rk1, fetchChunk_keyed hk rk1]
  exact congrArg _ (decrypt_sealed key id payload nonce rk rk1 hkey.notZero)

/-- the importer: after an accepted replica (returned bytes `pt`), whatever manifests are ingested or announced
    afterwards, its lookup returns `pt` for as long as the record is held (non-zero reconstructed key) -/
theorem replica_then_forged (cfg : Config) (st : NodeState) (wallNowNs : Int) (m : Manifest) (ct rk pt : Bytes) (ttl : Int)
    (hr : receiveChunk cfg st wallNowNs (some m) ct rk = (acceptEffects st m ttl ct, .accepted pt))
    (hstable : ∀ keyN rk', Shamir.combine m.shards m.threshold = .ok keyN →
      ChaCha20.decrypt_with_key (ofNats keyN) m.chunkId ct m.nonce rk' = ChaCha20.decrypt_with_key (ofNats keyN) m.chunkId ct m.nonce rk)
    (ops : List Forged) :
    ∀ rk1, fetchChunk (runForged cfg (receiveChunk cfg st wallNowNs (some m) ct rk).1 ops) m.chunkId rk1 = .value (some pt) := by
  intro rk1
  rcases tamper cfg st wallNowNs (some m) ct rk with ⟨m', ttl', pt', keyN, hd, a1, a2, _, a4, a5, _, hr'⟩ | ⟨_, hna⟩
  · cases hd
    rw [hr'] at hr
    have hpt : pt' = pt := by
      have := congrArg Prod.snd hr
      simpa using this
    rw [hr']
    have hk := keyed_after_accept st m ttl' ct keyN a1 a2 a4
    rw [(held_chunk_not_poisoned cfg _ m.chunkId _ _ hk ops).2 rk1, fetchChunk_keyed hk rk1]
    show Outcome.value (ChaCha20.decrypt_with_key (ofNats keyN) m.chunkId ct m.nonce rk1) = _
    rw [hstable keyN rk1 a4, a5, hpt]
  · rw [hr] at hna
    simp [Recv.isAccepted] at hna

/-! ## the excluded point: an all-zero chunk key

`CryptoManager::generate_key()` fills 32 bytes from `std::random_device`; the all-zero outcome has probability 2⁻²⁵⁶ and
is the only input on which `store_chunk` can fail to round-trip: `encrypt_with_key` / `decrypt_with_key` hand the key
to a temporary `CryptoManager`, whose constructor replaces an all-zero key by a freshly drawn one (C09
`manager_zero_key`).  The manifest's shares still reconstruct the all-zero key, so every later decryption draws yet
another key.  `tamper` needs no key hypothesis: whatever comes out is still compared with the content hash. -/

/-- with the all-zero key the held bytes are sealed under the hidden replacement key `rk`, and a local lookup decrypts
    them under whatever key `rk1` its own temporary manager draws -/
theorem zero_key (cfg : Config) (hcfg : ShardCfg cfg) (st : NodeState) (wallNowNs : Int) (id payload : Bytes) (ttl : Int)
    (nonce rk : Bytes) (rd : Nat → Nat) :
    ∃ r held, storeChunk cfg st wallNowNs id payload ttl (List.replicate 32 0) nonce rk rd = .value r ∧
      exportRecord r.node id = some held ∧
      held.data = (ChaCha20.encrypt rk id payload nonce).data ∧
      Shamir.combine r.manifest.shards r.manifest.threshold = .ok (List.replicate 32 0) ∧
      ∀ rk1, fetchChunk r.node id rk1 = .value (ChaCha20.decrypt rk1 id (ChaCha20.encrypt rk id payload nonce).data nonce) := by
  obtain ⟨h1, h2⟩ := hcfg.bits
  obtain ⟨shares, hs, hlen, _⟩ := split_facts cfg h1 h2 (List.replicate 32 0) rd
  obtain ⟨b1, b2, _⟩ := eff_bounds cfg h1 h2
  have hcomb := combine_stored cfg h1 h2 (List.replicate 32 0) (by simp) rd shares hs
  have hz : ChaCha20.allZero (List.replicate 32 0) = true := by decide
  have hdata : sealedData (List.replicate 32 0) id payload nonce rk = (ChaCha20.encrypt rk id payload nonce).data := by
    unfold sealedData
    rw [(C09.manager_zero_key (List.replicate 32 0) id payload [] nonce rk rk hz).1]
  refine ⟨_, recordOf cfg id payload ttl (List.replicate 32 0) nonce rk,
    storeChunk_eq cfg st wallNowNs id payload ttl _ nonce rk rd shares hs, find_upsert _ _ _, hdata, ?_, ?_⟩
  · have : toNats (List.replicate 32 (0 : UInt8)) = List.replicate 32 0 := by decide
    rw [← this]; exact hcomb
  · intro rk1
    rw [fetchChunk_of (nodeAfterStore cfg st wallNowNs id payload ttl (List.replicate 32 0) nonce rk shares) id rk1
      (recordOf cfg id payload ttl (List.replicate 32 0) nonce rk) _ (toNats (List.replicate 32 0)) (find_upsert _ _ _) rfl
      (find_upsert _ _ _) (by show 0 < effThreshold cfg; omega) (by show effThreshold cfg ≤ shares.length; omega) hcomb]
    rw [ofNats_toNats]
    show Outcome.value (ChaCha20.decrypt_with_key _ id (sealedData _ id payload nonce rk) nonce rk1) = _
    rw [hdata, (C09.manager_zero_key (List.replicate 32 0) id payload _ nonce rk rk1 hz).2]

/-- a concrete instance in which the local lookup does *not* return the payload: key 0, replacement keys 01…01
    (store) and 02…02 (fetch), payload `41` -/
theorem zero_key_counterexample :
    ∃ r, storeChunk ⟨1, 1, 30, 21600, 21600⟩ {} 0 (List.replicate 32 0) [0x41] 60 (List.replicate 32 0) (List.replicate 12 0)
          (List.replicate 32 1) (fun _ => 0) = .value r ∧
      fetchChunk r.node (List.replicate 32 0) (List.replicate 32 2) ≠ .value (some [0x41]) := by
  obtain ⟨r, held, hs, _, _, _, hf⟩ := zero_key ⟨1, 1, 30, 21600, 21600⟩ ⟨by decide, by decide⟩ {} 0 (List.replicate 32 0)
    [0x41] 60 (List.replicate 12 0) (List.replicate 32 1) (fun _ => 0)
  refine ⟨r, hs, ?_⟩
  rw [hf]
  intro h
  have hc := C09.manager_zero_key_counterexample.2
  rw [(C09.manager_zero_key (List.replicate 32 0) (List.replicate 32 0) [0x41] [] (List.replicate 12 0) (List.replicate 32 1)
        (List.replicate 32 2) (by decide)).1,
      (C09.manager_zero_key (List.replicate 32 0) (List.replicate 32 0) [] _ (List.replicate 12 0) (List.replicate 32 1)
        (List.replicate 32 2) (by decide)).2] at hc
  injection h with h
  exact hc h

/-! ## non-vacuity -/

/-- the hypotheses of `roundtrip` / `held_bytes` are satisfiable: RFC 8439's key and nonce, the default 3-of-5 -/
example : ChunkKey Spec.ChaCha.Vectors.key ∧ Spec.ChaCha.Vectors.nonce242.length = 12 ∧
    ShardCfg ⟨3, 5, 30, 21600, 21600⟩ ∧ ShardCfg ⟨255, 255, 1, 86400, 3600⟩ ∧ ShardCfg ⟨0, 0, 30, 21600, 21600⟩ := by
  refine ⟨⟨by decide, by decide⟩, by decide, ⟨by decide, by decide⟩, ⟨by decide, by decide⟩, ⟨by decide, by decide⟩⟩

/-- the TTL hypothesis of `roundtrip`: a one-hour store at wall time 1 700 001 000 s received at that instant is granted
    3600 s; the same with a requested TTL equal to the 30 s minimum at wall time …000.5 s is *refused* (the URI carries
    whole seconds, 29 s remain) -/
example :
    manifestTtl (wire (manifestOf ⟨3, 5, 30, 21600, 21600⟩ 1700001000000000000 [] [] 3600 [] [])).expiresNs
      1700001000000000000 30 21600 = some 3600 ∧
    manifestTtl (wire (manifestOf ⟨3, 5, 30, 21600, 21600⟩ 1700001000500000000 [] [] 30 [] [])).expiresNs
      1700001000500000000 30 21600 = none := by
  decide

/-- `tamper_rejected_spec` bites: for the RFC key and nonce, id 0 and payload `41`, flipping one bit of the one-byte
    replica changes the hash of its decryption (while the untouched replica decrypts to the payload's hash) -/
example :
    let key := Spec.ChaCha.Vectors.key
    let nonce := Spec.ChaCha.Vectors.nonce242
    let id : Bytes := List.replicate 32 0
    let held := Spec.chacha20 key nonce (counterOf id) [0x41]
    Spec.sha256 (Spec.chacha20 key nonce (counterOf id) held) = Spec.sha256 [0x41] ∧
    Spec.sha256 (Spec.chacha20 key nonce (counterOf id) (held.map (· ^^^ 1))) ≠ Spec.sha256 [0x41] := by
  decide +kernel

end EphVerif.C11
