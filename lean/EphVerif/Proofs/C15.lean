/-
C15 — protocol messages round-trip through the wire codec.

Statement (properties.jsonl): for every message of each type with a version from 1 to 4 and fields
within their wire ranges, decoding its encoding yields the same message, with the announce PoW
nonce carried from version 3 onward as the decoder requires; a version outside 1..4 is encoded as
the nearest supported version.

All theorems are about `Model/Message.lean` (the transcription of Message.cpp) instantiated with
the constants regenerated from the source (`Generated/C15.lean`); the specification they meet is
`Spec/Message.lean`.  No bound on field sizes.
-/
import EphVerif.Lemmas.C15Roundtrip

namespace EphVerif.C15
open EphVerif.Message EphVerif.MessageSpec EphVerif.Gen.C15

/-! ### generated-constant obligations: the code has the numbers the property names -/

theorem version_limits : kMinimumMessageVersion = 1 ∧ kCurrentMessageVersion = 4 := ⟨rfl, rfl⟩

/-- encoder and decoder both start carrying the announce nonce at version 3 -/
theorem nonce_from_version_3 : encPowMinVersion = 3 ∧ decPowMinVersion = 3 := ⟨rfl, rfl⟩

theorem type_tags : tagAnnounce = 1 ∧ tagRequest = 2 ∧ tagChunk = 3 ∧ tagAcknowledge = 4 ∧
    tagTransportHandshake = 5 ∧ tagHandshakeAck = 6 := ⟨rfl, rfl, rfl, rfl, rfl, rfl⟩

theorem id_sizes : kChunkIdSize = 32 ∧ kPeerIdSize = 32 := ⟨rfl, rfl⟩

/-- the translated body of `clamp_version` computes the nearest supported version -/
theorem clampVersion_eq (v : Nat) : Message.clampVersion v = max 1 (min 4 v) := by
  unfold Message.clampVersion EphVerif.Gen.C15.clampVersion
  split
  · omega
  · split <;> omega

/-! ### the property -/

/-- ∀ v (also beyond 255): the version byte written is `max 1 (min 4 v)`. -/
theorem clamp : VersionClamped encode := by
  intro m
  simp [encode, clampVersion_eq, nearestVersion]

/-- Round trip for every sendable message and *every* version (0..255 and beyond): what comes
    back is the message with the nearest supported version, the announce nonce surviving exactly
    when that version is ≥ 3. -/
theorem roundtrip_any_version : RoundTrip encode decode := by
  intro m ⟨htag, hr⟩
  have hcl := clampVersion_eq m.version
  have hv1 : 1 ≤ Message.clampVersion m.version := by omega
  have hv4 : Message.clampVersion m.version ≤ 4 := by omega
  generalize hvv : Message.clampVersion m.version = v at *
  have htlt : m.type < 256 := by rw [htag]; cases m.payload <;> simp [tagOf]
  obtain ⟨q1, q2⟩ := cons2_prefix (UInt8.ofNat v) (UInt8.ofNat m.type) (encodePayload v m.payload)
  have r1 : rdU8 (UInt8.ofNat v :: UInt8.ofNat m.type :: encodePayload v m.payload) 0 = some v :=
    rdU8_of_prefix0 q1 (by omega)
  have r2 : rdU8 (UInt8.ofNat v :: UInt8.ofNat m.type :: encodePayload v m.payload) 1 = some m.type :=
    rdU8_of_prefix (p := [UInt8.ofNat v]) q2 rfl htlt
  have hsup : isSupportedVersion v = true := by
    simp [isSupportedVersion, kMinimumMessageVersion, kCurrentMessageVersion]; omega
  have harr : nearestVersion m.version = v := by simp [nearestVersion]; omega
  unfold decode
  simp only [encode, hvv]
  rw [if_neg (by simp)]
  simp only [r1, r2, chk_some, hsup, Bool.not_true, Bool.false_eq_true, if_false, List.drop_succ_cons, List.drop_zero]
  cases hp : m.payload with
  | announce a =>
    rw [hp] at hr htag
    have ht : m.type = tagAnnounce := htag
    by_cases h3 : v ≥ decPowMinVersion
    · rw [if_pos ⟨h3, ht⟩]
      have := parseAnnounce_encode a true v hr (by simpa [nonce_from_version_3.1, nonce_from_version_3.2] using h3)
      have h3' : 3 ≤ v := h3
      simp only [this, if_true, Outcome.map, arrives, harr, hp, h3', if_true]
    · rw [if_neg (fun hc => h3 hc.1)]
      have h3' : ¬ 3 ≤ v := h3
      have := decodePayloadV1_encode (.announce a) v hr (by intro _ _; exact Nat.lt_of_not_le h3)
      have ht1 : m.type = 1 := htag
      simp only [tagOf] at this
      rw [ht1, this]
      simp [Outcome.map, v1View, arrives, harr, hp, h3', ht1]
  | request c r =>
    rw [hp] at hr htag
    have := decodePayloadV1_encode (.request c r) v hr (by intro _ h; cases h)
    rw [if_neg (by rw [htag]; simp [tagOf, tagAnnounce]), htag, this]
    simp [Outcome.map, v1View, arrives, harr, hp, htag]
  | chunk c d t =>
    rw [hp] at hr htag
    have := decodePayloadV1_encode (.chunk c d t) v hr (by intro _ h; cases h)
    rw [if_neg (by rw [htag]; simp [tagOf, tagAnnounce]), htag, this]
    simp [Outcome.map, v1View, arrives, harr, hp, htag]
  | ack c p acc =>
    rw [hp] at hr htag
    have := decodePayloadV1_encode (.ack c p acc) v hr (by intro _ h; cases h)
    rw [if_neg (by rw [htag]; simp [tagOf, tagAnnounce]), htag, this]
    simp [Outcome.map, v1View, arrives, harr, hp, htag]
  | handshake pub n rv =>
    rw [hp] at hr htag
    have := decodePayloadV1_encode (.handshake pub n rv) v hr (by intro _ h; cases h)
    rw [if_neg (by rw [htag]; simp [tagOf, tagAnnounce]), htag, this]
    simp [Outcome.map, v1View, arrives, harr, hp, htag]
  | handshakeAck acc nv pub =>
    rw [hp] at hr htag
    have := decodePayloadV1_encode (.handshakeAck acc nv pub) v hr (by intro _ h; cases h)
    rw [if_neg (by rw [htag]; simp [tagOf, tagAnnounce]), htag, this]
    simp [Outcome.map, v1View, arrives, harr, hp, htag]

/-- A message with a version in 1..4 arrives unchanged, except that an announce of version 1 or 2
    (no nonce field on the wire) reads back nonce 0. -/
theorem arrives_wellFormed {m : Msg} (h : WellFormed m)
    (hn : ∀ a, m.payload = .announce a → 3 ≤ m.version ∨ a.nonce = 0) : arrives m = m := by
  obtain ⟨h1, h4, _⟩ := h
  have hv : nearestVersion m.version = m.version := by simp [nearestVersion]; omega
  cases m with
  | mk version type payload =>
    cases payload with
    | announce a =>
      simp only [arrives, hv]
      by_cases h3 : 3 ≤ version
      · simp [h3]
      · have := (hn a rfl).resolve_left h3
        cases a; simp_all
    | _ => simp [arrives, hv]

/-- C15, first clause: ∀ well-formed `m` (version 1..4, tag = payload kind, fields within their wire
    ranges; any sizes): `decode (encode m) = ok m`, the announce nonce included from version 3. -/
theorem roundtrip (m : Msg) (h : WellFormed m)
    (hn : ∀ a, m.payload = .announce a → 3 ≤ m.version ∨ a.nonce = 0) : decode (encode m) = .ok m := by
  have := roundtrip_any_version m h.2.2
  rwa [arrives_wellFormed h hn] at this

/-- … and for version-1/2 announces everything but the (absent) nonce comes back. -/
theorem roundtrip_old_announce (version type : Nat) (a : Announce)
    (h : WellFormed ⟨version, type, .announce a⟩) (hv : version < 3) :
    decode (encode ⟨version, type, .announce a⟩) = .ok ⟨version, type, .announce { a with nonce := 0 }⟩ := by
  have := roundtrip_any_version _ h.2.2
  have h1 : 1 ≤ version := h.1
  have h4 : version ≤ 4 := h.2.1
  have hn : nearestVersion version = version := by simp [nearestVersion]; omega
  simpa [arrives, hn, Nat.not_le.mpr hv] using this

/-! ### non-vacuity -/

/-- a version-3 announce with a non-zero nonce is well-formed and survives (the case the unrepaired
    encoder lost), evaluated on the model itself -/
def sampleAnnounce : Msg :=
  ⟨3, 1, .announce { chunkId := List.replicate 32 7, peerId := List.replicate 32 9, endpoint := [1, 2, 3], ttl := 3600,
                      manifestUri := [], shards := [0, 5], nonce := 77 }⟩

example : WellFormed sampleAnnounce := by decide
example : decode (encode sampleAnnounce) = .ok sampleAnnounce := by decide
example : (encode ⟨200, 2, .request (List.replicate 32 0) (List.replicate 32 1)⟩).head? = some 4 := by decide
example : (encode ⟨0, 2, .request (List.replicate 32 0) (List.replicate 32 1)⟩).head? = some 1 := by decide
example : WellFormed ⟨4, 6, .handshakeAck true 4 4294967295⟩ := by decide

end EphVerif.C15
