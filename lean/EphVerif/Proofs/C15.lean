import EphVerif.Spec.Message
namespace EphVerif.C15
theorem placeholder : True := trivial
end EphVerif.C15
