/-
C25 — relay bridges deliver bytes only to the bridged partner.

All statements are about `run init evs` for an arbitrary list of events `evs` (any number of
clients, any interleaving of accepts, received chunks, EOFs, errors and partial writes), i.e. about
every reachable state of the relay model (EphVerif/Model/Relay.lean).  The predicates
`Symmetric`, `ClaimUnique`, `BridgePaired`, `Delivery`, `Isolation`, `Teardown` are the ones of
the specification (EphVerif/Spec/Relay.lean) that the monitor evaluates on the real server's lines.
-/
import EphVerif.Lemmas.C25Fifo

namespace EphVerif.C25
open EphVerif.Relay EphVerif.RelaySpec

/-- generated constant obligation: the identity a connector sends is a 32-byte peer id -/
theorem identity_is_32_bytes : EphVerif.Gen.C25.kPeerIdBytes = 32 := by decide

/-- `C25.inv`: in every reachable state the pairing table is symmetric (and pairs two different live
    clients), a peer is claimed by at most one connector, and a bridged session has a bridged partner. -/
theorem inv (evs : List Event) :
    Symmetric (viewOf (run init evs)) ∧ ClaimUnique (viewOf (run init evs)) ∧ BridgePaired (viewOf (run init evs)) := by
  obtain ⟨hI, hA⟩ := run_ok evs
  generalize run init evs = σ at hI hA
  refine ⟨?_, ?_, ?_⟩
  · intro a ha
    obtain ⟨c, s, _, hg, rfl⟩ := mem_viewOf.mp ha
    cases hp : s.partner with
    | none => simp [peerOf, hp, whenSome]
    | some b =>
      have h1 : σ.partnerOf c = some b := by simp [State.partnerOf, hg, hp]
      simp only [peerOf, hp, whenSome]
      exact ⟨fun e => hI.noself c (e ▸ h1), by rw [partnerOf_viewOf hA]; exact hI.sym c b h1⟩
  · intro a ha b hb hsome heq
    obtain ⟨c, s, _, hg, rfl⟩ := mem_viewOf.mp ha
    obtain ⟨d, s2, _, hg2, rfl⟩ := mem_viewOf.mp hb
    simp only [peerOf] at hsome heq ⊢
    cases hp : s.partner with
    | none => simp [hp] at hsome
    | some t =>
      have h1 : σ.partnerOf c = some t := by simp [State.partnerOf, hg, hp]
      have h2 : σ.partnerOf d = some t := by simp [State.partnerOf, hg2, ← heq, hp]
      have := (hI.sym c t h1).symm.trans (hI.sym d t h2)
      simpa using this
  · intro a ha hb
    obtain ⟨c, s, _, hg, rfl⟩ := mem_viewOf.mp ha
    simp only [peerOf, decide_eq_true_eq] at hb
    obtain ⟨p, ps, hp, _, hps, _, hpb⟩ := partner_of_bridged hI hg hb
    simp only [peerOf, hp, isSomeAnd]
    rw [isBridged_viewOf hA]
    simp [State.stateOf, hps, hpb]

/-- `C25.delivery` (model form): a chunk received from a bridged client is appended, whole, at the end of
    exactly its partner's write buffer; no other session, registration or descriptor changes. -/
theorem delivery (evs : List Event) (c : Client) (data : Bytes) (s : Session)
    (hc : (run init evs).get c = some s) (hb : s.state = .bridged) :
    ∃ p ps, s.partner = some p ∧ p ≠ c ∧ (run init evs).get p = some ps ∧ ps.state = .bridged ∧ ps.partner = some c ∧
      (step (run init evs) (.recv c data)).get p = some { ps with writeBuf := ps.writeBuf ++ data } ∧
      (∀ a, a ≠ p → (step (run init evs) (.recv c data)).get a = (run init evs).get a) ∧
      (step (run init evs) (.recv c data)).out = .queued p (.relay c data) :: (run init evs).out ∧
      (step (run init evs) (.recv c data)).registered = (run init evs).registered := by
  obtain ⟨hI, _⟩ := run_ok evs
  generalize run init evs = σ at hI hc
  obtain ⟨p, ps, hp, hne, hps, hpp, hpb, heq⟩ := step_recv_bridged hI hc hb data
  refine ⟨p, ps, hp, hne, hps, hpb, hpp, ?_, ?_, ?_, ?_⟩
  · rw [heq]; simp
  · intro a ha; rw [heq]; simp [ha]
  · rw [heq]; simp
  · rw [heq]; rfl

/-- write buffers are FIFO: a partial write puts the first `n` queued bytes on the wire and keeps the rest -/
theorem flush_fifo (σ : State) (c : Client) (n : Nat) (s : Session) (hc : σ.get c = some s) :
    (step σ (.flush c n)).out = .sent c (s.writeBuf.take n) :: σ.out ∧
    (step σ (.flush c n)).get c = some { s with writeBuf := s.writeBuf.drop n } ∧
    s.writeBuf.take n ++ s.writeBuf.drop n = s.writeBuf := by
  simp [step, hc]

/-- `C25.delivery`, "in order and without loss": in every reachable state and for every client, the bytes
    already put on the wire to it followed by the bytes waiting in its write buffer are exactly the bytes ever
    queued for it (`qbytes`: control replies and relayed chunks, in the order they were queued); once the client
    is closed, what was sent is a prefix of what was queued.  Together with `delivery` (each chunk of a bridged
    client is queued whole, once, for its partner only) this is in-order, loss-free delivery while both ends
    stay connected. -/
theorem fifo (evs : List Event) (d : Client) :
    (∀ s, (run init evs).get d = some s →
      sbytes (run init evs).out d ++ s.writeBuf = qbytes (run init evs).out d) ∧
    ((run init evs).get d = none → ∃ r, sbytes (run init evs).out d ++ r = qbytes (run init evs).out d) :=
  ⟨(fifo_run evs).alive d, (fifo_run evs).dead d⟩

/-- `C25.delivery`, at the moment the bridge comes into being: handle_identity_ready queues for the partner the
    BEGIN line followed by *everything* the connector had sent and the relay had not consumed (identity and any
    pipelined bytes, in order), and leaves the connector's read buffer empty: nothing sent with or after the
    identity is lost or reordered. -/
theorem bridge_handover (evs : List Event) (c : Client) (s : Session)
    (hc : (run init evs).get c = some s) (hst : s.state = .awaitingIdentity) :
    ∃ t, s.partner = some t ∧
      qbytes (newOuts (run init evs) (handleIdentityReady (run init evs) c)) t =
        EphVerif.Gen.C25.beginPrefix ++ s.connectSelf ++ [nl] ++ s.readBuf ∧
      ((handleIdentityReady (run init evs) c).get c).map (·.readBuf) = some [] := by
  obtain ⟨hI, _⟩ := run_ok evs
  generalize run init evs = σ at hI hc
  obtain ⟨t, ts, hp, hne, ht, htp, hts, heq⟩ := handleIdentityReady_eq hI hc hst
  have hcn : c ≠ t := fun e => hne e.symm
  refine ⟨t, hp, ?_, ?_⟩
  · rw [heq]
    simp only
    split
    next hrest =>
      have hr : s.readBuf.take EphVerif.Gen.C25.kPeerIdBytes = s.readBuf := by
        have : s.readBuf.drop EphVerif.Gen.C25.kPeerIdBytes = [] := by simpa using hrest
        have h2 := List.take_append_drop EphVerif.Gen.C25.kPeerIdBytes s.readBuf
        rw [this] at h2; simpa using h2
      have ho : (queue (((queue σ t (.ctrl (EphVerif.Gen.C25.beginPrefix ++ s.connectSelf ++ [nl]))).put c { s with readBuf := [], state := .bridged }).put t
          { ts with writeBuf := ts.writeBuf ++ (EphVerif.Gen.C25.beginPrefix ++ s.connectSelf ++ [nl]), state := .bridged }) t
            (.relay c (s.readBuf.take EphVerif.Gen.C25.kPeerIdBytes))).out =
          [.queued t (.relay c (s.readBuf.take EphVerif.Gen.C25.kPeerIdBytes)), .queued t (.ctrl (EphVerif.Gen.C25.beginPrefix ++ s.connectSelf ++ [nl]))] ++ σ.out := by
        simp [queue, ht, get_put]
      rw [newOuts_eq ho]
      simp [qbytes, Item.bytes, hr]
    next hrest =>
      have ho : (queue (queue (((queue σ t (.ctrl (EphVerif.Gen.C25.beginPrefix ++ s.connectSelf ++ [nl]))).put c { s with readBuf := [], state := .bridged }).put t
          { ts with writeBuf := ts.writeBuf ++ (EphVerif.Gen.C25.beginPrefix ++ s.connectSelf ++ [nl]), state := .bridged }) t
            (.relay c (s.readBuf.take EphVerif.Gen.C25.kPeerIdBytes))) t (.relay c (s.readBuf.drop EphVerif.Gen.C25.kPeerIdBytes))).out =
          [.queued t (.relay c (s.readBuf.drop EphVerif.Gen.C25.kPeerIdBytes)), .queued t (.relay c (s.readBuf.take EphVerif.Gen.C25.kPeerIdBytes)),
            .queued t (.ctrl (EphVerif.Gen.C25.beginPrefix ++ s.connectSelf ++ [nl]))] ++ σ.out := by
        simp [queue, ht, get_put]
      rw [newOuts_eq ho]
      simp [qbytes, Item.bytes]
  · obtain ⟨_, s', hs', _, hr'⟩ := calm_handleIdentityReady hI hc hst
    simp [hs', hr']

/-- `bridge_handover` in the words of the specification (`pending` = the connector's unconsumed bytes) -/
theorem bridge_handover_spec (evs : List Event) (c : Client) (s : Session)
    (hc : (run init evs).get c = some s) (hst : s.state = .awaitingIdentity)
    (hlen : EphVerif.Gen.C25.kPeerIdBytes ≤ s.readBuf.length) :
    ∃ t, s.partner = some t ∧
      BridgeHandover 32 s.readBuf
        ((qbytes (newOuts (run init evs) (handleIdentityReady (run init evs) c)) t).drop
          (EphVerif.Gen.C25.beginPrefix ++ s.connectSelf ++ [nl]).length) := by
  obtain ⟨t, hp, hq, _⟩ := bridge_handover evs c s hc hst
  refine ⟨t, hp, ?_⟩
  rw [hq]
  have h32 : EphVerif.Gen.C25.kPeerIdBytes = 32 := rfl
  have hd : ((EphVerif.Gen.C25.beginPrefix ++ s.connectSelf ++ [nl]) ++ s.readBuf).drop
      (EphVerif.Gen.C25.beginPrefix ++ s.connectSelf ++ [nl]).length = s.readBuf := List.drop_left
  rw [hd]
  exact ⟨by omega, by simp⟩

/-- a connector that is still completing its identity (fewer than 32 bytes so far, whatever they are — newlines and
    command look-alikes included): the chunk is appended to its read buffer, nothing is queued for anybody, nothing
    else changes (`IdentityHeld`) -/
theorem identity_held (evs : List Event) (c : Client) (s : Session) (data : Bytes)
    (hc : (run init evs).get c = some s) (hst : s.state = .awaitingIdentity)
    (hshort : s.readBuf.length + data.length < EphVerif.Gen.C25.kPeerIdBytes) :
    step (run init evs) (.recv c data) = (run init evs).put c { s with readBuf := s.readBuf ++ data } ∧
    IdentityHeld s.readBuf.length data.length (s.readBuf ++ data).length false := by
  refine ⟨?_, by simp [IdentityHeld]⟩
  have hnb : s.state ≠ .bridged := by rw [hst]; decide
  have hlen : (s.readBuf ++ data).length < EphVerif.Gen.C25.kPeerIdBytes := by simpa using hshort
  simp only [step, hc, hnb, if_false]
  unfold processProtocol
  simp [hst]
  intro h
  omega

/-- right after the step that establishes its bridge the connector has nothing left in the relay
    (`BridgeDrained`, the clause the monitor checks on the implementation's read-buffer size) -/
theorem bridge_drained (evs : List Event) (c : Client) (s : Session)
    (hc : (run init evs).get c = some s) (hst : s.state = .awaitingIdentity) :
    ∃ s', (handleIdentityReady (run init evs) c).get c = some s' ∧ BridgeDrained s'.readBuf.length := by
  obtain ⟨_, _, _, h⟩ := bridge_handover evs c s hc hst
  cases hg : (handleIdentityReady (run init evs) c).get c with
  | none => simp [hg] at h
  | some s' =>
    simp only [hg, Option.map_some, Option.some.injEq] at h
    exact ⟨s', rfl, by simp [BridgeDrained, h]⟩

/-- partial writes from any state: after the flushes `ns` (each `flush d n` = "send() accepted `n` bytes") the wire
    has gained exactly the first `Σ ns` bytes of the write buffer, the buffer keeps exactly the rest, nothing new
    is queued -/
theorem partial_flush_from (ns : List Nat) : ∀ (σ : State) (d : Client) (s : Session), σ.get d = some s →
    sbytes (run σ (ns.map (Event.flush d))).out d = sbytes σ.out d ++ s.writeBuf.take ns.sum ∧
    qbytes (run σ (ns.map (Event.flush d))).out d = qbytes σ.out d ∧
    ((run σ (ns.map (Event.flush d))).get d).map (·.writeBuf) = some (s.writeBuf.drop ns.sum) := by
  induction ns with
  | nil => intro σ d s h; simp [run, h]
  | cons n ns ih =>
    intro σ d s h
    have hstep : step σ (.flush d n) = (σ.put d { s with writeBuf := s.writeBuf.drop n }).emit (.sent d (s.writeBuf.take n)) := by
      simp [step, h]
    have hg : (step σ (.flush d n)).get d = some { s with writeBuf := s.writeBuf.drop n } := by rw [hstep]; simp
    obtain ⟨h1, h2, h3⟩ := ih (step σ (.flush d n)) d _ hg
    have hrun : run σ ((n :: ns).map (Event.flush d)) = run (step σ (.flush d n)) (ns.map (Event.flush d)) := by
      simp [run]
    rw [hrun, h1, h2, h3]
    refine ⟨?_, ?_, ?_⟩
    · rw [hstep]
      simp only [out_emit, out_put, sbytes, if_true, List.sum_cons, List.append_assoc]
      rw [List.take_add]
    · rw [hstep]; simp [qbytes]
    · simp [List.drop_drop, Nat.add_comm]

/-- `C25.partial_flush`: however the relay's writes towards client `d` are split — any list `ns` of byte counts
    that send() accepted, short writes included — what `d` has received is a prefix of what was queued for it, the
    missing part is exactly what is still in its write buffer (nothing dropped, nothing duplicated, order kept), and
    once the counts add up to the buffered length `d` has received everything that was ever queued for it. -/
theorem partial_flush (evs : List Event) (d : Client) (s : Session) (ns : List Nat)
    (hd : (run init evs).get d = some s) :
    sbytes (run (run init evs) (ns.map (Event.flush d))).out d ++ s.writeBuf.drop ns.sum =
      qbytes (run (run init evs) (ns.map (Event.flush d))).out d ∧
    ((run (run init evs) (ns.map (Event.flush d))).get d).map (·.writeBuf) = some (s.writeBuf.drop ns.sum) ∧
    (s.writeBuf.length ≤ ns.sum →
      sbytes (run (run init evs) (ns.map (Event.flush d))).out d = qbytes (run init evs).out d) := by
  obtain ⟨h1, h2, h3⟩ := partial_flush_from ns (run init evs) d s hd
  have hf := (fifo_run evs).alive d s hd
  refine ⟨?_, h3, ?_⟩
  · rw [h1, h2, ← hf, List.append_assoc, List.take_append_drop]
  · intro hlen
    rw [h1, ← hf, List.take_of_length_le hlen]

/-- `C25.delivery` (specification form) -/
theorem delivery_spec (evs : List Event) (c : Client) (data : Bytes) :
    Delivery (viewOf (run init evs)) c (some data)
      (obsOf (newOuts (run init evs) (step (run init evs) (.recv c data)))) := by
  obtain ⟨hI, hA⟩ := run_ok evs
  generalize run init evs = σ at hI hA
  intro hbr
  rw [isBridged_viewOf hA] at hbr
  simp only [State.stateOf] at hbr
  cases hc : σ.get c with
  | none => simp [hc] at hbr
  | some s =>
    have hb : s.state = .bridged := by simpa [hc] using hbr
    obtain ⟨p, ps, hp, hne, hps, hpp, hpb, heq⟩ := step_recv_bridged hI hc hb data
    have hout : (step σ (.recv c data)).out = [.queued p (.relay c data)] ++ σ.out := by rw [heq]; simp
    rw [newOuts_eq hout, partnerOf_viewOf hA]
    simp [State.partnerOf, hc, hp, whenSome, obsOf, Out.queuedOf, Out.closedOf, Item.bytes]

/-- Every item a step queues: control text for the client the event came from, or — only for the client
    whose bridge with that client is established after the step — the BEGIN line and that client's own
    relayed bytes.  In particular no relayed byte reaches a client before its own bridge exists, and relayed
    bytes reach only the sender's bridge partner. -/
theorem relay_only_to_bridged_partner (evs : List Event) (ev : Event) (d : Client) (it : Item)
    (h : Out.queued d it ∈ newOuts (run init evs) (step (run init evs) ev)) :
    (d = ev.client ∧ ∃ t, it = .ctrl t) ∨
    ((step (run init evs) ev).stateOf d = some .bridged ∧ (step (run init evs) ev).partnerOf d = some ev.client ∧
      (step (run init evs) ev).stateOf ev.client = some .bridged ∧ ∀ src data, it = .relay src data → src = ev.client) := by
  obtain ⟨hI, hA⟩ := run_ok evs
  obtain ⟨_, _, new, hout, hok⟩ := step_ok _ ev hI hA
  rw [newOuts_eq hout] at h
  exact hok _ h

/-- `C25.delivery`, "only its partner / not before its own bridge" (specification form) -/
theorem isolation_spec (evs : List Event) (ev : Event) :
    Isolation (viewOf (run init evs)) (viewOf (step (run init evs) ev)) ev.client
      (obsOf (newOuts (run init evs) (step (run init evs) ev))) := by
  obtain ⟨hI, hA⟩ := run_ok evs
  generalize run init evs = σ at hI hA
  obtain ⟨hI', hA', new, hout, hok⟩ := step_ok σ ev hI hA
  rw [newOuts_eq hout]
  intro e he
  simp only [obsOf, List.mem_filterMap, List.mem_reverse] at he
  obtain ⟨o, ho, hq⟩ := he
  cases o with
  | sent _ _ => simp [Out.queuedOf] at hq
  | closed _ => simp [Out.queuedOf] at hq
  | queued d it =>
    simp only [Out.queuedOf, Option.some.injEq] at hq
    subst hq
    simp only
    have hitem := hok _ ho
    by_cases hd : d = ev.client
    · simp only [hd, if_true]
      -- a bridged client's step queues exactly one item, for its partner
      cases hbr : (viewOf σ).isBridged ev.client with
      | false => rfl
      | true =>
        exfalso
        rw [isBridged_viewOf hA] at hbr
        rcases hitem with ⟨_, t, rfl⟩ | ⟨_, hp, _, _⟩
        · -- control text to a bridged sender: impossible, its step is a pure relay
          cases ev with
          | recv c data =>
            simp only [Event.client] at hbr hd ho
            simp only [State.stateOf] at hbr
            cases hc : σ.get c with
            | none => simp [hc] at hbr
            | some s =>
              have hb : s.state = .bridged := by simpa [hc] using hbr
              obtain ⟨p, ps, _, hne, hps, _, _, heq⟩ := step_recv_bridged hI hc hb data
              have hout' : (step σ (.recv c data)).out = [.queued p (.relay c data)] ++ σ.out := by rw [heq]; simp
              have := List.append_cancel_right (hout.symm.trans hout')
              subst this
              simp at ho
          | accept c =>
            have : (step σ (.accept c)).out = σ.out := by
              simp only [step]; split <;> rfl
            have : new = [] := by
              have h := hout.symm.trans this
              simpa using h
            subst this; simp at ho
          | eof c =>
            simp only [Event.client] at hbr
            simp only [State.stateOf] at hbr
            cases hc : σ.get c with
            | none => simp [hc] at hbr
            | some s =>
              obtain ⟨_, hcs⟩ := closeSession_out hI c s hc
              have hout2 : (step σ (.eof c)).out = (closeSession σ c).out := rfl
              rcases hcs with ⟨_, h⟩ | ⟨p, _, _, _, _, h⟩ | ⟨_, _, _, _, _, h⟩
              · have := List.append_cancel_right (hout.symm.trans (hout2.trans (by rw [h]; rfl : _ = [Out.closed c] ++ σ.out)))
                subst this; simp at ho
              · have := List.append_cancel_right (hout.symm.trans (hout2.trans (by rw [h]; rfl : _ = [Out.closed c, Out.closed p] ++ σ.out)))
                subst this; simp at ho
              · have := List.append_cancel_right (hout.symm.trans (hout2.trans (by rw [h]; rfl : _ = [Out.closed c] ++ σ.out)))
                subst this; simp at ho
          | err c =>
            simp only [Event.client] at hbr
            simp only [State.stateOf] at hbr
            cases hc : σ.get c with
            | none => simp [hc] at hbr
            | some s =>
              obtain ⟨_, hcs⟩ := closeSession_out hI c s hc
              have hout2 : (step σ (.err c)).out = (closeSession σ c).out := rfl
              rcases hcs with ⟨_, h⟩ | ⟨p, _, _, _, _, h⟩ | ⟨_, _, _, _, _, h⟩
              · have := List.append_cancel_right (hout.symm.trans (hout2.trans (by rw [h]; rfl : _ = [Out.closed c] ++ σ.out)))
                subst this; simp at ho
              · have := List.append_cancel_right (hout.symm.trans (hout2.trans (by rw [h]; rfl : _ = [Out.closed c, Out.closed p] ++ σ.out)))
                subst this; simp at ho
              · have := List.append_cancel_right (hout.symm.trans (hout2.trans (by rw [h]; rfl : _ = [Out.closed c] ++ σ.out)))
                subst this; simp at ho
          | flush c n =>
            simp only [Event.client] at hbr
            simp only [State.stateOf] at hbr
            cases hc : σ.get c with
            | none => simp [hc] at hbr
            | some s =>
              have hout' : (step σ (.flush c n)).out = [.sent c (s.writeBuf.take n)] ++ σ.out := by simp [step, hc]
              have := List.append_cancel_right (hout.symm.trans hout')
              subst this; simp at ho
        · -- "partner of d is the sender" with d the sender itself contradicts `noself`
          rw [hd] at hp
          exact hI'.noself _ hp
    · simp only [hd, if_false]
      rcases hitem with ⟨h, _⟩ | ⟨h1, h2, h3, _⟩
      · exact absurd h hd
      · refine ⟨(isBridged_viewOf hA' d).mpr h1, ?_, (isBridged_viewOf hA' _).mpr h3⟩
        rw [partnerOf_viewOf hA']; exact h2

/-- `C25.teardown`: when one side of an established bridge disconnects (EOF or error) the relay closes the
    other side in the same step. -/
theorem teardown (evs : List Event) (c : Client) :
    Teardown (viewOf (run init evs)) c (obsOf (newOuts (run init evs) (step (run init evs) (.eof c)))) ∧
    Teardown (viewOf (run init evs)) c (obsOf (newOuts (run init evs) (step (run init evs) (.err c)))) := by
  obtain ⟨hI, hA⟩ := run_ok evs
  generalize run init evs = σ at hI hA
  have key : ∀ ev, (step σ ev).out = (closeSession σ c).out →
      Teardown (viewOf σ) c (obsOf (newOuts σ (step σ ev))) := by
    intro ev hev hbr
    rw [isBridged_viewOf hA] at hbr
    simp only [State.stateOf] at hbr
    cases hc : σ.get c with
    | none => simp [hc] at hbr
    | some s =>
      have hb : s.state = .bridged := by simpa [hc] using hbr
      obtain ⟨p, ps, hp, _, hps, _, hpb⟩ := partner_of_bridged hI hc hb
      obtain ⟨_, hcs⟩ := closeSession_out hI c s hc
      rw [partnerOf_viewOf hA]
      simp only [State.partnerOf, hc, Option.bind_some, hp, whenSome]
      rcases hcs with ⟨h, _⟩ | ⟨p', ps', hp', hps', _, h⟩ | ⟨p', ps', hp', hps', hst', _⟩
      · simp [hp] at h
      · have e : p' = p := by simpa [hp] using hp'.symm
        subst e
        have hout : (step σ ev).out = [.closed c, .closed p'] ++ σ.out := by rw [hev, h]; rfl
        rw [newOuts_eq hout]
        simp [obsOf, Out.closedOf]
      · have e : p' = p := by simpa [hp] using hp'.symm
        subst e
        have : ps' = ps := by simpa [hps] using hps'.symm
        subst this
        simp [hpb] at hst'
  exact ⟨key _ rfl, key _ rfl⟩

/-! ### non-vacuity -/

section examples
open EphVerif.Gen.C25

def idA : Bytes := List.replicate 64 97   -- "aaaa…"
def idB : Bytes := List.replicate 64 98
def idC : Bytes := List.replicate 64 99
def registerLine (k : Bytes) : Bytes := cmdRegister ++ [32] ++ k ++ [10]
def connectLine (self target : Bytes) : Bytes := cmdConnect ++ [32] ++ self ++ [32] ++ target ++ [10]
def identity : Bytes := List.replicate 32 7

/-- a target (1) and a connector (2) bridged, data both ways -/
def bridgeHistory : List Event :=
  [.accept 1, .accept 2, .recv 1 (registerLine idA), .recv 2 (connectLine idB idA), .recv 2 identity,
   .recv 2 [1, 2, 3], .recv 1 [4, 5]]

set_option maxRecDepth 100000 in
/-- the hypothesis of `delivery` / `delivery_spec` / `teardown` is met: both ends are bridged, and each
    write buffer holds exactly the relay's replies followed by the partner's bytes in order -/
example :
    ((run init bridgeHistory).get 1).map (fun s => (s.state, s.partner, s.writeBuf)) =
      some (.bridged, some 2, okRegister ++ (beginPrefix ++ idB ++ [10]) ++ identity ++ [1, 2, 3]) ∧
    ((run init bridgeHistory).get 2).map (fun s => (s.state, s.partner, s.writeBuf)) =
      some (.bridged, some 1, okConnect ++ [4, 5]) ∧
    (viewOf (run init bridgeHistory)).isBridged 2 = true := by decide

set_option maxRecDepth 100000 in
/-- teardown is not vacuous: the connector leaves, the target's descriptor is closed in the same step -/
example : (obsOf (newOuts (run init bridgeHistory) (step (run init bridgeHistory) (.eof 2)))).closed = [1, 2] ∧
    (step (run init bridgeHistory) (.eof 2)).sessions = [] := by decide

/-- the history that broke the unrepaired server: the claimed target (1) sends REGISTER again, then a second
    connector (3) tries to claim it -/
def reRegisterHistory : List Event :=
  [.accept 1, .accept 2, .accept 3, .recv 1 (registerLine idA), .recv 2 (connectLine idB idA),
   .recv 1 (registerLine idA), .recv 3 (connectLine idC idA)]

set_option maxRecDepth 100000 in
/-- in the repaired relay the re-REGISTER is refused, the target stays claimed by the first connector only,
    and the second connector is turned away -/
example :
    ((run init reRegisterHistory).get 1).map (fun s => (s.state, s.partner, s.writeBuf)) =
      some (.registered, some 2, okRegister ++ errAlreadyClaimed) ∧
    ((run init reRegisterHistory).get 3).map (fun s => (s.state, s.partner, s.writeBuf)) =
      some (.awaitingCommand, none, errConTargetUnavailable) ∧
    (run init reRegisterHistory).registered = [] := by decide

/-- one peer id in two spellings: the target registers it in UPPER case (stored under the canonical lower-case
    key), connector 2 names the target in upper case, connector 3 in lower case -/
def idAUpper : Bytes := List.replicate 64 65   -- "AAAA…"
def spellingHistory : List Event :=
  [.accept 1, .accept 2, .accept 3, .recv 1 (registerLine idAUpper),
   .recv 2 (connectLine idB idAUpper), .recv 3 (connectLine idC idA)]

set_option maxRecDepth 100000 in
/-- CONNECT looks the target up (and erases it) under the spelling the connector wrote: the upper-case CONNECT
    finds nothing and claims nothing, the lower-case one claims the peer and removes its registration.  Whatever
    the spelling rules, `inv` says a *session* is never claimed twice; that a differently spelled id is "not found"
    is a matter of reachability, which the property does not state. -/
example :
    ((run init spellingHistory).get 1).map (fun s => (s.state, s.partner, s.peerHex)) = some (.registered, some 3, idA) ∧
    ((run init spellingHistory).get 2).map (fun s => (s.state, s.partner, s.writeBuf)) =
      some (.awaitingCommand, none, errConTargetUnavailable) ∧
    ((run init spellingHistory).get 3).map (fun s => (s.state, s.partner)) = some (.awaitingIdentity, some 1) ∧
    (run init spellingHistory).registered = [] := by decide

/-- the specification does reject the pairing table the unrepaired server reported for that history
    (`ss=1.R.3.0,2.I.1.0,3.I.1.0`): the predicates are not trivially true -/
example : ¬ ClaimUnique [⟨1, false, some 3⟩, ⟨2, false, some 1⟩, ⟨3, false, some 1⟩] ∧
    ¬ Symmetric [⟨1, false, some 3⟩, ⟨2, false, some 1⟩, ⟨3, false, some 1⟩] := by decide

end examples

end EphVerif.C25
