/-
C26 — the relay never crashes and releases everything once clients leave (partial).

Proved here, for every event sequence over any number of clients: the protocol handling never fails
to terminate (`total`), and once every accepted client has seen EOF or an error the relay holds no
session, no registration and no open client descriptor, each descriptor having been closed exactly
once (`release`).  NOT proved: memory safety of the compiled C++ (observed with ASan/UBSan in the
correspondence harness), and bounded buffering.
-/
import EphVerif.Lemmas.C26Release

namespace EphVerif.C26
open EphVerif.Relay EphVerif.RelaySpec

/-- `C26.total`: on arbitrary bytes in arbitrary chunks, process_protocol always returns: neither the
    branch in which the C++ would spin forever (handle_identity_ready closing the session inside the
    loop) nor fuel exhaustion of the model is reachable. -/
theorem total (evs : List Event) : (run init evs).hung = false :=
  (run_ok evs).1.notHung

/-- the byte-level parsers are total functions on arbitrary input (they are structurally recursive Lean
    definitions); what they return on a buffer is the unique split at the first newline -/
theorem splitLine_spec (b : Bytes) :
    (splitLine b = none ∧ nl ∉ b) ∨ (∃ l r, splitLine b = some (l, r) ∧ b = l ++ nl :: r ∧ nl ∉ l) := by
  induction b with
  | nil => left; simp [splitLine]
  | cons x xs ih =>
    unfold splitLine
    by_cases e : x == nl
    · right; refine ⟨[], xs, by simp [e], ?_, by simp⟩
      have : x = nl := by simpa using e
      simp [this]
    · have hne : x ≠ nl := by simpa using e
      rcases ih with ⟨h, hn⟩ | ⟨l, r, h, hb, hn⟩
      · left; simp [e, h]; exact ⟨fun h' => hne h'.symm, hn⟩
      · right; refine ⟨x :: l, r, by simp [e, h], by simp [hb], ?_⟩
        simp; exact ⟨fun h' => hne h'.symm, hn⟩

/-- a client has left: after the event that accepted it, the relay saw EOF or an error for it -/
def Left (evs : List Event) (c : Client) : Prop :=
  ∃ pre post, evs = pre ++ post ∧ Event.accept c ∈ pre ∧ (Event.eof c ∈ post ∨ Event.err c ∈ post)

/-- `C26.release`: after any event sequence in which every accepted client has left, the relay holds no
    session and no registration, and the descriptors closed so far (a duplicate-free list: none closed twice) are
    exactly those of the accepted clients: each one closed exactly once. -/
theorem release (evs : List Event) (h : ∀ c, Event.accept c ∈ evs → Left evs c) :
    (run init evs).sessions = [] ∧ (run init evs).registered = [] ∧
    (closedList (run init evs)).Nodup ∧
    (∀ c, Event.accept c ∈ evs ↔ c ∈ closedList (run init evs)) := by
  obtain ⟨hI, hA⟩ := run_ok evs
  have hgone : ∀ c, (run init evs).get c = none := by
    intro c
    by_cases hu : c ∈ (run init evs).used
    · have hacc : Event.accept c ∈ evs := by
        rcases accept_of_used evs init inv_init acc_init c hu with h0 | h0
        · simp [init] at h0
        · exact h0
      obtain ⟨pre, post, rfl, hpre, hpost⟩ := h c hacc
      rw [run_append]
      obtain ⟨hI1, hA1⟩ := run_ok pre
      exact left_gone post _ hI1 hA1 c (used_of_accept pre init inv_init acc_init c hpre) hpost
    · cases hg : (run init evs).get c with
      | none => rfl
      | some s => exact absurd (hA.live c (by simp [hg])) hu
  refine ⟨sessions_eq_nil _ hgone, registered_eq_nil _ ?_, hA.nodup, fun c => ⟨?_, ?_⟩⟩
  · intro k
    cases hr : (run init evs).reg k with
    | none => rfl
    | some d =>
      have := (hI.regOK k d hr).1
      simp [State.stateOf, hgone d] at this
  · intro hacc
    have hu := used_of_accept evs init inv_init acc_init c hacc
    rcases hA.cover c hu with h0 | h0
    · simp [hgone c] at h0
    · exact h0
  · intro hc
    have hu := (hA.gone c hc).2
    rcases accept_of_used evs init inv_init acc_init c hu with h0 | h0
    · simp [init] at h0
    · exact h0

/-- `C26.release` in the words of the specification -/
theorem release_spec (evs : List Event) (h : ∀ c, Event.accept c ∈ evs → Left evs c) :
    Released [] (resourcesOf (run init evs)) := by
  obtain ⟨hs, hr, _, _⟩ := release evs h
  simp [Released, resourcesOf, hs, hr]

/-- at every moment: a descriptor is closed at most once, only after it was accepted, and a closed client
    has no session; every session belongs to an accepted client; no registration outlives its session -/
theorem accounting (evs : List Event) :
    (closedList (run init evs)).Nodup ∧
    (∀ c ∈ closedList (run init evs), (run init evs).get c = none ∧ Event.accept c ∈ evs) ∧
    (∀ c, ((run init evs).get c).isSome → Event.accept c ∈ evs) ∧
    (∀ k d, (run init evs).reg k = some d → ((run init evs).get d).isSome) := by
  obtain ⟨hI, hA⟩ := run_ok evs
  have hacc : ∀ c, c ∈ (run init evs).used → Event.accept c ∈ evs := by
    intro c hu
    rcases accept_of_used evs init inv_init acc_init c hu with h0 | h0
    · simp [init] at h0
    · exact h0
  refine ⟨hA.nodup, fun c hc => ⟨(hA.gone c hc).1, hacc c (hA.gone c hc).2⟩, fun c hc => hacc c (hA.live c hc), ?_⟩
  intro k d hr
  have := (hI.regOK k d hr).1
  simp only [State.stateOf] at this
  cases hg : (run init evs).get d with
  | none => simp [hg] at this
  | some s => simp

/-- EOF or an error removes the client's session in the same step -/
theorem eof_removes (evs : List Event) (c : Client) :
    (step (run init evs) (.eof c)).get c = none ∧ (step (run init evs) (.err c)).get c = none :=
  ⟨get_closeSession_self (run_ok evs).1 c, get_closeSession_self (run_ok evs).1 c⟩

/-! ### non-vacuity -/

section examples
open EphVerif.Gen.C25

def idA : Bytes := List.replicate 64 97
def idB : Bytes := List.replicate 64 98

/-- four clients (a bridged pair, a registered peer, a client that sent garbage) leave in some order -/
def history : List Event :=
  [.accept 1, .accept 2, .accept 3, .accept 4,
   .recv 1 (cmdRegister ++ [32] ++ idA ++ [10]), .recv 3 (cmdRegister ++ [32] ++ idB ++ [13, 10]),
   .recv 2 (cmdConnect ++ [32] ++ idB ++ [32] ++ idA ++ [10] ++ List.replicate 32 9 ++ [1, 2]),
   .recv 4 [0, 255, 10, 82, 69], .flush 4 3,
   .err 4, .eof 2, .eof 3, .eof 1]

set_option maxRecDepth 100000 in
/-- the hypothesis of `release` is met by a history in which sessions, a registration and a bridge existed -/
example :
    ((run init (history.take 9)).sessions.length = 4 ∧ (run init (history.take 9)).registered.length = 1) ∧
    (run init history).sessions = [] ∧ (run init history).registered = [] ∧
    closedList (run init history) = [3, 2, 1, 4] := by decide

set_option maxRecDepth 100000 in
example : Left history 2 := ⟨history.take 4, history.drop 4, by decide, by decide, Or.inl (by decide)⟩

end examples

end EphVerif.C26
