import EphVerif.Model.Relay
import EphVerif.Spec.Relay

namespace EphVerif.C26
open EphVerif.Relay

theorem kPeerIdBytes_eq : EphVerif.Gen.C25.kPeerIdBytes = 32 := by decide

end EphVerif.C26
