/-
C35 — the leaf callees the call tree treats as primitives, tied to the codec / crypto properties that
are proved elsewhere (C16, C18, C10): used, not re-proved.  Kept apart from `Proofs/C35.lean` so that
the termination-flow theorem does not depend on the other properties' proof files.
-/
import EphVerif.Model.Escape
import EphVerif.Proofs.C16
import EphVerif.Proofs.C18
import EphVerif.Proofs.C10

namespace EphVerif.C35
open EphVerif.Escape EphVerif.Gen.C35

/-- **decoders are total** (C16, C18 — used, not re-proved): on every byte string the message
    decoders never read outside their input and the manifest decoder returns a manifest or throws
    `invalid_argument` — never out of bounds, never UB, never another exception.  Together with
    `leaf_classes` this justifies treating the decoders as primitives of those classes. -/
theorem decoders_total :
    (∀ uri : Manifest.Bytes, (Manifest.decodeManifest uri).Acceptable) ∧
    (∀ mac : Message.Bytes → Message.Bytes → Message.Bytes,
      MessageSpec.Total Message.decode (Message.decodeSigned mac)) :=
  ⟨C18.total, C16.total⟩

/-- the fact "`Shamir::combine` throws" as the driver computes it from the shard indices of a manifest
    (`Escape.combineThrows`) is exactly when the C10 model of `combine` answers `invalid_argument`
    (C10, used) -/
theorem combineThrows_sound (sel : List Shamir.Share) (t : Nat)
    (h : combineThrows (sel.map (·.index)) t = true) : Shamir.combine sel t = .invalidArgument := by
  simp only [combineThrows, Bool.or_eq_true, decide_eq_true_eq, Bool.not_eq_true', decide_eq_false_iff_not,
    List.length_map, List.contains_iff_mem] at h
  rcases h with (h | h) | h
  · exact C10.reject_too_few sel t h
  · exact C10.reject_bad_indices sel t (Or.inr (by rw [← List.map_take] at h; exact h))
  · exact C10.reject_bad_indices sel t (Or.inl (by rw [← List.map_take] at h; exact h))

theorem combineThrows_complete (sel : List Shamir.Share) (t : Nat)
    (hb : ∀ s ∈ sel, s.index < 256 ∧ ∀ v ∈ s.value, v < 256)
    (h : combineThrows (sel.map (·.index)) t = false) : ∃ v, Shamir.combine sel t = .ok v := by
  simp only [combineThrows, Bool.or_eq_false_iff, decide_eq_false_iff_not, Bool.not_eq_false',
    decide_eq_true_eq, List.length_map, Nat.not_lt] at h
  obtain ⟨⟨hlen, h0⟩, hnd⟩ := h
  rw [← List.map_take] at h0 hnd
  have h0' : 0 ∉ (sel.take t).map (·.index) := by
    intro hm
    have : ((sel.take t).map (·.index)).contains 0 = true := List.contains_iff_mem.2 hm
    rw [this] at h0; cases h0
  obtain ⟨v, hv, _⟩ := C10.combine_wellformed_ok sel t hlen hb hnd h0'
  exact ⟨v, hv⟩

end EphVerif.C35
