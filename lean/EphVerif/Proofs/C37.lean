/-
C37 — structured log records are single, faithful JSON lines.

Property theorems about the model `EphVerif.LogEscape` (src/daemon/StructuredLogger.cpp) against
the specification `EphVerif.JsonSpec` (RFC 8259 strings, RFC 3629 UTF-8, one-line JSON object of
strings).  Helper lemmas are in Lemmas/C37Escape.lean, Lemmas/C37Record.lean.
-/
import EphVerif.Model.LogEscape
import EphVerif.Spec.JsonString
import EphVerif.Generated.C37
import EphVerif.Lemmas.C37Record

namespace EphVerif.C37
open EphVerif.LogEscape EphVerif.JsonSpec EphVerif.C37L

/-! ### (T) the regenerated escape table is the one the model implements -/

/-- generated obligation: the `case` entries of `escape_control_characters` in the working tree -/
theorem escapeTable_eq : EphVerif.Gen.C37.escapeTable =
    [(0x22, [0x5C, 0x22]), (0x5C, [0x5C, 0x5C]), (0x08, [0x5C, 0x62]), (0x0C, [0x5C, 0x66]),
     (0x0A, [0x5C, 0x6E]), (0x0D, [0x5C, 0x72]), (0x09, [0x5C, 0x74])] := by decide

/-- generated obligation: bytes below 0x20 take the `\u00XX` form -/
theorem controlLimit_eq : EphVerif.Gen.C37.controlLimit = 0x20 := by decide

/-- the model's per-byte function is: look the byte up in the generated table, otherwise
    `\u00XX` below the generated limit, otherwise the byte itself -/
theorem escapeByte_follows_source (ch : Nat) :
    escapeByte ch =
      match EphVerif.Gen.C37.escapeTable.lookup ch with
      | some e => e
      | none =>
        if ch < EphVerif.Gen.C37.controlLimit then [0x5C, 0x75, 0x30, 0x30, hexUpper (ch / 16), hexUpper (ch % 16)]
        else [ch] := by
  by_cases h1 : ch = 0x22
  · subst h1; decide
  by_cases h2 : ch = 0x5C
  · subst h2; decide
  by_cases h3 : ch = 0x08
  · subst h3; decide
  by_cases h4 : ch = 0x0C
  · subst h4; decide
  by_cases h5 : ch = 0x0A
  · subst h5; decide
  by_cases h6 : ch = 0x0D
  · subst h6; decide
  by_cases h7 : ch = 0x09
  · subst h7; decide
  have hl : EphVerif.Gen.C37.escapeTable.lookup ch = none := by
    have b1 : (ch == 34) = false := by simpa using h1
    have b2 : (ch == 92) = false := by simpa using h2
    have b3 : (ch == 8) = false := by simpa using h3
    have b4 : (ch == 12) = false := by simpa using h4
    have b5 : (ch == 10) = false := by simpa using h5
    have b6 : (ch == 13) = false := by simpa using h6
    have b7 : (ch == 9) = false := by simpa using h7
    simp only [EphVerif.Gen.C37.escapeTable, List.lookup, b1, b2, b3, b4, b5, b6, b7]
  rw [hl]
  simp only [escapeByte, EphVerif.Gen.C37.controlLimit, h1, h2, h3, h4, h5, h6, h7, if_false]
  by_cases h : ch < 32 <;> simp [h]

/-! ### the escape function -/

/-- **C37.escape** — for every byte string `s`: the escaped text RFC 8259-decodes back to `s`
    (`unescape ∘ escape = id`), contains no byte below 0x20, and no quotation mark or reverse
    solidus other than as part of a two-character escape. -/
theorem C37_escape (s : List Nat) :
    unescape (escape s) = some s ∧ (∀ b ∈ escape s, 0x20 ≤ b) ∧ bareFree (escape s) = true := by
  refine ⟨?_, escape_noControl s, bareFree_escape_all s⟩
  unfold unescape
  rw [decodeStr_escape s []]

/-- streaming form: the escaped text followed by the closing quotation mark decodes to `s` and
    hands the rest of the line back untouched (so a value can never end its own string early
    or swallow what follows it). -/
theorem C37_escape_delimited (s rest : List Nat) :
    decodeStr true (escape s ++ 0x22 :: rest) = some (s, rest) :=
  decodeStr_escape s rest

/-! ### the record -/

/-- what a record must decode to: `ts`, `level`, `event`, and — only when there are fields —
    `fields` holding the key/value pairs in the order given -/
def expectedRecord (ts level event : List Nat) (fields : List (List Nat × List Nat)) : List (List Nat × Val) :=
  [(keyTs, Val.s ts), (keyLevel, Val.s level), (keyEvent, Val.s event)] ++
    (if fields.isEmpty then [] else [(keyFields, Val.o fields)])

/-- **C37.record** — for every timestamp, level, event name and field list made of valid UTF-8
    strings, the bytes written by `StructuredLogger::log` are exactly one line, are valid UTF-8,
    are accepted by the JSON object grammar, and decode to exactly the logged strings (names and
    values, in order). -/
theorem C37_record (ts level event : List Nat) (fields : List (List Nat × List Nat))
    (hts : validUtf8 ts = true) (hlv : validUtf8 level = true) (hev : validUtf8 event = true)
    (hfs : ∀ f ∈ fields, validUtf8 f.1 = true ∧ validUtf8 f.2 = true) :
    oneLine (logRecord ts level event fields) ∧
    validUtf8 (logRecord ts level event fields) = true ∧
    decodeLine (logRecord ts level event fields) = some (expectedRecord ts level event fields) :=
  ⟨oneLine_logRecord ts level event fields, validUtf8_logRecord ts level event fields hts hlv hev hfs,
    decodeLine_logRecord ts level event fields⟩

/-- the same for arbitrary byte strings (not necessarily UTF-8), minus UTF-8 validity of the
    output: still one line, still decodes to exactly what was logged -/
theorem C37_record_anybytes (ts level event : List Nat) (fields : List (List Nat × List Nat)) :
    oneLine (logRecord ts level event fields) ∧
    decodeLine (logRecord ts level event fields) = some (expectedRecord ts level event fields) :=
  ⟨oneLine_logRecord ts level event fields, decodeLine_logRecord ts level event fields⟩

/-- the three level names are valid UTF-8, so `C37_record` applies to every `Level` -/
theorem C37_levels (lv : Nat) : validUtf8 (levelToString lv) = true := by
  unfold levelToString
  split
  · decide
  · split <;> decide

/-! ### non-vacuity -/

/-- an escape-heavy value: `"`, `\`, LF, NUL, U+1F600 -/
example : escape [0x22, 0x5C, 0x0A, 0x00, 0xF0, 0x9F, 0x98, 0x80] =
    [0x5C, 0x22, 0x5C, 0x5C, 0x5C, 0x6E, 0x5C, 0x75, 0x30, 0x30, 0x30, 0x30, 0xF0, 0x9F, 0x98, 0x80] := by decide

/-- hypotheses of `C37_record` are satisfiable with multi-byte and control content -/
example : validUtf8 [0x22, 0x5C, 0x0A, 0x00, 0xF0, 0x9F, 0x98, 0x80, 0xC3, 0xA9, 0xE2, 0x82, 0xAC] = true := by decide

/-- CESU-8 / overlong / truncated sequences are *not* valid UTF-8 (the predicate is not trivially true) -/
example : validUtf8 [0xED, 0xA0, 0xBD] = false ∧ validUtf8 [0xC0, 0x80] = false ∧ validUtf8 [0xE2, 0x82] = false := by decide

/-- a record whose field value tries to close the string and forge a second record -/
example :
    decodeLine (logRecord [0x54] [0x69] [0x65, 0x0A] [([0x6B], [0x22, 0x7D, 0x0A, 0x7B])]) =
      some [(keyTs, Val.s [0x54]), (keyLevel, Val.s [0x69]), (keyEvent, Val.s [0x65, 0x0A]),
            (keyFields, Val.o [([0x6B], [0x22, 0x7D, 0x0A, 0x7B])])] := by decide

/-- the decoder rejects what an unescaped logger would have written (raw LF inside a string) -/
example : decodeLine ([0x7B, 0x22, 0x74, 0x73, 0x22, 0x3A, 0x22, 0x0A, 0x22, 0x7D, 0x0A]) = none := by decide

end EphVerif.C37
