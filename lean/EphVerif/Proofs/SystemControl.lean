/-
SystemControl — the control plane end to end: `eph store` → daemon → `eph list` / `eph fetch`.

A composition of proved properties; nothing of the components is re-proved.  Imported:
C27 (`gate`, `gate_connection`, `token_compare_exact`), C28 (`admit_*`, the handler model), C29
(`roundtrip`, `list`), C19 (`cli_daemon_hint_agree`, `wire_identity`, `solver_store`), C02
(`control`), C01 (`listing`), C11 (`roundtrip`, `held_bytes`), C30 (`only_matching`,
`honest_local`), C31 (`name_cli`, `child_cli`).  The bridging lemmas are in
`Lemmas/SystemControl*.lean`.

1. `cli_store_accepted`     the bytes `eph store` sends are admitted: OK_STORE, the chunk is stored
   `cli_store_response_intact`, `cli_store_ttl_window`
2. `store_then_list`        `eph list` then shows that chunk exactly while it is live
3. `store_then_fetch`       `eph fetch` of the manifest gets the stored payload from this daemon, writes only
                            matching bytes whatever any endpoint answers, as a direct child of the chosen directory
4. `unauthenticated_is_inert`  unauthenticated connections can be deleted from any history
-/
import EphVerif.Lemmas.SystemControlStore
import EphVerif.Lemmas.SystemControlFrame

namespace EphVerif.SystemControl
open EphVerif EphVerif.Control EphVerif.System.Control

/-! ## 1. the CLI's STORE is accepted -/

section
variable {ν : Type} (sha : Control.Bytes → Control.Bytes) (ops : NodeOps ν) (cfg : Config)

/-- **cli_store_accepted.**  For every file path (any bytes), non-empty payload within the cap, TTL choice inside the
    window, configured token (any bytes without CR/LF), every candidate stream from which the library solver returns a
    nonce, and a free rate slot: the bytes `ControlClient::send` writes for `eph store` are parsed (C28's parser), pass the
    token gate (C27), the TTL window (C02's generated test), the proof-of-work validator (C19: the daemon derives the very
    hint the CLI hashed and accepts the solver's nonce) and `store_chunk` runs with that payload, TTL and hint. -/
theorem cli_store_accepted {σ : Type} (now : Int) (addr : Control.Bytes) (st : ServerState ν) (c : CliStore)
    (init : Nat → σ) (next : σ → Nat × σ) (maxAttempts nonce : Nat)
    (htok : c.token = cfg.token) (hw : CliStoreWireOk c nonce)
    (hpay : c.payload ≠ []) (hcap : c.payload.length ≤ cfg.cap) (h64 : c.payload.length < 18446744073709551616)
    (httl : TtlOk cfg c.ttl) (hmax : cfg.maxTtl < 9223372036854775808)
    (hsolve : Pow.computeStorePow sha init next (cliWork sha c) (cliDifficulty cfg.powDifficulty) maxAttempts = some nonce)
    (hrate : (allowStore now (st.storeHist (rateIdentity cfg addr))).1 = true) :
    handleClient sha ops cfg now addr st
        (clientBytes (cliStoreHeaders c nonce ++ [(ascii "PAYLOAD-LENGTH", toDec c.payload.length)]) c.payload) =
      (afterStore ops cfg now addr st c.payload (ttlOf cfg c.ttl) (Pow.cliHint c.path),
       some { success := true, code := "OK_STORE", stored := some (c.payload, ttlOf cfg c.ttl, Pow.cliHint c.path) }) := by
  unfold handleClient
  rw [cli_store_bytes_parse cfg.cap c nonce hw hpay hcap h64]
  simp only [cli_store_admitted sha ops cfg now addr st c _ init next maxAttempts nonce (cliStoreRequest_spec c nonce)
    htok hcap httl hmax hsolve hw.nonce hrate]

/-- the same for every order in which the client's map emits its fields: any parsed request with the CLI's lookups -/
theorem cli_store_accepted_any_order {σ : Type} (now : Int) (addr : Control.Bytes) (st : ServerState ν) (c : CliStore) (req : Request)
    (init : Nat → σ) (next : σ → Nat × σ) (maxAttempts nonce : Nat)
    (hr : IsCliStore c nonce req) (htok : c.token = cfg.token) (hcap : c.payload.length ≤ cfg.cap)
    (httl : TtlOk cfg c.ttl) (hmax : cfg.maxTtl < 9223372036854775808)
    (hsolve : Pow.computeStorePow sha init next (cliWork sha c) (cliDifficulty cfg.powDifficulty) maxAttempts = some nonce)
    (hn64 : nonce < 18446744073709551616)
    (hrate : (allowStore now (st.storeHist (rateIdentity cfg addr))).1 = true) :
    (handleRequest sha ops cfg now addr st req).2.code = "OK_STORE" ∧
      Admitted sha cfg req (handleRequest sha ops cfg now addr st req).2 := by
  have h := cli_store_admitted sha ops cfg now addr st c req init next maxAttempts nonce hr htok hcap httl hmax hsolve hn64 hrate
  have hc : (handleRequest sha ops cfg now addr st req).2.code = "OK_STORE" := by rw [h]
  exact ⟨hc, C28.admit_request sha ops cfg now addr st req hc⟩

end

/-- **cli_store_response_intact.**  The OK_STORE response (CODE, MANIFEST, SIZE, TTL, SOURCE in any order) reaches the
    CLI as sent: the manifest URI it prints is the one the daemon issued (C29.roundtrip). -/
theorem cli_store_response_intact (limit : Nat) (manifestUri source : Control.Bytes) (size ttl : Nat) (emitted : Fields)
    (hlines : LinesOk clientMaxLine (ascii "MANIFEST") manifestUri ∧ LinesOk clientMaxLine (ascii "SOURCE") source)
    (hsize : size < 18446744073709551616) (httl : ttl < 18446744073709551616)
    (hperm : emitted.Perm (storeResponse manifestUri source size ttl).wireFields) :
    let r := parseResponse limit (serialise true emitted [])
    r.success = true ∧ getField r.fields (ascii "MANIFEST") = some manifestUri ∧
      getField r.fields (ascii "CODE") = some (ascii "OK_STORE") ∧ getField r.fields (ascii "SIZE") = some (toDec size) ∧
      r.hasPayload = false :=
  store_response_intact limit manifestUri source size ttl emitted hlines hsize httl hperm

/-- **cli_store_ttl_window.**  Conversely, over all 2^64 values a TTL header can carry: whenever the handler's TTL test
    lets a header through, the header lies inside the window as a number (C02.control, generated from the source;
    `cfg` being what `sanitize_config` leaves of some configuration). -/
theorem cli_store_ttl_window (cfg : Config) (c : Gen.C02.Cfg) (hc : agreesWith cfg c) (n : Nat) (h : n < 18446744073709551616)
    (hadm : ttlOutOfRange cfg (secondsOfU64 n) = false) : cfg.minTtl ≤ (n : Int) ∧ (n : Int) ≤ cfg.maxTtl :=
  admitted_header_in_window cfg c hc n h hadm

/-! ## 2. STORE then LIST -/

section
open EphVerif.ChunkStore (World NodeCfg FS nodeList runModel runSpec fresh freshSpec paramsOf SaneCfg storesId)

/-- **store_then_list.**  The daemon's chunk store as C01 models it, after any history `pre`, an admitted STORE of `payload`
    (C01's `nstore` with the TTL the control plane admitted), and any later history `post` that does not store the same id again
    (lookups, fetches, peer requests, listings, sweeps, ticks, clock advances, stores of other chunks): what `eph list`
    prints from the LIST response — for every emission order of its three fields — is the count line followed by exactly one line
    per row of the snapshot (C29.list), and the stored chunk's id is among the rows exactly while
    `now < (instant of the STORE) + effective TTL` (C01.listing). -/
theorem store_then_list (nc : NodeCfg) (hs : SaneCfg nc) (t0 : Int) (fs : FS) (pre post : List StoreSpec.Op)
    (idOf : Control.Bytes → String) (sealOf : Control.Bytes → StoreSpec.Bytes × StoreSpec.Bytes)
    (payload : Control.Bytes) (ttl : Int) (hint : Option Control.Bytes) (limit : Nat) (emitted : Fields)
    (hpost : ∀ o ∈ post, storesId (idOf payload) o = false) :
    let w := runModel nc ((chunkStoreOps nc idOf sealOf).store (runModel nc (fresh t0 fs) pre) payload ttl hint) post
    let tStore := (runSpec (paramsOf nc) (freshSpec t0) pre).now
    (∀ e ∈ listSnapshot w, EntryValid e) → (listSnapshot w).length < 18446744073709551616 →
    emitted.Perm (handleList (listSnapshot w)).wireFields →
      printList (parseResponse limit (serialise true emitted [])) =
        (ascii "Local chunks: " ++ toDec (listSnapshot w).length) :: (listSnapshot w).map cliLine ∧
      (idOf payload ∈ (nodeList w.sys.recs w.now).map (·.1) ↔
        w.now < tStore + StoreSpec.effNode (paramsOf nc) ttl * StoreSpec.nsPerSec) := by
  intro w tStore hvalid hcount hperm
  refine ⟨C29.list limit (listSnapshot w) emitted hvalid hcount hperm, ?_⟩
  -- the daemon's store is C01's model after `pre ++ [nstore …] ++ post`
  let op : StoreSpec.Op := .nstore (idOf payload) (payload.map UInt8.toNat) (sealOf payload).1 (sealOf payload).2 ttl
  have hw : w = runModel nc (fresh t0 fs) (pre ++ [op] ++ post) := by
    show runModel nc _ post = _
    rw [store_extends_history]
    simp [runModel, List.foldl_append, op]
  have hlist := C01.listing nc hs t0 fs (pre ++ [op] ++ post) (idOf payload)
  simp only at hlist
  rw [← hw] at hlist
  rw [hlist]
  have hrel := ChunkStore.rel_run hs (pre ++ [op] ++ post) (ChunkStore.rel_fresh t0 fs)
  rw [← hw] at hrel
  have hlast : StoreSpec.last (runSpec (paramsOf nc) (freshSpec t0) (pre ++ [op] ++ post)).s (idOf payload) =
      some ⟨idOf payload, payload.map UInt8.toNat, (sealOf payload).1,
        tStore + StoreSpec.effNode (paramsOf nc) ttl * StoreSpec.nsPerSec⟩ := by
    simp only [runSpec, List.foldl_append, List.foldl_cons, List.foldl_nil]
    have := ChunkStore.last_run_other (paramsOf nc)
      (StoreSpec.step (paramsOf nc) (runSpec (paramsOf nc) (freshSpec t0) pre) op) (idOf payload) post hpost
    simp only [runSpec] at this
    rw [this]
    simp [op, StoreSpec.step, StoreSpec.last, tStore, runSpec]
  simp only [StoreSpec.live, StoreSpec.read, hlast, ← hrel.now_eq]
  by_cases hlt : w.now < tStore + StoreSpec.effNode (paramsOf nc) ttl * StoreSpec.nsPerSec <;> simp [hlt]

end

/-! ## 3. STORE then FETCH -/

section
open EphVerif.StorePipeline (NodeState fetchChunk storeChunk)

/-- **store_then_fetch (daemon side).**  The daemon's node as C11 models it; after an admitted STORE of `payload` (any key
    and nonce draws with a non-zero 32-byte key), the CLI's `FETCH MANIFEST:<uri> STREAM:client` with the configured token is
    answered OK_FETCH with exactly the stored payload (C27: the gate lets it through; C11.roundtrip: the local lookup
    decrypts to the payload), provided the URI decodes to the chunk's id, its registration succeeds and leaves the lookup of
    that chunk as it was, a rate slot is free and the payload is within the cap. -/
theorem store_then_fetch_daemon (pcfg : StorePipeline.Config) (hcfg : C11.ShardCfg pcfg) (wall : Int) (draws : Control.Bytes → Draws)
    (rkFetch : Control.Bytes) (decode : Control.Bytes → Option Control.Bytes) (ingest : NodeState → Control.Bytes → Option NodeState)
    (cfg : Config) (now now' : Int) (addr : Control.Bytes) (st : ServerState NodeState)
    (payload : Control.Bytes) (ttl : Int) (hint : Option Control.Bytes) (uri : Control.Bytes) (req : Request) (node' : NodeState)
    (hkey : C11.ChunkKey (draws payload).key) :
    let ops := pipelineOps pcfg wall draws rkFetch decode ingest
    let st1 := afterStore ops cfg now addr st payload ttl hint
    IsCliFetch cfg.token uri req → decode uri = some (Spec.sha256 payload) →
    ingest st1.node uri = some node' →
    (∀ rk, fetchChunk node' (Spec.sha256 payload) rk = fetchChunk st1.node (Spec.sha256 payload) rk) →
    (allowFetch now' (st1.fetchHist (rateIdentity cfg addr))).1 = true → payload.length ≤ cfg.cap →
    (handleRequest Spec.sha256 ops cfg now' addr st1 req).2 = { success := true, code := "OK_FETCH", streamed := some payload } := by
  intro ops st1 hr hdec hing hframe hrate hcap
  obtain ⟨r, _, hstore, _, hlocal, _, _⟩ := C11.roundtrip pcfg hcfg st.node wall (Spec.sha256 payload) payload ttl
    (draws payload).key (draws payload).nonce (draws payload).rk (draws payload).rd hkey
  have hnode : st1.node = r.node := by
    show (pipelineOps pcfg wall draws rkFetch decode ingest).store st.node payload ttl hint = r.node
    simp only [pipelineOps, hstore]
  have hfetch : ops.fetch node' (Spec.sha256 payload) = some payload := by
    show (match fetchChunk node' (Spec.sha256 payload) rkFetch with | .value o => o | _ => none) = some payload
    rw [hframe rkFetch, hnode, hlocal rkFetch]
  rw [cli_fetch_streams Spec.sha256 ops cfg now' addr st1 req uri (Spec.sha256 payload) payload node' hr hdec hing hfetch hrate hcap]

/-- **store_then_fetch (CLI side).**  The manifest issued for the stored payload carries `h = SHA-256(payload)` (C11.held_bytes).
    Whatever order the daemon's response fields are emitted in, `eph fetch` receives the payload itself from the local
    daemon (C29.roundtrip).  For every discovery mode, every list of hint paths with arbitrary priorities and whatever any
    endpoint answers: a file is written only with bytes hashing to `h` (C30.only_matching); and when no direct path
    delivers and no direct-only mode was requested, the file written is exactly the stored payload and the command succeeds
    (C30.honest_local). -/
theorem store_then_fetch_cli (pcfg : StorePipeline.Config) (hcfg : C11.ShardCfg pcfg) (stA : NodeState) (wall : Int)
    (payload : Control.Bytes) (ttl : Int) (d : Draws) (hkey : C11.ChunkKey d.key) (hn : d.nonce.length = 12)
    (limit : Nat) (emitted : Fields) (hlim : payload.length ≤ limit) (h64 : payload.length < 18446744073709551616)
    (hperm : emitted.Perm (fetchResponse payload).wireFields) :
    ∃ r, storeChunk pcfg stA wall (Spec.sha256 payload) payload ttl d.key d.nonce d.rk d.rd = .value r ∧
      r.manifest.chunkHash = Spec.sha256 payload ∧
      respOf (parseResponse limit (serialise true emitted payload)) = .payload payload ∧
      (∀ (mode : CliFetch.Mode) (paths : List CliFetch.Path) (li : Nat) (loc : CliFetch.Resp) (b : Control.Bytes),
        (CliFetch.fetch Spec.sha256 mode r.manifest.chunkHash paths li loc).file = some b → Spec.sha256 b = Spec.sha256 payload) ∧
      (∀ (mode : CliFetch.Mode) (paths : List CliFetch.Path) (li : Nat),
        (CliFetch.run Spec.sha256 r.manifest.chunkHash (CliFetch.directOrder mode paths)).1 = .next → mode.directOnly = false →
        (CliFetch.fetch Spec.sha256 mode r.manifest.chunkHash paths li
            (respOf (parseResponse limit (serialise true emitted payload)))).file = some payload ∧
        (CliFetch.fetch Spec.sha256 mode r.manifest.chunkHash paths li
            (respOf (parseResponse limit (serialise true emitted payload)))).exit = 0) := by
  obtain ⟨r, _, hstore, _, _, _, _, _, _, hhash, _⟩ := C11.held_bytes pcfg hcfg stA wall (Spec.sha256 payload) payload ttl
    d.key d.nonce d.rk d.rd hkey hn
  have hresp := fetch_response_intact limit payload emitted hlim h64 hperm
  refine ⟨r, hstore, hhash, hresp, ?_, ?_⟩
  · intro mode paths li loc b hw
    rw [hhash] at hw
    exact C30.only_matching Spec.sha256 mode _ paths li loc b hw
  · intro mode paths li hdirect hmode
    rw [hresp, hhash] at *
    exact C30.honest_local Spec.sha256 mode _ paths li payload hdirect hmode rfl

/-- **store_then_fetch (where the file lands).**  Whatever file name the manifest suggests and whatever directory was chosen:
    the name `eph fetch` uses is empty (then the hex chunk id is used) or safe, and the file it creates is a direct child of
    the chosen directory carrying exactly that name (C31). -/
theorem store_then_fetch_name (dir candidate : Control.Bytes) :
    Spec.Filename.acceptable (Filename.cliSanitize candidate) = true ∧
    (Filename.cliSanitize candidate ≠ [] →
      Filename.parentPath (Filename.join dir (Filename.cliSanitize candidate)) = Filename.normDir dir ∧
      Filename.filename (Filename.join dir (Filename.cliSanitize candidate)) = Filename.cliSanitize candidate) :=
  ⟨C31.name_cli candidate, C31.child_cli dir candidate⟩

end

/-! ## 4. unauthenticated connections are inert -/

section
variable {ν : Type} (sha : Control.Bytes → Control.Bytes) (ops : NodeOps ν) (cfg : Config)

/-- **unauthenticated_is_inert.**  A daemon with a configured token `t`; any history of clock advances and connections
    (any addresses, any bytes).  Deleting every connection that does not present `TOKEN:t` — unauthenticated STORE, FETCH,
    STOP and anything else, malformed streams included — changes neither the final instant and state of the daemon
    (chunks, manifests, files, rate buckets, stop counter, transport flag: it keeps running exactly as it would) nor the
    reply to any authenticated connection.  So everything 1–3 say about what an authenticated client obtains from a state
    holds for the state reached through any such interleaving (C27.gate as a frame property). -/
theorem unauthenticated_is_inert (t : Control.Bytes) (ht : cfg.token = some t) (evs : List Event) (now : Int) (st : ServerState ν) :
    (runView sha ops cfg now st evs).2 = (runView sha ops cfg now st (evs.filter (authenticated t))).2 ∧
    (runView sha ops cfg now st evs).1.filter (fun p => authenticated t p.1) =
      (runView sha ops cfg now st (evs.filter (authenticated t))).1 :=
  runView_frame sha ops cfg t ht evs now st

/-- in particular a history made of unauthenticated connections only leaves the daemon as it was: nothing stored,
    registered or written, no rate slot used, not stopped -/
theorem only_unauthenticated_changes_nothing (t : Control.Bytes) (ht : cfg.token = some t) (conns : List (Control.Bytes × Control.Bytes))
    (hun : ∀ c ∈ conns, Spec.Control.presentsToken (splitBy 10 c.2 []) t = false) (now : Int) (st : ServerState ν) :
    (runView sha ops cfg now st (conns.map fun c => Event.connect c.1 c.2)).2 = (now, st) := by
  have h := (runView_frame sha ops cfg t ht (conns.map fun c => Event.connect c.1 c.2) now st).1
  have hf : (conns.map fun c => Event.connect c.1 c.2).filter (authenticated t) = [] := by
    rw [List.filter_eq_nil_iff]
    intro e he
    obtain ⟨c, hc, rfl⟩ := List.mem_map.mp he
    simp [authenticated, hun c hc]
  rw [h, hf]
  rfl

/-- the histories of C28.rate likewise -/
theorem unauthenticated_is_inert_events (t : Control.Bytes) (ht : cfg.token = some t) (evs : List Event) (now : Int) (st : ServerState ν) :
    (runEvents sha ops cfg now st [] evs).1 = (runEvents sha ops cfg now st [] (evs.filter (authenticated t))).1 ∧
    (runEvents sha ops cfg now st [] evs).2.1 = (runEvents sha ops cfg now st [] (evs.filter (authenticated t))).2.1 :=
  runEvents_frame sha ops cfg t ht evs now st [] []

end

/-! ## non-vacuity (kernel evaluation with the real SHA-256, ChaCha20 and Shamir models) -/

namespace Example

def cfgA : Config := { token := some (ascii "tk"), powDifficulty := 4, cap := 16, minTtl := 30, maxTtl := 100, defaultTtl := 60 }

/-- `eph store "/tmp/a\rb.txt" --ttl 45 --control-token tk` with a 2-byte file -/
def cA : CliStore := { path := ascii "/tmp/a\rb.txt", payload := ascii "hi", ttl := some 45, token := some (ascii "tk") }

def bytesA (n : Nat) : Control.Bytes :=
  clientBytes (cliStoreHeaders cA n ++ [(ascii "PAYLOAD-LENGTH", toDec cA.payload.length)]) cA.payload

/-- the hypotheses of `cli_store_accepted` are met: the solver (candidates 0, 1, 2, …) returns 14 at difficulty 4, … -/
example : Pow.computeStorePow Spec.sha256 (fun _ => (0 : Nat)) Pow.countingStream (cliWork Spec.sha256 cA)
    (cliDifficulty cfgA.powDifficulty) 0 = some 14 := by decide +kernel

/-- … the inputs fit the framing and the window, … -/
example : CliStoreWireOk cA 14 ∧ TtlOk cfgA cA.ttl ∧ cA.token = cfgA.token ∧ Pow.cliHint cA.path = some (ascii "ab.txt") :=
  ⟨⟨by intro t ht; cases ht; decide, by decide, by intro n hn; cases hn; decide, by decide⟩,
   (show cfgA.minTtl ≤ ((45 : Nat) : Int) ∧ ((45 : Nat) : Int) ≤ cfgA.maxTtl from ⟨by decide, by decide⟩), rfl, by decide⟩

/-- … and the conclusion is what the model computes on those bytes; the solver's nonce matters (13 is refused) -/
example :
    (handleClient Spec.sha256 C28.unitOps cfgA 0 (ascii "127.0.0.1") (ServerState.init ()) (bytesA 14)).2.map (·.code)
      = some "OK_STORE" ∧
    (handleClient Spec.sha256 C28.unitOps cfgA 0 (ascii "127.0.0.1") (ServerState.init ()) (bytesA 13)).2.map (·.code)
      = some "ERR_STORE_POW_INVALID" := by decide +kernel

/-- `store_then_list`: C01's example configuration, one admitted STORE, 5 s later: one valid row, listed while live -/
def wList : ChunkStore.World :=
  ChunkStore.runModel C01.exCfg
    ((chunkStoreOps C01.exCfg (fun _ => String.ofList (List.replicate 64 'a')) (fun p => (p.map UInt8.toNat, []))).store
      (ChunkStore.runModel C01.exCfg (ChunkStore.fresh 0 []) []) (ascii "hi") 45 none)
    [StoreSpec.Op.advance 5000000000]

example : (∀ e ∈ listSnapshot wList, EntryValid e) ∧ (listSnapshot wList).length = 1 ∧
    printList (parseResponse 4096 (serialise true (handleList (listSnapshot wList)).wireFields [])) =
      [ascii "Local chunks: 1",
       ascii "  ID=aaaaaaaaaaaaaaaaaaaaaaaaaaaaaaaaaaaaaaaaaaaaaaaaaaaaaaaaaaaaaaaa size=2 bytes, state=encrypted, ttl=40s"] := by
  refine ⟨?_, by decide +kernel, by decide +kernel⟩
  intro e he
  have : listSnapshot wList = [{ idHex := List.replicate 64 97, size := 2, encrypted := true, ttl := 40 }] := by decide +kernel
  rw [this] at he
  have : e = { idHex := List.replicate 64 97, size := 2, encrypted := true, ttl := 40 } := by simpa using he
  subst this
  exact ⟨by decide, by decide, by decide, by decide⟩

/-- `store_then_fetch`: C11's pipeline with a 1-of-1 sharing, a non-zero key; the daemon after the STORE streams the payload -/
def pcfg : StorePipeline.Config := { shardThreshold := 1, shardTotal := 1, minTtl := 30, maxTtl := 100, defaultTtl := 60 }
def draws : Draws := { key := List.replicate 32 7, nonce := List.replicate 12 1, rk := List.replicate 32 9, rd := fun _ => 5 }
def opsP : NodeOps StorePipeline.NodeState :=
  pipelineOps pcfg 0 (fun _ => draws) (List.replicate 32 9)
    (fun uri => if uri = ascii "eph://m" then some (Spec.sha256 (ascii "hi")) else none) (fun st _ => some st)
def fetchReq : Request :=
  { fields := [(ascii "COMMAND", ascii "FETCH"), (ascii "TOKEN", ascii "tk"), (ascii "MANIFEST", ascii "eph://m"),
               (ascii "STREAM", ascii "client")] }

example : C11.ShardCfg pcfg ∧ C11.ChunkKey draws.key ∧ draws.nonce.length = 12 ∧ IsCliFetch cfgA.token (ascii "eph://m") fetchReq :=
  ⟨⟨by decide, by decide⟩, ⟨by decide, by decide⟩, by decide, ⟨by decide, by decide, by decide, by decide⟩⟩

example : (handleRequest Spec.sha256 opsP cfgA 5 (ascii "127.0.0.1")
    (afterStore opsP cfgA 0 (ascii "127.0.0.1") (ServerState.init {}) (ascii "hi") 45 none) fetchReq).2.streamed
      = some (ascii "hi") := by decide +kernel

/-- `unauthenticated_is_inert`: a STOP without the token, a FETCH with OUT and a wrong token, then the authenticated STORE:
    the store is answered as if it had come alone, and the daemon has not been stopped -/
example :
    let evs := [Event.connect (ascii "10.0.0.9") (ascii "COMMAND:STOP\n\n"),
                Event.connect (ascii "10.0.0.9") (ascii "COMMAND:FETCH\nTOKEN:tK\nMANIFEST:eph://m\nOUT:/tmp/x\n\n"),
                Event.connect (ascii "127.0.0.1") (bytesA 14)]
    (evs.map (authenticated (ascii "tk"))) = [false, false, true] ∧
    ((runView Spec.sha256 C28.unitOps cfgA 0 (ServerState.init ()) evs).1.map fun p => p.2.map (·.code)) =
      [some "ERR_STOP_UNAUTHENTICATED", some "ERR_FETCH_UNAUTHENTICATED", some "OK_STORE"] ∧
    (runView Spec.sha256 C28.unitOps cfgA 0 (ServerState.init ()) evs).2.2.stopCalls = 0 ∧
    (runView Spec.sha256 C28.unitOps cfgA 0 (ServerState.init ()) evs).2.2.transportStopped = false := by decide +kernel

end Example

end EphVerif.SystemControl
