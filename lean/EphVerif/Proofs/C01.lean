/-
C01 — a stored chunk is retrievable exactly while it is live.

Model: `EphVerif.ChunkStore` (ChunkStore + the Node wrappers, after the repairs
C01-listing-expired and C04-lookup-expiry-skips-wipe).  Specification: `EphVerif.StoreSpec`
(the history of stores; `read id t = some b ↔ last store of id was (b, d) ∧ t < d`).
All theorems hold for every configuration `sanitize_config` can produce (`SaneCfg`), every start
time, every initial directory content and every history — no bound on length, ids, payloads,
TTLs or clock advances.
-/
import EphVerif.Lemmas.C01Run

namespace EphVerif.C01
open EphVerif.ChunkStore
open EphVerif.StoreSpec (Op Obs Params Entry W last readWire readRecord live judge)

/-- generated-constant obligations: the literal numbers and comparison operators the property
    speaks about are the ones in the source (1 s floor; `>=` in all three expiry tests) -/
theorem constants :
    EphVerif.Gen.C01.kMinimumTtlSec = 1 ∧ EphVerif.Gen.C01.kMinAllowedManifestTtlSec = 1 ∧
    EphVerif.Gen.C01.getRecordExpiredIsGe = true ∧ EphVerif.Gen.C01.sweepExpiredIsGe = true ∧
    EphVerif.Gen.C01.listingExpiredIsGe = true := by decide

/-- **C01.refines.**  For every history of store / overwrite / lookup / get_record / fetch /
    peer request / list / sweep / tick / advance δ ≥ 0 starting from a fresh store, every
    observation the model makes is the one the abstract store prescribes (`judge` accepts it):
    a read returns exactly the bytes of the latest store iff `now < deadline`, nothing otherwise;
    a peer request that is served carries exactly those bytes and is refused only when the chunk is
    dead or fewer than `min_manifest_ttl` whole seconds remain; a listing shows exactly the live
    ids with their deadlines. -/
theorem refines (nc : NodeCfg) (hs : SaneCfg nc) (t0 : Int) (fs : FS) (ops : List Op) :
    accepted nc (paramsOf nc) (fresh t0 fs) (freshSpec t0) ops = true :=
  accepted_of_rel hs ops (rel_fresh t0 fs)

/-- **C01.reads_exact** (the refinement in equational form).  After any history, for every id,
    `get`, `get_record` and `fetch_chunk` return exactly what the abstract store returns at the
    current instant. -/
theorem reads_exact (nc : NodeCfg) (hs : SaneCfg nc) (t0 : Int) (fs : FS) (ops : List Op) (id : String) :
    let w := runModel nc (fresh t0 fs) ops
    let a := runSpec (paramsOf nc) (freshSpec t0) ops
    w.now = a.now ∧
    get w.sys.recs w.now id = readWire a.s id a.now ∧
    (getRecord w.sys.recs w.now id).map (fun r => (r.data, r.expires)) = readRecord a.s id a.now ∧
    nodeFetch w.sys.recs w.now id = StoreSpec.read a.s id a.now := by
  have h := rel_run hs ops (rel_fresh t0 fs)
  exact ⟨h.now_eq, get_eq_readWire h id, record_eq_readRecord h id, fetch_eq_read h id⟩

/-- **C01.dead_unreachable.**  After any history, a chunk whose latest deadline has been reached
    (`deadline ≤ now`, including `now = deadline` exactly) is served by no lookup, fetch, peer
    request or listing — whether or not a sweep has run since. -/
theorem dead_unreachable (nc : NodeCfg) (hs : SaneCfg nc) (t0 : Int) (fs : FS) (ops : List Op)
    (id : String) (e : Entry)
    (hlast : last (runSpec (paramsOf nc) (freshSpec t0) ops).s id = some e)
    (hdead : e.deadline ≤ (runSpec (paramsOf nc) (freshSpec t0) ops).now) :
    let w := runModel nc (fresh t0 fs) ops
    get w.sys.recs w.now id = none ∧ getRecord w.sys.recs w.now id = none ∧
    nodeFetch w.sys.recs w.now id = none ∧ nodeRequest nc w.sys.recs w.now id = none ∧
    ∀ d, (id, d) ∉ (nodeList w.sys.recs w.now).map (fun x => (x.1, x.2.1)) := by
  have h := rel_run hs ops (rel_fresh t0 fs)
  have hg : getRecord (runModel nc (fresh t0 fs) ops).sys.recs (runModel nc (fresh t0 fs) ops).now id = none := by
    cases hq : getRecord (runModel nc (fresh t0 fs) ops).sys.recs (runModel nc (fresh t0 fs) ops).now id with
    | none => rfl
    | some r =>
      obtain ⟨e', he', hl, _⟩ := getRecord_some h hq
      rw [hlast] at he'; cases he'; omega
  refine ⟨by simp [ChunkStore.get, hg], hg, by simp [nodeFetch, hg], by simp [nodeRequest, hg], ?_⟩
  intro d hm
  obtain ⟨e', he', hl, _⟩ := list_sound h hm
  rw [hlast] at he'; cases he'; omega

/-- **C01.overwrite.**  A store of an id that is already present replaces both its bytes and its
    deadline: after `pre`, then `store id data ttl`, then any `post` that does not store `id`
    again, a lookup of `id` returns `data` exactly while `now < (time of that store) + effective
    TTL`, whatever `pre` had stored under `id` and whatever deadline it had. -/
theorem overwrite (nc : NodeCfg) (hs : SaneCfg nc) (t0 : Int) (fs : FS) (pre post : List Op)
    (id : String) (data : Bytes) (ttl : Int) (nonce : Bytes) (enc : Bool)
    (hpost : ∀ o ∈ post, storesId id o = false) :
    let tStore := (runSpec (paramsOf nc) (freshSpec t0) pre).now
    let w := runModel nc (fresh t0 fs) (pre ++ [Op.store id data ttl nonce enc] ++ post)
    get w.sys.recs w.now id =
      if w.now < tStore + StoreSpec.effStore (paramsOf nc) ttl * StoreSpec.nsPerSec then some data else none := by
  intro tStore w
  have h := rel_run hs (pre ++ [Op.store id data ttl nonce enc] ++ post) (rel_fresh t0 fs)
  have hl : last (runSpec (paramsOf nc) (freshSpec t0) (pre ++ [Op.store id data ttl nonce enc] ++ post)).s id
      = some ⟨id, data, data, tStore + StoreSpec.effStore (paramsOf nc) ttl * StoreSpec.nsPerSec⟩ := by
    simp only [runSpec, List.foldl_append, List.foldl_cons, List.foldl_nil]
    have := last_run_other (paramsOf nc)
      (StoreSpec.step (paramsOf nc) (runSpec (paramsOf nc) (freshSpec t0) pre) (Op.store id data ttl nonce enc)) id post hpost
    simp only [runSpec] at this
    rw [this]
    simp [StoreSpec.step, last, tStore, runSpec]
  have := get_eq_readWire h id
  rw [this, readWire, hl, ← h.now_eq]

/-- **C01.listing.**  Every id a listing shows is live at that instant, and every live id is shown. -/
theorem listing (nc : NodeCfg) (hs : SaneCfg nc) (t0 : Int) (fs : FS) (ops : List Op) (id : String) :
    let w := runModel nc (fresh t0 fs) ops
    let a := runSpec (paramsOf nc) (freshSpec t0) ops
    id ∈ ((nodeList w.sys.recs w.now).map (fun x => x.1)) ↔ live a.s id a.now = true := by
  intro w a
  have h := rel_run hs ops (rel_fresh t0 fs)
  constructor
  · intro hm
    obtain ⟨x, hx, rfl⟩ := List.mem_map.mp hm
    have : (x.1, x.2.1) ∈ (nodeList w.sys.recs w.now).map (fun x => (x.1, x.2.1)) := List.mem_map.mpr ⟨x, hx, rfl⟩
    obtain ⟨e, he, hl, _⟩ := list_sound h this
    simp [live, StoreSpec.read, a, he, hl]
  · intro hl
    simp only [live, StoreSpec.read] at hl
    cases he : last a.s id with
    | none => simp [he] at hl
    | some e =>
      simp only [he] at hl
      by_cases hlt : a.now < e.deadline
      · have := list_complete h he hlt
        simpa [List.map_map] using this
      · simp [hlt] at hl

/-- **C01.sweeps_invisible.**  What any read returns after a history does not depend on the
    lookups, fetches, peer requests, listings, sweeps and ticks interleaved in it: deleting all of
    them from the history leaves every later read unchanged. -/
theorem sweeps_invisible (nc : NodeCfg) (hs : SaneCfg nc) (t0 : Int) (fs : FS) (ops : List Op) (id : String) :
    let w := runModel nc (fresh t0 fs) ops
    let w' := runModel nc (fresh t0 fs) (ops.filter (fun o => !invisible o))
    w.now = w'.now ∧ get w.sys.recs w.now id = get w'.sys.recs w'.now id ∧
    nodeFetch w.sys.recs w.now id = nodeFetch w'.sys.recs w'.now id := by
  intro w w'
  have h := rel_run hs ops (rel_fresh t0 fs)
  have h' := rel_run hs (ops.filter (fun o => !invisible o)) (rel_fresh t0 fs)
  rw [runSpec_filter] at h'
  exact ⟨by rw [h.now_eq, h'.now_eq], by rw [get_eq_readWire h, get_eq_readWire h'],
    by rw [fetch_eq_read h, fetch_eq_read h']⟩

/-! ### non-vacuity -/

def exCfg : NodeCfg := { store := { defaultTtl := 30, persistent := false, wipeOnExpiry := true, passes := 1 },
                         minTtl := 2, maxTtl := 3600, cleanupInterval := 5 }

example : SaneCfg exCfg := ⟨by decide, by decide⟩

/-- a history that hits before the deadline, misses exactly at it, and overwrites -/
example :
    let ops := [Op.store "c1" [1, 2, 3] 2 [] false, Op.advance 1999999999, Op.lookup "c1",
                Op.advance 1, Op.lookup "c1", Op.store "c1" [9] 0 [] false, Op.lookup "c1"]
    (ops.foldl (fun (acc : World × List Obs) o => ((step exCfg acc.1 o).1, acc.2 ++ [(step exCfg acc.1 o).2]))
      (fresh 0 [], [])).2
    = [.unit, .unit, .bytes (some [1, 2, 3]), .unit, .bytes none, .unit, .bytes (some [9])] := by decide

/-- the hypotheses of `dead_unreachable` are satisfiable: a chunk at exactly its deadline, unswept -/
example : ∃ e, last (runSpec (paramsOf exCfg) (freshSpec 0) [Op.store "c1" [7] 1 [] false, Op.advance 1000000000]).s "c1" = some e
    ∧ e.deadline ≤ (runSpec (paramsOf exCfg) (freshSpec 0) [Op.store "c1" [7] 1 [] false, Op.advance 1000000000]).now :=
  ⟨⟨"c1", [7], [7], 1000000000⟩, by decide, by decide⟩

/-- and the record is indeed still in the table at that point (the listing filter matters) -/
example : (runModel exCfg (fresh 0 []) [Op.store "c1" [7] 1 [] false, Op.advance 1000000000]).sys.recs.length = 1 := by decide

end EphVerif.C01
