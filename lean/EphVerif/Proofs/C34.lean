import EphVerif.Lemmas.C34Class
import EphVerif.Lemmas.C34Num

/-!
# C34 — auto-advertise never publishes non-routable addresses unless allowed
-/
namespace EphVerif.C34
open EphVerif EphVerif.Adv EphVerif.Gen.C34 EphVerif.C34L EphVerif.AdvSpec

/-! ## classification -/

/-- the translated range test covers every IPv4 block of the specification -/
theorem v4_ranges (a b c d : Nat) (ha : a < 256) (hb : b < 256) (hc : c < 256) (hd : d < 256)
    (h : nonRoutable4 (ip4 a b c d)) : isPrivateOrReservedIpv4 a b c d = true :=
  C34L.v4_ranges a b c d ha hb hc hd h

/-- **C34.classify (IPv4)**: for every numeric IPv4 address in one of the non-routable blocks, the canonical text
(`inet_ntop`) is classified private/reserved. -/
theorem classify4 (a b c d : Nat) (ha : a < 256) (hb : b < 256) (hc : c < 256) (hd : d < 256)
    (h : nonRoutable4 (ip4 a b c d)) : isPrivHost (fmt4 a b c d) = true := by
  unfold isPrivHost
  have hne : (fmt4 a b c d).isEmpty = false := by
    have := fmt4_ne_nil a b c d
    cases hh : fmt4 a b c d <;> simp_all
  simp only [hne, Bool.false_eq_true, if_false, parseIpv4_fmt4 a b c d ha hb hc hd, v4OfList]
  exact v4_ranges a b c d ha hb hc hd h

/-- **C34.classify (IPv6)**: for every numeric IPv6 address that is unspecified, loopback, unique-local, link-local,
multicast, documentation, or the IPv4-mapped form of a non-routable IPv4 address, the canonical text (`inet_ntop`,
RFC 5952) is classified private/reserved. -/
theorem classify6 (g0 g1 g2 g3 g4 g5 g6 g7 : Nat)
    (h0 : g0 < 65536) (h1 : g1 < 65536) (h2 : g2 < 65536) (h3 : g3 < 65536)
    (h4 : g4 < 65536) (h5 : g5 < 65536) (h6 : g6 < 65536) (h7 : g7 < 65536)
    (h : nonRoutable6 (ip6 g0 g1 g2 g3 g4 g5 g6 g7)) :
    isPrivHost (fmt6 [g0, g1, g2, g3, g4, g5, g6, g7]) = true := by
  have hcolon := fmt6_colon g0 g1 g2 g3 g4 g5 g6 g7
  rcases v6_blocks g0 g1 g2 g3 g4 g5 g6 g7 h0 h1 h2 h3 h4 h5 h6 h7 h with
    ⟨rfl, rfl, rfl, rfl, rfl, rfl, rfl, rfl⟩ | ⟨rfl, rfl, rfl, rfl, rfl, rfl, rfl, rfl⟩ | ⟨hl, hu⟩ | ⟨hl, hu⟩ | hl |
    ⟨rfl, rfl⟩ | ⟨rfl, rfl, rfl, rfl, rfl, rfl, hv4⟩
  · rw [fmt6_zero]; decide
  · rw [fmt6_one]; decide
  · -- fc00::/7: the text starts with "fc" or "fd"
    obtain ⟨t, ht⟩ := fmt6_head g0 g1 g2 g3 g4 g5 g6 g7 (by omega)
    rw [ht] at hcolon ⊢
    rw [hex16_hi g0 (by omega)] at hcolon ⊢
    have e1 : g0 / 4096 % 16 = 15 := by omega
    have e2 : g0 / 256 % 16 = 12 ∨ g0 / 256 % 16 = 13 := by omega
    rcases e2 with e2 | e2
    · rw [e1, e2, hexChar_vals.1, hexChar_vals.2.2.2.1] at hcolon ⊢
      exact isPrivHost_of_prefix "fc" (by decide) _ (by simp) (by simp) (by decide) (parseIpv4_nondigit 'f' _ (by decide)) hcolon
    · rw [e1, e2, hexChar_vals.1, hexChar_vals.2.2.1] at hcolon ⊢
      exact isPrivHost_of_prefix "fd" (by decide) _ (by simp) (by simp) (by decide) (parseIpv4_nondigit 'f' _ (by decide)) hcolon
  · -- fe80::/10: "fe8", "fe9", "fea", "feb"
    obtain ⟨t, ht⟩ := fmt6_head g0 g1 g2 g3 g4 g5 g6 g7 (by omega)
    rw [ht] at hcolon ⊢
    rw [hex16_hi g0 (by omega)] at hcolon ⊢
    have e1 : g0 / 4096 % 16 = 15 := by omega
    have e2 : g0 / 256 % 16 = 14 := by omega
    have e3 : g0 / 16 % 16 = 8 ∨ g0 / 16 % 16 = 9 ∨ g0 / 16 % 16 = 10 ∨ g0 / 16 % 16 = 11 := by omega
    rcases e3 with e3 | e3 | e3 | e3
    · rw [e1, e2, e3, hexChar_vals.1, hexChar_vals.2.1, hexChar_vals.2.2.2.2.2.2.2] at hcolon ⊢
      exact isPrivHost_of_prefix "fe8" (by decide) _ (by simp) (by simp) (by decide) (parseIpv4_nondigit 'f' _ (by decide)) hcolon
    · rw [e1, e2, e3, hexChar_vals.1, hexChar_vals.2.1, hexChar_vals.2.2.2.2.2.2.1] at hcolon ⊢
      exact isPrivHost_of_prefix "fe9" (by decide) _ (by simp) (by simp) (by decide) (parseIpv4_nondigit 'f' _ (by decide)) hcolon
    · rw [e1, e2, e3, hexChar_vals.1, hexChar_vals.2.1, hexChar_vals.2.2.2.2.2.1] at hcolon ⊢
      exact isPrivHost_of_prefix "fea" (by decide) _ (by simp) (by simp) (by decide) (parseIpv4_nondigit 'f' _ (by decide)) hcolon
    · rw [e1, e2, e3, hexChar_vals.1, hexChar_vals.2.1, hexChar_vals.2.2.2.2.1] at hcolon ⊢
      exact isPrivHost_of_prefix "feb" (by decide) _ (by simp) (by simp) (by decide) (parseIpv4_nondigit 'f' _ (by decide)) hcolon
  · -- ff00::/8: "ff"
    obtain ⟨t, ht⟩ := fmt6_head g0 g1 g2 g3 g4 g5 g6 g7 (by omega)
    rw [ht] at hcolon ⊢
    rw [hex16_hi g0 (by omega)] at hcolon ⊢
    have e1 : g0 / 4096 % 16 = 15 := by omega
    have e2 : g0 / 256 % 16 = 15 := by omega
    rw [e1, e2, hexChar_vals.1] at hcolon ⊢
    exact isPrivHost_of_prefix "ff" (by decide) _ (by simp) (by simp) (by decide) (parseIpv4_nondigit 'f' _ (by decide)) hcolon
  · -- 2001:db8::/32: "2001:db8"
    obtain ⟨t, ht⟩ := fmt6_head2 0x2001 0xdb8 g2 g3 g4 g5 g6 g7 (by decide) (by decide)
    rw [ht] at hcolon ⊢
    have e1 : hex16 0x2001 = ['2', '0', '0', '1'] := by decide
    have e2 : hex16 0xdb8 = ['d', 'b', '8'] := by decide
    rw [e1, e2] at hcolon ⊢
    exact isPrivHost_of_prefix "2001:db8" (by decide) t (by simp) (by simp) (by decide) (parseIpv4_2001 _) hcolon
  · -- ::ffff:a.b.c.d
    rw [fmt6_mapped]
    exact isPrivHost_mapped _ _ _ _ (by omega) (by omega) (by omega) (by omega) (by decide)
      (v4_ranges _ _ _ _ (by omega) (by omega) (by omega) (by omega) hv4)

end EphVerif.C34
