import EphVerif.Lemmas.C34Class
import EphVerif.Lemmas.C34Num
import EphVerif.Lemmas.C34Publish

/-!
# C34 — auto-advertise never publishes non-routable addresses unless allowed
-/
namespace EphVerif.C34
open EphVerif EphVerif.Adv EphVerif.Gen.C34 EphVerif.C34L EphVerif.AdvSpec

/-! ## classification -/

/-- the translated range test covers every IPv4 block of the specification -/
theorem v4_ranges (a b c d : Nat) (ha : a < 256) (hb : b < 256) (hc : c < 256) (hd : d < 256)
    (h : nonRoutable4 (ip4 a b c d)) : isPrivateOrReservedIpv4 a b c d = true :=
  C34L.v4_ranges a b c d ha hb hc hd h

/-- **C34.classify (IPv4)**: for every numeric IPv4 address in one of the non-routable blocks, the canonical text
(`inet_ntop`) is classified private/reserved. -/
theorem classify4 (a b c d : Nat) (ha : a < 256) (hb : b < 256) (hc : c < 256) (hd : d < 256)
    (h : nonRoutable4 (ip4 a b c d)) : isPrivHost (fmt4 a b c d) = true := by
  unfold isPrivHost
  have hne : (fmt4 a b c d).isEmpty = false := by
    have := fmt4_ne_nil a b c d
    cases hh : fmt4 a b c d <;> simp_all
  simp only [hne, Bool.false_eq_true, if_false, parseIpv4_fmt4 a b c d ha hb hc hd, v4OfList]
  exact v4_ranges a b c d ha hb hc hd h

/-- **C34.classify (IPv6)**: for every numeric IPv6 address that is unspecified, loopback, unique-local, link-local,
multicast, documentation, or the IPv4-mapped form of a non-routable IPv4 address, the canonical text (`inet_ntop`,
RFC 5952) is classified private/reserved. -/
theorem classify6 (g0 g1 g2 g3 g4 g5 g6 g7 : Nat)
    (h0 : g0 < 65536) (h1 : g1 < 65536) (h2 : g2 < 65536) (h3 : g3 < 65536)
    (h4 : g4 < 65536) (h5 : g5 < 65536) (h6 : g6 < 65536) (h7 : g7 < 65536)
    (h : nonRoutable6 (ip6 g0 g1 g2 g3 g4 g5 g6 g7)) :
    isPrivHost (fmt6 [g0, g1, g2, g3, g4, g5, g6, g7]) = true := by
  have hcolon := fmt6_colon g0 g1 g2 g3 g4 g5 g6 g7
  rcases v6_blocks g0 g1 g2 g3 g4 g5 g6 g7 h0 h1 h2 h3 h4 h5 h6 h7 h with
    ⟨rfl, rfl, rfl, rfl, rfl, rfl, rfl, rfl⟩ | ⟨rfl, rfl, rfl, rfl, rfl, rfl, rfl, rfl⟩ | ⟨hl, hu⟩ | ⟨hl, hu⟩ | hl |
    ⟨rfl, rfl⟩ | ⟨rfl, rfl, rfl, rfl, rfl, rfl, hv4⟩
  · rw [fmt6_zero]; decide
  · rw [fmt6_one]; decide
  · -- fc00::/7: the text starts with "fc" or "fd"
    obtain ⟨t, ht⟩ := fmt6_head g0 g1 g2 g3 g4 g5 g6 g7 (by omega)
    rw [ht] at hcolon ⊢
    rw [hex16_hi g0 (by omega)] at hcolon ⊢
    have e1 : g0 / 4096 % 16 = 15 := by omega
    have e2 : g0 / 256 % 16 = 12 ∨ g0 / 256 % 16 = 13 := by omega
    rcases e2 with e2 | e2
    · rw [e1, e2, hexChar_vals.1, hexChar_vals.2.2.2.1] at hcolon ⊢
      exact isPrivHost_of_prefix "fc" (by decide) _ (by simp) (by simp) (by decide) (parseIpv4_nondigit 'f' _ (by decide)) hcolon
    · rw [e1, e2, hexChar_vals.1, hexChar_vals.2.2.1] at hcolon ⊢
      exact isPrivHost_of_prefix "fd" (by decide) _ (by simp) (by simp) (by decide) (parseIpv4_nondigit 'f' _ (by decide)) hcolon
  · -- fe80::/10: "fe8", "fe9", "fea", "feb"
    obtain ⟨t, ht⟩ := fmt6_head g0 g1 g2 g3 g4 g5 g6 g7 (by omega)
    rw [ht] at hcolon ⊢
    rw [hex16_hi g0 (by omega)] at hcolon ⊢
    have e1 : g0 / 4096 % 16 = 15 := by omega
    have e2 : g0 / 256 % 16 = 14 := by omega
    have e3 : g0 / 16 % 16 = 8 ∨ g0 / 16 % 16 = 9 ∨ g0 / 16 % 16 = 10 ∨ g0 / 16 % 16 = 11 := by omega
    rcases e3 with e3 | e3 | e3 | e3
    · rw [e1, e2, e3, hexChar_vals.1, hexChar_vals.2.1, hexChar_vals.2.2.2.2.2.2.2] at hcolon ⊢
      exact isPrivHost_of_prefix "fe8" (by decide) _ (by simp) (by simp) (by decide) (parseIpv4_nondigit 'f' _ (by decide)) hcolon
    · rw [e1, e2, e3, hexChar_vals.1, hexChar_vals.2.1, hexChar_vals.2.2.2.2.2.2.1] at hcolon ⊢
      exact isPrivHost_of_prefix "fe9" (by decide) _ (by simp) (by simp) (by decide) (parseIpv4_nondigit 'f' _ (by decide)) hcolon
    · rw [e1, e2, e3, hexChar_vals.1, hexChar_vals.2.1, hexChar_vals.2.2.2.2.2.1] at hcolon ⊢
      exact isPrivHost_of_prefix "fea" (by decide) _ (by simp) (by simp) (by decide) (parseIpv4_nondigit 'f' _ (by decide)) hcolon
    · rw [e1, e2, e3, hexChar_vals.1, hexChar_vals.2.1, hexChar_vals.2.2.2.2.1] at hcolon ⊢
      exact isPrivHost_of_prefix "feb" (by decide) _ (by simp) (by simp) (by decide) (parseIpv4_nondigit 'f' _ (by decide)) hcolon
  · -- ff00::/8: "ff"
    obtain ⟨t, ht⟩ := fmt6_head g0 g1 g2 g3 g4 g5 g6 g7 (by omega)
    rw [ht] at hcolon ⊢
    rw [hex16_hi g0 (by omega)] at hcolon ⊢
    have e1 : g0 / 4096 % 16 = 15 := by omega
    have e2 : g0 / 256 % 16 = 15 := by omega
    rw [e1, e2, hexChar_vals.1] at hcolon ⊢
    exact isPrivHost_of_prefix "ff" (by decide) _ (by simp) (by simp) (by decide) (parseIpv4_nondigit 'f' _ (by decide)) hcolon
  · -- 2001:db8::/32: "2001:db8"
    obtain ⟨t, ht⟩ := fmt6_head2 0x2001 0xdb8 g2 g3 g4 g5 g6 g7 (by decide) (by decide)
    rw [ht] at hcolon ⊢
    have e1 : hex16 0x2001 = ['2', '0', '0', '1'] := by decide
    have e2 : hex16 0xdb8 = ['d', 'b', '8'] := by decide
    rw [e1, e2] at hcolon ⊢
    exact isPrivHost_of_prefix "2001:db8" (by decide) t (by simp) (by simp) (by decide) (parseIpv4_2001 _) hcolon
  · -- ::ffff:a.b.c.d
    rw [fmt6_mapped]
    exact isPrivHost_mapped _ _ _ _ (by omega) (by omega) (by omega) (by omega) (by decide)
      (v4_ranges _ _ _ _ (by omega) (by omega) (by omega) (by omega) hv4)

/-- **C34.classify (names)**: `localhost` in any mixture of upper and lower case (host names are case-insensitive,
`localhost` is loopback) is classified private/reserved. -/
theorem classify_localhost (s : Str) (h : loopbackName s) : isPrivHost s = true := by
  unfold loopbackName at h
  have hlow : lower s = "localhost".toList := h
  match s, hlow with
  | [], hlow => simp [lower] at hlow
  | c :: t, hlow =>
    have hc : isDigit c = false := by
      have h0 : lowerC c = 'l' := by
        have := congrArg List.head? hlow
        simpa [lower] using this
      by_cases hd : isDigit c = true
      · have h' : 48 ≤ c.toNat ∧ c.toNat ≤ 57 := by simpa [isDigit] using hd
        have : lowerC c = c := by unfold lowerC; rw [if_neg (by omega)]
        rw [this] at h0; subst h0; exact absurd hd (by decide)
      · simpa using hd
    exact isPrivHost_reserved_name c t hc "localhost" (by decide) hlow.symm

/-! ## publication

`startTransport cfg stunEnabled stun echo tp` is the node right after `Node::start_transport`: `stun` is whatever the
STUN query reported (`none` = failed), `echo` the seeded fallback address, `tp` the listener port — all arbitrary.
`autoAdvertised` = hosts of the non-manual entries of `Config::advertised_endpoints`, `autoHints` = hosts of the
non-manual (`transport`) discovery hints of a manifest the node then publishes. -/

/-- every automatically published host went through the private/reserved filter -/
theorem publish_filtered (cfg : Cfg) (stunEnabled : Bool) (stun : Option Str) (echo : Str) (tp : Nat)
    (hpriv : cfg.allowPrivate = false) :
    ∀ h ∈ autoAdvertised (startTransport cfg stunEnabled stun echo tp) ++ autoHints (startTransport cfg stunEnabled stun echo tp),
      isPrivHost h = false := by
  unfold startTransport
  generalize some (coordinate stunEnabled stun tp) = nat
  -- facts about the node after refresh
  have key : ∀ n : Node, n = refresh cfg echo tp nat →
      n.cfg = cfg ∧ (∀ c ∈ n.cands, isPrivHost c.host = false) ∧
      (∀ e ∈ n.endpoints, e.manual = false → isPrivHost e.host = false) := by
    intro n hn
    rcases refresh_cases cfg echo tp nat with hidle | ⟨_, nr, _, hact⟩
    · rw [hidle] at hn; subst hn
      refine ⟨rfl, by simp [refreshIdle], ?_⟩
      intro e he hm
      have := manual_filter cfg e he
      rw [hm] at this; cases this
    · rw [hact] at hn; subst hn
      obtain ⟨hadm, hep, _⟩ := refreshActive_spec cfg echo tp nr
      have hc : ∀ c ∈ (refreshActive cfg echo tp nr).cands, isPrivHost c.host = false := by
        intro c hc
        have := hadm c hc
        rw [hpriv] at this
        exact admissible_not_private _ _ this
      refine ⟨rfl, hc, ?_⟩
      intro e he hm
      rcases hep e he with h' | ⟨c, hcc, hec⟩
      · rw [hm] at h'; cases h'
      · rw [hec]; exact hc c hcc
  intro h hh
  obtain ⟨hcfg, hcands, heps⟩ := key _ rfl
  rcases List.mem_append.mp hh with hh | hh
  · -- advertised_endpoints
    unfold autoAdvertised at hh
    obtain ⟨e, he, rfl⟩ := List.mem_map.mp hh
    obtain ⟨he1, he2⟩ := List.mem_filter.mp he
    exact heps e he1 (by simpa using he2)
  · -- manifest hints
    obtain ⟨e, he, hm, rfl⟩ := autoHints_mem _ _ hh
    rcases preferred_auto _ e he hm with ⟨ep, hep, hepm, hhost⟩ | ⟨_, c, hc, hhost⟩ | ⟨_, hself⟩
    · rw [← hhost]; exact heps ep hep hepm
    · rw [← hhost]; exact hcands c hc
    · rw [hcfg, hpriv] at hself
      rcases hself with h' | h'
      · cases h'
      · exact h'

/-- **C34.publish (private advertising not allowed)**: whatever STUN reports, whatever the control host, mode and
manual endpoints are, no automatically published endpoint — neither in `advertised_endpoints` nor among the non-manual
manifest hints — is the canonical text of a non-routable IPv4 or IPv6 address. -/
theorem publish_routable (cfg : Cfg) (stunEnabled : Bool) (stun : Option Str) (echo : Str) (tp : Nat)
    (hpriv : cfg.allowPrivate = false) :
    (∀ a b c d, a < 256 → b < 256 → c < 256 → d < 256 → nonRoutable4 (ip4 a b c d) →
        fmt4 a b c d ∉ autoAdvertised (startTransport cfg stunEnabled stun echo tp) ++
          autoHints (startTransport cfg stunEnabled stun echo tp)) ∧
    (∀ g0 g1 g2 g3 g4 g5 g6 g7, g0 < 65536 → g1 < 65536 → g2 < 65536 → g3 < 65536 → g4 < 65536 → g5 < 65536 →
        g6 < 65536 → g7 < 65536 → nonRoutable6 (ip6 g0 g1 g2 g3 g4 g5 g6 g7) →
        fmt6 [g0, g1, g2, g3, g4, g5, g6, g7] ∉ autoAdvertised (startTransport cfg stunEnabled stun echo tp) ++
          autoHints (startTransport cfg stunEnabled stun echo tp)) := by
  have hf := publish_filtered cfg stunEnabled stun echo tp hpriv
  constructor
  · intro a b c d ha hb hc hd hn hmem
    have h1 := hf _ hmem
    rw [classify4 a b c d ha hb hc hd hn] at h1
    cases h1
  · intro g0 g1 g2 g3 g4 g5 g6 g7 h0 h1 h2 h3 h4 h5 h6 h7 hn hmem
    have h' := hf _ hmem
    rw [classify6 g0 g1 g2 g3 g4 g5 g6 g7 h0 h1 h2 h3 h4 h5 h6 h7 hn] at h'
    cases h'

/-- **C34.publish (loopback name)**: with private advertising not allowed, no spelling of `localhost` is published
automatically (it can only come from the control host through the local-fallback candidate). -/
theorem publish_no_loopback_name (cfg : Cfg) (stunEnabled : Bool) (stun : Option Str) (echo : Str) (tp : Nat)
    (hpriv : cfg.allowPrivate = false) (s : Str) (hs : loopbackName s) :
    s ∉ autoAdvertised (startTransport cfg stunEnabled stun echo tp) ++ autoHints (startTransport cfg stunEnabled stun echo tp) := by
  intro hmem
  have h1 := publish_filtered cfg stunEnabled stun echo tp hpriv s hmem
  rw [classify_localhost s hs] at h1
  cases h1

/-- no automatic publication at all: the shared core of the `off` and `warn`+conflict clauses -/
theorem publish_none_of (n : Node) (hgate : publishAuto n = false) (hman : ∀ e ∈ n.endpoints, e.manual = true) :
    autoAdvertised n = [] ∧ autoHints n = [] := by
  constructor
  · unfold autoAdvertised
    rw [List.map_eq_nil_iff, List.filter_eq_nil_iff]
    intro e he
    simp [hman e he]
  · rw [List.eq_nil_iff_forall_not_mem]
    intro h hh
    obtain ⟨e, he, hm, _⟩ := autoHints_mem _ _ hh
    rcases preferred_auto _ e he hm with ⟨ep, hep, hepm, _⟩ | ⟨hp, _⟩ | ⟨hp, _⟩
    · have := hman ep hep; rw [hepm] at this; cases this
    · rw [hgate] at hp; cases hp
    · rw [hgate] at hp; cases hp

/-- **C34.publish (mode off)**: with auto-advertise off nothing auto-discovered is published (even when private
advertising is allowed, whatever STUN reports). -/
theorem publish_off (cfg : Cfg) (stunEnabled : Bool) (stun : Option Str) (echo : Str) (tp : Nat)
    (hoff : cfg.mode = Mode.off) :
    autoAdvertised (startTransport cfg stunEnabled stun echo tp) = [] ∧
    autoHints (startTransport cfg stunEnabled stun echo tp) = [] := by
  unfold startTransport
  have : refresh cfg echo tp (some (coordinate stunEnabled stun tp)) = refreshIdle cfg tp (some (coordinate stunEnabled stun tp)) := by
    unfold refresh; simp [hoff]
  rw [this]
  apply publish_none_of
  · simp [publishAuto, refreshIdle, hoff]
  · exact manual_filter cfg

/-- **C34.publish (warn mode)**: in warn mode, when the discovered candidates conflict, they are withheld from
`advertised_endpoints` and from the manifest hints. -/
theorem publish_warn_conflict (cfg : Cfg) (stunEnabled : Bool) (stun : Option Str) (echo : Str) (tp : Nat)
    (hwarn : cfg.mode = Mode.warn) (hconf : (startTransport cfg stunEnabled stun echo tp).conflict = true) :
    autoAdvertised (startTransport cfg stunEnabled stun echo tp) = [] ∧
    autoHints (startTransport cfg stunEnabled stun echo tp) = [] := by
  unfold startTransport at hconf ⊢
  generalize some (coordinate stunEnabled stun tp) = nat at hconf ⊢
  rcases refresh_cases cfg echo tp nat with hidle | ⟨_, nr, _, hact⟩
  · rw [hidle] at hconf; simp [refreshIdle] at hconf
  · rw [hact] at hconf ⊢
    obtain ⟨_, _, hw⟩ := refreshActive_spec cfg echo tp nr
    apply publish_none_of
    · have hc : (refreshActive cfg echo tp nr).cfg = cfg := rfl
      simp [publishAuto, hc, hwarn, hconf]
    · exact hw hwarn hconf

/-! ## generated-constant obligations and non-vacuity -/

/-- the literals the proofs above rely on, as regenerated from the source -/
theorem generated_literals :
    "localhost" ∈ kReservedNames ∧ "::" ∈ kV6Exact ∧ "::1" ∈ kV6Exact ∧ kMappedPrefix = "::ffff:" ∧ kInvalidHost = "0.0.0.0" ∧ kPreferredMethod = "stun" ∧
    (∀ p ∈ ["fc", "fd", "fe8", "fe9", "fea", "feb", "ff", "2001:db8"], p ∈ kV6Prefixes) := by decide

-- the hypotheses are satisfiable and the conclusions are not trivially true:
example : nonRoutable4 (ip4 198 19 0 1) ∧ isPrivHost (fmt4 198 19 0 1) = true := by decide
example : ¬ nonRoutable4 (ip4 8 8 8 8) ∧ isPrivHost (fmt4 8 8 8 8) = false := by decide
example : nonRoutable6 (ip6 0 0 0 0 0 0xffff 0x0a00 1) ∧ fmt6 [0, 0, 0, 0, 0, 0xffff, 0x0a00, 1] = "::ffff:10.0.0.1".toList := by decide
example : isPrivHost (fmt6 [0x2001, 0x4860, 0x4860, 0, 0, 0, 0, 0x8888]) = false := by decide
example : loopbackName "LocalHost".toList ∧ isPrivHost "LOCALHOST".toList = true ∧ isPrivHost "localhost.".toList = false := by decide
/-- the local-fallback branch: STUN failed, control host is a routable literal → it is the one automatic endpoint -/
example : autoHints (startTransport ⟨.on, false, "45.64.61.85".toList, 47777, none, none, [⟨"m.example".toList, 1, true, []⟩]⟩ true none "198.51.100.20".toList 40000)
    = ["45.64.61.85".toList] := by decide
/-- a public STUN address *is* published in mode on … -/
example : autoHints (startTransport ⟨.on, false, sLoop, 47777, none, none, []⟩ true (some "45.64.61.85".toList) "198.51.100.20".toList 40000)
    = ["45.64.61.85".toList] := by decide
/-- … a private one is not, and none in mode off -/
example : autoHints (startTransport ⟨.on, false, sLoop, 47777, none, none, []⟩ true (some "10.1.2.3".toList) "198.51.100.20".toList 40000) = [] := by decide
example : autoHints (startTransport ⟨.off, true, sLoop, 47777, none, none, []⟩ true (some "45.64.61.85".toList) "198.51.100.20".toList 40000) = [] := by decide
/-- warn mode with a conflict (needs allow_private) -/
example : (startTransport ⟨.warn, true, "10.0.0.5".toList, 47777, none, none, []⟩ true (some "45.64.61.85".toList) "198.51.100.20".toList 40000).conflict = true := by decide

end EphVerif.C34
