/-
C12 — a mutual handshake yields one shared session key.

All theorems hold for every hash `sha` and every MAC `hmac` (no property of SHA-256/HMAC is used
except, for `key_length`, that the MAC returns 32 bytes); scalars, publics and nonces range over
all `uint32` / `uint64` values.
-/
import EphVerif.Lemmas.C12
import EphVerif.Lemmas.C12Prime
import EphVerif.Lemmas.C12History
import EphVerif.Proofs.C19

namespace EphVerif.C12
open EphVerif.Kex EphVerif.C12L EphVerif.Gen

/-! ### (T) regenerated constants -/

/-- the group of the code is the group of the property: `p = 2^31 − 1`, generator 5 -/
theorem group_constants : C12.kPrime = Spec.Kex.p ∧ C12.kGenerator = Spec.Kex.g ∧ Spec.Kex.p = 2 ^ 31 - 1 := by decide

/-- `p` is prime (trial division by every `d` with `d² ≤ p`, `Lemmas/C12Prime.lean`); not needed by
    the theorems below, recorded because the property calls it a Diffie-Hellman group -/
theorem p_prime_trial : ∀ d < 46341, 2 ≤ d → Spec.Kex.p % d ≠ 0 :=
  fun d h h2 => mersenne31_no_small_divisor d h2 h

theorem p_prime (d : Nat) (h2 : 2 ≤ d) (hd : d ∣ Spec.Kex.p) : d = Spec.Kex.p := by
  obtain ⟨q, hq⟩ := hd
  have hp : Spec.Kex.p = 2147483647 := rfl
  -- one of d, q is below 46341
  by_cases hsmall : d < 46341
  · exact absurd (by rw [hq, Nat.mul_mod_right]) (p_prime_trial d hsmall h2)
  · by_cases hq1 : q = 1
    · subst hq1; omega
    · have hq0 : q ≠ 0 := by intro h; subst h; omega
      have hq2 : 2 ≤ q := by omega
      have hqs : q < 46341 := by
        apply Nat.lt_of_not_le
        intro hge
        have : 46341 * 46341 ≤ d * q := Nat.mul_le_mul (by omega) hge
        omega
      exact absurd (by rw [hq, Nat.mul_mod_left]) (p_prime_trial q hqs hq2)

/-- (T) `generate_identity_scalar` uses the configured seed whenever one is configured (`has_value()`), so the
    identity of a seeded node is a function of the seed — including seed 0 -/
theorem identity_seed_rule : C12.identitySeedUsesHasValue = 1 := by decide

/-- the scalar drawn from any seed lies in the identity range `[2, p − 2]` -/
theorem scalarOfSeed_range (seed : Nat) : 2 ≤ scalarOfSeed seed ∧ scalarOfSeed seed ≤ Spec.Kex.p - 2 := by
  unfold scalarOfSeed drawScalar
  have hp : C12.kPrime = 2147483647 := by decide
  have hp' : Spec.Kex.p = 2147483647 := rfl
  rcases lemire_lt (C12.kPrime - 3) Mt32.next mt32_next_lt 64 (Mt32.seed seed) with h | h
  · rw [hp] at h ⊢; omega
  · rw [hp] at h; omega

/-! ### modexp -/

/-- `KeyExchange::modexp b e m = b^e mod m` for every base, every `uint32` exponent and every
    `uint32` modulus ≥ 1; in particular no intermediate `uint64` product overflows -/
theorem modexp_spec (b e m : Nat) (hm1 : 1 ≤ m) (hm : m < 2 ^ 32) (he : e < 2 ^ 32) :
    modexp b e m = Spec.Kex.powMod b e m :=
  modexp_eq b e m hm1 (by simpa [two32] using hm) (by simpa [two32] using he)

/-- the product bound behind it -/
theorem no_overflow (a b m : Nat) (ha : a < m) (hb : b < m) (hm : m ≤ 2 ^ 32) : a * b < 2 ^ 64 := by
  have := mul64_exact ha hb (by simpa [two32] using hm)
  unfold mul64 at this
  have h2 : (a * b) % two64 < two64 := Nat.mod_lt _ (by decide)
  rw [this] at h2
  simpa [two64] using h2

theorem computePublic_spec (a : Nat) (ha : a < 2 ^ 32) : computePublic a = Spec.Kex.pub a := by
  unfold computePublic Spec.Kex.pub
  have hp : C12.kPrime = Spec.Kex.p := by decide
  have hg : C12.kGenerator = Spec.Kex.g := by decide
  rw [hp, hg]
  exact modexp_spec _ _ _ (by decide) (by decide) ha

theorem sharedScalar_spec (a B : Nat) (ha : a < 2 ^ 32) : sharedScalar a B = Spec.Kex.shared a B := by
  unfold sharedScalar Spec.Kex.shared
  have hp : C12.kPrime = Spec.Kex.p := by decide
  rw [hp, modexp_spec _ _ _ (by decide) (by decide) ha]
  unfold Spec.Kex.powMod
  rw [← Nat.pow_mod]

/-! ### C12.dh — Diffie-Hellman agreement for every pair of private scalars -/

theorem dh (a b : Nat) (ha : a < 2 ^ 32) (hb : b < 2 ^ 32) :
    sharedScalar a (computePublic b) = sharedScalar b (computePublic a) := by
  rw [sharedScalar_spec _ _ ha, sharedScalar_spec _ _ hb, computePublic_spec _ ha, computePublic_spec _ hb]
  unfold Spec.Kex.shared Spec.Kex.pub Spec.Kex.powMod
  rw [← Nat.pow_mod, ← Nat.pow_mod, ← Nat.pow_mul, ← Nat.pow_mul, Nat.mul_comm]

/-- and the agreed value is `g^(ab) mod p` -/
theorem dh_value (a b : Nat) (ha : a < 2 ^ 32) (hb : b < 2 ^ 32) :
    sharedScalar a (computePublic b) = Spec.Kex.g ^ (a * b) % Spec.Kex.p := by
  rw [sharedScalar_spec _ _ ha, computePublic_spec _ hb]
  unfold Spec.Kex.shared Spec.Kex.pub Spec.Kex.powMod
  rw [← Nat.pow_mod, ← Nat.pow_mul, Nat.mul_comm]

/-! ### C12.validate -/

theorem validate (c : Nat) : validatePublic c = true ↔ Spec.Kex.acceptable c := by
  unfold validatePublic Spec.Kex.acceptable
  have hp : C12.kPrime = Spec.Kex.p := by decide
  rw [hp]; simp

/-- the boundary values the property lists are refused / accepted as stated -/
theorem validate_boundaries :
    validatePublic 0 = false ∧ validatePublic 1 = false ∧ validatePublic 2 = true ∧
    validatePublic (Spec.Kex.p - 1) = true ∧ validatePublic Spec.Kex.p = false ∧
    validatePublic (Spec.Kex.p + 1) = false ∧ validatePublic (2 ^ 32 - 1) = false := by decide

/-! ### C12.depends — the key material is the unordered pair of public keys, nothing less -/

theorem material_symm (x y : Nat) : handshakeMaterial x y = handshakeMaterial y x := by
  unfold handshakeMaterial
  by_cases h1 : y < x <;> by_cases h2 : x < y <;> simp [h1, h2]
  · omega
  · have : x = y := by omega
    subst this; rfl

theorem depends (x y x' y' : Nat) (hx : x < 2 ^ 32) (hy : y < 2 ^ 32) (hx' : x' < 2 ^ 32) (hy' : y' < 2 ^ 32) :
    handshakeMaterial x y = handshakeMaterial x' y' ↔ (x = x' ∧ y = y') ∨ (x = y' ∧ y = x') := by
  constructor
  · intro h
    unfold handshakeMaterial at h
    simp only [] at h
    have h1 := List.append_inj h (by simp)
    have e1 := C19L.be4_inj (a := if y < x then y else x) (b := if y' < x' then y' else x')
      (by split <;> assumption) (by split <;> assumption) h1.1
    have e2 := C19L.be4_inj (a := if y < x then x else y) (b := if y' < x' then x' else y')
      (by split <;> assumption) (by split <;> assumption) h1.2
    by_cases c1 : y < x <;> by_cases c2 : y' < x' <;> simp only [c1, c2, if_true, if_false] at e1 e2 <;> omega
  · rintro (⟨rfl, rfl⟩ | ⟨rfl, rfl⟩)
    · rfl
    · exact material_symm _ _

/-! ### C12.key — both ends compute the same 32-byte key -/

section key
variable (sha : List UInt8 → List UInt8) (hmac : List UInt8 → List UInt8 → List UInt8)

/-- for any two private scalars the two ends derive the same session key -/
theorem key_scalars (a b : Nat) (ha : a < 2 ^ 32) (hb : b < 2 ^ 32) :
    sessionKey sha hmac a (computePublic a) (computePublic b) =
    sessionKey sha hmac b (computePublic b) (computePublic a) := by
  unfold sessionKey deriveSharedSecret
  rw [dh a b ha hb, material_symm]

/-- for any two identities (peer ids, scalars), any PoW setting on either side and any nonces:
    if each node accepts the other's handshake, both hold the same session key -/
theorem key (A B : Identity) (bitsA bitsB nonceA nonceB : Nat) (kA kB : List UInt8)
    (hA : A.scalar < 2 ^ 32) (hB : B.scalar < 2 ^ 32)
    (h1 : performHandshake sha hmac A bitsA B.peerId B.pub nonceB = some kA)
    (h2 : performHandshake sha hmac B bitsB A.peerId A.pub nonceA = some kB) : kA = kB := by
  unfold performHandshake at h1 h2
  split at h1
  · cases h1
  · split at h1
    · cases h1
    · split at h2
      · cases h2
      · split at h2
        · cases h2
        · cases h1; cases h2
          exact key_scalars sha hmac A.scalar B.scalar hA hB

/-- the key is a 32-byte string whenever the MAC returns 32 bytes (HMAC-SHA256 does) -/
theorem key_length (hlen : ∀ k d, (hmac k d).length = 32) (A : Identity) (bits : Nat) (peer : List UInt8)
    (remotePublic nonce : Nat) (k : List UInt8)
    (h : performHandshake sha hmac A bits peer remotePublic nonce = some k) : k.length = 32 := by
  unfold performHandshake at h
  split at h
  · cases h
  · split at h
    · cases h
    · cases h; exact hlen _ _

/-- a handshake is accepted exactly when the public value is acceptable and the work is valid -/
theorem accepted_iff (A : Identity) (bits : Nat) (peer : List UInt8) (remotePublic nonce : Nat) :
    (performHandshake sha hmac A bits peer remotePublic nonce).isSome = true ↔
    Spec.Kex.acceptable remotePublic ∧
      Spec.Pow.meets sha (Pow.encHandshake ⟨peer, A.peerId, remotePublic⟩ nonce) (Spec.Pow.capped bits) := by
  rw [← validate, ← C19.accept_node_handshake]
  unfold performHandshake
  cases validatePublic remotePublic <;> cases Pow.nodeVerifyHandshake sha bits ⟨peer, A.peerId, remotePublic⟩ nonce <;> simp

/-- the key really uses both publics: it is the MAC of the unordered pair under the DH secret -/
theorem key_formula (A : Identity) (remotePublic : Nat) :
    sessionKey sha hmac A.scalar A.pub remotePublic =
    hmac (sha (Pow.beBytes 4 (sharedScalar A.scalar remotePublic))) (handshakeMaterial A.pub remotePublic) := rfl

/-! ### C12.key_replaced — the n-th handshake for a peer id re-keys like the first

`runCalls` is a node after an arbitrary history of inbound `perform_handshake` calls (any peers, public
values, nonces, times: first attempts, failures, exact repeats inside the cooldown, the same peer id
coming back with another key pair inside or outside the cooldown). -/

/-- **C12.key_replaced** — after every history, the session key a node holds for a peer id is the one
    derived from the public value of the **last accepted** handshake claiming that id (and there is
    none iff no handshake for that id was ever accepted): `register_session_with_material` replaces. -/
theorem key_replaced (self : Identity) (bits : Nat) (cooldown : Int) (calls : List Call) (peer : List UInt8) :
    (runCalls sha hmac (NodeState.fresh self bits cooldown) calls).1.sessionKeyOf peer =
      (lastAccepted none peer (runCalls sha hmac (NodeState.fresh self bits cooldown) calls).2).map
        (fun pub => sessionKey sha hmac self.scalar self.pub pub) :=
  runCalls_keys sha hmac calls _ _ (histInv_fresh sha hmac self bits cooldown) peer

/-- hence, for any two nodes after any two histories: if the last handshake each accepted from the
    other carried the other's **current** public value, both hold the same key — the one derived from
    the current two public keys — however many earlier sessions with other key pairs there were -/
theorem key_current (A B : Identity) (bitsA bitsB : Nat) (cdA cdB : Int) (callsA callsB : List Call)
    (hA : A.scalar < 2 ^ 32) (hB : B.scalar < 2 ^ 32)
    (h1 : lastAccepted none B.peerId (runCalls sha hmac (NodeState.fresh A bitsA cdA) callsA).2 = some B.pub)
    (h2 : lastAccepted none A.peerId (runCalls sha hmac (NodeState.fresh B bitsB cdB) callsB).2 = some A.pub) :
    (runCalls sha hmac (NodeState.fresh A bitsA cdA) callsA).1.sessionKeyOf B.peerId =
      some (sessionKey sha hmac A.scalar A.pub B.pub) ∧
    (runCalls sha hmac (NodeState.fresh B bitsB cdB) callsB).1.sessionKeyOf A.peerId =
      (runCalls sha hmac (NodeState.fresh A bitsA cdA) callsA).1.sessionKeyOf B.peerId := by
  rw [key_replaced, key_replaced, h1, h2]
  exact ⟨rfl, congrArg some (key_scalars sha hmac A.scalar B.scalar hA hB).symm⟩

/-- on a node without history the stateful model is the single-handshake model above -/
theorem performHandshakeSt_fresh (self : Identity) (bits : Nat) (cooldown now : Int) (peer : List UInt8) (pub nonce : Nat) :
    let r := performHandshakeSt sha hmac (NodeState.fresh self bits cooldown) now peer pub nonce
    (if r.2 then r.1.sessionKeyOf peer else none) = performHandshake sha hmac self bits peer pub nonce := by
  unfold performHandshakeSt performHandshake
  simp only [repeatOfValidated, NodeState.fresh, Kex.get, Bool.false_eq_true, if_false]
  by_cases hv : validatePublic pub = true
  · by_cases hw : Pow.nodeVerifyHandshake sha bits ⟨peer, self.peerId, pub⟩ nonce = true
    · simp [hv, hw, NodeState.sessionKeyOf, Kex.get, Kex.put]
    · simp [hv, hw]
  · simp [hv]

-- non-vacuity: a peer id that comes back with another key pair is re-keyed (toy hash/MAC that keep their input)
example :
    let s := (runCalls (fun x => x) (fun k d => k ++ d) (NodeState.fresh ⟨[1], 3⟩ 0 5)
      [⟨0, [2], Identity.pub ⟨[2], 4⟩, 0⟩, ⟨1, [2], Identity.pub ⟨[2], 7⟩, 0⟩]).1
    s.sessionKeyOf [2] = some (sessionKey (fun x => x) (fun k d => k ++ d) 3 (Identity.pub ⟨[1], 3⟩) (Identity.pub ⟨[2], 7⟩)) ∧
    s.sessionKeyOf [2] ≠ some (sessionKey (fun x => x) (fun k d => k ++ d) 3 (Identity.pub ⟨[1], 3⟩) (Identity.pub ⟨[2], 4⟩)) := by
  decide

end key

-- non-vacuity: a mutual handshake between two concrete identities is accepted on both sides
-- (PoW off, constant hash/MAC stand-ins suffice to exercise the hypotheses of `key`)
example : ∃ kA kB,
    performHandshake (fun _ => []) (fun _ _ => []) ⟨[1], 3⟩ 0 [2] (Identity.pub ⟨[2], 4⟩) 0 = some kA ∧
    performHandshake (fun _ => []) (fun _ _ => []) ⟨[2], 4⟩ 0 [1] (Identity.pub ⟨[1], 3⟩) 0 = some kB := by
  refine ⟨[], [], ?_, ?_⟩ <;> decide

end EphVerif.C12
