/-
C14 — transport sessions deliver exactly what was sent, within the size limit (PARTIAL: see the
end of this header).

Model: EphVerif.Frames (Model/Frames.lean, built on Generated/C14.lean): `send`/`encodeFrame`
(sender), `Reader`/`feed`/`feedChunks` (the reader thread as a resumable machine fed arbitrary
pieces of the TCP stream), `receiveLoop`/`parse` (`receive_loop` over the whole received string).
Cipher: `EphVerif.Spec.chacha20` (RFC 8439).   Helper lemmas: Lemmas/C14Reader, C14Cipher, C14Codec.

Property theorems only.  Sizes are the property's literal 1 MiB = 1048576, nonces 12 bytes,
the length field 4 bytes big-endian; keys are 32 bytes.

What is *not* here (why the property is claimed partial): that the kernel delivers the TCP byte
stream unaltered and in order, that there is one reader thread per session, and that
`std::random_device` yields a fresh nonce — the theorems hold for every nonce, freshness is only
tested (pairwise distinctness over a run) by the harness.  Concurrent senders *are* here: the
`Senders` machine (several threads, frames written in pieces chosen by the kernel, arbitrary
schedule, the per-session send lock) with `concurrent_locked` and the counterexample without the lock.
-/
import EphVerif.Lemmas.C14Spec
import EphVerif.Lemmas.C14Senders

namespace EphVerif.C14
open EphVerif EphVerif.Frames EphVerif.Gen

/-! ## (T) the regenerated constants and guards say what the property says -/

theorem generated_constants :
    C14.kMaxPayloadSize = 1048576 ∧ C14.kNonceSize = 12 ∧ C14.kLengthFieldSize = 4 ∧
    C14.sendShifts = [24, 16, 8, 0] ∧ C14.recvShifts = [24, 16, 8, 0] ∧
    C14.sendCounter = 0 ∧ C14.recvCounter = 0 ∧ C14.recvCheckBeforeBody = true ∧
    C14.sendHoldsSessionLock = true ∧
    C14.recvKeySnapshotAfterFrame = true ∧ C14.sendKeySnapshotInCall = true ∧
    C14.acceptedSessionHasNoRecvTimeout = true := by decide

/-- every size guard of the transport refuses exactly the sizes above 1 MiB -/
theorem generated_guards (n : Nat) :
    (C14.sendRefuses n = true ↔ n > 1048576) ∧ (C14.recvRefuses n = true ↔ n > 1048576) ∧
    (C14.sendEncryptedRefuses n = true ↔ n > 1048576) := by
  refine ⟨sendRefuses_iff n, recvRefuses_iff n, ?_⟩
  simp [C14.sendEncryptedRefuses, C14.kMaxPayloadSize]

/-! ## the stream clause -/

/-- **C14.stream.** For every 32-byte key, every list of payloads of at most 1 MiB each, every choice
of 12-byte nonces, and every way the concatenated frames are cut into pieces on their way to the
reader thread: the message handler is invoked with exactly the payloads, once each, in send order;
the session stays up; the reader has consumed the whole stream and is back at the top of its loop
(no partial frame pending). -/
theorem stream (key : Bytes) (frames : List (Bytes × Bytes)) (chunks : List Bytes)
    (hk : key.length = 32) (hn : ∀ f ∈ frames, f.1.length = 12) (hp : ∀ f ∈ frames, f.2.length ≤ 1048576)
    (hchunks : chunks.flatten = frames.flatMap fun f => encodeFrame key f.1 f.2) :
    let r := feedChunks key Reader.init chunks
    r.delivered = frames.map (·.2) ∧ r.ended = none ∧
      r.consumed = (frames.map fun f => 16 + f.2.length).sum ∧ r.want = .nonce ∧ r.acc = [] := by
  have := feed_frames key frames Reader.init idle_init hk hn hp
  simp only [feedChunks_eq, hchunks]
  obtain ⟨i, d, c, _⟩ := this
  exact ⟨by simpa [Reader.init] using d, i.ended, by simpa [Reader.init] using c, i.want, i.acc⟩

example : ∃ (key : Bytes) (frames : List (Bytes × Bytes)) (chunks : List Bytes), key.length = 32 ∧ (∀ f ∈ frames, f.1.length = 12) ∧ (∀ f ∈ frames, f.2.length ≤ 1048576) ∧
    frames ≠ [] ∧ chunks.flatten = frames.flatMap fun (f : Bytes × Bytes) => encodeFrame key f.1 f.2 :=
  ⟨List.replicate 32 0, [(List.replicate 12 7, [1, 2, 3])], [encodeFrame (List.replicate 32 0) (List.replicate 12 7) [1, 2, 3]],
    by simp, by simp, by simp, by simp, by simp⟩

/-- one stretch of a session between two key replacements: the key, the frames sent under it, and the
pieces in which their bytes reach the reader -/
structure Segment where
  key : Bytes
  frames : List (Bytes × Bytes)
  chunks : List Bytes

def Segment.ok (g : Segment) : Prop :=
  g.key.length = 32 ∧ (∀ f ∈ g.frames, f.1.length = 12) ∧ (∀ f ∈ g.frames, f.2.length ≤ 1048576) ∧
  g.chunks.flatten = g.frames.flatMap fun f => encodeFrame g.key f.1 f.2

theorem feedSegments_from (segs : List Segment) (r : Reader) (hr : Idle r) (h : ∀ g ∈ segs, g.ok) :
    let r' := feedSegments r (segs.map fun g => (g.key, g.chunks))
    Idle r' ∧ r'.delivered = r.delivered ++ segs.flatMap fun g => g.frames.map (·.2) := by
  induction segs generalizing r with
  | nil => exact ⟨hr, by simp [feedSegments]⟩
  | cons g gs ih =>
    obtain ⟨hk, hn, hp, hc⟩ := h g (List.mem_cons_self ..)
    have hf := feed_frames g.key g.frames r hr hk hn hp
    simp only [feedSegments, List.map_cons, List.foldl_cons, feedChunks_eq, hc]
    obtain ⟨i1, i2, _, _⟩ := hf
    have := ih _ i1 (fun g' hg' => h g' (List.mem_cons_of_mem _ hg'))
    simp only [feedSegments, feedChunks_eq] at this
    refine ⟨this.1, ?_⟩
    rw [this.2, i2]
    simp

/-- **C14.stream, with key replacements.** The session key may be replaced (`register_peer_key` on the live
session, at both ends) any number of times; if sender and receiver switch at the same point of the
byte stream — a frame boundary: every frame is encrypted under the key registered when `send` built it
and its bytes are read while that key is still the one registered at the receiver — then for every
sequence of segments (32-byte keys, 12-byte nonces, payloads ≤ 1 MiB, any chunking within a segment)
the handler still receives exactly the payloads, once each, in send order, and the session stays up. -/
theorem stream_rekeyed (segs : List Segment) (h : ∀ g ∈ segs, g.ok) :
    let r := feedSegments Reader.init (segs.map fun g => (g.key, g.chunks))
    r.delivered = segs.flatMap (fun g => g.frames.map (·.2)) ∧ r.ended = none ∧ r.want = .nonce ∧ r.acc = [] := by
  have := feedSegments_from segs Reader.init idle_init h
  exact ⟨by simpa [Reader.init] using this.2, this.1.ended, this.1.want, this.1.acc⟩

example : ∃ segs : List Segment, segs.length = 2 ∧ (∀ g ∈ segs, g.ok) ∧ (segs.map (·.key)).Nodup :=
  ⟨[⟨List.replicate 32 1, [(List.replicate 12 7, [1, 2, 3])], [encodeFrame (List.replicate 32 1) (List.replicate 12 7) [1, 2, 3]]⟩,
    ⟨List.replicate 32 2, [(List.replicate 12 8, [4])], [encodeFrame (List.replicate 32 2) (List.replicate 12 8) [4]]⟩],
   rfl, by simp [Segment.ok], by decide⟩

/-- `send` accepts every payload of at most 1 MiB (in particular exactly 1 MiB) and writes one frame
of 16 + size bytes -/
theorem send_accepts (key nonce payload : Bytes) (hk : key.length = 32) (hn : nonce.length = 12)
    (hp : payload.length ≤ 1048576) :
    send key nonce payload = some (encodeFrame key nonce payload) ∧
      (encodeFrame key nonce payload).length = 16 + payload.length := by
  constructor
  · unfold send
    have : ¬ C14.sendRefuses payload.length = true := by rw [sendRefuses_iff]; omega
    simp [this]
  · simp only [encodeFrame, List.length_append, lengthBytes_length, hn, cipher,
      Cipher.chacha20_length key nonce _ payload hk hn]

/-- **C14.stream, with refusals.** Any sequence of `send` calls with payloads of *any* size: what
reaches the peer's handler is exactly the sub-sequence of payloads of at most 1 MiB, once each, in
order — the oversized ones leave no trace on the wire and the session stays up. -/
theorem stream_with_refusals (key : Bytes) (attempts : List (Bytes × Bytes)) (chunks : List Bytes)
    (hk : key.length = 32) (hn : ∀ f ∈ attempts, f.1.length = 12)
    (hchunks : chunks.flatten = (attempts.filterMap fun f => send key f.1 f.2).flatten) :
    let r := feedChunks key Reader.init chunks
    r.delivered = (attempts.filter fun f => decide (f.2.length ≤ 1048576)).map (·.2) ∧ r.ended = none := by
  have hwire : (attempts.filterMap fun f => send key f.1 f.2).flatten
      = (attempts.filter fun f => decide (f.2.length ≤ 1048576)).flatMap fun f => encodeFrame key f.1 f.2 := by
    clear hchunks
    induction attempts with
    | nil => rfl
    | cons f fs ih =>
      have ih' := ih (fun g hg => hn g (List.mem_cons_of_mem _ hg))
      by_cases hf : f.2.length ≤ 1048576
      · have hs := (send_accepts key f.1 f.2 hk (hn f (List.mem_cons_self ..)) hf).1
        simp only [List.filterMap_cons, hs, List.flatten_cons, ih', List.filter_cons, hf, decide_true, if_true,
          List.flatMap_cons]
      · have hs : send key f.1 f.2 = none := by
          unfold send
          have : C14.sendRefuses f.2.length = true := by rw [sendRefuses_iff]; omega
          simp only [this, if_true]
        simp only [List.filterMap_cons, hs, ih', List.filter_cons, hf, decide_false, Bool.false_eq_true, if_false]
  have := stream key (attempts.filter fun f => decide (f.2.length ≤ 1048576)) chunks hk
    (fun f hf => hn f (List.mem_filter.mp hf).1)
    (fun f hf => by simpa using (List.mem_filter.mp hf).2) (hchunks.trans hwire)
  exact ⟨this.1, this.2.1⟩

/-! ## the limit clauses -/

/-- **C14.limit (sender).** A payload above 1 MiB is not sent: `send` returns before anything is
written, for every key and nonce. -/
theorem limit_send (key nonce payload : Bytes) (h : payload.length > 1048576) : send key nonce payload = none := by
  unfold send
  have : C14.sendRefuses payload.length = true := by rw [sendRefuses_iff]; exact h
  simp only [this, if_true]

/-- **C14.limit (receiver).** After any well-formed frames, a header announcing more than 1 MiB —
however the stream is cut into pieces, whatever follows the header — ends the session: exactly
the 16 header bytes are consumed beyond the earlier frames, no ciphertext buffer is allocated for
it (`maxAlloc` is the largest earlier payload), only the earlier payloads have been delivered,
and nothing after the header is ever read. -/
theorem limit_recv (key : Bytes) (frames : List (Bytes × Bytes)) (nonce lb rest : Bytes) (chunks : List Bytes)
    (hk : key.length = 32) (hn : ∀ f ∈ frames, f.1.length = 12) (hp : ∀ f ∈ frames, f.2.length ≤ 1048576)
    (hnonce : nonce.length = 12) (hlb : lb.length = 4) (hbig : readLength lb > 1048576)
    (hchunks : chunks.flatten = (frames.flatMap fun f => encodeFrame key f.1 f.2) ++ (nonce ++ lb ++ rest)) :
    let r := feedChunks key Reader.init chunks
    r.ended = some (.oversized (readLength lb)) ∧ r.delivered = frames.map (·.2) ∧
      r.consumed = (frames.map fun f => 16 + f.2.length).sum + 16 ∧
      r.maxAlloc = (frames.map (·.2.length)).foldl max 0 := by
  obtain ⟨i, d, c, m⟩ := feed_frames key frames Reader.init idle_init hk hn hp
  simp only [feedChunks_eq, hchunks, feed_append key Reader.init]
  rw [feed_oversized key nonce lb rest _ i hnonce hlb hbig]
  exact ⟨rfl, by simpa [Reader.init] using d, by (simp only [c]; simp [Reader.init]), by simpa [Reader.init] using m⟩

/-- the four bytes `00 10 00 01` announce 1 MiB + 1 -/
example : ([0x00, 0x10, 0x00, 0x01] : Bytes).length = 4 ∧ readLength [0x00, 0x10, 0x00, 0x01] = 1048577 := by decide

/-- the length field is a plain 32-bit big-endian number, so *every* announced size above the limit
is covered: the four bytes of any `n < 2^32` read back as `n` -/
theorem length_field (n : Nat) (h : n < 4294967296) :
    lengthBytes n = [UInt8.ofNat (n / 16777216 % 256), UInt8.ofNat (n / 65536 % 256), UInt8.ofNat (n / 256 % 256), UInt8.ofNat (n % 256)] ∧
    readLength (lengthBytes n) = n := by
  refine ⟨?_, readLength_lengthBytes n h⟩
  simp only [lengthBytes, C14.sendShifts, List.map_cons, List.map_nil, Nat.mod_eq_of_lt h]
  simp

/-- **C14.limit (buffering).** On every byte string whatsoever, cut into pieces anyhow, the reader never
allocates a ciphertext buffer above 1 MiB. -/
theorem buffer_bounded (key : Bytes) (chunks : List Bytes) : (feedChunks key Reader.init chunks).maxAlloc ≤ 1048576 := by
  rw [feedChunks_eq]
  exact feed_maxAlloc key Reader.init _ (by decide)

/-! ## the wire clause -/

/-- **C14.wire.** What `send` puts on the wire for a payload of at most 1 MiB is the nonce, the payload
size as a 32-bit big-endian number, and the RFC 8439 ChaCha20 encryption of the payload under the
session key, that frame's nonce and initial block counter 0; decrypting the ciphertext with the
same parameters gives the payload back. -/
theorem wire (key nonce payload : Bytes) (hk : key.length = 32) (hn : nonce.length = 12) (hp : payload.length ≤ 1048576) :
    let n := payload.length
    send key nonce payload = some (nonce ++
      [UInt8.ofNat (n / 16777216 % 256), UInt8.ofNat (n / 65536 % 256), UInt8.ofNat (n / 256 % 256), UInt8.ofNat (n % 256)] ++
      Spec.chacha20 key nonce 0 payload) ∧
    Spec.chacha20 key nonce 0 (Spec.chacha20 key nonce 0 payload) = payload := by
  refine ⟨?_, Cipher.chacha20_involution key nonce 0 payload hk hn⟩
  rw [(send_accepts key nonce payload hk hn hp).1, encodeFrame, (length_field payload.length (by omega)).1]
  rfl

/-- the hypotheses of `send_accepts` / `wire` / `stream_with_refusals` are satisfiable, at the limit itself -/
example : ∃ key nonce payload : Bytes, key.length = 32 ∧ nonce.length = 12 ∧ payload.length = 1048576 :=
  ⟨List.replicate 32 1, List.replicate 12 2, List.replicate 1048576 3, List.length_replicate, List.length_replicate, List.length_replicate⟩

/-! ## the reader thread and `receive_loop` -/

/-- How the byte stream is cut into pieces never matters, for any bytes at all (well-formed or not). -/
theorem chunking_irrelevant (key : Bytes) (chunks chunks' : List Bytes) (h : chunks.flatten = chunks'.flatten) :
    feedChunks key Reader.init chunks = feedChunks key Reader.init chunks' := by
  rw [feedChunks_eq, feedChunks_eq, h]

/-- The resumable reader machine fed any pieces shows exactly what `receive_loop`, read as a function
over the whole received byte string, computes: deliveries, end of session, bytes consumed, largest
buffer — for every byte string. -/
theorem reader_is_receive_loop (key : Bytes) (chunks : List Bytes) :
    (feedChunks key Reader.init chunks).outcome = parse key chunks.flatten := by
  rw [feedChunks_eq, parse_eq]

/-- Deliveries are never retracted or reordered by later bytes: what the handler has received after a
prefix of the stream is a prefix of what it has received later. -/
theorem delivered_monotone (key : Bytes) (chunks more : List Bytes) :
    (feedChunks key Reader.init chunks).delivered <+: (feedChunks key Reader.init (chunks ++ more)).delivered := by
  simp only [feedChunks_eq, List.flatten_append, feed_append]
  exact feed_delivered_prefix key _ _

/-- Once a session has been ended nothing more is delivered or consumed. -/
theorem ended_is_final (key : Bytes) (chunks more : List Bytes) (h : (feedChunks key Reader.init chunks).ended.isSome) :
    feedChunks key Reader.init (chunks ++ more) = feedChunks key Reader.init chunks := by
  simp only [feedChunks_eq, List.flatten_append, feed_append] at h ⊢
  exact feed_ended key _ _ h

/-! ## several threads sending to one session -/

/-- **C14.concurrent_locked.** With the per-session send lock — for every number `n` of sender threads,
every list of `send()` calls per thread (payloads of at most 1 MiB, any 12-byte nonces), every way the
kernel cuts each frame into pieces, every schedule that lets all threads finish, and every way the
resulting byte stream is cut on its way to the reader: the session stays up; the handler receives the
payloads of an interleaving `order` of the threads' calls — hence every payload of every thread
exactly once, byte for byte (`Perm`), and each thread's payloads in that thread's send order
(`Sublist`). -/
theorem concurrent_locked (key : Bytes) (n : Nat) (calls : Nat → List SendCall) (sched : List Nat) (chunks : List Bytes)
    (hk : key.length = 32) (hsup : ∀ i, n ≤ i → calls i = [])
    (hcalls : ∀ i, ∀ c ∈ calls i, c.wellSplit key ∧ c.nonce.length = 12 ∧ c.payload.length ≤ 1048576)
    (hdone : (Senders.run true (Senders.init calls) sched).Done)
    (hchunks : chunks.flatten = (Senders.run true (Senders.init calls) sched).wire) :
    let r := feedChunks key Reader.init chunks
    r.ended = none ∧
    (∃ order : List SendCall, Merge calls order ∧ r.delivered = order.map (·.payload)) ∧
    (∀ i, ((calls i).map (·.payload)).Sublist r.delivered) ∧
    r.delivered.Perm (((List.range n).flatMap calls).map (·.payload)) := by
  obtain ⟨order, hm, hw⟩ := run_locked calls sched hdone
  have hord : ∀ c ∈ order, c.wellSplit key ∧ c.nonce.length = 12 ∧ c.payload.length ≤ 1048576 := by
    intro c hc
    obtain ⟨i, hi⟩ := hm.mem c hc
    exact hcalls i c hi
  have hwire : (order.map fun c => c.pieces.flatten).flatten
      = (order.map fun c => (c.nonce, c.payload)).flatMap fun f => encodeFrame key f.1 f.2 := by
    rw [List.flatMap_def, List.map_map]
    congr 1
    apply List.map_congr_left
    intro c hc
    exact (hord c hc).1
  have hs := stream key (order.map fun c => (c.nonce, c.payload)) chunks hk
    (by intro f hf; obtain ⟨c, hc, rfl⟩ := List.mem_map.mp hf; exact (hord c hc).2.1)
    (by intro f hf; obtain ⟨c, hc, rfl⟩ := List.mem_map.mp hf; exact (hord c hc).2.2)
    (by rw [hchunks, hw, hwire])
  have hd : (feedChunks key Reader.init chunks).delivered = order.map (·.payload) := by
    rw [hs.1, List.map_map]; rfl
  refine ⟨hs.2.1, ⟨order, hm, hd⟩, ?_, ?_⟩
  · intro i; rw [hd]; exact (hm.sublist i).map _
  · rw [hd]; exact (hm.perm n hsup).map _

/-- the same for the code as it is: `send()` holds the session's send lock (regenerated flag) -/
theorem concurrent_as_coded (key : Bytes) (n : Nat) (calls : Nat → List SendCall) (sched : List Nat) (chunks : List Bytes)
    (hk : key.length = 32) (hsup : ∀ i, n ≤ i → calls i = [])
    (hcalls : ∀ i, ∀ c ∈ calls i, c.wellSplit key ∧ c.nonce.length = 12 ∧ c.payload.length ≤ 1048576)
    (hdone : (Senders.runAsCoded (Senders.init calls) sched).Done)
    (hchunks : chunks.flatten = (Senders.runAsCoded (Senders.init calls) sched).wire) :
    let r := feedChunks key Reader.init chunks
    r.ended = none ∧ (∀ i, ((calls i).map (·.payload)).Sublist r.delivered) ∧
    r.delivered.Perm (((List.range n).flatMap calls).map (·.payload)) := by
  have hflag : C14.sendHoldsSessionLock = true := by decide
  unfold Senders.runAsCoded at hdone hchunks
  rw [hflag] at hdone hchunks
  have := concurrent_locked key n calls sched chunks hk hsup hcalls hdone hchunks
  exact ⟨this.1, this.2.2.1, this.2.2.2⟩

/-! ### the witness: two threads, one 4-byte payload each, every frame taken by the kernel in two pieces
(13 bytes, then the rest) -/

def cexKey : Bytes := List.replicate 32 0
def cexCall (nonceByte : UInt8) (payload : Bytes) : SendCall :=
  let f := encodeFrame cexKey (List.replicate 12 nonceByte) payload
  { nonce := List.replicate 12 nonceByte, payload := payload, pieces := [f.take 13, f.drop 13] }
def cexCalls : Nat → List SendCall
  | 0 => [cexCall 0x01 [1, 2, 3, 4]]
  | 1 => [cexCall 0xff [5, 6, 7, 8]]
  | _ => []

/-- the hypotheses of `concurrent_locked` are satisfiable, and under the lock the alternating schedule
delivers both payloads -/
theorem concurrent_locked_witness :
    let s := Senders.run true (Senders.init cexCalls) [0, 1, 0, 1, 0, 1, 1, 1]
    (∀ i, i < 2 → s.todo i = [] ∧ s.cur i = []) ∧
    (∀ i, i < 2 → ∀ c ∈ cexCalls i, c.wellSplit cexKey ∧ c.nonce.length = 12 ∧ c.payload.length ≤ 1048576) ∧
    (feed cexKey Reader.init s.wire).delivered = [[1, 2, 3, 4], [5, 6, 7, 8]] ∧
    (feed cexKey Reader.init s.wire).ended = none := by decide +kernel

/-- **C14.concurrent_unlocked_counterexample.** Without the lock the same two `send()` calls, scheduled
alternately (A starts, B starts, A writes 13 bytes, B writes 13 bytes, A finishes, B finishes), both
complete — and the receiver reads the length field `00 ff ff ff` out of A's last header byte and B's
nonce: it announces 16 777 215 bytes, the session is ended, and neither payload is ever delivered. -/
theorem concurrent_unlocked_counterexample :
    let s := Senders.run false (Senders.init cexCalls) [0, 1, 0, 1, 0, 1]
    (∀ i, i < 2 → s.todo i = [] ∧ s.cur i = []) ∧
    (∀ i, i < 2 → ∀ c ∈ cexCalls i, c.wellSplit cexKey ∧ c.nonce.length = 12 ∧ c.payload.length ≤ 1048576) ∧
    s.wire.length = 40 ∧
    (feed cexKey Reader.init s.wire).delivered = [] ∧
    (feed cexKey Reader.init s.wire).ended = some (.oversized 16777215) := by decide +kernel

/-! ## against the independent specification `EphVerif.Spec.Frames` -/

/-- The reader thread, fed any byte string in any pieces, delivers exactly what the specification of
the receiving side prescribes and ends the session exactly when the specification says a header
announced more than 1 MiB. -/
theorem receiver_meets_spec (key : Bytes) (chunks : List Bytes) :
    let r := feedChunks key Reader.init chunks
    r.delivered = (Spec.Frames.view key chunks.flatten).delivered ∧
      r.ended.isSome = (Spec.Frames.view key chunks.flatten).endedOversized := by
  have h := reader_is_receive_loop key chunks
  have hs := parse_spec key chunks.flatten
  rw [← h] at hs
  exact hs

/-- `send` writes the specified frame for exactly the payloads the specification allows to be sent. -/
theorem sender_meets_spec (key nonce payload : Bytes) (hk : key.length = 32) (hn : nonce.length = 12) :
    send key nonce payload
      = if Spec.Frames.mayBeSent payload then some (Spec.Frames.frame key nonce payload) else none := by
  by_cases hp : payload.length ≤ 1048576
  · have : Spec.Frames.mayBeSent payload = true := by simp [Spec.Frames.mayBeSent, Spec.Frames.maxPayload, hp]
    rw [this, (send_accepts key nonce payload hk hn hp).1, encodeFrame, lengthBytes_eq_be32 _ (by omega)]
    rfl
  · have : Spec.Frames.mayBeSent payload = false := by simp [Spec.Frames.mayBeSent, Spec.Frames.maxPayload, hp]
    rw [this, limit_send key nonce payload (by omega)]
    rfl

end EphVerif.C14
