import EphVerif.Lemmas.C32Layers

/-!
# C32 — configuration layers apply in the documented precedence

Property: *for any combination of configuration-file profiles (with `extends` chains), environment overlay and
command-line flags, each effective setting equals the value from the highest-precedence layer that sets it
(flags, then environment overrides, then the selected profile, then its ancestors, then built-in defaults), and
cyclic or missing profiles are reported as errors rather than looping or being ignored.*

`ConfigLayers.loadConfiguration` is the model of `load_configuration`: `resolve` (= `resolve_profile`),
`collectEnv` (= `collect_environment_overrides`), `mergeObjects`, `applyProfile`.  The theorems are about
arbitrary value trees, arbitrary profile graphs and arbitrary flag sets — no bound on depth, width or chain length.

**Known finding C32-1 (alias spellings).**  `apply_profile_to_options` reads each setting from the *merged* tree
through a list of alternative key spellings and takes the first spelling that is present.  When two layers spell
the same setting differently, the layer using the earlier spelling wins regardless of precedence
(`alias_counterexample`).  `precedence` therefore carries the hypothesis that the layers spell the setting one
way (`hone`); that is exactly what excludes the counterexample.
-/
namespace EphVerif.C32
open EphVerif.ConfigLayers EphVerif.C32L

/-! ## generated-constant obligation -/

/-- every key spelling `apply_profile_to_options` reads (regenerated from the source) is a non-empty path, as
`precedence` requires (`hshape`) -/
theorem spellings_shape :
    ∀ q ∈ dirPaths ++ persPaths ++ cportPaths ++ tportPaths ++ tokPaths ++ ttlPaths ++ minPaths ++ maxPaths ++ powPaths,
      q ≠ [] := by
  decide +kernel

/-! ## `merge_lookup` -/

/-- **C32.merge_lookup.**  For all trees `a`, `b` and every path `p` along which the overlay `b` has no scalar in
the way (`Clean`): the value at `p` in `merge_objects(a, b)` is `b`'s if `b` defines `p`, else `a`'s. -/
theorem merge_lookup (a b : Value) (p : List String) (hb : Clean p b) :
    lookup (mergeObjects a b) p = match lookup b p with
      | some x => some x
      | none => lookup a p := by
  have h := lookup_merge p b a hb
  unfold mergeObjects
  rw [h]
  cases lookup b p <;> rfl

/-- …and a scalar on the way in the overlay hides the base below it (the "unless shadowed" clause). -/
theorem merge_shadow (a : Value) (bfs : Fields) (k k' : String) (ks : List String) (s : Value)
    (hs : bfs.get k = some s) (hscalar : s.isObj = false) :
    lookup (mergeObjects a (.obj bfs)) (k :: k' :: ks) = none := by
  unfold mergeObjects
  rw [merge_obj, lookup_fields]
  simp only [Value.fields, get_mergeFields, hs]
  rw [combine_nonobj_left s _ hscalar]
  exact lookup_nonobj s hscalar k' ks

/-! ## the layers of one run (`envAbove`, `envMap`, `envBelow`, `layersOf`, `effective`: see `Lemmas/C32Layers.lean`) -/

/-- lookups in the merged tree = first layer (highest precedence first) that defines the path -/
theorem effective_lookup (efs : Fields) (chain : List Value) (k : String) (ks : List String)
    (hc : ∀ l ∈ layersOf efs chain, Clean (k :: ks) l) :
    lookup (effective efs chain) (k :: ks) = firstSome ((layersOf efs chain).map (lookup · (k :: ks))) := by
  have hA := hc (envAbove efs) (by simp [layersOf])
  have hM := hc (envMap efs) (by simp [layersOf])
  have hB := hc (envBelow efs) (by simp [layersOf])
  have hchain : ∀ l ∈ chain, Clean (k :: ks) l := fun l hl => hc l (by simp [layersOf, hl])
  have hc1 : Clean (k :: ks) (mergeObjects Value.emptyObj (envBelow efs)) :=
    clean_merge _ _ _ hB (clean_empty k ks)
  have hc2 : Clean (k :: ks) (mergeObjects (mergeObjects Value.emptyObj (envBelow efs)) (envMap efs)) :=
    clean_merge _ _ _ hM hc1
  have hc3 : Clean (k :: ks) (collectEnv (.obj efs)) := by
    rw [collectEnv_eq]; exact clean_merge _ _ _ hA hc2
  unfold effective
  unfold mergeObjects
  rw [lookup_merge _ _ _ hc3, collectEnv_eq]
  unfold mergeObjects
  rw [lookup_merge _ _ _ hA, lookup_merge _ _ _ hM, lookup_merge _ _ _ hB, lookup_empty, lookup_chain k ks chain hchain]
  simp only [layersOf, List.cons_append, List.nil_append, List.map_cons, firstSome]
  cases lookup (envAbove efs) (k :: ks) <;> cases lookup (envMap efs) (k :: ks) <;>
    cases lookup (envBelow efs) (k :: ks) <;> rfl

/-! ## `C32.precedence` -/

/-- **C32.precedence (file layers).**  For every environment mapping, every profile chain and every setting whose
spellings are `spellings`: if the layers that set it all use the spelling `p` (hypothesis `hone`, see the known
finding) and no layer has a scalar in the way of a spelling (`hclean`), the raw value `apply_profile_to_options`
reads for the setting is the value of the highest-precedence layer that defines `p` — environment first, then the
selected profile, then its ancestors nearest first — and nothing (the built-in default stays) if no layer does. -/
theorem precedence (efs : Fields) (chain : List Value) (spellings : List (List String)) (k : String) (ks : List String)
    (hp : (k :: ks) ∈ spellings)
    (hshape : ∀ q ∈ spellings, ∃ k' ks', q = k' :: ks')
    (hclean : ∀ q ∈ spellings, ∀ l ∈ layersOf efs chain, Clean q l)
    (hone : ∀ q ∈ spellings, q ≠ k :: ks → ∀ l ∈ layersOf efs chain, lookup l q = none) :
    firstPresent (effective efs chain) spellings = firstSome ((layersOf efs chain).map (lookup · (k :: ks))) := by
  have hE : ∀ q ∈ spellings, lookup (effective efs chain) q = firstSome ((layersOf efs chain).map (lookup · q)) := by
    intro q hq
    obtain ⟨k', ks', hq'⟩ := hshape q hq
    subst hq'
    exact effective_lookup efs chain k' ks' (hclean _ hq)
  unfold firstPresent
  rw [firstSome_single (lookup (effective efs chain)) (k :: ks) spellings ?_ hp]
  · exact hE _ hp
  · intro q hq hne
    rw [hE q hq]
    exact firstSome_none _ _ (fun l hl => hone q hq hne l hl)

/-- what `apply_profile_to_options` does for each of the nine settings -/
theorem apply_ok (E : Value) (flags o : Options) (h : applyProfile E flags = .ok o) :
    fill flags.dir (getAny getString E dirPaths) (fun _ => true) = .ok o.dir ∧
    fill flags.pers (getAny getBool E persPaths) (fun _ => true) = .ok o.pers ∧
    fill flags.cport (getAny getInt E cportPaths) portOk = .ok o.cport ∧
    fill flags.tport (getAny getInt E tportPaths) portOk = .ok o.tport ∧
    fill flags.tok (getAny getString E tokPaths) (fun _ => true) = .ok o.tok ∧
    fill flags.ttl (getAny getInt E ttlPaths) positive = .ok o.ttl ∧
    fill flags.min (getAny getInt E minPaths) positive = .ok o.min ∧
    fill flags.max (getAny getInt E maxPaths) positive = .ok o.max ∧
    fill flags.pow (getAny getInt E powPaths) powOk = .ok o.pow := by
  unfold applyProfile at h
  by_cases hobj : (!E.isObj) = true
  · simp [hobj, throw, throwThe, MonadExceptOf.throw, bind, Except.bind] at h
  · simp only [hobj, Bool.false_eq_true, if_false] at h
    obtain ⟨dir, h1, h⟩ := bind_ok h
    obtain ⟨pers, h2, h⟩ := bind_ok h
    obtain ⟨cport, h3, h⟩ := bind_ok h
    obtain ⟨tport, h4, h⟩ := bind_ok h
    obtain ⟨tok, h5, h⟩ := bind_ok h
    obtain ⟨ttl, h6, h⟩ := bind_ok h
    obtain ⟨mn, h7, h⟩ := bind_ok h
    obtain ⟨mx, h8, h⟩ := bind_ok h
    obtain ⟨pow, h9, h⟩ := bind_ok h
    simp only [pure, Except.pure, Except.ok.injEq] at h
    subst h
    exact ⟨h1, h2, h3, h4, h5, h6, h7, h8, h9⟩

/-- **C32.precedence (flags).**  A setting given on the command line is never touched by the configuration file:
whatever the file contains, the effective value is the flag's. -/
theorem flags_win {α} (v : α) (read : Except Err (Option α)) (valid : α → Bool) :
    fill (some v) read valid = .ok (some v) := rfl

/-- A setting not given on the command line takes exactly the (valid) value read from the merged file layers, and
stays unset (built-in default) when no layer sets it. -/
theorem file_fills {α} (read : Except Err (Option α)) (valid : α → Bool) (x : Option α)
    (h : fill none read valid = .ok x) :
    (read = .ok none ∧ x = none) ∨ (∃ v, read = .ok (some v) ∧ valid v = true ∧ x = some v) := by
  unfold fill at h
  cases read with
  | error e => simp at h
  | ok r =>
    cases r with
    | none => left; simp at h; exact ⟨rfl, h.symm⟩
    | some v =>
      right
      simp only [] at h
      by_cases hv : valid v = true
      · rw [if_pos hv] at h; exact ⟨v, rfl, hv, by injection h with h; exact h.symm⟩
      · rw [if_neg hv] at h; cases h

/-- the whole run, from the parsed document to the options, when the profile chain resolves -/
theorem load_ok (doc : Value) (pfs : Fields) (profileFlag : Option String) (flags : Options)
    (hprofiles : lookup doc ["profiles"] = some (.obj pfs)) (base : Value)
    (hres : resolveProfile pfs (profileFlag.getD "default") = .ok base) :
    loadConfiguration doc profileFlag none flags = applyProfile (mergeObjects base .emptyObj) flags := by
  unfold loadConfiguration
  simp [hprofiles, hres, bind, Except.bind, pure, Except.pure]

/-- the same with an environment selected (`--env`), the profile named by `--profile` -/
theorem load_ok_env (doc : Value) (pfs envs efs : Fields) (profile envName : String) (flags : Options)
    (hprofiles : lookup doc ["profiles"] = some (.obj pfs))
    (henvs : lookup doc ["environments"] = some (.obj envs)) (henv : envs.get envName = some (.obj efs))
    (base : Value) (hres : resolveProfile pfs profile = .ok base) :
    loadConfiguration doc (some profile) (some envName) flags =
      applyProfile (mergeObjects base (collectEnv (.obj efs))) flags := by
  unfold loadConfiguration
  simp [hprofiles, henvs, henv, hres, bind, Except.bind, pure, Except.pure]

/-- …and with the profile chosen by the environment's own `profile` entry -/
theorem load_ok_env_profile (doc : Value) (pfs envs efs : Fields) (profile envName : String) (flags : Options)
    (hprofiles : lookup doc ["profiles"] = some (.obj pfs))
    (henvs : lookup doc ["environments"] = some (.obj envs)) (henv : envs.get envName = some (.obj efs))
    (hsel : efs.get "profile" = some (.str profile))
    (base : Value) (hres : resolveProfile pfs profile = .ok base) :
    loadConfiguration doc none (some envName) flags =
      applyProfile (mergeObjects base (collectEnv (.obj efs))) flags := by
  unfold loadConfiguration
  simp [hprofiles, henvs, henv, hres, hsel, getString, lookup, bind, Except.bind, pure, Except.pure]

/-! ## `C32.errors` -/

/-- **C32.errors (never loops).**  For every profile mapping and every name, `resolve_profile` terminates: the
recursion budget `|profiles| + 1` (one more than the number of distinct names `visiting` can hold) is never
exhausted — the result is a resolved tree or a `ConfigError`. -/
theorem resolve_total (profiles : Fields) (name : String) : resolveProfile profiles name ≠ .error .fuel := by
  unfold resolveProfile
  exact resolve_fuel profiles _ [] name List.nodup_nil (by intro n hn; cases hn) (by simp)

/-- A resolved profile is exactly the merge of a finite `extends` chain of existing, distinct profiles: ancestors
first, the selected profile on top. -/
theorem resolve_ok_chain (profiles : Fields) (name : String) (v : Value) (h : resolveProfile profiles name = .ok v) :
    ∃ names chain, ChainOf profiles name names chain ∧ v = chainMerge chain ∧ names.Nodup := by
  obtain ⟨names, chain, hc, hv, _, hnd⟩ := resolve_ok profiles _ [] name v h
  exact ⟨names, chain, hc, hv, hnd⟩

/-- **C32.errors (cycle).**  If following `extends` links from the selected profile ever returns to it, the result
is a `ConfigError` — for every profile mapping, every cycle length. -/
theorem cycle_is_error (profiles : Fields) (name : String) (n : Nat) (hn : 0 < n)
    (hcycle : iterParent profiles n name = some name) :
    ∃ e, resolveProfile profiles name = .error e ∧ e ≠ .fuel := by
  cases hr : resolveProfile profiles name with
  | error e => exact ⟨e, rfl, fun he => resolve_total profiles name (he ▸ hr)⟩
  | ok v =>
    exfalso
    obtain ⟨names, chain, hc, _, _⟩ := resolve_ok_chain profiles name v hr
    have hend := chain_ends hc
    have hcyc := iterParent_cycle profiles n name hcycle names.length
    have hle : names.length ≤ n * names.length := Nat.le_mul_of_pos_left _ hn
    have := iterParent_none_mono profiles names.length (n * names.length - names.length) name hend
    rw [Nat.add_sub_cancel' hle, hcyc] at this
    cases this

/-- **C32.errors (missing).**  If the selected profile, or any profile reached from it through `extends` links, does
not exist, the result is a `ConfigError` (it is never silently ignored). -/
theorem missing_is_error (profiles : Fields) (name x : String) (m : Nat)
    (hreach : iterParent profiles m name = some x) (hmissing : profiles.get x = none) :
    ∃ e, resolveProfile profiles name = .error e ∧ e ≠ .fuel := by
  cases hr : resolveProfile profiles name with
  | error e => exact ⟨e, rfl, fun he => resolve_total profiles name (he ▸ hr)⟩
  | ok v =>
    exfalso
    obtain ⟨names, chain, hc, _, _⟩ := resolve_ok_chain profiles name v hr
    have := chain_members_exist hc m x hreach
    rw [hmissing] at this
    cases this

/-- the selected profile itself missing: the specific `Profile not found` error -/
theorem missing_selected (profiles : Fields) (name : String) (h : profiles.get name = none) :
    resolveProfile profiles name = .error .notFound := by
  unfold resolveProfile
  rw [resolve, h]

/-! ## known finding C32-1 and non-vacuity -/

def exProfile : Value := .obj (.cons "control" (.obj (.cons "port" (.int 4000) .nil)) .nil)
def exEnvAlias : Value := .obj (.cons "network" (.obj (.cons "control_port" (.int 5000) .nil)) .nil)
def exEnvSame : Value := .obj (.cons "control" (.obj (.cons "port" (.int 5000) .nil)) .nil)
def exDoc (env : Value) : Value :=
  .obj (.cons "profiles" (.obj (.cons "default" exProfile .nil)) (.cons "environments" (.obj (.cons "ci" env .nil)) .nil))

/-- **C32_counterexample (known finding C32-1).**  The environment layer sets the control port (5000, spelled
`network.control_port`), the selected profile sets it too (4000, spelled `control.port`): the property's
specification allows only the environment's value, the model of the code yields the profile's. -/
theorem alias_counterexample :
    (loadConfiguration (exDoc exEnvAlias) none (some "ci") {}).toOption.map (·.cport) = some (some 4000) ∧
    ((Spec.ConfigLayers.allowed (some exEnvAlias) [exProfile] cportPaths).map fun v => Value.beq v (.int 5000)) = [true] := by
  decide +kernel

/-- with one spelling in both layers the environment wins, as `precedence` says (non-vacuity of its hypotheses) -/
theorem same_spelling_example :
    (loadConfiguration (exDoc exEnvSame) none (some "ci") {}).toOption.map (·.cport) = some (some 5000) := by
  decide +kernel

/-- flags beat everything; a three-level `extends` chain with the nearest ancestor winning; an environment-selected
profile -/
example :
    let profiles : Value := .obj
      (.cons "default" (.obj (.cons "node" (.obj (.cons "default_ttl_seconds" (.int 100) (.cons "min_ttl_seconds" (.int 10) .nil))) .nil))
      (.cons "mid" (.obj (.cons "extends" (.str "default") (.cons "node" (.obj (.cons "default_ttl_seconds" (.int 200) .nil)) .nil)))
      (.cons "leaf" (.obj (.cons "extends" (.str "mid") (.cons "announce" (.obj (.cons "pow_difficulty" (.int 7) .nil)) .nil))) .nil)))
    let doc : Value := .obj (.cons "profiles" profiles
      (.cons "environments" (.obj (.cons "ci" (.obj (.cons "profile" (.str "leaf") .nil)) .nil)) .nil))
    (loadConfiguration doc none (some "ci") { pow := some 3 }).toOption.map (fun o => (o.ttl, o.min, o.pow))
      = some (some 200, some 10, some 3) := by
  decide +kernel

/-- cycles of length 1, 2 and a missing grandparent are errors with the documented codes -/
example :
    let p1 : Fields := .cons "a" (.obj (.cons "extends" (.str "a") .nil)) .nil
    let p2 : Fields := .cons "a" (.obj (.cons "extends" (.str "b") .nil)) (.cons "b" (.obj (.cons "extends" (.str "a") .nil)) .nil)
    let p3 : Fields := .cons "a" (.obj (.cons "extends" (.str "b") .nil)) (.cons "b" (.obj (.cons "extends" (.str "zz") .nil)) .nil)
    (resolveProfile p1 "a").toOption.isNone ∧ (resolveProfile p2 "a").toOption.isNone ∧ (resolveProfile p3 "a").toOption.isNone ∧
      (match resolveProfile p2 "a" with | .error .cycle => true | _ => false) = true ∧
      (match resolveProfile p3 "a" with | .error .notFound => true | _ => false) = true := by
  decide +kernel

end EphVerif.C32
