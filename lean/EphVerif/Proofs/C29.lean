import EphVerif.Model.ControlWire
import EphVerif.Spec.Control

namespace EphVerif.C29

/-- (T) the escape table of `encode_field_value` is the one the model uses -/
theorem encode_table_eq : Gen.C29.encodeTable = [(92, [92, 92]), (13, [92, 114]), (10, [10, 9])] := by decide

end EphVerif.C29
