/-
C29 — control responses reach the client intact, so list shows every chunk.

`roundtrip`: for every response the daemon can hand to `send_response` (keys distinct, over
`[A-Z_-]+`-like strings other than STATUS / PAYLOAD-LENGTH; values arbitrary bytes; no physical line
over the client's limit; payload within the client's limit), every iteration order of the field map:
`parse_response (send_response r)` = the same success flag, exactly the emitted fields (the
daemon's fields plus PAYLOAD-LENGTH when there is a payload), the same payload.
`list`: for every chunk snapshot, what `eph list` prints from the LIST response is the count line
followed by exactly one line per chunk, whatever the number of chunks and the emission order.
-/
import EphVerif.Lemmas.C29List
import EphVerif.Spec.Control

namespace EphVerif.C29
open EphVerif.Control

/-- (T) the escape table of `encode_field_value` is the one the model uses -/
theorem encode_table_eq : Gen.C29.encodeTable = [(92, [92, 92]), (13, [92, 114]), (10, [10, 9])] := by decide

/-- (T) both sides of the repair are present and the client's line limit is 16 KiB -/
theorem framing_present : Gen.C29.serverEncodesValues = 1 ∧ Gen.C29.clientDecodesValues = 1 ∧
    Gen.C29.kClientMaxLineLength = 16384 := by decide

/-- the model's `encode_field_value` follows the extracted table -/
theorem encodeValue_follows_table (v : Bytes) :
    encodeValue v = v.flatMap fun c =>
      match Gen.C29.encodeTable.find? (fun p => p.1 == c.toNat) with
      | some p => p.2.map UInt8.ofNat
      | none => [c] := by
  unfold encodeValue
  apply flatMap_congr'
  intro c _
  by_cases h92 : c = 92
  · subst h92; decide
  · by_cases h13 : c = 13
    · subst h13; decide
    · by_cases h10 : c = 10
      · subst h10; decide
      · have n92 : ¬ c.toNat = 92 := fun h => h92 (UInt8.toNat_inj.mp (by simpa using h))
        have n13 : ¬ c.toNat = 13 := fun h => h13 (UInt8.toNat_inj.mp (by simpa using h))
        have n10 : ¬ c.toNat = 10 := fun h => h10 (UInt8.toNat_inj.mp (by simpa using h))
        have e92 : (92 == c.toNat) = false := by simpa using Ne.symm n92
        have e13 : (13 == c.toNat) = false := by simpa using Ne.symm n13
        have e10 : (10 == c.toNat) = false := by simpa using Ne.symm n10
        simp [Gen.C29.encodeTable, h92, h13, h10, List.find?, e92, e13, e10]

/-! ## what the daemon can emit -/

/-- the property's key class: non-empty, over `A-Z`, `_`, `-` -/
def keyClass (k : Bytes) : Bool := !k.isEmpty && k.all fun b => (65 ≤ b.toNat && b.toNat ≤ 90) || b == 95 || b == 45

theorem keyOk_of_class {k : Bytes} (hc : keyClass k = true) (hs : k ≠ ascii "STATUS") (hp : k ≠ ascii "PAYLOAD-LENGTH") :
    KeyOk k := by
  unfold keyClass at hc
  simp only [Bool.and_eq_true, Bool.not_eq_eq_eq_not, Bool.not_true, List.all_eq_true, Bool.or_eq_true, decide_eq_true_eq,
    beq_iff_eq] at hc
  have hall := hc.2
  have hbyte : ∀ c ∈ k, (c ≠ 58 ∧ c ≠ 10 ∧ c ≠ 13) ∧ c ≠ 9 ∧ upperByte c = c := by
    intro c hcm
    rcases hall c hcm with (⟨h1, h2⟩ | h) | h
    · refine ⟨⟨?_, ?_, ?_⟩, ?_, ?_⟩
      · intro hh; subst hh; simp at h1
      · intro hh; subst hh; simp at h1
      · intro hh; subst hh; simp at h1
      · intro hh; subst hh; simp at h1
      · unfold upperByte
        have : ¬ (97 ≤ c.toNat ∧ c.toNat ≤ 122) := by omega
        simp [this]
    · subst h; decide
    · subst h; decide
  refine ⟨fun c h => (hbyte c h).1, ?_, ?_, hs, hp⟩
  · cases hk : k with
    | nil => simp
    | cons a t =>
      have := (hbyte a (by rw [hk]; simp)).2.1
      simpa using this
  · unfold toUpper
    conv => rhs; rw [← List.map_id k]
    apply List.map_congr_left
    intro c h
    exact (hbyte c h).2.2

/-- a response `send_response` can be given -/
structure Emittable (limit : Nat) (r : Response) : Prop where
  keys : ∀ e ∈ r.fields, KeyOk e.1
  lines : ∀ e ∈ r.fields, LinesOk clientMaxLine e.1 e.2
  nodup : (r.fields.map (·.1)).Nodup
  payloadLimit : r.payload.length ≤ limit
  payloadU64 : r.payload.length < 18446744073709551616
  noPayload : r.hasPayload = false → r.payload = []

/-! ## auxiliary facts on the folds -/

theorem foldl_setField_fresh : ∀ (emitted fs : Fields), (emitted.map (·.1)).Nodup →
    (∀ e ∈ emitted, ∀ p ∈ fs, p.1 ≠ e.1) →
    emitted.foldl (fun fs e => setField fs e.1 e.2) fs = fs ++ emitted
  | [], fs, _, _ => by simp
  | e :: emitted, fs, hn, hd => by
    simp only [List.map_cons, List.nodup_cons] at hn
    rw [List.foldl_cons, setField_fresh (hd e (by simp))]
    rw [foldl_setField_fresh emitted (fs ++ [(e.1, e.2)]) hn.2]
    · simp
    · intro e' he' p hp
      rcases List.mem_append.mp hp with hp | hp
      · exact hd e' (by simp [he']) p hp
      · have : p = (e.1, e.2) := by simpa using hp
        rw [this]
        intro heq
        exact hn.1 (by rw [heq]; exact List.mem_map_of_mem he')

theorem foldl_nextPL (n : Nat) (hn : n < 18446744073709551616) : ∀ (emitted : Fields) (init : Option Nat),
    (∀ e ∈ emitted, e.1 = ascii "PAYLOAD-LENGTH" → e.2 = toDec n) →
    emitted.foldl nextPL init = if emitted.any (fun e => e.1 == ascii "PAYLOAD-LENGTH") then some n else init
  | [], init, _ => by simp
  | e :: emitted, init, h => by
    rw [List.foldl_cons, foldl_nextPL n hn emitted _ (fun e' he' => h e' (by simp [he']))]
    by_cases hk : e.1 = ascii "PAYLOAD-LENGTH"
    · have := h e (by simp) hk
      simp only [nextPL, hk, ↓reduceIte, this, parseU64_toDec n hn, List.any_cons, beq_self_eq_true, Bool.true_or]
      split <;> rfl
    · have hk' : (e.1 == ascii "PAYLOAD-LENGTH") = false := by simpa using hk
      simp only [nextPL, hk, ↓reduceIte, List.any_cons, hk', Bool.false_or]

theorem status_line (success : Bool) (rest : Bytes) :
    lineLoop clientMaxLine clientLine (ascii (if success then "STATUS:OK\n" else "STATUS:ERROR\n") ++ rest) [] 0 {} =
      lineLoop clientMaxLine clientLine rest [] 0 { statusSeen := true, success := success } := by
  cases success with
  | true =>
    have h : ascii "STATUS:OK\n" = ascii "STATUS:OK" ++ [10] := by decide
    simp only [↓reduceIte, h, List.append_assoc, List.singleton_append]
    rw [lineLoop_line clientMaxLine clientLine (ascii "STATUS:OK") rest {} (by decide) (by decide)]
    have h2 : (stripCR (ascii "STATUS:OK")).isEmpty = false := by decide
    have h3 : clientLine {} (stripCR (ascii "STATUS:OK")) = .next { statusSeen := true, success := true } := by decide
    simp only [h2, Bool.false_eq_true, ↓reduceIte, h3]
  | false =>
    have h : ascii "STATUS:ERROR\n" = ascii "STATUS:ERROR" ++ [10] := by decide
    simp only [Bool.false_eq_true, ↓reduceIte, h, List.append_assoc, List.singleton_append]
    rw [lineLoop_line clientMaxLine clientLine (ascii "STATUS:ERROR") rest {} (by decide) (by decide)]
    have h2 : (stripCR (ascii "STATUS:ERROR")).isEmpty = false := by decide
    have h3 : clientLine {} (stripCR (ascii "STATUS:ERROR")) = .next { statusSeen := true, success := false } := by decide
    simp only [h2, Bool.false_eq_true, ↓reduceIte, h3]

theorem wireFields_eq {limit : Nat} {r : Response} (he : Emittable limit r) :
    r.wireFields = if r.hasPayload then r.fields ++ [(ascii "PAYLOAD-LENGTH", toDec r.payload.length)] else r.fields := by
  unfold Response.wireFields
  split
  · rw [setField_fresh (fun p hp => (he.keys p hp).notPL)]
  · rfl

/-- **C29.roundtrip** -/
theorem roundtrip (limit : Nat) (r : Response) (emitted : Fields) (he : Emittable limit r) (hperm : emitted.Perm r.wireFields) :
    parseResponse limit (serialise r.success emitted r.payload) =
      { success := r.success, fields := emitted, hasPayload := r.hasPayload, payload := r.payload } := by
  have hw := wireFields_eq he
  -- every emitted entry is an ordinary field or the PAYLOAD-LENGTH entry
  have hentry : ∀ e ∈ emitted, EntryOk clientMaxLine e := by
    intro e hem
    have hmem := hperm.mem_iff.mp hem
    rw [hw] at hmem
    split at hmem
    · rcases List.mem_append.mp hmem with h | h
      · exact Or.inl ⟨he.keys e h, he.lines e h⟩
      · exact Or.inr ⟨r.payload.length, he.payloadU64, by simpa using h⟩
    · exact Or.inl ⟨he.keys e hmem, he.lines e hmem⟩
  -- its keys are distinct
  have hnodup : (emitted.map (·.1)).Nodup := by
    have hp : (emitted.map (·.1)).Perm (r.wireFields.map (·.1)) := hperm.map _
    rw [hp.nodup_iff, hw]
    split
    · rw [List.map_append, List.nodup_append]
      refine ⟨he.nodup, by simp, ?_⟩
      intro a ha b hb
      obtain ⟨p, hp', rfl⟩ := List.mem_map.mp ha
      have : b = ascii "PAYLOAD-LENGTH" := by simpa using hb
      rw [this]
      exact (he.keys p hp').notPL
    · exact he.nodup
  -- a PAYLOAD-LENGTH entry, if any, carries the payload's length
  have hplval : ∀ e ∈ emitted, e.1 = ascii "PAYLOAD-LENGTH" → e.2 = toDec r.payload.length := by
    intro e hem hk
    have hmem := hperm.mem_iff.mp hem
    rw [hw] at hmem
    split at hmem
    · rcases List.mem_append.mp hmem with h | h
      · exact absurd hk (he.keys e h).notPL
      · have : e = (ascii "PAYLOAD-LENGTH", toDec r.payload.length) := by simpa using h
        rw [this]
    · exact absurd hk (he.keys e hmem).notPL
  have hany : emitted.any (fun e => e.1 == ascii "PAYLOAD-LENGTH") = r.hasPayload := by
    cases hh : r.hasPayload with
    | true =>
      rw [List.any_eq_true]
      refine ⟨(ascii "PAYLOAD-LENGTH", toDec r.payload.length), hperm.mem_iff.mpr ?_, by simp⟩
      rw [hw, hh]; simp
    | false =>
      rw [List.any_eq_false]
      intro e hem
      have hmem := hperm.mem_iff.mp hem
      rw [hw, hh] at hmem
      simpa using (he.keys e hmem).notPL
  unfold parseResponse serialise
  rw [status_line]
  obtain ⟨c, hloop⟩ := fields_loop clientMaxLine (by decide) emitted r.payload { statusSeen := true, success := r.success } hentry
  rw [hloop]
  simp only [foldl_setField_fresh emitted [] hnodup (by intro e _ p hp; simp at hp), List.nil_append,
    foldl_nextPL r.payload.length he.payloadU64 emitted none hplval, hany, ↓reduceIte]
  cases hh : r.hasPayload with
  | true =>
    have h1 : ¬ r.payload.length > limit := by have := he.payloadLimit; omega
    simp only [↓reduceIte, h1, Nat.lt_irrefl, and_false, List.take_length]
  | false =>
    simp only [Bool.false_eq_true, ↓reduceIte, he.noPayload hh]

/-- corollary in the specification's terms: the client's view is the daemon's, as a map -/
theorem roundtrip_view (limit : Nat) (r : Response) (emitted : Fields) (he : Emittable limit r) (hperm : emitted.Perm r.wireFields) :
    let c := parseResponse limit (serialise r.success emitted r.payload)
    c.success = r.success ∧ c.fields.Perm r.wireFields ∧ c.hasPayload = r.hasPayload ∧ c.payload = r.payload := by
  simp only [roundtrip limit r emitted he hperm]
  exact ⟨trivial, hperm, trivial, trivial⟩

/-! ## LIST -/

theorem getField_of_mem {fs : Fields} {k v : Bytes} (hn : (fs.map (·.1)).Nodup) (hm : (k, v) ∈ fs) : getField fs k = some v := by
  induction fs with
  | nil => simp at hm
  | cons p fs ih =>
    simp only [List.map_cons, List.nodup_cons] at hn
    unfold getField
    by_cases hp : p.1 = k
    · rcases List.mem_cons.mp hm with h | h
      · subst h; simp
      · exfalso; exact hn.1 (by rw [hp]; exact List.mem_map_of_mem (f := (·.1)) h)
    · have hne : (p.1 == k) = false := by simpa using hp
      rcases List.mem_cons.mp hm with h | h
      · subst h; simp at hp
      · have := ih hn.2 h
        unfold getField at this
        simp only [List.find?_cons, hne]
        exact this

theorem listEmittable (limit : Nat) (snapshot : List ChunkEntry) (hv : ∀ e ∈ snapshot, EntryValid e)
    (hcount : snapshot.length < 18446744073709551616) : Emittable limit (handleList snapshot) := by
  have hkCode : KeyOk (ascii "CODE") := keyOk_of_class (by decide) (by decide) (by decide)
  have hkCount : KeyOk (ascii "COUNT") := keyOk_of_class (by decide) (by decide) (by decide)
  have hkEntries : KeyOk (ascii "ENTRIES") := keyOk_of_class (by decide) (by decide) (by decide)
  have hkeys : ((handleList snapshot).fields.map (·.1)).Nodup := by
    show ([ascii "CODE", ascii "COUNT", ascii "ENTRIES"] : List Bytes).Nodup
    decide
  refine ⟨?_, ?_, hkeys, by simp [handleList], by simp [handleList], by simp [handleList]⟩
  · intro e he
    simp only [handleList, List.mem_cons, List.mem_nil_iff, or_false] at he
    rcases he with rfl | rfl | rfl <;> assumption
  · intro e he
    simp only [handleList, List.mem_cons, List.mem_nil_iff, or_false] at he
    rcases he with rfl | rfl | rfl
    · intro l hl
      have : splitBy 10 (ascii "CODE" ++ 58 :: encodeValue (ascii "OK_LIST")) [] = [ascii "CODE:OK_LIST"] := by decide
      rw [this] at hl
      have : l = ascii "CODE:OK_LIST" := by simpa using hl
      rw [this]; decide
    · intro l hl
      have hd := toDec_clean snapshot.length
      have henc : encodeValue (toDec snapshot.length) = toDec snapshot.length := by
        rw [encodeValue_noLF (fun c hc => (hd c hc).1), escSeg_id (fun c hc => ⟨(hd c hc).2.2.1, (hd c hc).2.1⟩)]
      simp only at hl
      have hkc : ∀ c ∈ ascii "COUNT", c ≠ 10 := by decide
      rw [henc, splitBy_noSep 10 _ [] (by
        intro c hc
        rcases List.mem_append.mp hc with h | h
        · exact hkc c h
        · rcases List.mem_cons.mp h with rfl | h
          · decide
          · exact (hd c h).1)] at hl
      have : l = ascii "COUNT" ++ 58 :: toDec snapshot.length := by simpa using hl
      rw [this]
      have h20 := toDec_len20 hcount
      have h5 : (ascii "COUNT").length = 5 := by decide
      simp only [List.length_append, List.length_cons, h5, clientMaxLine]
      have : Gen.C29.kClientMaxLineLength = 16384 := by decide
      omega
    · intro l hl
      simp only at hl
      have henc := encodeValue_entries snapshot hv
      unfold entriesValue at henc
      rw [henc] at hl
      have hshape : ascii "ENTRIES" ++ 58 :: (snapshot.flatMap fun e => entryText e ++ [10, 9]) =
          (ascii "ENTRIES" ++ [58]) ++ (snapshot.flatMap fun e => entryText e ++ [10, 9]) := by simp
      rw [hshape] at hl
      have := entries_lines_short snapshot (ascii "ENTRIES" ++ [58]) hv (by decide) (by decide) l hl
      have h2 : Gen.C29.kClientMaxLineLength = 16384 := by decide
      simp only [clientMaxLine, h2]
      omega

/-- **C29.list**: whatever the number of chunks and the order in which the three fields are emitted,
    `eph list` prints the count and one line per chunk of the snapshot, in snapshot order -/
theorem list (limit : Nat) (snapshot : List ChunkEntry) (emitted : Fields)
    (hv : ∀ e ∈ snapshot, EntryValid e) (hcount : snapshot.length < 18446744073709551616)
    (hperm : emitted.Perm (handleList snapshot).wireFields) :
    printList (parseResponse limit (serialise true emitted [])) =
      (ascii "Local chunks: " ++ toDec snapshot.length) :: snapshot.map cliLine := by
  have he := listEmittable limit snapshot hv hcount
  have hr := roundtrip limit (handleList snapshot) emitted he hperm
  have hs : (handleList snapshot).success = true := rfl
  have hp : (handleList snapshot).payload = [] := rfl
  rw [hs, hp] at hr
  rw [hr]
  have hnodup : (emitted.map (·.1)).Nodup := by
    have hp' : (emitted.map (·.1)).Perm ((handleList snapshot).wireFields.map (·.1)) := hperm.map _
    rw [hp'.nodup_iff]
    show ([ascii "CODE", ascii "COUNT", ascii "ENTRIES"] : List Bytes).Nodup
    decide
  have hmem : (ascii "ENTRIES", entriesValue snapshot) ∈ emitted := by
    rw [hperm.mem_iff]
    simp [Response.wireFields, handleList, entriesValue]
  unfold printList
  simp only [getField_of_mem hnodup hmem, cli_entries snapshot hv, List.length_map]

/-- the listing in the exact form of the model's `expectedListing` -/
theorem list_expected (limit : Nat) (snapshot : List ChunkEntry) (emitted : Fields)
    (hv : ∀ e ∈ snapshot, EntryValid e) (hcount : snapshot.length < 18446744073709551616)
    (hperm : emitted.Perm (handleList snapshot).wireFields) :
    printList (parseResponse limit (serialise true emitted [])) = expectedListing snapshot ∧
    (printList (parseResponse limit (serialise true emitted []))).length = snapshot.length + 1 := by
  rw [list limit snapshot emitted hv hcount hperm]
  exact ⟨rfl, by simp⟩

/-! ## non-vacuity -/

/-- a response with a two-line value, a value made of CR / backslash / TAB / colon bytes, an empty value and a payload -/
def sample : Response :=
  { success := true,
    fields := [(ascii "ENTRIES", ascii "aa,1,plain,5\nbb,2,plain,6\n"), (ascii "WEIRD-KEY_", [13, 92, 92, 114, 9, 58, 10, 10, 92]),
               (ascii "EMPTY", [])],
    hasPayload := true, payload := ascii "payload bytes" }

example : Emittable 100 sample := by
  refine ⟨?_, ?_, by decide, by decide, by decide, by decide⟩
  · intro e he
    simp only [sample, List.mem_cons, List.mem_nil_iff, or_false] at he
    rcases he with rfl | rfl | rfl <;> exact keyOk_of_class (by decide) (by decide) (by decide)
  · intro e he
    simp only [sample, List.mem_cons, List.mem_nil_iff, or_false] at he
    rcases he with rfl | rfl | rfl <;> (intro l hl; revert l; decide)

/-- without the repair's encoding the same bytes do not survive: the raw value would end the header at its blank line -/
example : (parseResponse 100 (ascii "STATUS:OK\nX:a\n\nb\n\n")).fields ≠ [(ascii "X", ascii "a\n\nb")] := by decide

/-- two valid chunk entries (so `list` is about a listing with more than one chunk) -/
example : ∃ a b : ChunkEntry, a ≠ b ∧ EntryValid a ∧ EntryValid b :=
  ⟨{ idHex := List.replicate 64 97, size := 7, encrypted := true, ttl := 3600 },
   { idHex := List.replicate 64 98, size := 8, encrypted := false, ttl := 0 },
   by decide,
   ⟨by decide, by decide, by decide, by decide⟩, ⟨by decide, by decide, by decide, by decide⟩⟩

end EphVerif.C29
