import EphVerif.Lemmas.C33

/-!
# C33 — STUN responses are parsed exactly and safely

Property: *for any datagram, STUN response parsing never reads outside it, and it reports an address only for a
Binding Success response whose transaction id matches, taken from a well-formed MAPPED-ADDRESS or
XOR-MAPPED-ADDRESS attribute and decoded exactly as RFC 5389 specifies for IPv4 and IPv6.*

`Stun.parse` is the model of `parse_stun_response` (checked reads, constants regenerated from the source),
`StunSpec.mappedAddress` the RFC 5389 specification.  No bound on the datagram length.
-/
namespace EphVerif.C33
open EphVerif EphVerif.Stun EphVerif.Gen.C33 EphVerif.C33L

/-! ## generated-constant obligations: the literal numbers of RFC 5389 -/

theorem cookie_eq : kStunMagicCookie = 0x2112A442 := by decide
theorem header_eq : kHeaderMin = 20 ∧ kHeaderSize = 20 ∧ kBodyOffset = 20 ∧ kTxidOffset = 8 := by decide
theorem binding_success_eq : kBindingSuccess = 0x0101 := by decide
theorem attr_types_eq : kAttrMapped = 0x0001 ∧ kAttrXorMapped = 0x0020 ∧ kAttrXorMapped2 = 0x0020 := by decide
theorem families_eq : kFamilyV4 = 1 ∧ kFamilyV6 = 2 ∧ kAddrMinLen = 4 ∧ kV4MinLen = 8 ∧ kV6MinLen = 20 := by decide
theorem attr_header_counted : kAttrHdrInBound = 4 ∧ kPortXorShift = 16 := by decide

/-! ## exactness -/

/-- **C33.exact** (functional form).  For every datagram `d` and every 12-byte transaction id, the parser's result is the
RFC 5389 answer: `none` unless `d` is a Binding Success response (type `0x0101`) whose declared length fits the datagram
and whose transaction id equals `tx`; otherwise the RFC decoding of the first (wire order) MAPPED-ADDRESS /
XOR-MAPPED-ADDRESS attribute inside the declared message length that carries a family-1 or family-2 address. -/
theorem exact (d tx : List UInt8) (htx : tx.length = 12) :
    parse d tx = ofSpec (StunSpec.mappedAddress d tx) := by
  unfold parse StunSpec.mappedAddress
  have c1 : kHeaderMin = 20 := rfl
  have c2 : kHeaderSize = 20 := rfl
  have c3 : kBindingSuccess = 257 := rfl
  have c4 : kTxidOffset = 8 := rfl
  have c5 : kBodyOffset = 20 := rfl
  by_cases h20 : d.length < kHeaderMin
  · rw [if_pos h20]
    have : StunSpec.isOurSuccess d tx = false := by
      unfold StunSpec.isOurSuccess
      rcases d with _ | ⟨a, _ | ⟨b, _ | ⟨c, _ | ⟨e, rest⟩⟩⟩⟩ <;> simp [c1] at h20 ⊢
      intro h; omega
    simp [this, ofSpec]
  · rw [if_neg h20]
    obtain ⟨t0, t1, l0, l1, rest, rfl⟩ : ∃ t0 t1 l0 l1 rest, d = t0 :: t1 :: l0 :: l1 :: rest := by
      rcases d with _ | ⟨a, _ | ⟨b, _ | ⟨c, _ | ⟨e, rest⟩⟩⟩⟩ <;> simp [c1] at h20
      exact ⟨_, _, _, _, _, rfl⟩
    generalize hd : t0 :: t1 :: l0 :: l1 :: rest = d at *
    have r0 : rd d 0 = some t0 := by subst hd; rfl
    have r1 : rd d 1 = some t1 := by subst hd; rfl
    have r2 : rd d 2 = some l0 := by subst hd; rfl
    have r3 : rd d 3 = some l1 := by subst hd; rfl
    have hbe : ∀ a b : UInt8, Stun.be16 a b = StunSpec.be16 a b := fun _ _ => rfl
    have hsucc : StunSpec.isOurSuccess d tx =
        (decide (StunSpec.be16 t0 t1 = 0x0101) && decide (20 + StunSpec.be16 l0 l1 ≤ d.length) &&
          ((d.drop 8).take 12 == tx)) := by
      subst hd; unfold StunSpec.isOurSuccess
      have : 20 ≤ (t0 :: t1 :: l0 :: l1 :: rest).length := by rw [c1] at h20; omega
      simp only [decide_eq_true this, Bool.true_and]
    have hdecl : StunSpec.declaredLength d = StunSpec.be16 l0 l1 := by subst hd; rfl
    simp only [r0, r1, r2, r3, hbe, hsucc]
    by_cases hty : StunSpec.be16 t0 t1 = 257
    · by_cases hfit : 20 + StunSpec.be16 l0 l1 ≤ d.length
      · rw [if_neg (by omega)]
        have hrd : rdN d kTxidOffset tx.length = some ((d.drop 8).take 12) := by
          unfold rdN; rw [htx, c4, if_pos (by omega)]
        rw [hrd]
        by_cases heq : (d.drop 8).take 12 = tx
        · simp only [heq, ne_eq, not_true_eq_false, if_false]
          rw [c5, loop_eq d tx htx _ _ hfit]
          simp [hty, hfit, StunSpec.body, hdecl]
        · simp [heq, hty, hfit, ofSpec]
      · rw [if_pos (Or.inr (by omega))]; simp [hfit, ofSpec]
    · rw [if_pos (Or.inl (by omega))]; simp [hty, ofSpec]

/-- **C33.exact** (the "only … iff" reading of the property).  An address is reported iff the datagram is a Binding
Success response to our transaction (`isOurSuccess`) and the attribute list inside the declared message length splits as
`pre ++ a :: post` where no attribute of `pre` is a usable address attribute, and the reported triple is the RFC 5389
decoding of `a` — i.e. the *first* usable MAPPED-ADDRESS / XOR-MAPPED-ADDRESS attribute in wire order. -/
theorem exact_iff (d tx : List UInt8) (htx : tx.length = 12) (f : Nat) (b : List UInt8) (p : Nat) :
    parse d tx = Out.addr f b p ↔
      StunSpec.isOurSuccess d tx = true ∧
      ∃ pre a post, StunSpec.attrs (StunSpec.body d) = pre ++ a :: post ∧
        (∀ x ∈ pre, StunSpec.addrOfAttr tx x = none) ∧ StunSpec.addrOfAttr tx a = some ⟨f, b, p⟩ := by
  rw [exact d tx htx]
  unfold StunSpec.mappedAddress
  by_cases hs : StunSpec.isOurSuccess d tx = true
  · simp only [hs, if_true, true_and]
    constructor
    · intro h
      cases hfs : (StunSpec.attrs (StunSpec.body d)).findSome? (StunSpec.addrOfAttr tx) with
      | none => simp [hfs, ofSpec] at h
      | some r =>
        simp only [hfs, ofSpec, Out.addr.injEq] at h
        obtain ⟨pre, a, post, h1, h2, h3⟩ := List.findSome?_eq_some_iff.mp hfs
        refine ⟨pre, a, post, h1, h3, ?_⟩
        rw [h2]; cases r; simp_all
    · rintro ⟨pre, a, post, h1, h2, h3⟩
      have : (StunSpec.attrs (StunSpec.body d)).findSome? (StunSpec.addrOfAttr tx) = some ⟨f, b, p⟩ :=
        List.findSome?_eq_some_iff.mpr ⟨pre, a, post, h1, h3, h2⟩
      simp [this, ofSpec]
  · simp [hs, ofSpec]

/-! ## safety -/

/-- **C33.safe**.  For every datagram (no length bound) and every 12-byte transaction id, no read of the parser falls
outside the datagram or the transaction-id array. -/
theorem safe (d tx : List UInt8) (htx : tx.length = 12) : parse d tx ≠ Out.oob := by
  rw [exact d tx htx]
  cases StunSpec.mappedAddress d tx <;> simp [ofSpec]

/-- Nothing is ever reported for a message that is not a Binding Success response with our transaction id. -/
theorem only_our_success (d tx : List UInt8) (htx : tx.length = 12) (h : StunSpec.isOurSuccess d tx = false) :
    parse d tx = Out.none := by
  rw [exact d tx htx]; simp [StunSpec.mappedAddress, h, ofSpec]

/-! ## non-vacuity: concrete datagrams through model and specification -/

private def tx0 : List UInt8 := [0,1,2,3,4,5,6,7,8,9,10,11]
private def hdr (len : UInt8) : List UInt8 := [1, 1, 0, len, 0x21, 0x12, 0xA4, 0x42] ++ tx0

set_option maxRecDepth 8192

/-- XOR-MAPPED-ADDRESS, IPv4 10.8.8.8:4660, after an 5-byte SOFTWARE attribute padded to 8 -/
example : parse (hdr 24 ++ [0x80, 0x22, 0, 5, 1, 2, 3, 4, 5, 0, 0, 0] ++ [0, 0x20, 0, 8, 0, 1, 0x33, 0x26, 0x2b, 0x1a, 0xac, 0x4a]) tx0
    = Out.addr 1 [10, 8, 8, 8] 4660 := by decide
/-- the witness of the repaired defect: the value overruns the declared length (8) but not the datagram -/
example : parse (hdr 8 ++ [0, 1, 0, 8, 0, 1, 0x12, 0x34, 8, 8, 8, 8]) tx0 = Out.none := by decide
example : StunSpec.mappedAddress (hdr 12 ++ [0, 1, 0, 8, 0, 1, 0x12, 0x34, 8, 8, 8, 8]) tx0 = some ⟨1, [8, 8, 8, 8], 4660⟩ := by decide
/-- wire-order precedence: MAPPED-ADDRESS first wins over a later XOR-MAPPED-ADDRESS -/
example : parse (hdr 24 ++ [0, 1, 0, 8, 0, 1, 0x12, 0x34, 8, 8, 8, 8] ++ [0, 0x20, 0, 8, 0, 1, 0x33, 0x26, 0x2b, 0x1a, 0xac, 0x4a]) tx0
    = Out.addr 1 [8, 8, 8, 8] 4660 := by decide
example : tx0.length = 12 := rfl

end EphVerif.C33
