import EphVerif.Model.Announce

namespace EphVerif.C21
open EphVerif.Announce

/-- generated constant obligation: 120 s / 180 s / 3 as the property names them -/
theorem constants : failureWindow = 120 * NS ∧ lockoutDuration = 180 * NS ∧ failureThreshold = 3 := by decide

end EphVerif.C21
