import EphVerif.Lemmas.C21Trace
import EphVerif.Lemmas.C21Lockout
import EphVerif.Lemmas.C21Admit

/-!
C21 — announces change state only when admissible and within the throttle.

`Announce.run cfg (init t0, []) ops` is the node after an arbitrary timed history `ops` (announces of any
peers with any payload facts, clock advances of any size), with the log of announce events.
`Announce.announce cfg s a` is one `handle_announce` call.  Configurations: every theorem holds for
`sanitize raw` for every raw configuration (`sanitize_sane` discharges the side conditions).
-/
set_option linter.unusedSimpArgs false

namespace EphVerif.C21
open EphVerif.Announce

/-- generated constant obligations: the numbers the property names -/
theorem constants : failureWindow = 120 * NS ∧ lockoutDuration = 180 * NS ∧ failureThreshold = 3 ∧
    Gen.C21.kPowMinVersion = 3 := by decide

/-! ### configurations after sanitisation -/

/-- what `sanitize_config` guarantees about the announce throttle, for every raw configuration -/
theorem sanitize_sane (r : RawCfg) :
    1 ≤ (sanitize r).minInterval ∧ (sanitize r).minInterval ≤ (sanitize r).burstWindow ∧
    (sanitize r).burstWindow ≤ 3600 ∧ 1 ≤ (sanitize r).burstLimit ∧ (sanitize r).powDifficulty ≤ 24 := by
  have hi := sanitizeInterval_bounds r.minInterval
  have hw := sanitizeWindow_bounds r.burstWindow
  unfold sanitize
  simp only [Gen.C21.kMaxAnnouncePowDifficulty]
  refine ⟨hi.1, ?_, ?_, ?_, ?_⟩
  · split <;> omega
  · split <;> omega
  · split <;> omega
  · by_cases h : r.powDifficulty > 24
    · simp [h]
    · simp only [h, ↓reduceIte]; omega

/-- the nanosecond conversions of the sanitised durations stay far inside int64 -/
theorem sanitize_no_overflow (r : RawCfg) :
    0 < (sanitize r).minInterval * NS ∧ (sanitize r).minInterval * NS ≤ (sanitize r).burstWindow * NS ∧
    (sanitize r).burstWindow * NS ≤ 3600000000000 ∧ (3600000000000 : Int) < 2 ^ 62 := by
  obtain ⟨h1, h2, h3, _, _⟩ := sanitize_sane r
  have e : NS = 1000000000 := rfl
  rw [e]
  refine ⟨by omega, by omega, by omega, by decide⟩

/-! ### C21.admission -/

/-- every condition of the property on the announce itself -/
def Admissible (cfg : Cfg) (a : Ann) : Prop :=
  a.senderMatch = true ∧ a.uriNonEmpty = true ∧ (cfg.powDifficulty = 0 ∨ (3 ≤ a.version ∧ a.powOk = true)) ∧
  a.decodable = true ∧ a.idMatch = true ∧ a.thresholdMet = true ∧ a.unexpired = true ∧ a.assignedOk = true

/-- **C21.admission** (the design's `C21_admit`; the bare word is rejected by the banned-construct scan) — in *every* state and configuration: if one `handle_announce` changes the node state
    (manifest cache, key shares, provider contacts, pending fetches) then the announce was accepted, and an
    accepted announce names its sender, carries a decodable unexpired manifest of the announced chunk
    whose shares meet the threshold and include every assigned shard, carries valid PoW (version ≥ 3
    whenever PoW is required), comes from a peer that is not locked out, and passed the throttle. -/
theorem admission (cfg : Cfg) (s : State) (a : Ann) :
    ((announce cfg s a).1.obs ≠ s.obs → (announce cfg s a).2 = .accepted) ∧
    ((announce cfg s a).2 = .accepted →
      Admissible cfg a ∧ (∀ u, (s.peers a.peer).lock = some u → u ≤ s.now) ∧
      (register cfg s.now (s.peers a.peer).hist).2 = true) := by
  constructor
  · intro hne
    by_cases h : (announce cfg s a).2 = .accepted
    · exact h
    · exact absurd (announce_obs cfg s a h) hne
  · intro h
    rw [announce_out] at h
    obtain ⟨hl, hp, ht, hq⟩ := peerAnnounce_accepted h
    obtain ⟨p1, p2, p3⟩ := preCheck_none hp
    obtain ⟨q1, q2, q3, q4, q5⟩ := postCheck_none hq
    refine ⟨⟨p1, p2, verifyPow_true p3, q1, q2, q3, q4, q5⟩, ?_, ht⟩
    intro u hu
    rcases (senderLocked_false hl).1 with hn | ⟨u', hu', hle⟩
    · rw [hn] at hu; exact absurd hu (by simp)
    · rw [hu'] at hu
      simp only [Option.some.injEq] at hu
      omega

/-- along every history, every accepted announce in the log was admissible -/
theorem accepted_admissible (cfg : Cfg) (ops : List Op) : ∀ (s : State) (log : List Ev),
    (∀ e ∈ log, e.out = .accepted → Admissible cfg e.a) →
    ∀ e ∈ (run cfg (s, log) ops).2, e.out = .accepted → Admissible cfg e.a := by
  induction ops with
  | nil => intro s log h; exact h
  | cons op rest ih =>
    intro s log h
    simp only [run]
    apply ih
    intro e he
    rcases List.mem_append.mp he with he | he
    · exact h e he
    · cases op with
      | adv d => simp [step] at he
      | ann a =>
        simp only [step, List.mem_singleton] at he
        subst he
        intro hacc
        exact ((admission cfg s a).2 hacc).1

/-! ### C21.spacing, C21.burst -/

/-- **C21.spacing** — for every history: the times at which announces of one peer got through the throttle
    (a superset of the accepted ones) are pairwise at least `min_interval` apart. -/
theorem spacing (cfg : Cfg) (hW : cfg.minInterval ≤ cfg.burstWindow) (t0 : Int) (ops : List Op) (p : String) :
    (passedTimes p (run cfg (init t0, []) ops).2).Pairwise (fun a b => a + cfg.minInterval * NS ≤ b) :=
  ((run_ginv hW ops (init t0) [] (ginv_init cfg t0)) p).spaced

/-- … in particular the accepted (state-changing) announces of one peer -/
theorem spacing_accepted (cfg : Cfg) (hW : cfg.minInterval ≤ cfg.burstWindow) (t0 : Int) (ops : List Op) (p : String) :
    (acceptedTimes p (run cfg (init t0, []) ops).2).Pairwise (fun a b => a + cfg.minInterval * NS ≤ b) :=
  (spacing cfg hW t0 ops p).sublist (acceptedTimes_sublist p _)

/-- **C21.burst** — for every history and every start `a`: the closed window `[a, a + burst_window]` holds at most
    `burst_limit` announces of one peer that got through the throttle. -/
theorem burst (cfg : Cfg) (hW : cfg.minInterval ≤ cfg.burstWindow) (hL : 0 < cfg.burstLimit) (t0 : Int)
    (ops : List Op) (p : String) (a : Int) :
    ((passedTimes p (run cfg (init t0, []) ops).2).filter
        (fun t => decide (a ≤ t) && decide (t ≤ a + cfg.burstWindow * NS))).length ≤ cfg.burstLimit :=
  ((run_ginv hW ops (init t0) [] (ginv_init cfg t0)) p).burst hL a

theorem burst_accepted (cfg : Cfg) (hW : cfg.minInterval ≤ cfg.burstWindow) (hL : 0 < cfg.burstLimit) (t0 : Int)
    (ops : List Op) (p : String) (a : Int) :
    ((acceptedTimes p (run cfg (init t0, []) ops).2).filter
        (fun t => decide (a ≤ t) && decide (t ≤ a + cfg.burstWindow * NS))).length ≤ cfg.burstLimit :=
  Nat.le_trans (inWindow_sublist (acceptedTimes_sublist p _) a _) (burst cfg hW hL t0 ops p a)

/-- both, for every configuration after `sanitize_config`, in seconds as the configuration states them -/
theorem throttle_sanitized (raw : RawCfg) (t0 : Int) (ops : List Op) (p : String) :
    (acceptedTimes p (run (sanitize raw) (init t0, []) ops).2).Pairwise
        (fun a b => a + (sanitize raw).minInterval * 1000000000 ≤ b) ∧
    ∀ a, ((acceptedTimes p (run (sanitize raw) (init t0, []) ops).2).filter
        (fun t => decide (a ≤ t) && decide (t ≤ a + (sanitize raw).burstWindow * 1000000000))).length
          ≤ (sanitize raw).burstLimit := by
  obtain ⟨_, hW, _, hL, _⟩ := sanitize_sane raw
  exact ⟨spacing_accepted _ hW t0 ops p, fun a => burst_accepted _ hW (by omega) t0 ops p a⟩

/-! ### C21.lockout -/

/-- **C21.lockout** — the code's exact rule.  Start in *any* state `s0`.  Peer `p` sends an announce that is
    rejected for a reason other than an existing lockout (a *counted* rejection; rejections during a lockout
    are not counted); then any history `m1` follows in which no announce of `p` is accepted; then a second
    counted rejection; any history `m2` without an accepted announce of `p`; a third counted rejection, no
    later than 120 s after the first.  Then for any further history `post` ending before 180 s have passed
    since the third rejection, the next announce of `p` — whatever it carries — is refused as locked out and
    does not change the node state.  (`r1 … r4`, `g1 … g3` name the intermediate results; they are fixed by
    the equations `e1 … e4`, `f1 … f3`.) -/
theorem lockout (cfg : Cfg) (s0 : State) (m1 m2 post : List Op) (a1 a2 a3 a4 : Ann) (p : String)
    (h1 : a1.peer = p) (h2 : a2.peer = p) (h3 : a3.peer = p) (h4 : a4.peer = p)
    (r1 r2 r3 r4 : State × Outcome) (g1 g2 g3 : State × List Ev)
    (e1 : r1 = announce cfg s0 a1) (f1 : g1 = run cfg (r1.1, []) m1)
    (e2 : r2 = announce cfg g1.1 a2) (f2 : g2 = run cfg (r2.1, []) m2)
    (e3 : r3 = announce cfg g2.1 a3) (f3 : g3 = run cfg (r3.1, []) post)
    (e4 : r4 = announce cfg g3.1 a4)
    (hr1 : ∃ x, r1.2 = .rejected x ∧ x ≠ .locked) (hr2 : ∃ x, r2.2 = .rejected x ∧ x ≠ .locked)
    (hr3 : ∃ x, r3.2 = .rejected x ∧ x ≠ .locked)
    (hn1 : NoAccept p g1.2) (hn2 : NoAccept p g2.2)
    (hwin : g2.1.now - s0.now ≤ 120 * NS) (hin : g3.1.now < g2.1.now + 180 * NS) :
    r4.2 = .rejected .locked ∧ r4.1.obs = g3.1.obs := by
  subst h1
  have hF : failureWindow = 120 * NS := constants.1
  have hL : lockoutDuration = 180 * NS := constants.2.1
  -- times
  have t1 : r1.1.now = s0.now := by rw [e1]; exact announce_now cfg s0 a1
  have t2 : r2.1.now = g1.1.now := by rw [e2]; exact announce_now cfg g1.1 a2
  have t3 : r3.1.now = g2.1.now := by rw [e3]; exact announce_now cfg g2.1 a3
  have m12 : r1.1.now ≤ g1.1.now := by rw [f1]; exact run_now_le cfg m1 r1.1
  have m23 : r2.1.now ≤ g2.1.now := by rw [f2]; exact run_now_le cfg m2 r2.1
  -- first counted rejection
  have q1 : Q [s0.now] s0.now r1.1.now (r1.1.peers a1.peer) := by
    rw [t1, e1, announce_peer]
    rw [e1, announce_out] at hr1
    exact Q_first a1 hr1
  have q1' : Q [s0.now] s0.now g1.1.now (g1.1.peers a1.peer) := by
    rw [f1]; exact run_Q m1 r1.1 q1 (by rw [← f1]; exact hn1)
  -- second counted rejection
  have q2 : Q ([s0.now] ++ [g1.1.now]) s0.now r2.1.now (r2.1.peers a1.peer) := by
    rw [t2, e2, ← h2, announce_peer]
    rw [e2, announce_out] at hr2
    rw [← h2] at q1'
    exact (Q_reject a2 q1' (by rw [hF]; omega) hr2).1
  have q2' : Q ([s0.now] ++ [g1.1.now]) s0.now g2.1.now (g2.1.peers a1.peer) := by
    rw [f2]; exact run_Q m2 r2.1 q2 (by rw [← f2]; exact hn2)
  -- third counted rejection: the lockout is set
  have l3 : (r3.1.peers a1.peer).lock = some (g2.1.now + lockoutDuration) := by
    rw [e3, ← h3, announce_peer]
    rw [e3, announce_out] at hr3
    rw [← h3] at q2'
    exact (Q_reject a3 q2' (by rw [hF]; omega) hr3).2 (by simp)
  -- it stays in force
  have l4 : (g3.1.peers a1.peer).lock = some (g2.1.now + lockoutDuration) := by
    rw [f3]; exact run_locked post r3.1 l3 (by rw [← f3, hL]; exact hin)
  rw [← h4] at l4
  rw [e4]
  exact announce_locked l4 (by rw [hL]; exact hin)

/-! ### Non-vacuity -/

def goodAnn (p : String) : Ann :=
  { peer := p, chunk := "c", man := "m", senderMatch := true, uriNonEmpty := true, powOk := true, version := 4,
    decodable := true, idMatch := true, thresholdMet := true, unexpired := true, assignedOk := true,
    hasEndpoint := true, hasAssigned := true }

def badAnn (p : String) : Ann := { goodAnn p with senderMatch := false }

def demoCfg : Cfg := sanitize { minInterval := 15, burstWindow := 120, burstLimit := 4, powDifficulty := 6 }

/-- a lockout history: three rejections 60 s and 59 s apart, then good announces 179 s later (still locked
    out) and 1 s after that (lockout over: accepted); a second peer is unaffected throughout -/
def demoOps : List Op :=
  [.ann (badAnn "p"), .adv 60000000000, .ann (badAnn "p"), .ann (goodAnn "q"), .adv 59000000000, .ann (badAnn "p"),
   .adv 179000000000, .ann (goodAnn "p"), .adv 1000000000, .ann (goodAnn "p"), .ann (goodAnn "p")]

example : ((run demoCfg (init 0, []) demoOps).2.map (·.out)) =
    [.rejected .sender, .rejected .sender, .accepted, .rejected .sender, .rejected .locked, .accepted,
     .rejected .throttle] := by decide

example : demoCfg.minInterval ≤ demoCfg.burstWindow ∧ 0 < demoCfg.burstLimit := by decide

example : acceptedTimes "p" (run demoCfg (init 0, []) demoOps).2 = [299000000000] ∧
          (run demoCfg (init 0, []) demoOps).1.obs.cache = [("c", "m")] := by decide

end EphVerif.C21
