/-
C39 — key rotation never leaves the two ends of a session on different keys.   KNOWN FINDING: the
property does NOT hold for the code as it is, and the repair is not small (a rekey message or an
agreed changeover rule is needed; see notes/C39.md).

Model: EphVerif.Rotation (Model/Rotation.lean, constants/flags from Generated/C39.lean) — the code
as it is.   Spec: EphVerif.Spec.Rotation (`Consistent`, `accepts`).   Lemmas: Lemmas/C39.lean.
HMAC-SHA256 is `EphVerif.Spec.hmacSha256` (RFC 2104 / FIPS 180-4; equal to the code's by C08) in the
concrete witness, and an arbitrary function in the general theorems.

Full statement of the property (NOT provable, refuted by `counterexample`):
    ∀ hmac ivA ivB secret mat ta tb (schedule : List Ev),
      Consistent (obs ((Sys.afterHandshake hmac ivA ivB secret mat ta tb).run hmac schedule))
What is proved instead:
  * `counterexample`          a concrete schedule (ticks 1 ns apart) after a shared handshake that ends with
                              both ends rotated, both sessions open and two different keys (kernel-evaluated HMACs);
  * `partial_lockstep`        if every rotation happens at both ends with identical clock readings, the ends stay
                              in step for ever (same key, same counter);
  * `partial_not_due`         ticks before the interval has elapsed change nothing;
  * `partial_divergence`      from a state in step, rotations at two different clock readings give two different
                              keys unless HMAC collides on two distinct 16-byte inputs (and so does a rotation at
                              one end only, `partial_one_sided`);
  * `message_fate`            a message is accepted after rotation exactly when the keys agree.
-/
import EphVerif.Lemmas.C39
import EphVerif.Spec.Hmac

namespace EphVerif.C39
open EphVerif EphVerif.Rotation EphVerif.Gen
open EphVerif.Spec.Rotation (Obs Consistent accepts)

/-- what an observer sees of the two ends -/
def obs (s : Sys) : Obs := { openA := s.a.sessionOpen, openB := s.b.sessionOpen, keyA := s.a.key, keyB := s.b.key }

/-! ## (T) the regenerated constants and flags -/

/-- the derivation is the one this finding is about: interval clamp 5 s … 1 h, "not yet due" is
`elapsed < interval`, the HMAC input is 8 bytes of counter then 8 bytes of the rotating node's own
clock, and rotation only re-registers the key (no teardown, no message to the peer) -/
theorem generated_constants :
    C39.kMinKeyRotationInterval = 5 ∧ C39.kMaxKeyRotationInterval = 3600 ∧ C39.materialSize = 16 ∧
    C39.counterBase = 7 ∧ C39.ticksBase = 15 ∧ C39.fieldBytes = 8 ∧
    C39.deriveUsesLocalTimestamp = true ∧ C39.rotationTimestampIsNow = true ∧ C39.rotationOnlyReregistersKey = true := by
  decide

theorem generated_not_due (elapsed interval : Int) : C39.notDue elapsed interval = true ↔ elapsed < interval := by
  simp [C39.notDue]

/-! ## the counterexample -/

def witnessSecret : Bytes := (List.range 32).map UInt8.ofNat
/-- `make_handshake_material(5, 7)` -/
def witnessMaterial : Bytes := [0, 0, 0, 5, 0, 0, 0, 7]
/-- both nodes' clocks read this at the handshake (the harness' virtual clock starts here) -/
def t0 : Int := 1000000000000
/-- after a mutual handshake: one secret, one material, rotation interval 5 s at both ends, sessions up -/
def witnessStart : Sys := Sys.afterHandshake Spec.hmacSha256 5 5 witnessSecret witnessMaterial t0 t0
/-- A ticks exactly when its rotation falls due, B one nanosecond later -/
def witnessSchedule : List Ev := [.tickA (t0 + 5000000000), .tickB (t0 + 5000000001)]

def witnessKey0 : Bytes :=
  [0x7b, 0x2b, 0x86, 0xb0, 0xcc, 0xc2, 0xd5, 0x5a, 0x99, 0x91, 0x3f, 0xbc, 0xd2, 0xa6, 0xe2, 0x4a, 0x78, 0x97, 0xe3, 0x80, 0x50,
   0x06, 0x80, 0xeb, 0x59, 0x76, 0x0f, 0x70, 0xa6, 0xc1, 0xea, 0xd1]
def witnessKeyA : Bytes :=
  [0x20, 0xcc, 0xb4, 0xd8, 0x24, 0xb6, 0x97, 0x35, 0x00, 0xa7, 0xb9, 0x8c, 0x91, 0xad, 0xb4, 0x73, 0x35, 0x6a, 0xb4, 0xcf, 0xe7,
   0xb2, 0xf6, 0xab, 0xa3, 0x21, 0x55, 0xbe, 0x74, 0x76, 0x6e, 0x6f]
def witnessKeyB : Bytes :=
  [0xdb, 0xbf, 0xf5, 0x88, 0x70, 0x2e, 0xd8, 0x7e, 0x6a, 0x91, 0x0c, 0x8d, 0x9b, 0x46, 0x82, 0x30, 0xec, 0x84, 0x4d, 0x3a, 0xfc,
   0x8b, 0xba, 0x46, 0x4c, 0xfc, 0xce, 0x7a, 0xad, 0x22, 0x41, 0xd9]

/-- the handshake leaves both ends on one key with the session up: the property's premise holds -/
theorem counterexample_start :
    (obs witnessStart).openA = true ∧ (obs witnessStart).openB = true ∧
    (obs witnessStart).keyA = some witnessKey0 ∧ (obs witnessStart).keyB = some witnessKey0 ∧
    Consistent (obs witnessStart) := by decide +kernel

/-- **C39.counterexample.** After a shared handshake, two ticks one nanosecond apart: both ends have
rotated (counter 1 at both), neither session was closed, and the two ends now hold two different
keys (the HMAC-SHA256 values below, computed by the Lean kernel) — the invariant is violated and a
message signed by one end is not accepted by the other. -/
theorem counterexample :
    let s := witnessStart.run Spec.hmacSha256 witnessSchedule
    s.a.ctx.map (·.counter) = some 1 ∧ s.b.ctx.map (·.counter) = some 1 ∧
    s.a.sessionOpen = true ∧ s.b.sessionOpen = true ∧
    s.a.key = some witnessKeyA ∧ s.b.key = some witnessKeyB ∧
    s.a.sessionKey = some witnessKeyA ∧ s.b.sessionKey = some witnessKeyB ∧
    s.a.key ≠ s.b.key ∧ ¬ Consistent (obs s) ∧ accepts s.a.key s.b.key = false := by
  decide +kernel

/-! ## what does hold -/

section
variable (hmac : Bytes → Bytes → Bytes)

/-- the two ends are in step: same secret, counter, last-rotation reading and key, and each session
manager holds that key -/
structure InStep (s : Sys) : Prop where
  ctx : s.a.ctx = s.b.ctx
  some : s.a.ctx.isSome
  interval : s.a.interval = s.b.interval
  sessA : s.a.sessionKey = s.a.key
  sessB : s.b.sessionKey = s.b.key

theorem inStep_consistent (s : Sys) (h : InStep s) : Consistent (obs s) := by
  intro _ _
  simp only [obs, Node.key, h.ctx]

/-- after a handshake on one secret and one material with both nodes reading the same clock value
and using the same interval, the ends are in step -/
theorem inStep_afterHandshake (iv : Int) (secret mat : Bytes) (t : Int) :
    InStep (Sys.afterHandshake hmac iv iv secret mat t t) :=
  ⟨rfl, rfl, rfl, rfl, rfl⟩

/-- a tick of both nodes at one and the same clock reading -/
def tickBoth (s : Sys) (now : Int) : Sys := (s.step hmac (.tickA now)).step hmac (.tickB now)

theorem inStep_tickBoth (s : Sys) (h : InStep s) (now : Int) : InStep (tickBoth hmac s now) := by
  obtain ⟨hc, hs, hi, ha, hb⟩ := h
  cases ha' : s.a.ctx with
  | none => rw [ha'] at hs; cases hs
  | some e =>
    have hb' : s.b.ctx = some e := by rw [← hc, ha']
    simp only [Node.key, ha', hb', Option.map] at ha hb
    by_cases hd : C39.notDue (now - e.lastRotation) s.a.interval = true
    · have hdb : C39.notDue (now - e.lastRotation) s.b.interval = true := hi ▸ hd
      refine ⟨?_, ?_, ?_, ?_, ?_⟩ <;>
        simp [tickBoth, Sys.step, Node.tick, rotateIfNeeded, ha', hb', hd, hdb, Node.key, ha, hb, hi]
    · have hdb : ¬ C39.notDue (now - e.lastRotation) s.b.interval = true := hi ▸ hd
      refine ⟨?_, ?_, ?_, ?_, ?_⟩ <;>
        simp [tickBoth, Sys.step, Node.tick, rotateIfNeeded, ha', hb', hd, hdb, Node.key, hi]

/-- **C39.partial (lockstep).** If the two ends leave the handshake in step and every later tick
reaches both ends with identical clock readings — for any readings, any number of ticks, any HMAC —
they remain in step: every rotation switches both ends to the same new key and the invariant holds
throughout. -/
theorem partial_lockstep (s : Sys) (h : InStep s) (ticks : List Int) :
    InStep (ticks.foldl (tickBoth hmac) s) ∧ Consistent (obs (ticks.foldl (tickBoth hmac) s)) := by
  induction ticks generalizing s with
  | nil => exact ⟨h, inStep_consistent s h⟩
  | cons t ts ih => exact ih _ (inStep_tickBoth hmac s h t)

example : ∃ s : Sys, InStep s := ⟨_, inStep_afterHandshake Spec.hmacSha256 5 [1] [2] 0⟩

/-- **C39.partial (no rotation due).** A tick before the interval has elapsed changes neither the
key nor the session, at either end, for any clock reading. -/
theorem partial_not_due (n : Node) (e : Endpoint) (now : Int) (hctx : n.ctx = some e)
    (h : now - e.lastRotation < n.interval) : n.tick hmac now = n := by
  unfold Node.tick rotateIfNeeded
  have : C39.notDue (now - e.lastRotation) n.interval = true := (generated_not_due _ _).mpr h
  simp only [hctx, this, if_true]
  cases n; simp_all

/-- what a due rotation does: counter + 1, the node's own clock reading as timestamp, key =
HMAC(secret, counter ‖ that reading), session left open -/
theorem rotation_due (n : Node) (e : Endpoint) (now : Int) (hctx : n.ctx = some e)
    (h : ¬ now - e.lastRotation < n.interval) :
    let n' := n.tick hmac now
    n'.key = some (hmac e.secret (material (e.counter + 1) now)) ∧
    n'.sessionKey = n'.key ∧ n'.sessionOpen = n.sessionOpen ∧
    n'.ctx.map (·.lastRotation) = some now := by
  have : ¬ C39.notDue (now - e.lastRotation) n.interval = true := by rw [generated_not_due]; exact h
  simp only [Node.tick, rotateIfNeeded, hctx, this, if_false, Node.key, Option.map, deriveKey, Bool.false_eq_true]
  have hm : material ((e.counter + 1) % 18446744073709551616) now = material (e.counter + 1) now := by
    simp [material]
  simp [hm]

/-- **C39.partial (divergence).** Two ends in step whose rotations fall due and who tick at two
different readings of their clocks (`int64` nanosecond counts — one nanosecond apart is enough)
end up with the same key only if HMAC-SHA256 under their secret collides on two *distinct*
16-byte inputs. -/
theorem partial_divergence (s : Sys) (h : InStep s) (e : Endpoint) (he : s.a.ctx = some e) (ta tb : Int)
    (hta : -9223372036854775808 ≤ ta ∧ ta < 9223372036854775808) (htb : -9223372036854775808 ≤ tb ∧ tb < 9223372036854775808)
    (hne : ta ≠ tb) (hdueA : ¬ ta - e.lastRotation < s.a.interval) (hdueB : ¬ tb - e.lastRotation < s.b.interval)
    (hsame : ((s.step hmac (.tickA ta)).step hmac (.tickB tb)).a.key = ((s.step hmac (.tickA ta)).step hmac (.tickB tb)).b.key) :
    ∃ m1 m2 : Bytes, m1 ≠ m2 ∧ m1.length = 16 ∧ m2.length = 16 ∧ hmac e.secret m1 = hmac e.secret m2 := by
  have hb : s.b.ctx = some e := by rw [← h.ctx, he]
  have ka := (rotation_due hmac s.a e ta he hdueA).1
  have kb := (rotation_due hmac s.b e tb hb hdueB).1
  simp only [Sys.step] at hsame
  rw [ka, kb] at hsame
  refine ⟨material (e.counter + 1) ta, material (e.counter + 1) tb, ?_, material_length _ _, material_length _ _, Option.some.inj hsame⟩
  intro heq
  exact hne (tickBits_injective ta tb hta htb (material_injective _ _ _ _ heq).2)

/-- **C39.partial (one-sided rotation).** If only one end's rotation falls due (different intervals,
or handshakes at different instants), the ends agree afterwards only if HMAC maps the 16-byte
rotation input and the handshake material `mat` to the same key. -/
theorem partial_one_sided (iv ivB : Int) (secret mat : Bytes) (t ta tb : Int)
    (hdueA : ¬ ta - t < (Node.fresh iv).interval) (hnotB : tb - t < (Node.fresh ivB).interval)
    (hsame : let s := ((Sys.afterHandshake hmac iv ivB secret mat t t).step hmac (.tickA ta)).step hmac (.tickB tb)
             s.a.key = s.b.key) :
    hmac secret (material 1 ta) = hmac secret mat := by
  simp only [Sys.afterHandshake, Sys.step] at hsame
  have ka := (rotation_due hmac { (Node.fresh iv).handshake hmac secret mat t with sessionOpen := true }
    (registerWithMaterial hmac secret mat t) ta rfl hdueA).1
  have kb := partial_not_due hmac { (Node.fresh ivB).handshake hmac secret mat t with sessionOpen := true }
    (registerWithMaterial hmac secret mat t) tb rfl hnotB
  rw [ka, kb] at hsame
  simpa [Node.key, Node.handshake, registerWithMaterial] using hsame

/-- **Message fate.** Whether a message from A is accepted by B is decided by key equality alone. -/
theorem message_fate (s : Sys) (hk : s.a.key.isSome) : accepts s.a.key s.b.key = true ↔ s.a.key = s.b.key := by
  simp [accepts, hk]

end

end EphVerif.C39
