/-
C09 — ChaCha20 matches RFC 8439 and is its own inverse.

Model: EphVerif.ChaCha20 (Model/ChaCha20.lean, built on Generated/C09.lean).
Spec : EphVerif.Spec.chacha20 / chacha20Block (Spec/ChaCha20.lean, RFC 8439 with its test vectors).
Helper lemmas: Lemmas/C09Bits.lean, C09Block.lean, C09Apply.lean, C09Alias.lean.
-/
import EphVerif.Lemmas.C09Alias

namespace EphVerif.C09
open EphVerif EphVerif.ChaCha20

/-! ## (T) generated constants = the numbers of RFC 8439 -/

/-- `kSigma` is "expand 32-byte k" as printed in RFC 8439 section 2.3 -/
theorem gen_sigma : Gen.C09.sigma = [0x61707865, 0x3320646e, 0x79622d32, 0x6b206574] ∧ Gen.C09.sigma = Spec.ChaCha.sigma := by
  decide

/-- rotation distances 16, 12, 8, 7 -/
theorem gen_rotations : Gen.C09.rotations = [16, 12, 8, 7] ∧ Gen.C09.rotations = Spec.ChaCha.rotations := by decide

/-- every rotation distance is in 1 … 31 (no undefined shift in `rotl32`), and the width is 32 -/
theorem gen_rotations_in_range : (∀ r ∈ Gen.C09.rotations, 0 < r ∧ r < 32) ∧ Gen.C09.rotlWidth = 32 := by decide

/-- the statement list of `quarter_round` is the one of RFC 8439 section 2.1
(`a += b; d ^= a; d <<<= 16; c += d; b ^= c; b <<<= 12; a += b; d ^= a; d <<<= 8; c += d; b ^= c; b <<<= 7`) -/
theorem gen_qrProgram : Gen.C09.qrProgram =
    [(0, 0, 1, 0), (1, 3, 0, 0), (2, 3, 3, 16), (0, 2, 3, 0), (1, 1, 2, 0), (2, 1, 1, 12),
     (0, 0, 1, 0), (1, 3, 0, 0), (2, 3, 3, 8), (0, 2, 3, 0), (1, 1, 2, 0), (2, 1, 1, 7)] := by decide

/-- 10 double rounds = 20 rounds -/
theorem gen_doubleRounds : Gen.C09.doubleRounds = 10 ∧ Gen.C09.doubleRounds = Spec.ChaCha.doubleRounds := by decide

/-- the eight index 4-tuples: four column rounds then four diagonal rounds -/
theorem gen_qrIndices : Gen.C09.qrIndices = Spec.ChaCha.columnRounds ++ Spec.ChaCha.diagonalRounds := by decide

/-- the four indices of every `quarter_round` call are pairwise distinct and below 16
(justifies modelling the reference parameters as copy-in/copy-out) -/
theorem gen_qrIndices_distinct : ∀ t ∈ Gen.C09.qrIndices,
    t.1 ≠ t.2.1 ∧ t.1 ≠ t.2.2.1 ∧ t.1 ≠ t.2.2.2 ∧ t.2.1 ≠ t.2.2.1 ∧ t.2.1 ≠ t.2.2.2 ∧ t.2.2.1 ≠ t.2.2.2 ∧
    t.1 < 16 ∧ t.2.1 < 16 ∧ t.2.2.1 < 16 ∧ t.2.2.2 < 16 := by decide

/-- (T) the block counter of `ChaCha20::apply` advances as the model's `applyLoop` says: the block function gets the
`std::uint32_t` counter parameter itself and that 32-bit variable is incremented once per block (so block `j` uses
`(counter + j) mod 2^32`, not an index of another width added to the initial counter). -/
theorem gen_counterAdvance : Gen.C09.counterMode = 0 ∧ Gen.C09.counterWidth = 32 := by decide

/-- 64-byte blocks -/
theorem gen_kBlockSize : Gen.C09.kBlockSize = 64 := by decide

/-- state layout constants ‖ key ‖ counter ‖ nonce (section 2.3), for every 32-byte key and 12-byte nonce -/
theorem state_layout (key nonce : List UInt8) (counter : UInt32) (hk : key.length = 32) (hn : nonce.length = 12) :
    ChaCha20.initState key nonce counter
      = Spec.ChaCha.sigma ++ Spec.ChaCha.leWords key ++ [counter] ++ Spec.ChaCha.leWords nonce :=
  initState_eq key nonce counter hk hn

/-! ## quarter round and block function -/

/-- `quarter_round` is the quarter round of RFC 8439 section 2.1, for all inputs -/
theorem quarter_round_spec (a b c d : UInt32) : quarter_round a b c d = Spec.ChaCha.quarterRound a b c d :=
  quarter_round_eq a b c d

/-- `chacha20_block` is the block function of RFC 8439 section 2.3, for every key, nonce and counter -/
theorem block_spec (key nonce : List UInt8) (counter : UInt32) (hk : key.length = 32) (hn : nonce.length = 12) :
    chacha20_block key nonce counter = Spec.chacha20Block key counter nonce :=
  chacha20_block_eq key nonce counter hk hn

/-! ## `ChaCha20::apply` -/

/-- **C09, first clause.** For every 256-bit key, 96-bit nonce, initial block counter and input (of any
length: empty, partial blocks, multiples of 64, across any number of block boundaries),
`ChaCha20::apply` computes RFC 8439 ChaCha20: block `j` of the input is XORed with
`chacha20_block(key, (counter + j) mod 2^32, nonce)`. The result does not depend on what the output
vector held before the call. -/
theorem apply_spec (key nonce : List UInt8) (counter : UInt32) (input : List UInt8)
    (hk : key.length = 32) (hn : nonce.length = 12) :
    ChaCha20.apply key nonce input counter = Spec.chacha20 key nonce counter input := by
  rw [ChaCha20.apply, applyInto_eq, spec_chacha20_eq key nonce counter input hk hn]

theorem applyInto_spec (key nonce : List UInt8) (counter : UInt32) (input old : List UInt8)
    (hk : key.length = 32) (hn : nonce.length = 12) :
    ChaCha20.applyInto key nonce input counter old = Spec.chacha20 key nonce counter input := by
  rw [applyInto_eq, spec_chacha20_eq key nonce counter input hk hn]

/-- The counter advance of the specification is arithmetic modulo 2^32 … -/
theorem block_counter_mod (counter : UInt32) (j : Nat) :
    (counter + UInt32.ofNat j).toNat = (counter.toNat + j) % 2 ^ 32 := by
  simp only [UInt32.toNat_add, UInt32.toNat_ofNat']
  omega

/-- … in particular the block after counter 2^32 − 1 uses counter 0. -/
theorem block_counter_wrap : (0xFFFFFFFF : UInt32) + UInt32.ofNat 1 = 0 ∧ (0xFFFFFFFE : UInt32) + UInt32.ofNat 2 = 0 := by
  decide

/-- Explicit form of the block-boundary / wrap behaviour: byte `j` of the output is byte `j` of the input
XOR byte `j mod 64` of the RFC 8439 block with counter `(counter + j / 64) mod 2^32`. -/
theorem apply_getElem? (key nonce : List UInt8) (counter : UInt32) (input : List UInt8) (j : Nat)
    (hk : key.length = 32) (hn : nonce.length = 12) :
    (ChaCha20.apply key nonce input counter)[j]? =
      input[j]?.map fun b => b ^^^ (Spec.chacha20Block key (counter + UInt32.ofNat (j / 64)) nonce).getD (j % 64) 0 := by
  rw [ChaCha20.apply, applyInto_eq, List.getElem?_mapIdx]
  simp only [ksByte, chacha20_block_eq key nonce _ hk hn]

/-- Splitting the input at a block boundary: the second part is processed with the counter advanced by
the number of blocks of the first part (modulo 2^32). -/
theorem apply_append (key nonce : List UInt8) (counter : UInt32) (x y : List UInt8) (m : Nat) (hx : x.length = 64 * m) :
    ChaCha20.apply key nonce (x ++ y) counter
      = ChaCha20.apply key nonce x counter ++ ChaCha20.apply key nonce y (counter + UInt32.ofNat m) := by
  simp only [ChaCha20.apply, applyInto_eq]
  apply List.ext_getElem?
  intro j
  by_cases hj : j < x.length
  · rw [List.getElem?_append_left (by simpa using hj)]
    simp only [List.getElem?_mapIdx, List.getElem?_append_left hj]
  · rw [List.getElem?_append_right (by simpa using hj)]
    simp only [List.getElem?_mapIdx, List.length_mapIdx, List.getElem?_append_right (Nat.le_of_not_lt hj)]
    have e1 : j / 64 = (j - x.length) / 64 + m := by omega
    have e2 : j % 64 = (j - x.length) % 64 := by omega
    have e3 : counter + UInt32.ofNat ((j - x.length) / 64 + m) = counter + UInt32.ofNat m + UInt32.ofNat ((j - x.length) / 64) := by
      rw [UInt32.ofNat_add, UInt32.add_assoc, UInt32.add_comm (UInt32.ofNat m)]
    simp only [ksByte, e1, e2, e3]

/-- Crossing 2^32: 64 bytes at counter 2^32 − 1, the rest continues at counter 0. -/
theorem apply_wrap (key nonce : List UInt8) (x y : List UInt8) (hx : x.length = 64) :
    ChaCha20.apply key nonce (x ++ y) 0xFFFFFFFF
      = ChaCha20.apply key nonce x 0xFFFFFFFF ++ ChaCha20.apply key nonce y 0 := by
  rw [apply_append key nonce 0xFFFFFFFF x y 1 (by omega)]
  rfl

/-- **C09, length.** The output has the length of the input (for every key, nonce, counter). -/
theorem length (key nonce : List UInt8) (counter : UInt32) (input : List UInt8) :
    (ChaCha20.apply key nonce input counter).length = input.length := by
  rw [ChaCha20.apply, applyInto_eq, List.length_mapIdx]

/-! ## in-place / aliased use (the input span points into the output vector) -/

/-- (T) `ChaCha20::apply` brings the output to length with `output.resize(input.size())`: the old
contents survive. (Re-initialising instead — `assign(n, 0)`, `clear(); resize(n)` — would wipe an
aliased input before it is read.) -/
theorem gen_outputPrep : Gen.C09.outputPrep = 0 := by decide

theorem prepare_eq_resize (out : Array UInt8) (n : Nat) : prepare out n = resize out n := by
  simp only [prepare, gen_outputPrep, if_true]

/-- `v.resize(n)` on a vector holding `vec`: the first `n` old bytes, padded with zeros -/
theorem toList_resize (vec : List UInt8) (n : Nat) :
    (resize vec.toArray n).toList = vec.take n ++ List.replicate (n - vec.length) 0 := by
  simp [resize]

/-- resizing to the current size changes nothing -/
theorem toList_resize_self (buf : List UInt8) : (resize buf.toArray buf.length).toList = buf := by
  simp [toList_resize]

/-- Aliased call `apply(key, nonce, span(vec.data(), n), vec, counter)`, for the loop as coded (each byte read
before it is overwritten, bytes ahead untouched, `resize` keeping contents): the vector ends up holding RFC
8439 ChaCha20 of its first `n` bytes (zero-extended if `n` exceeds its length, the bytes `resize` creates). -/
theorem apply_aliased (key nonce vec : List UInt8) (n : Nat) (counter : UInt32)
    (hk : key.length = 32) (hn : nonce.length = 12) :
    applyAliased key nonce vec n counter
      = Spec.chacha20 key nonce counter (vec.take n ++ List.replicate (n - vec.length) 0) := by
  rw [applyAliased_eq, prepare_eq_resize, toList_resize, spec_chacha20_eq key nonce counter _ hk hn]

/-- **C09, in place.** `apply(key, nonce, buf, buf, counter)` — input span and output vector the same
storage — is RFC 8439 ChaCha20 of the buffer, for every key(32), nonce(12), counter and buffer. -/
theorem apply_inplace (key nonce buf : List UInt8) (counter : UInt32) (hk : key.length = 32) (hn : nonce.length = 12) :
    applyInPlace key nonce buf counter = Spec.chacha20 key nonce counter buf := by
  rw [applyInPlace, applyAliased_eq, prepare_eq_resize, toList_resize_self, spec_chacha20_eq key nonce counter _ hk hn]

/-- in place and out of place give the same bytes (any key/nonce lengths) -/
theorem apply_inplace_eq_apply (key nonce buf : List UInt8) (counter : UInt32) :
    applyInPlace key nonce buf counter = ChaCha20.apply key nonce buf counter := by
  rw [applyInPlace, applyAliased_eq, prepare_eq_resize, toList_resize_self, ChaCha20.apply, applyInto_eq]

/-- XOR with the same byte twice -/
theorem xor_xor_cancel (b k : UInt8) : (b ^^^ k) ^^^ k = b := by
  rw [UInt8.xor_assoc, UInt8.xor_self, UInt8.xor_zero]

/-- **C09, second clause.** Applying the cipher twice with the same key, nonce and initial counter returns
the input — for every input of any length, every counter (including those that wrap), and in fact for
key/nonce lists of any length. -/
theorem involution (key nonce : List UInt8) (counter : UInt32) (x : List UInt8) :
    ChaCha20.apply key nonce (ChaCha20.apply key nonce x counter) counter = x := by
  simp only [ChaCha20.apply, applyInto_eq]
  apply List.ext_getElem?
  intro j
  simp only [List.getElem?_mapIdx, Option.map_map]
  cases x[j]? with
  | none => rfl
  | some b => simp only [Option.map_some, Function.comp, xor_xor_cancel]

/-- … also when both applications are done in place on the same buffer. -/
theorem inplace_involution (key nonce : List UInt8) (counter : UInt32) (buf : List UInt8) :
    applyInPlace key nonce (applyInPlace key nonce buf counter) counter = buf := by
  rw [apply_inplace_eq_apply, apply_inplace_eq_apply, involution]

/-- The same at specification level: RFC 8439 decryption is encryption. -/
theorem spec_involution (key nonce : List UInt8) (counter : UInt32) (x : List UInt8)
    (hk : key.length = 32) (hn : nonce.length = 12) :
    Spec.chacha20 key nonce counter (Spec.chacha20 key nonce counter x) = x := by
  rw [← apply_spec key nonce counter x hk hn, ← apply_spec key nonce counter _ hk hn, involution]

/-! ## RFC 8439 test vectors, transported to the model of the C++ -/

theorem vector_2_1_1 : quarter_round 0x11111111 0x01020304 0x9b8d6f43 0x01234567
    = (0xea2a92f4, 0xcb1cf8ce, 0x4581472e, 0x5881c4bb) := by
  rw [quarter_round_spec]; exact Spec.ChaCha.Vectors.quarterRound_2_1_1

theorem vector_2_4_2 :
    ChaCha20.apply Spec.ChaCha.Vectors.key Spec.ChaCha.Vectors.nonce242 Spec.ChaCha.Vectors.sunscreen 1
      = Spec.chacha20 Spec.ChaCha.Vectors.key Spec.ChaCha.Vectors.nonce242 1 Spec.ChaCha.Vectors.sunscreen :=
  apply_spec _ _ _ _ (by decide) (by decide)

/-! ## CryptoManager -/

/-- the block counter is the little-endian 32-bit integer formed by the first four bytes of the chunk id -/
theorem manager_counter (id : List UInt8) :
    derive_counter id = Spec.ChaCha.le32 (id.getD 0 0) (id.getD 1 0) (id.getD 2 0) (id.getD 3 0) :=
  derive_counter_eq id

theorem allZero_iff (key : List UInt8) : allZero key = true ↔ key = List.replicate key.length 0 := by
  simp only [allZero, List.all_eq_true, beq_iff_eq]
  constructor
  · intro h
    exact List.eq_replicate_iff.mpr ⟨rfl, h⟩
  · intro h b hb
    rw [h] at hb
    exact (List.mem_replicate.mp hb).2

/-- a key that is not all-zero is the key the manager uses -/
theorem manager_key (key randomKey : List UInt8) (hz : allZero key = false) : ctorKey key randomKey = key := by
  simp only [ctorKey, hz, Bool.false_eq_true, if_false]

/-- `encrypt_with_key` with a non-zero key is RFC 8439 ChaCha20 under that key, the drawn nonce, and the
counter derived from the chunk id — for every nonce the generator may draw. -/
theorem manager_encrypt_spec (key id p nonce randomKey : List UInt8) (hz : allZero key = false)
    (hk : key.length = 32) (hn : nonce.length = 12) :
    (encrypt_with_key key id p nonce randomKey).data
        = Spec.chacha20 key nonce (Spec.ChaCha.le32 (id.getD 0 0) (id.getD 1 0) (id.getD 2 0) (id.getD 3 0)) p
      ∧ (encrypt_with_key key id p nonce randomKey).nonce = nonce := by
  simp only [encrypt_with_key, encrypt, manager_key key randomKey hz, applyInto_spec key nonce _ p _ hk hn, manager_counter,
    and_self]

theorem manager_decrypt_spec (key id c nonce randomKey : List UInt8) (hz : allZero key = false)
    (hk : key.length = 32) (hn : nonce.length = 12) :
    decrypt_with_key key id c nonce randomKey
      = some (Spec.chacha20 key nonce (Spec.ChaCha.le32 (id.getD 0 0) (id.getD 1 0) (id.getD 2 0) (id.getD 3 0)) c) := by
  simp only [decrypt_with_key, decrypt, manager_key key randomKey hz, applyInto_spec key nonce _ c _ hk hn, manager_counter]

/-- a manager object decrypts what it encrypted, whatever key it holds -/
theorem manager_object_roundtrip (key_ id p nonce : List UInt8) :
    decrypt key_ id (encrypt key_ id p nonce).data (encrypt key_ id p nonce).nonce = some p := by
  have h := involution key_ nonce (derive_counter id) p
  simp only [ChaCha20.apply, applyInto_eq] at h
  simp only [decrypt, encrypt, applyInto_eq, h]

/-- **C09, manager clause.** For every key that is not all-zero, every chunk id, plaintext and drawn
nonce: `decrypt_with_key(k, id, encrypt_with_key(k, id, p).data, .nonce) = p`. (`rk`, `rk'` are the
values the two temporary managers' generators would produce; they are not used.) -/
theorem manager_roundtrip (key id p nonce rk rk' : List UInt8) (hz : allZero key = false) :
    decrypt_with_key key id (encrypt_with_key key id p nonce rk).data (encrypt_with_key key id p nonce rk).nonce rk'
      = some p := by
  simp only [decrypt_with_key, encrypt_with_key, manager_key key _ hz]
  exact manager_object_roundtrip key id p nonce

/-- **The excluded point.** With the all-zero key each temporary manager replaces the key by a fresh random
one: encryption is ChaCha20 under `rk`, decryption under `rk'`, neither of which the caller ever sees. -/
theorem manager_zero_key (key id p c nonce rk rk' : List UInt8) (hz : allZero key = true) :
    encrypt_with_key key id p nonce rk = encrypt rk id p nonce ∧
    decrypt_with_key key id c nonce rk' = decrypt rk' id c nonce := by
  simp only [encrypt_with_key, decrypt_with_key, ctorKey, hz, if_true, and_self]

/-- … so the static round trip returns the plaintext when both draws coincide … -/
theorem manager_zero_key_same_draw (key id p nonce rk : List UInt8) :
    decrypt_with_key key id (encrypt_with_key key id p nonce rk).data (encrypt_with_key key id p nonce rk).nonce rk
      = some p := by
  simp only [decrypt_with_key, encrypt_with_key]
  exact manager_object_roundtrip _ id p nonce

/-- … and in general does not: a concrete all-zero-key call whose round trip fails. -/
theorem manager_zero_key_counterexample :
    allZero (List.replicate 32 0) = true ∧
    decrypt_with_key (List.replicate 32 0) (List.replicate 32 0)
        (encrypt_with_key (List.replicate 32 0) (List.replicate 32 0) [0x41] (List.replicate 12 0) (List.replicate 32 1)).data
        (List.replicate 12 0) (List.replicate 32 2)
      ≠ some [0x41] := by
  refine ⟨by decide, ?_⟩
  rw [(manager_zero_key (List.replicate 32 0) (List.replicate 32 0) [0x41] [] (List.replicate 12 0) (List.replicate 32 1)
        (List.replicate 32 2) (by decide)).1]
  rw [(manager_zero_key (List.replicate 32 0) (List.replicate 32 0) [] _ (List.replicate 12 0) (List.replicate 32 1)
        (List.replicate 32 2) (by decide)).2]
  simp only [decrypt, encrypt, applyInto_spec _ _ _ _ _ (List.length_replicate (n := 32)) (List.length_replicate (n := 12)),
    manager_counter]
  decide +kernel

/-! ## non-vacuity -/

/-- the hypotheses of `apply_spec` / `block_spec` are satisfiable (RFC key and nonce) … -/
example : Spec.ChaCha.Vectors.key.length = 32 ∧ Spec.ChaCha.Vectors.nonce242.length = 12 := by decide

/-- … and the conclusion is not trivial: the RFC ciphertext differs from the plaintext. -/
example : ChaCha20.apply Spec.ChaCha.Vectors.key Spec.ChaCha.Vectors.nonce242 Spec.ChaCha.Vectors.sunscreen 1
    ≠ Spec.ChaCha.Vectors.sunscreen := by
  rw [vector_2_4_2, Spec.ChaCha.Vectors.encrypt_2_4_2]; decide +kernel

/-- `manager_roundtrip`'s hypothesis holds for the RFC key, fails exactly for the all-zero key -/
example : allZero Spec.ChaCha.Vectors.key = false ∧ allZero (List.replicate 32 0) = true := by decide

end EphVerif.C09
