/-
C24 — fetch scheduling respects limits, backs off, and always terminates.

All theorems are about `Model/Fetches.lean` (the assigned-fetch scheduler of `Node`, after
fixes/C24-reannounce-inflight-leak.patch and fixes/C03-pending-fetch-cap.patch) and quantify over
every configuration, every history of announces / arrivals / ticks at arbitrary steady and wall
clock readings, and every answer of the environment (chunk held locally, request deliverable,
provider count) at every step.
-/
import EphVerif.Lemmas.C24Fetches
import EphVerif.Lemmas.C24Backoff

namespace EphVerif.C24
open EphVerif.Fetches

/-- **C24.limit** — at every point of every history no peer has more in-flight chunk requests than
    `fetch_max_parallel_requests` (when non-zero; 0 = unlimited, as `can_dispatch_fetch` reads it):
    neither its counter nor its actual number of in-flight entries exceeds the limit. -/
theorem limit (cfg : Cfg) (hist : List Step) (p : String) (hL : 0 < cfg.maxParallel) :
    (run cfg State.init hist).active p ≤ cfg.maxParallel ∧
    cnt p (run cfg State.init hist).pending ≤ cfg.maxParallel := by
  have hi : Inv cfg (run cfg State.init hist) := inv_run hist (inv_init cfg)
  have h1 := hi.limit hL p
  have h2 := hi.count p
  exact ⟨h1, by omega⟩

/-- **C24.zero** — at every point of every history a peer's in-flight counter equals the number of
    pending fetches that are in flight towards it; so it is zero when none is outstanding. -/
theorem zero (cfg : Cfg) (hist : List Step) (p : String) :
    (run cfg State.init hist).active p = cnt p (run cfg State.init hist).pending ∧
    ((∀ e ∈ (run cfg State.init hist).pending, e.peer = p → e.inFlight = false) →
      (run cfg State.init hist).active p = 0) := by
  have hi : Inv cfg (run cfg State.init hist) := inv_run hist (inv_init cfg)
  refine ⟨hi.count p, fun hnone => ?_⟩
  rw [hi.count p]
  unfold cnt
  rw [List.length_eq_zero_iff, List.filter_eq_nil_iff]
  intro e he
  simp only [Bool.and_eq_true, beq_iff_eq, not_and]
  intro hf hp
  rw [hnone e he hp] at hf
  cases hf

/-- **C24.backoff** — when a dispatch fails and the attempt limit is not reached, the next attempt
    is scheduled `min(base·2^(k−1), cap)` seconds later, where `k` is the number of attempts made,
    `base` the initial back-off (1 s if configured ≤ 0) and `cap = min(max_backoff, 256·base)`
    (`256·base` alone if `max_backoff ≤ 0`): the specification's `C24Spec.delay`.  The `2^8` bound
    is the code's overflow guard on the exponent (regenerated constant `kBackoffExponentClamp`). -/
theorem backoff (cfg : Cfg) (env : Env) (now : Int) (e : Entry)
    (hfail : env.sendOk e.peer = false) (hmore : exhausted cfg (e.attempts + 1) = false) :
    (dispatchEntry cfg env now e).1.nextAttempt
      = some (now + C24Spec.delay (effBase cfg) cfg.maxBackoff (e.attempts + 1) * second) ∧
    (dispatchEntry cfg env now e).1.attempts = e.attempts + 1 ∧
    (dispatchEntry cfg env now e).1.inFlight = false := by
  have hb := backoff_eq_spec cfg (e.attempts + 1) (by omega)
  refine ⟨?_, (dispatchEntry_fields cfg env now e).2.2.2.1, by rw [(dispatchEntry_fields cfg env now e).2.2.2.2.1, hfail]⟩
  unfold dispatchEntry scheduleNext
  simp only [hfail, Bool.false_eq_true, if_false, hmore]
  rw [hb]

/-- the delays start at the initial back-off … -/
theorem backoff_start (base maxBackoff : Int) (hb : 1 ≤ base) :
    C24Spec.delay base maxBackoff 1 = if maxBackoff > 0 ∧ maxBackoff < base then maxBackoff else base := by
  unfold C24Spec.delay C24Spec.cap
  have h1 : ((2 ^ (1 - 1) : Nat) : Int) = 1 := by decide
  rw [h1, Int.mul_one]
  simp only [Int.min_def]
  repeat' split
  all_goals omega

/-- … double while below the maximum … -/
theorem backoff_doubles (base maxBackoff : Int) (k : Nat) (hk : 1 ≤ k) (hb : 1 ≤ base)
    (hbelow : C24Spec.delay base maxBackoff k < C24Spec.cap base maxBackoff) :
    C24Spec.delay base maxBackoff (k + 1) = min (2 * C24Spec.delay base maxBackoff k) (C24Spec.cap base maxBackoff) := by
  unfold C24Spec.delay at *
  have hp : ((2 ^ (k + 1 - 1) : Nat) : Int) = 2 * ((2 ^ (k - 1) : Nat) : Int) := by
    have : k + 1 - 1 = (k - 1) + 1 := by omega
    rw [this, Nat.pow_succ]; push_cast; omega
  rw [hp]
  generalize ((2 ^ (k - 1) : Nat) : Int) = P at *
  have : base * (2 * P) = 2 * (base * P) := by rw [← Int.mul_assoc, Int.mul_comm base 2, Int.mul_assoc]
  rw [this]
  generalize base * P = X at *
  generalize C24Spec.cap base maxBackoff = C at *
  simp only [Int.min_def] at *
  split at hbelow <;> (repeat' split) <;> omega

/-- … never decrease, and never exceed the maximum -/
theorem backoff_monotone (base maxBackoff : Int) (k : Nat) (hb : 1 ≤ base) :
    C24Spec.delay base maxBackoff k ≤ C24Spec.delay base maxBackoff (k + 1) ∧
    C24Spec.delay base maxBackoff k ≤ C24Spec.cap base maxBackoff ∧
    (0 < maxBackoff → C24Spec.delay base maxBackoff k ≤ maxBackoff) := by
  unfold C24Spec.delay
  have hle : ((2 ^ (k - 1) : Nat) : Int) ≤ ((2 ^ (k + 1 - 1) : Nat) : Int) := by
    have : 2 ^ (k - 1) ≤ 2 ^ (k + 1 - 1) := Nat.pow_le_pow_right (by decide) (by omega)
    omega
  have h1 : base * ((2 ^ (k - 1) : Nat) : Int) ≤ base * ((2 ^ (k + 1 - 1) : Nat) : Int) :=
    Int.mul_le_mul_of_nonneg_left hle (by omega)
  generalize base * ((2 ^ (k - 1) : Nat) : Int) = X at *
  generalize base * ((2 ^ (k + 1 - 1) : Nat) : Int) = Y at *
  have hc : 0 < maxBackoff → C24Spec.cap base maxBackoff ≤ maxBackoff := by
    intro h; unfold C24Spec.cap; simp only [h, if_true, Int.min_def]; split <;> omega
  generalize C24Spec.cap base maxBackoff = C at *
  simp only [Int.min_def]
  refine ⟨?_, ?_, fun h => ?_⟩
  · split <;> split <;> omega
  · split <;> omega
  · have := hc h; split <;> omega

/-- a failed dispatch that reaches the attempt limit marks the entry as finished (`next_attempt =
    time_point::max()`), so the same pass removes it (`drop`) -/
theorem exhausted_marks (cfg : Cfg) (env : Env) (now : Int) (e : Entry)
    (hfail : env.sendOk e.peer = false) (hlim : 0 < cfg.attemptLimit) (hreach : cfg.attemptLimit ≤ e.attempts + 1) :
    (dispatchEntry cfg env now e).1.nextAttempt = none := by
  unfold dispatchEntry scheduleNext
  have : exhausted cfg (e.attempts + 1) = true := by simp [exhausted, hlim, hreach]
  simp [hfail, this]

/-- **C24.drop** — after every run of the scheduler (`process_pending_fetches`, i.e. every tick and
    every announce of a chunk not held) no pending fetch remains whose chunk is held locally, whose
    manifest has expired (`wall ≥ manifest_expires`, when set), or whose attempts are exhausted
    (`next_attempt = max`, see `exhausted_marks`). -/
theorem drop (cfg : Cfg) (env : Env) (now wall : Int) (s : State) :
    ∀ e ∈ (process cfg env now wall s).1.pending,
      env.held e.chunk = false ∧ ¬ (e.expires ≠ 0 ∧ wall ≥ e.expires) ∧ e.nextAttempt ≠ none := by
  intro e he
  have h := process_drops cfg env now wall s e he
  simp only [completed, Bool.or_eq_false_iff, manifestExpired, decide_eq_false_iff_not] at h
  refine ⟨h.1.1, h.1.2, ?_⟩
  intro hn; rw [hn] at h; simp at h

/-- … and the arrival of the chunk removes its pending fetch at once (`clear_pending_fetch`) -/
theorem drop_on_arrival (s : State) (c : String) : ∀ e ∈ (clear s c).pending, e.chunk ≠ c := by
  intro e he
  rw [clear_pending] at he
  have := (List.mem_filter.1 he).2
  simpa using this

/-! ### Termination -/

/-- every pending fetch carries an expiry, at most "its last announce + maximum TTL" -/
theorem expiry_bounded (cfg : Cfg) (hm : 0 ≤ cfg.maxTtl) (hist : List Step) (hg : ∀ t ∈ hist, Guarded t) :
    ∀ e ∈ (run cfg State.init hist).pending, e.expires ≠ 0 ∧ e.expires ≤ horizon cfg hist :=
  bounded_run hm hist (s := State.init) (B := 0) (fun _ h => by cases h) hg

/-- **C24.terminates** — after any history (of announces admitted by `handle_announce`), the first
    tick at or after the horizon (the last announce time plus the maximum manifest TTL — no entry's
    recorded manifest expiry is later, `expiry_bounded`) leaves no pending fetch at all; and by
    `drop` each single entry is gone after the first tick at or after its own recorded expiry. -/
theorem terminates (cfg : Cfg) (hm : 0 ≤ cfg.maxTtl) (hist : List Step) (hg : ∀ t ∈ hist, Guarded t)
    (env : Env) (now wall : Int) (hw : horizon cfg hist ≤ wall) :
    (step cfg (run cfg State.init hist) ⟨.tick, now, wall, env⟩).1.pending = [] := by
  show (process cfg env now wall (run cfg State.init hist)).1.pending = []
  rw [List.eq_nil_iff_forall_not_mem]
  intro e he
  have h1 := drop cfg env now wall _ e he
  have h2 := allExp_process (cfg := cfg) env now wall (fun x => x ≠ 0 ∧ x ≤ horizon cfg hist)
    (expiry_bounded cfg hm hist hg) e he
  exact h1.2.1 ⟨h2.1, by omega⟩

/-! ### Non-vacuity and the recorded defect -/

def envUp : Env := ⟨fun _ => false, fun _ => true, fun _ => 0⟩
def envDown : Env := ⟨fun _ => false, fun _ => false, fun _ => 0⟩
/-- the shipped defaults, regenerated from `Config.hpp` -/
def cfgDefault : Cfg :=
  ⟨Gen.C24.cfg_fetch_retry_initial_backoff, Gen.C24.cfg_fetch_retry_max_backoff, Gen.C24.cfg_fetch_retry_success_interval,
   Gen.C24.cfg_fetch_retry_attempt_limit, Gen.C24.cfg_fetch_max_parallel_requests, Gen.C24.cfg_fetch_availability_refresh,
   Gen.C24.cfg_max_manifest_ttl⟩

/-- (T) with the shipped defaults (3 s initial, 60 s maximum) the delays are 3, 6, 12, 24, 48, 60, 60 … -/
theorem default_backoff_sequence :
    (List.range 9).map (fun k => backoffSeconds cfgDefault (k + 1)) = [3, 6, 12, 24, 48, 60, 60, 60, 60] := by decide

/-- re-announce-in-flight history: three announces of one chunk by one provider while the request
    is in flight, then the chunk arrives -/
def reannounce : List Step :=
  [⟨.announce "c1" "p1" 3600000000000, 100, 1000, envUp⟩, ⟨.announce "c1" "p1" 3600000000000, 200, 1100, envUp⟩,
   ⟨.announce "c1" "p1" 3600000000000, 300, 1200, envUp⟩, ⟨.arrive "c1", 400, 1300, envUp⟩]

def runOld (cfg : Cfg) (st : State) : List Step → State
  | [] => st
  | s :: rest => runOld cfg (step cfg st s true).1 rest

/-- the request is re-sent each time, holding one slot; after the arrival nothing is outstanding and
    the counter is back to zero (hypothesis of `zero` met non-trivially) … -/
example : (run cfgDefault State.init (reannounce.take 3)).active "p1" = 1
    ∧ (run cfgDefault State.init (reannounce.take 3)).pending.map (·.attempts) = [3]
    ∧ (run cfgDefault State.init reannounce).pending = []
    ∧ (run cfgDefault State.init reannounce).active "p1" = 0 := by decide
/-- … whereas the code before the repair leaks one slot per re-announce in flight: nothing is
    outstanding after the arrival, yet two of the provider's three slots stay taken for ever (the
    defect found; one more re-announce and the provider is never asked again) -/
theorem old_code_leaks_inflight_count :
    (runOld cfgDefault State.init reannounce).pending = [] ∧ (runOld cfgDefault State.init reannounce).active "p1" = 2 := by
  decide

/-- a retry run against an unreachable provider: attempts at 0, 3, 9, 21, 45 s; the fifth failure
    reaches the attempt limit and the entry is dropped -/
example : ((run cfgDefault State.init
      [⟨.announce "c1" "p1" 3600000000000, 0, 1000, envDown⟩, ⟨.tick, 3000000000, 1000, envDown⟩,
       ⟨.tick, 9000000000, 1000, envDown⟩, ⟨.tick, 21000000000, 1000, envDown⟩]).pending.map
        fun e => (e.attempts, e.nextAttempt)) = [(4, some 45000000000)]
    ∧ (run cfgDefault State.init
      [⟨.announce "c1" "p1" 3600000000000, 0, 1000, envDown⟩, ⟨.tick, 3000000000, 1000, envDown⟩,
       ⟨.tick, 9000000000, 1000, envDown⟩, ⟨.tick, 21000000000, 1000, envDown⟩, ⟨.tick, 45000000000, 1000, envDown⟩]).pending = [] := by
  decide
/-- a far-future manifest is recorded with the capped expiry and the fetch ends at the horizon -/
example : ((run cfgDefault State.init [⟨.announce "c1" "p1" 999999999000000000, 0, 1000, envUp⟩]).pending.map (·.expires))
      = [1000 + 21600 * 1000000000]
    ∧ horizon cfgDefault [⟨.announce "c1" "p1" 999999999000000000, 0, 1000, envUp⟩] = 1000 + 21600 * 1000000000 := by decide
/-- the per-peer limit is reached, not just respected: four chunks from one provider, limit 3 -/
example : (run cfgDefault State.init
    [⟨.announce "c1" "p1" 3600000000000, 1, 1000, envUp⟩, ⟨.announce "c2" "p1" 3600000000000, 2, 1000, envUp⟩,
     ⟨.announce "c3" "p1" 3600000000000, 3, 1000, envUp⟩, ⟨.announce "c4" "p1" 3600000000000, 4, 1000, envUp⟩]).active "p1" = 3 := by
  decide

end EphVerif.C24
