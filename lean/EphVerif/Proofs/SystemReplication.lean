/-
SystemReplication — a chunk published on one node is replicated to another: composition of

  C11  (Proofs/C11)            store_chunk / receive_chunk / fetch_chunk: `roundtrip`, `held_bytes`, `tamper`,
                               `held_chunk_not_poisoned`, `replica_then_forged`
  C21  (Proofs/C21)            `admission`: an ANNOUNCE changes node state only if admissible
  C24  (Proofs/C24)            pending-fetch bookkeeping: `drop_on_arrival`
  C23  (Proofs/C23)            serving side: `nack` (an unservable request is answered NACK, state unchanged)
  C03  (Proofs/C03)            `derived`: everything learned from a manifest expires by the manifest's expiry
  C01  (Proofs/C01)            `dead_unreachable`: a record whose deadline has been reached is served by nothing
  SystemMessaging              `signed_roundtrip_hmac`: a signed message arrives at the other session end exactly

through the glue model `Model/ReplicationGlue.lean` (Node::dispatch_upload's CHUNK content, Node::handle_chunk, receive_chunk's
`clear_pending_fetch` against C24's map, events at an importing node).  Bridging lemmas: `Lemmas/SystemReplication.lean`.
Nothing of the components is re-proved.
-/
import EphVerif.Lemmas.SystemReplication

namespace EphVerif.SystemReplication
open EphVerif EphVerif.StorePipeline EphVerif.ReplicationGlue EphVerif.C11L EphVerif.SysRepL

/-! ## (1) the replica is the original -/

/-- **replica_is_original.**  Publisher A stores payload `P` (any configuration, id, TTL, non-zero key, nonce, coefficient
    draws).  For every importer B that does not hold the chunk, every ANNOUNCE of A's manifest that B's admission chain
    accepts (C21, on any throttle / reputation state, `Describes` tying C21's facts to this manifest), whatever C24's
    scheduler does with the assigned fetch, every instant `tServe` at which A's own TTL window still admits its manifest and
    every instant `tArr` at which B's window admits it:
    * the ANNOUNCE was admissible (C21.admission) and B caches exactly A's manifest;
    * A can serve the request (`servable`, so C23's NACK branch is not taken) and the CHUNK message it builds carries the id
      and A's held bytes;
    * that message, signed under any session key, is accepted at the other end as exactly that message (SystemMessaging),
      provided it fits the wire (`Faithful`: 32-byte id, < 2³² bytes, TTL in range, version 1…4);
    * B's `handle_chunk` accepts it (ACK `true`), B's own lookup returns exactly `P` from then on, and no pending fetch for
      the chunk remains (C24.drop_on_arrival). -/
theorem replica_is_original (cfgA : Config) (hcfgA : C11.ShardCfg cfgA) (stA : NodeState) (tStore : Int) (id P : Bytes) (ttl : Int)
    (key nonce rk : Bytes) (rd : Nat → Nat) (hkey : C11.ChunkKey key) :
    ∃ r held, storeChunk cfgA stA tStore id P ttl key nonce rk rd = .value r ∧ exportRecord r.node id = some held ∧
      ∀ (cfgB : Config) (b : Importer), find b.node.chunks id = none →
      ∀ (acfg : Announce.Cfg) (as : Announce.State) (a : Announce.Ann) (tAnn : Int),
        Describes a (wire r.manifest) cfgB tAnn → (Announce.announce acfg as a).2 = .accepted →
      ∀ (fcfg : Fetches.Cfg) (fenv : Fetches.Env) (sNow : Int) (pA : String) (tServe tArr ttlB : Int) (rk2 : Bytes),
        (manifestTtl r.manifest.expiresNs tServe cfgA.minTtl cfgA.maxTtl).isSome = true →
        manifestTtl (wire r.manifest).expiresNs tArr cfgB.minTtl cfgB.maxTtl = some ttlB →
        let b1 : Importer :=
          { node := announceAdmitted cfgB b.node tAnn (wire r.manifest)
            fetches := (Fetches.announce fcfg fenv sNow tAnn b.fetches (chunkName id) pA (wire r.manifest).expiresNs).1 }
        C21.Admissible acfg a ∧
        find b1.node.manifests id = some (wire r.manifest) ∧
        servable cfgA r.node tServe id = true ∧
        ∃ msg, chunkMessage cfgA r.node tServe id = some msg ∧ msg.chunkId = id ∧ msg.data = held.data ∧
          (∀ (v : Nat) (k : Bytes), System.Faithful ⟨v, 3, .chunk (msg.chunkId) (msg.data) msg.ttl⟩ →
            Message.decodeSigned System.hmac
              (Message.encodeSigned System.hmac ⟨v, 3, .chunk (msg.chunkId) (msg.data) msg.ttl⟩ k) k
              = .ok ⟨v, 3, .chunk (msg.chunkId) (msg.data) msg.ttl⟩) ∧
          (importerChunk cfgB b1 tArr true msg rk2).2 = some true ∧
          (∀ rk3, fetchChunk (importerChunk cfgB b1 tArr true msg rk2).1.node id rk3 = .value (some P)) ∧
          (∀ e ∈ (importerChunk cfgB b1 tArr true msg rk2).1.fetches.pending, e.chunk ≠ chunkName id) := by
  obtain ⟨h1, h2⟩ := hcfgA.bits
  obtain ⟨shares, hs, hlen, _⟩ := split_facts cfgA h1 h2 key rd
  obtain ⟨b1', b2', _⟩ := eff_bounds cfgA h1 h2
  have hstore := storeChunk_eq cfgA stA tStore id P ttl key nonce rk rd shares hs
  -- C11.roundtrip, identified with the explicit result
  obtain ⟨r', held', hs', hheld', _, hrep, _⟩ := C11.roundtrip cfgA hcfgA stA tStore id P ttl key nonce rk rd hkey
  rw [hstore] at hs'
  have hr' : r' = { node := nodeAfterStore cfgA stA tStore id P ttl key nonce rk shares,
                    manifest := manifestOf cfgA tStore id P ttl nonce shares } := by
    cases hs'; rfl
  subst hr'
  have hheld : held' = recordOf cfgA id P ttl key nonce rk := by
    have : exportRecord (nodeAfterStore cfgA stA tStore id P ttl key nonce rk shares) id
        = some (recordOf cfgA id P ttl key nonce rk) := find_upsert _ _ _
    rw [this] at hheld'
    cases hheld'; rfl
  subst hheld
  refine ⟨_, recordOf cfgA id P ttl key nonce rk, hstore, find_upsert _ _ _, ?_⟩
  intro cfgB b hfree acfg as a tAnn hdesc hacc fcfg fenv sNow pA tServe tArr ttlB rk2 hserve harr
  -- C21: the accepted announce was admissible, hence unexpired and with enough shares
  have hadm := ((C21.admission acfg as a).2 hacc).1
  obtain ⟨_, _, _, _, _, hthr, hunexp, _⟩ := hadm
  have hv : (wire (manifestOf cfgA tStore id P ttl nonce shares)).threshold > 0 ∧
      (wire (manifestOf cfgA tStore id P ttl nonce shares)).shards.length ≥
        (wire (manifestOf cfgA tStore id P ttl nonce shares)).threshold := by
    have := hdesc.threshold
    rw [hthr] at this
    exact of_decide_eq_true this.symm
  have ht : (manifestTtl (wire (manifestOf cfgA tStore id P ttl nonce shares)).expiresNs tAnn cfgB.minTtl cfgB.maxTtl).isSome
      = true := by
    rw [← hdesc.unexpired]; exact hunexp
  obtain ⟨hcache, _⟩ := announce_caches cfgB b.node tAnn (wire (manifestOf cfgA tStore id P ttl nonce shares)) hv ht hfree
  -- the CHUNK message A builds
  obtain ⟨ttlA, httlA⟩ : ∃ x, manifestTtl (manifestOf cfgA tStore id P ttl nonce shares).expiresNs tServe cfgA.minTtl cfgA.maxTtl
      = some x := Option.isSome_iff_exists.1 hserve
  have hmsg : chunkMessage cfgA (nodeAfterStore cfgA stA tStore id P ttl key nonce rk shares) tServe id
      = some { chunkId := id, data := sealedData key id P nonce rk, ttl := ttlA } := by
    unfold chunkMessage
    have e1 : find (nodeAfterStore cfgA stA tStore id P ttl key nonce rk shares).manifests id
        = some (manifestOf cfgA tStore id P ttl nonce shares) := find_upsert _ _ _
    have e2 : find (nodeAfterStore cfgA stA tStore id P ttl key nonce rk shares).chunks id
        = some (recordOf cfgA id P ttl key nonce rk) := find_upsert _ _ _
    rw [e1, e2]
    simp only [httlA]
    rfl
  have hserv : servable cfgA (nodeAfterStore cfgA stA tStore id P ttl key nonce rk shares) tServe id = true := by
    rw [servable_iff_message, hmsg]; rfl
  refine ⟨⟨‹_›, ‹_›, ‹_›, ‹_›, ‹_›, hthr, hunexp, ‹_›⟩, hcache, hserv, _, hmsg, rfl, rfl, ?_, ?_⟩
  · intro v k hf
    exact System.signed_roundtrip_hmac _ k hf
  · -- B: handle_chunk → receive_chunk on the cached manifest
    have hrecv := hrep cfgB (announceAdmitted cfgB b.node tAnn (wire (manifestOf cfgA tStore id P ttl nonce shares))) tArr ttlB rk2 harr
    obtain ⟨hacc2, _, _, hfetch⟩ := hrecv
    have hhc : handleChunk cfgB (announceAdmitted cfgB b.node tAnn (wire (manifestOf cfgA tStore id P ttl nonce shares))) tArr true
        { chunkId := id, data := sealedData key id P nonce rk, ttl := ttlA } rk2
        = ((receiveChunk cfgB (announceAdmitted cfgB b.node tAnn (wire (manifestOf cfgA tStore id P ttl nonce shares))) tArr
              (some (wire (manifestOf cfgA tStore id P ttl nonce shares))) (sealedData key id P nonce rk) rk2).1, some true) := by
      unfold handleChunk
      have hc' : find (announceAdmitted cfgB b.node tAnn (wire (manifestOf cfgA tStore id P ttl nonce shares))).manifests id
          = some (wire (manifestOf cfgA tStore id P ttl nonce shares)) := hcache
      simp only [Bool.not_true, Bool.false_eq_true, if_false, hc', wire_wire]
      have : (receiveChunk cfgB (announceAdmitted cfgB b.node tAnn (wire (manifestOf cfgA tStore id P ttl nonce shares))) tArr
          (some (wire (manifestOf cfgA tStore id P ttl nonce shares))) (sealedData key id P nonce rk) rk2).2 = .accepted P := hacc2
      rw [this]; rfl
    unfold importerChunk
    simp only [hhc, if_true]
    refine ⟨trivial, fun rk3 => hfetch rk3, ?_⟩
    exact C24.drop_on_arrival _ (chunkName id)

/-- the C23 side of (1): had A not been able to serve (no manifest, no record, or its window no longer admitting its
    manifest), a keyed, connected requester would have got a NACK and A's upload state would be untouched (C23.nack with the
    glue's `servable` as the environment fact) -/
theorem unservable_is_nacked (ucfg : Uploads.Cfg) (uenv : Uploads.Env) (now : Int) (ust : Uploads.State) (pB : String)
    (cfgA : Config) (stA : NodeState) (wall : Int) (id : Bytes)
    (henv : uenv.servable (chunkName id) = servable cfgA stA wall id) (hno : chunkMessage cfgA stA wall id = none)
    (hkey : uenv.hasKey pB = true) (hlink : uenv.linkUp pB = true) :
    Uploads.handleRequest ucfg uenv now ust pB (chunkName id) = (ust, [Uploads.Frame.nack pB (chunkName id)]) := by
  refine C23.nack ucfg uenv now ust pB (chunkName id) hkey hlink ?_
  rw [henv, servable_iff_message, hno]; rfl

/-! ## (2) safety against arbitrary CHUNK messages -/

/-- a CHUNK that is not accepted changes nothing at the importer: node state (chunk store, key shares, manifest cache,
    announcements, seed ledger) and pending fetches are what they were; only the negative ACK leaves.  (Reputation is not
    touched by `handle_chunk` at all; the sender's reputation moves when *it* processes the ACK.) -/
theorem rejected_chunk_changes_nothing (cfg : Config) (b : Importer) (wallNowNs : Int) (hasKey : Bool) (msg : ChunkMsg) (rk : Bytes)
    (h : (importerChunk cfg b wallNowNs hasKey msg rk).2 ≠ some true) :
    (importerChunk cfg b wallNowNs hasKey msg rk).1 = b := by
  unfold importerChunk at h ⊢
  rcases handleChunk_cases cfg b.node wallNowNs hasKey msg rk with ⟨m, ttl, pt, _, _, _, _, hh, _⟩ | ⟨h1, h2, _⟩
  · rw [hh] at h; exact absurd rfl h
  · simp only [h1, if_neg h2]

/-- an accepted CHUNK: the bytes `receive_chunk` returned hash to the content hash of the manifest the importer had cached
    for that id, the replica is stored through C11's accept effects, and the pending fetch is cleared -/
theorem accepted_chunk_verified (cfg : Config) (b : Importer) (wallNowNs : Int) (hasKey : Bool) (msg : ChunkMsg) (rk : Bytes)
    (h : (importerChunk cfg b wallNowNs hasKey msg rk).2 = some true) :
    ∃ m ttl pt, find b.node.manifests msg.chunkId = some m ∧ Spec.sha256 pt = m.chunkHash ∧
      handleChunkResult cfg b.node wallNowNs hasKey msg rk = .accepted pt ∧
      (importerChunk cfg b wallNowNs hasKey msg rk).1.node = acceptEffects b.node (wire m) ttl msg.data ∧
      ∀ e ∈ (importerChunk cfg b wallNowNs hasKey msg rk).1.fetches.pending, e.chunk ≠ chunkName msg.chunkId := by
  unfold importerChunk at h ⊢
  rcases handleChunk_cases cfg b.node wallNowNs hasKey msg rk with ⟨m, ttl, pt, _, hm, _, hsha, hh, hres⟩ | ⟨_, h2, _⟩
  · refine ⟨m, ttl, pt, hm, hsha, hres, by rw [hh], ?_⟩
    simp only [hh, if_true]
    exact C24.drop_on_arrival _ _
  · exact absurd h h2

/-- **replica_safety.**  Along *any* history at the importer — CHUNK messages from any peer with any bytes for any id,
    admitted announces of any manifests, rejected announces, replica-less ingests, in any order and at any times — every
    replica that was ever accepted (returned by `receive_chunk`, stored, announced) hashes to the content hash of the manifest
    the importer had cached for that id at that moment. -/
theorem replica_safety (cfg : Config) (evs : List Event) : ∀ (b : Importer) (log : List Accepted),
    (∀ a ∈ log, Spec.sha256 a.plaintext = a.manifest.chunkHash) →
    ∀ a ∈ (run cfg (b, log) evs).2, Spec.sha256 a.plaintext = a.manifest.chunkHash := by
  induction evs with
  | nil => intro b log h; exact h
  | cons e rest ih =>
    intro b log h
    simp only [run]
    apply ih
    intro a ha
    rcases List.mem_append.1 ha with ha | ha
    · exact h a ha
    · cases e with
      | chunk now hasKey msg rk =>
        simp only [step] at ha
        cases hm : find b.node.manifests msg.chunkId with
        | none => rw [hm] at ha; simp at ha
        | some m =>
          rw [hm] at ha
          rcases handleChunk_cases cfg b.node now hasKey msg rk with ⟨m', ttl, pt, _, hm', _, hsha, _, hres⟩ | ⟨_, _, hna⟩
          · rw [hm] at hm'; cases hm'
            rw [hres] at ha
            simp only [List.mem_singleton] at ha
            subst ha
            exact hsha
          · cases hr : handleChunkResult cfg b.node now hasKey msg rk with
            | accepted pt => rw [hr] at hna; simp [Recv.isAccepted] at hna
            | rejected => rw [hr] at ha; simp at ha
            | threw => rw [hr] at ha; simp at ha
            | hang => rw [hr] at ha; simp at ha
      | announce now m => simp [step] at ha
      | announceRejected => simp [step] at ha
      | ingest now d => simp [step] at ha

/-- … so, when that manifest is the publisher's (content hash `SHA-256(P)`), the accepted bytes are `P` itself — or a second
    preimage of `SHA-256(P)`, exhibited: the only alternative is an explicit SHA-256 collision with the payload. -/
theorem accepted_is_original_or_collision (a : Accepted) (P : Bytes)
    (hverified : Spec.sha256 a.plaintext = a.manifest.chunkHash) (hpub : a.manifest.chunkHash = Spec.sha256 P) :
    a.plaintext = P ∨ (a.plaintext ≠ P ∧ Spec.sha256 a.plaintext = Spec.sha256 P) := by
  by_cases h : a.plaintext = P
  · exact Or.inl h
  · exact Or.inr ⟨h, by rw [hverified, hpub]⟩

/-- what the importer serves afterwards is what it accepted: after an accepted CHUNK, any sequence of replica-less manifests
    (ingests, admitted announces — forged or not) leaves its own lookup at the accepted bytes (C11.replica_then_forged: the
    repaired `ingest_manifest` / `handle_announce` do not displace the key of a held chunk).  `hstable`: the reconstructed
    key is not the all-zero one, so the decryption does not depend on a replacement-key draw. -/
theorem accepted_stays_readable (cfg : Config) (st : NodeState) (wallNowNs : Int) (m : Manifest) (ct rk pt : Bytes) (ttl : Int)
    (hr : receiveChunk cfg st wallNowNs (some m) ct rk = (acceptEffects st m ttl ct, .accepted pt))
    (hstable : ∀ keyN rk', Shamir.combine m.shards m.threshold = .ok keyN →
      ChaCha20.decrypt_with_key (ofNats keyN) m.chunkId ct m.nonce rk' = ChaCha20.decrypt_with_key (ofNats keyN) m.chunkId ct m.nonce rk)
    (ops : List C11.Forged) (rk1 : Bytes) :
    fetchChunk (C11.runForged cfg (receiveChunk cfg st wallNowNs (some m) ct rk).1 ops) m.chunkId rk1 = .value (some pt) :=
  C11.replica_then_forged cfg st wallNowNs m ct rk pt ttl hr hstable ops rk1

/-! ## (3) the replica's lifetime -/

open EphVerif.StoreSpec (Op) in
/-- **replica_lifetime.**  Node B, constructed from any raw configuration `cfg0` (sanitised: `effective`), accepts a replica
    at steady time `t` (wall `t + off`) under a manifest expiring at wall time `E`.  Then
    * the TTL `ttl` C11's model records with the replica, the key-share record and the announcement is the one C03 derives
      (`manifest_ttl`, the same function), `1 ≤ ttl`;
    * whatever key-share record the table held before (`prev`, any deadline or none: the receive path replaces it), every
      record C03 lists for the receive path — key shares, self-announcement, the replica itself — ends, as wall time,
      no later than `E` and no later than `max_manifest_ttl` after arrival (C03.derived);
    * in C01's store, for any earlier history `pre` and any later history `post` that does not store the id again, the
      replica's entry is the put at `t` with deadline `t + ttl·10⁹ ≤ E − off`, and once that deadline is reached no lookup,
      record export, `fetch_chunk`, peer request or listing serves it (C01.dead_unreachable), sweep or no sweep. -/
theorem replica_lifetime (cfg0 : Gen.C02.Cfg) (shardT shardN : Nat) (off : Int) (stB : NodeState) (t : Int) (m : Manifest)
    (ct rk pt : Bytes) (ttl : Int)
    (hr : receiveChunk (cfgOf (Ttl.effective cfg0) shardT shardN) stB (t + off) (some m) ct rk
            = (acceptEffects stB m ttl ct, .accepted pt)) :
    Gen.C02.manifest_ttl m.expiresNs (Ttl.effective cfg0) (t + off) = some ttl ∧ 1 ≤ ttl ∧
    (exportRecord (acceptEffects stB m ttl ct) m.chunkId).map (·.ttl) = some ttl ∧
    (∀ prev : Int, ∃ ws, MTtl.writes (Ttl.effective cfg0) off t m.expiresNs prev (.receive true) = some ws ∧
      ∀ x ∈ ws, C03Spec.NotAfterManifest m.expiresNs (x.wall off) ∧
        C03Spec.Capped (t + off) (Ttl.effective cfg0).max_manifest_ttl (x.wall off)) ∧
    t + off + ttl * 1000000000 ≤ m.expiresNs ∧
    ∀ (nc : ChunkStore.NodeCfg) (_ : ChunkStore.SaneCfg nc) (t0 : Int) (fs : ChunkStore.FS) (pre post : List Op)
      (c : String) (ctS nonceS : StoreSpec.Bytes),
      (ChunkStore.runSpec (ChunkStore.paramsOf nc) (ChunkStore.freshSpec t0) pre).now = t →
      (∀ o ∈ post, ChunkStore.storesId c o = false) →
      let ops := pre ++ Op.store c ctS ttl nonceS true :: post
      t + ttl * 1000000000 ≤ (ChunkStore.runSpec (ChunkStore.paramsOf nc) (ChunkStore.freshSpec t0) ops).now →
      let w := ChunkStore.runModel nc (ChunkStore.fresh t0 fs) ops
      ChunkStore.get w.sys.recs w.now c = none ∧ ChunkStore.getRecord w.sys.recs w.now c = none ∧
      ChunkStore.nodeFetch w.sys.recs w.now c = none ∧ ChunkStore.nodeRequest nc w.sys.recs w.now c = none ∧
      ∀ d, (c, d) ∉ (ChunkStore.nodeList w.sys.recs w.now).map (fun x => (x.1, x.2.1)) := by
  -- the accept went through C11's TTL test: that is C03's `manifest_ttl`
  rcases C11.tamper (cfgOf (Ttl.effective cfg0) shardT shardN) stB (t + off) (some m) ct rk with
    ⟨m', ttl', pt', keyN, hd, _, _, httl, _, _, _, hr'⟩ | ⟨_, hna⟩
  swap
  · rw [hr] at hna; simp [Recv.isAccepted] at hna
  cases hd
  rw [hr'] at hr
  have hrec : exportRecord (acceptEffects stB m ttl' ct) m.chunkId
      = some { data := ct, nonce := m.nonce, encrypted := true, ttl := ttl' } := find_upsert _ _ _
  have hrec2 : exportRecord (acceptEffects stB m ttl ct) m.chunkId
      = some { data := ct, nonce := m.nonce, encrypted := true, ttl := ttl } := find_upsert _ _ _
  have hst : acceptEffects stB m ttl' ct = acceptEffects stB m ttl ct := congrArg Prod.fst hr
  have hteq : ttl' = ttl := by
    rw [hst, hrec2] at hrec
    simpa using hrec.symm
  subst hteq
  have hgen : Gen.C02.manifest_ttl m.expiresNs (Ttl.effective cfg0) (t + off) = some ttl' := by
    rw [← manifestTtl_eq_generated]; exact httl
  -- C03: the writes of the receive path
  have hw : ∀ prev : Int, MTtl.writes (Ttl.effective cfg0) off t m.expiresNs prev (.receive true)
      = some [⟨.shard, Gen.C02.publish_shards_expires (Gen.C02.receive_shard_ttl ttl' (Ttl.effective cfg0)) t prev⟩,
              ⟨.contact "self", Gen.C02.add_contact_expires
                  (Gen.C02.announce_chunk_contact_ttl (Gen.C02.receive_announce_ttl ttl' (Ttl.effective cfg0))) t⟩,
              ⟨.chunk, Ttl.chunkStorePut (Ttl.effective cfg0) (Gen.C02.receive_put_ttl ttl' (Ttl.effective cfg0)) t⟩] := by
    intro prev
    simp only [MTtl.writes, Gen.C02.receive_ttl_source, hgen, if_true]
  have hder := fun prev : Int => C03.derived cfg0 off t m.expiresNs prev (.receive true) _ (hw prev)
  -- 1 ≤ ttl and the replica's own deadline, from the shard write (same TTL, `steady + ttl·10⁹`)
  have hpos : 1 ≤ ttl' := manifestTtl_pos httl
  have hshard := (hder 0 ⟨.shard, Gen.C02.publish_shards_expires (Gen.C02.receive_shard_ttl ttl' (Ttl.effective cfg0)) t 0⟩
    (List.mem_cons_self)).1
  have hbound : t + off + ttl' * 1000000000 ≤ m.expiresNs := by
    simp only [C03Spec.NotAfterManifest, MTtl.Write.wall, Gen.C02.publish_shards_expires, Gen.C02.receive_shard_ttl] at hshard
    omega
  refine ⟨hgen, hpos, by rw [hrec2]; rfl, fun prev => ⟨_, hw prev, hder prev⟩, hbound, ?_⟩
  intro nc hs t0 fs pre post c ctS nonceS hnow hpost ops hdead w
  obtain ⟨e, hlast, hdl⟩ := last_after_put (ChunkStore.paramsOf nc) t0 pre post c ctS nonceS ttl' hpos hpost
  have := C01.dead_unreachable nc hs t0 fs ops c e hlast (by rw [hdl, hnow]; exact hdead)
  exact this

/-! ## non-vacuity -/

/-- C24 really dispatches the request of (1): default fetch configuration, reachable peer, chunk not held — the announce of
    an assigned chunk leaves one pending entry and one REQUEST frame for the announcing peer -/
example : (Fetches.announce C24.cfgDefault C24.envUp 0 0 Fetches.State.init "c1" "pA" 3600000000000).2 = [⟨"pA", "c1"⟩] ∧
    ((Fetches.announce C24.cfgDefault C24.envUp 0 0 Fetches.State.init "c1" "pA" 3600000000000).1.pending.map (·.chunk)) = ["c1"] := by
  decide

/-- C23 really serves it: an idle publisher with room (3 parallel, 1 per peer), a keyed and connected requester, a servable
    chunk — one CHUNK frame; and the arrival at B clears the entry C24 created above -/
example :
    (Uploads.handleRequest ⟨3, 1, 0, 0⟩ ⟨fun _ => true, fun _ => true, fun _ => true⟩ 0 (Uploads.State.init 0) "pB" "c1").2
      = [Uploads.Frame.chunk "pB" "c1"] ∧
    (Fetches.clear (Fetches.announce C24.cfgDefault C24.envUp 0 0 Fetches.State.init "c1" "pA" 3600000000000).1 "c1").pending = [] := by
  decide

/-- a CHUNK message as (1) sends it is wire-faithful: 32-byte id, 5 held bytes, TTL 3599 s, version 4 -/
example : System.Faithful ⟨4, 3, .chunk (List.replicate 32 7) [1, 2, 3, 4, 5] 3599⟩ := by decide

/-- the hypotheses of `replica_lifetime`'s C01 part are satisfiable: default window, a put at t = 1000 with TTL 3600 s, the
    clock advanced past the deadline — and C03's writes for that manifest are the three records with deadline `t + 3600 s` -/
example :
    MTtl.writes (Ttl.effective { default_chunk_ttl := 21600, min_manifest_ttl := 30, max_manifest_ttl := 21600 }) 0 1000
        (1000 + 3600 * 1000000000) 0 (.receive true)
      = some [⟨.shard, 1000 + 3600 * 1000000000⟩, ⟨.contact "self", 1000 + 3600 * 1000000000⟩, ⟨.chunk, 1000 + 3600 * 1000000000⟩] := by
  decide

end EphVerif.SystemReplication
