/-
C08 — SHA-256 and HMAC-SHA256 match the standards for every input.

  Spec   : EphVerif/Spec/Sha256.lean (FIPS 180-4), EphVerif/Spec/Hmac.lean (RFC 2104)
  Model  : EphVerif/Model/Sha256.lean, EphVerif/Model/Hmac.lean (transcription of src/crypto/*.cpp,
           every table entry / rotation amount / size from Generated/C08.lean)
  Lemmas : EphVerif/Lemmas/C08{Compress,Stream,Hmac,Const}.lean

Property theorems only.  Three groups:
  (A) the model of the code equals the specification, for every input and every way of splitting it;
  (B) the specification's constants are the standard's (generated tables = spec tables; the spec
      tables are the 32-bit fractions of the roots of the first primes; the padding length is the
      smallest solution the standard asks for);
  (C) the specification reproduces the published example values (kernel evaluation):
      EphVerif/Proofs/C08Vectors.lean.
-/
import EphVerif.Lemmas.C08Hmac
import EphVerif.Lemmas.C08Const

namespace EphVerif.C08
open EphVerif.Model
open EphVerif.Spec.Sha256 (K H0 Hash padZeroBits pad)

/-! ## (A) model = specification -/

/-- For every list of pieces, feeding them to the streaming hasher one `update` call each and
    finalizing gives the specification's SHA-256 of their concatenation.  No length hypothesis:
    `bit_len_` (mod 2^64) and the specification's length field (mod 2^64) agree even beyond
    2^61 bytes; below 2^61 bytes (`sha_streaming`) the right-hand side is the FIPS 180-4 value. -/
theorem sha_streaming_any_length (cs : List (List UInt8)) :
    Sha256.finalize (cs.foldl Sha256.update Sha256.init) = Spec.sha256 cs.flatten := by
  have h := finalize_eq _ _ (absorbed_foldl cs _ _ absorbed_init)
  rw [List.nil_append] at h
  exact h

/-- C08, SHA-256 clause: every message of fewer than 2^61 bytes (2^64 bits, the domain of
    FIPS 180-4), fed in any split of incremental updates, hashes to the FIPS 180-4 value. -/
theorem sha_streaming (cs : List (List UInt8)) (_h : cs.flatten.length < 2 ^ 61) :
    Sha256.finalize (cs.foldl Sha256.update Sha256.init) = Spec.sha256 cs.flatten :=
  sha_streaming_any_length cs

/-- any two ways of splitting the same message give the same digest -/
theorem sha_split_independent (cs ds : List (List UInt8)) (h : cs.flatten = ds.flatten) :
    Sha256.finalize (cs.foldl Sha256.update Sha256.init) = Sha256.finalize (ds.foldl Sha256.update Sha256.init) := by
  rw [sha_streaming_any_length, sha_streaming_any_length, h]

/-- the one-shot entry point `Sha256::digest` -/
theorem sha_digest (m : List UInt8) : Sha256.digest m = Spec.sha256 m := digest_eq m

/-- `buffer_size_ < 64` after any sequence of updates: the branch of the model's `updateLoop` that
    stands for a non-terminating C++ loop is unreachable, and `buffer_[buffer_size_++]` in
    `finalize` is in bounds. -/
theorem buffer_bounded (cs : List (List UInt8)) : (cs.foldl Sha256.update Sha256.init).buf.length < 64 := by
  have h := absorbed_foldl cs _ _ absorbed_init
  rw [h.buf, tail_length]; omega

/-- below 2^61 bytes `bit_len_` has not wrapped: it *is* the message length in bits -/
theorem bit_len_exact (cs : List (List UInt8)) (h : cs.flatten.length < 2 ^ 61) :
    (cs.foldl Sha256.update Sha256.init).bitLen.toNat = 8 * cs.flatten.length := by
  have hA := absorbed_foldl cs _ _ absorbed_init
  rw [hA.bitLen, List.nil_append, UInt64.toNat_ofNat']
  omega

/-- C08, HMAC clause: for every key (of any length, including longer than the block size) and
    every message, `HmacSha256::compute` is the RFC 2104 value. -/
theorem hmac (key data : List UInt8) : Hmac.compute key data = Spec.hmacSha256 key data := compute_eq key data

/-- C08, verification clause: `HmacSha256::verify` accepts exactly the 32-byte correct tag. -/
theorem verify (key data tag : List UInt8) :
    Hmac.verify key data tag = true ↔ tag.length = 32 ∧ tag = Spec.hmacSha256 key data := verify_iff key data tag

theorem verify_accepts_correct_tag (key data : List UInt8) :
    Hmac.verify key data (Spec.hmacSha256 key data) = true :=
  (verify key data _).mpr ⟨Spec.hmacSha256_length key data, rfl⟩

theorem verify_rejects_wrong_length (key data tag : List UInt8) (h : tag.length ≠ 32) :
    Hmac.verify key data tag = false := by
  cases hv : Hmac.verify key data tag with
  | false => rfl
  | true => exact absurd ((verify key data tag).mp hv).1 h

/-! non-vacuity of the hypotheses above -/
example : ([[0x61], [], [0x62, 0x63]] : List (List UInt8)).flatten.length < 2 ^ 61 := by decide
example : ([[0x61], [0x62, 0x63]] : List (List UInt8)).flatten = ([[0x61, 0x62], [], [0x63]] : List (List UInt8)).flatten := by
  decide
example : ([1, 2, 3] : List UInt8).length ≠ 32 := by decide

/-! ## (B) the constants -/

/-- (T) the tables, amounts and sizes regenerated from the C++ source equal the specification's
    (the literals on the right are those of FIPS 180-4 / RFC 2104, not of `Generated/`). -/
theorem generated_constants :
    Gen.C08.kRoundConstants = K ∧ toSpec (Sha256.Words8.ofList Gen.C08.initState) = H0 ∧
    Gen.C08.big_sigma0 = (2, 13, 22) ∧ Gen.C08.big_sigma1 = (6, 11, 25) ∧
    Gen.C08.small_sigma0 = (7, 18, 3) ∧ Gen.C08.small_sigma1 = (17, 19, 10) ∧
    Gen.C08.blockSize = 64 ∧ Gen.C08.spaceBase = 64 ∧ Gen.C08.terminator = 0x80 ∧ Gen.C08.padThreshold = 56 ∧
    Gen.C08.lengthOffset = 56 ∧ Gen.C08.lengthOffset2 = 56 ∧ Gen.C08.lengthTopByte = 7 ∧ Gen.C08.bitsPerByte = 8 ∧
    Gen.C08.hmacBlockSize = 64 ∧ Gen.C08.hmacDigestSize = 32 ∧ Gen.C08.opad = 0x5c ∧ Gen.C08.ipad = 0x36 :=
  ⟨gen_K, gen_H0, gen_sigma.1, gen_sigma.2.1, gen_sigma.2.2.1, gen_sigma.2.2.2, rfl, rfl, rfl, rfl, rfl, rfl, rfl, rfl,
    rfl, rfl, rfl, rfl⟩

/-- (T) the comparison loop of `HmacSha256::verify`, as regenerated from the source, starts from 0,
    OR-accumulates XOR differences and tests the result against 0.  The model interprets these five
    items (`Model/Hmac.lean`: `binOp`, `finalTest`), and `verify` above is proved through them:
    an accumulator that adds, xors, ands or overwrites breaks this theorem and `verify`. -/
theorem generated_verify_loop :
    Gen.C08.verifyAccInit = 0 ∧ Gen.C08.verifyAccOp = "|" ∧ Gen.C08.verifyDiffOp = "^" ∧
    Gen.C08.verifyFinalCmp = "==" ∧ Gen.C08.verifyFinalConst = 0 :=
  ⟨gen_verifyAccInit, gen_verifyAccOp, gen_verifyDiffOp, gen_verifyFinalCmp, gen_verifyFinalConst⟩

/-- why the operator matters: with a wrapping sum two differences of 0x80 cancel -/
example : Hmac.binOp "+" (Hmac.binOp "+" 0 (Hmac.binOp "^" 0x12 0x92)) (Hmac.binOp "^" 0x34 0xb4) = 0 := by decide

/-- (T) widths of the integers that carry a length, as declared in the source: the running
    bit-length member `bit_len_` and the cast applied to `data.size()` are 64-bit (the model truncates
    to these widths, `Model/Sha256.lean: wrapBits`; `sha_streaming` and `bit_len_exact` need a 64-bit
    counter: a 32-bit one wraps at 2^29 bytes), and `buffer_size_` can hold 64. -/
theorem generated_widths :
    Gen.C08.bitLenBits = 64 ∧ Gen.C08.bitLenCastBits = 64 ∧ 64 < 2 ^ Gen.C08.bufferSizeBits :=
  ⟨gen_bitLenBits, gen_bitLenCastBits, gen_bufferSizeBits⟩

/-- why the width matters: 2^29 bytes are 2^32 bits, which a 32-bit counter records as 0 -/
example : Sha256.wrapBits 32 (UInt64.ofNat (8 * 2 ^ 29)) = 0 ∧ Sha256.wrapBits 64 (UInt64.ofNat (8 * 2 ^ 29)) ≠ 0 := by decide

/-- `primes64` is the list of the first sixty-four primes -/
theorem first_64_primes : primes64 = primesBelow 312 ∧ primes64.length = 64 := primes64_are_the_first_64_primes

/-- FIPS 180-4 §4.2.2: `K_i` is the first 32 bits of the fractional part of the cube root of the
    `i`-th prime, `i = 0 … 63`:  `(n·2^32 + K_i)^3 ≤ p_i·2^96 < (n·2^32 + K_i + 1)^3` for some `n`. -/
theorem K_is_standard :
    K.length = 64 ∧ ∀ i, i < 64 → IsFrac32OfRoot 3 (primes64.getD i 0) (K.getD i 0).toNat := by
  refine ⟨rfl, fun i hi => isFrac32OfRoot_of_B _ _ _ ?_⟩
  have h : ∀ i ∈ List.range 64, isFrac32OfRootB 3 (primes64.getD i 0) (K.getD i 0).toNat = true := by decide +kernel
  exact h i (List.mem_range.mpr hi)

/-- FIPS 180-4 §5.3.3: `H0_i` is the first 32 bits of the fractional part of the square root of
    the `i`-th prime, `i = 0 … 7`:  `(n·2^32 + H0_i)^2 ≤ p_i·2^64 < (n·2^32 + H0_i + 1)^2`. -/
theorem H0_is_standard :
    ∀ i, i < 8 → IsFrac32OfRoot 2 (primes64.getD i 0)
      (([H0.a, H0.b, H0.c, H0.d, H0.e, H0.f, H0.g, H0.h] : List UInt32).getD i 0).toNat := by
  intro i hi
  apply isFrac32OfRoot_of_B
  have h : ∀ i ∈ List.range 8, isFrac32OfRootB 2 (primes64.getD i 0)
      (([H0.a, H0.b, H0.c, H0.d, H0.e, H0.f, H0.g, H0.h] : List UInt32).getD i 0).toNat = true := by decide +kernel
  exact h i (List.mem_range.mpr hi)

/-- FIPS 180-4 §5.1.1: the number of zero bits is the smallest non-negative solution of
    `l + 1 + k ≡ 448 (mod 512)` -/
theorem pad_zero_bits_is_smallest_solution (l : Nat) :
    (l + 1 + padZeroBits l) % 512 = 448 ∧ ∀ k, k < padZeroBits l → (l + 1 + k) % 512 ≠ 448 := by
  unfold padZeroBits
  constructor
  · omega
  · intro k hk; omega

/-- the padded message is a whole number of 512-bit blocks -/
theorem pad_length (M : List UInt8) : (pad M).length % 64 = 0 := by
  unfold pad Spec.Sha256.padding padZeroBits
  simp only [List.length_append, List.length_cons, List.length_replicate, be64_length]
  omega

end EphVerif.C08
