import EphVerif.Spec.Hmac
namespace EphVerif.C08
theorem stub : True := trivial
end EphVerif.C08
