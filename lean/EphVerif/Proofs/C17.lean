import EphVerif.Lemmas.C17Base64
import EphVerif.Lemmas.C17Sections

/-!
C17 — manifests round-trip, and unrepresentable manifests are refused.

Property theorems about the model `EphVerif.Manifest` (Model/Manifest.lean) of
`src/protocol/Manifest.cpp`, against the specification vocabulary of Spec/Manifest.lean
(`WF`, `Encodable`, `normalise`).  No bound on list or string sizes anywhere.
-/
namespace EphVerif.C17
open EphVerif.Manifest EphVerif.Gen.C17

/-- generated-constant obligation: the URI prefix the property names, and format version 4.
    (The base64 alphabet is deliberately *not* pinned: the lemmas `decVal_alphaAt`,
    `alphaAt_ne_pad` re-check, for whatever 64 entries the source holds, that the decode table
    inverts the alphabet and that no entry is `=`, which is all the round trip needs.) -/
theorem format_constants :
    kManifestVersion = 4 ∧ kScheme = "eph://".toList.map (fun c => UInt8.ofNat c.toNat) := by
  decide

/-- generated-constant obligation: each of the eleven length tests of the encoder refuses exactly
    above the property's literal limit of its field (255 for counts and 8-bit lengths, 65535 for
    16-bit lengths) -/
theorem limit_tests (n : Nat) :
    (refuseShardCount n = decide (n > 255)) ∧ (refuseMetadataCount n = decide (n > 255)) ∧
    (refuseMetadataKey n = decide (n > 255)) ∧ (refuseMetadataValue n = decide (n > 65535)) ∧
    (refuseDiscoveryCount n = decide (n > 255)) ∧ (refuseDiscoveryScheme n = decide (n > 255)) ∧
    (refuseDiscoveryTransport n = decide (n > 255)) ∧ (refuseDiscoveryEndpoint n = decide (n > 65535)) ∧
    (refuseFallbackCount n = decide (n > 255)) ∧ (refuseFallbackUri n = decide (n > 65535)) ∧
    (refuseAdvisory n = decide (n > 65535)) :=
  ⟨rfl, rfl, rfl, rfl, rfl, rfl, rfl, rfl, rfl, rfl, rfl⟩

/-- `base64_decode (base64_encode bytes) = bytes`, for every byte string -/
theorem b64_roundtrip (bs : Bytes) : b64Decode (b64Encode bs) = .ok bs := b64Decode_encode bs

/-- the binary payload of a representable manifest parses back to its normal form -/
theorem payload_roundtrip (m : Manifest) (hwf : WF m) (henc : Encodable m) :
    decodePayload (payload m) = .ok (normalise m) := by
  obtain ⟨hsh, hmd, hmde, hdc, hdce, hfb, hfbe, hadv⟩ := henc
  have hv1 : (u8 kManifestVersion == 1) = false := by decide
  have hv2 : (u8 kManifestVersion == 2) = false := by decide
  have hv4 : decide ((u8 kManifestVersion).toNat ≥ 4) = true := by decide
  simp only [decodePayload, payload, encShardSection, encMetadataSection, encDiscoverySection, encFallbackSection,
    List.cons_append, readHeader_append m hwf, Res.bind_ok, u8_toNat hsh,
    readShardSection_append m.shards hwf.shards, hv1, hv2, hv4, Bool.false_eq_true, if_false,
    readMetaSection_append m.metadata hmd hmde hwf.metadata,
    readDiscSection_append m.discovery hdc hdce,
    readSecurity_append m.security hadv hwf.digest]
  have := readFallbackSection_append m.fallback hfb hfbe []
  simp only [List.append_nil] at this
  simp only [this, Res.bind_ok, baseManifest, normalise, wholeSeconds, nsPerSecond]

/-- **C17, first clause.**  For every manifest value of the C++ type that the encoder's tests
    accept, the encoder produces a URI and decoding that URI yields the same manifest up to
    whole-second expiry, an empty discovery scheme being reported as its transport (and a digest
    that is not flagged being reported as zeros). -/
theorem roundtrip (m : Manifest) (hwf : WF m) (henc : Encodable m) :
    ∃ uri, encodeManifest m = .ok uri ∧ decodeManifest uri = .ok (normalise m) := by
  refine ⟨kScheme ++ b64Encode (payload m), ?_, ?_⟩
  · simp [encodeManifest, (encodeChecks_iff m).mpr henc]
  · have hp : (!kScheme.isPrefixOf (kScheme ++ b64Encode (payload m))) = false := by
      simp [List.isPrefixOf_iff_prefix]
    simp only [decodeManifest, hp, Bool.false_eq_true, if_false, List.drop_left, b64Decode_encode, Res.bind_ok,
      payload_roundtrip m hwf henc]

/-- **C17, second clause.**  A manifest with a field the format cannot represent (more than 255
    entries in a counted list, shards included, or a string beyond its 8/16-bit length field) is
    answered with `length_error`: no URI is produced. -/
theorem refuse (m : Manifest) (h : ¬ Encodable m) : encodeManifest m = .lengthError := by
  have : encodeChecks m = false := by
    cases hc : encodeChecks m
    · rfl
    · exact absurd ((encodeChecks_iff m).mp hc) h
  simp [encodeManifest, this]

/-- the encoder accepts exactly the representable manifests -/
theorem accepts_iff (m : Manifest) : (∃ uri, encodeManifest m = .ok uri) ↔ Encodable m := by
  constructor
  · rintro ⟨uri, h⟩
    refine Classical.byContradiction fun hn => ?_
    rw [refuse m hn] at h
    cases h
  · intro h
    exact ⟨kScheme ++ b64Encode (payload m), by simp [encodeManifest, (encodeChecks_iff m).mpr h]⟩

/-! ### non-vacuity and the boundaries 255/256 and 65535/65536 -/

/-- a well-formed manifest; `n` shards, one metadata value of `v` bytes, one transport of `t` bytes -/
def sample (n v t : Nat) : Manifest :=
  { chunkId := List.replicate 32 1, chunkHash := List.replicate 32 2, nonce := List.replicate 12 3,
    threshold := 2, totalShares := 3, expiresNs := -1500000000,
    shards := List.replicate n ⟨7, List.replicate 32 9⟩,
    metadata := [([97], List.replicate v 120), ([98], [])],
    discovery := [⟨[], List.replicate t 116, [49], 5⟩],
    security := ⟨[104, 105], List.replicate 32 4, false, 6⟩,
    fallback := [⟨[104], 1⟩] }

theorem sample_wf (n v t : Nat) : WF (sample n v t) := by
  constructor <;> simp [sample, bytesLt]

theorem sample_encodable_iff (n v t : Nat) : Encodable (sample n v t) ↔ n ≤ 255 ∧ v ≤ 65535 ∧ t ≤ 255 := by
  simp [Encodable, sample, reportedScheme]

example : Encodable (sample 255 65535 255) := (sample_encodable_iff _ _ _).mpr (by omega)
example : ¬ Encodable (sample 256 0 0) := fun h => by have := (sample_encodable_iff _ _ _).mp h; omega
example : ¬ Encodable (sample 0 65536 0) := fun h => by have := (sample_encodable_iff _ _ _).mp h; omega
example : ¬ Encodable (sample 0 0 256) := fun h => by have := (sample_encodable_iff _ _ _).mp h; omega

/-- the hypotheses of `roundtrip` are met at the upper boundary of every kind of field … -/
example : ∃ uri, encodeManifest (sample 255 65535 255) = .ok uri ∧
    decodeManifest uri = .ok (normalise (sample 255 65535 255)) :=
  roundtrip _ (sample_wf _ _ _) ((sample_encodable_iff _ _ _).mpr (by omega))

/-- … and one past it the encoder refuses (300 shards were encoded as 44 before the repair) -/
example : encodeManifest (sample 256 0 0) = .lengthError :=
  refuse _ fun h => by have := (sample_encodable_iff _ _ _).mp h; omega
example : encodeManifest (sample 300 0 0) = .lengthError :=
  refuse _ fun h => by have := (sample_encodable_iff _ _ _).mp h; omega
example : encodeManifest (sample 0 65536 0) = .lengthError :=
  refuse _ fun h => by have := (sample_encodable_iff _ _ _).mp h; omega

/-- the normal form is not the identity: sub-second expiry is cut toward the epoch and the empty
    scheme becomes the transport -/
example : (normalise (sample 1 1 1)).expiresNs = -1000000000 ∧
    (normalise (sample 1 1 1)).discovery.map (·.scheme) = [[116]] := by decide

end EphVerif.C17
