import EphVerif.Model.Manifest
namespace EphVerif.C17
theorem stub : True := trivial
end EphVerif.C17
