import EphVerif.Model.UpdateJson
import EphVerif.Spec.JsonString

namespace EphVerif.C38

/-- generated constant obligation: the nesting limit of the repaired parser -/
theorem maxJsonDepth_eq : EphVerif.Gen.C38.kMaxJsonDepth = 128 := by decide

end EphVerif.C38
