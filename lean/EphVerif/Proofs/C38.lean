/-
C38 — update metadata parsing is total and decodes JSON strings correctly.

Property theorems about the model `EphVerif.UpdateJson` (src/core/UpdateCheck.cpp after the three
C38 repairs) against the specification `EphVerif.JsonSpec` (RFC 8259 strings, RFC 3629 UTF-8) and
`EphVerif.C38Spec` (what the parsed tree / the reported metadata must be).
Helper lemmas: Lemmas/C38Total.lean, Lemmas/C38Strings.lean, Lemmas/C38Metadata.lean.
-/
import EphVerif.Model.UpdateJson
import EphVerif.Spec.JsonString
import EphVerif.Spec.UpdateJson
import EphVerif.Lemmas.C38Metadata

namespace EphVerif.C38
open EphVerif.UpdateJson EphVerif.JsonSpec EphVerif.C38Spec EphVerif.C38L

/-- generated constant obligation: the nesting limit of the repaired parser is the 128 the
    theorems below name -/
theorem maxJsonDepth_eq : EphVerif.Gen.C38.kMaxJsonDepth = 128 := by decide

/-- **C38.total** — for every byte string, `parse_update_metadata` terminates (the model is a total
    function whose loops run on fuel `size + 1`) with success or with an error message: it never
    reads outside the document (`oob`) and no loop is still running when the fuel is exhausted
    (`outOfFuel`), because every loop iteration advances the cursor. -/
theorem C38_total (inp : Input) :
    (∃ m, parseUpdateMetadata inp = .ok m) ∨ (∃ msg, parseUpdateMetadata inp = .err msg) := by
  have h := safe_parseUpdateMetadata inp
  cases hr : parseUpdateMetadata inp with
  | ok m => exact Or.inl ⟨m, rfl⟩
  | err msg => exact Or.inr ⟨msg, rfl⟩
  | oob => rw [hr] at h; exact h.elim
  | outOfFuel => rw [hr] at h; exact h.elim

/-- the same for the JSON reader alone, at any starting position inside the document and any
    nesting budget, with the progress invariant that is the termination argument: the cursor
    stays inside the document and never moves back -/
theorem C38_total_value (inp : Input) (d pos : Nat) (hpos : pos ≤ inp.size) :
    (∃ v p', parseValue inp d pos = .ok (v, p') ∧ pos ≤ p' ∧ p' ≤ inp.size) ∨
    (∃ msg, parseValue inp d pos = .err msg) := by
  have h := safe_parseValue inp d pos hpos
  cases hr : parseValue inp d pos with
  | ok r => rw [hr] at h; exact Or.inl ⟨r.1, r.2, rfl, h⟩
  | err msg => exact Or.inr ⟨msg, rfl⟩
  | oob => rw [hr] at h; exact h.elim
  | outOfFuel => rw [hr] at h; exact h.elim

/-- **C38.depth** (accepted documents) — a document that parses is nested at most 128 containers
    deep: the recursion `parse_value → parse_object/parse_array → parse_value` never went deeper. -/
theorem C38_depth (inp : Input) (v : JV) (h : parseDocument inp = .ok v) : DepthLe 128 v := by
  have := (parseDocument_ok h).2
  rwa [maxJsonDepth_eq] at this

/-- **C38.depth** (rejected documents) — every input that opens more than 128 arrays in a row, of
    whatever length (10^6 `[` included), is refused with the nesting error after descending exactly
    to the limit; the recursion depth is bounded by the limit on failing inputs too (the model's
    recursion is structural on the remaining budget, which starts at 128). -/
theorem C38_depth_reject (n : Nat) (rest : List Nat) (hn : 128 < n) :
    parseDocument (List.replicate n 0x5B ++ rest).toArray = .err "JSON nesting too deep" :=
  deep_document_reject n rest (by rw [maxJsonDepth_eq]; exact hn)

/-- **C38.strings** (whole tree) — on success every string of the parsed tree, values and member
    names alike, is the RFC 8259 decoding (escapes, surrogate pairs → one code point, UTF-8 per
    RFC 3629) of the string literal that starts at the recorded offset of the document. -/
theorem C38_strings_tree (inp : Input) (v : JV) (h : parseDocument inp = .ok v) : AllStr (StrAt inp) v :=
  (parseDocument_ok h).1

/-- **C38.strings** — on success each reported field is the decoding of the corresponding JSON
    string of the document: `version`, `tag`, `commit`, `channel`, `generated_at` are the first
    members of those names of the root object (string literals); `notes_url` likewise when it is a
    string; every download entry comes from a member of `downloads` whose value is an object, with
    the platform the decoding of the member name and `url`, `arch`, `format`, `sha256` the decodings
    of that object's string members (empty / absent when there is no such string member). -/
theorem C38_strings (inp : Input) (m : Metadata) (h : parseUpdateMetadata inp = .ok m) :
    ∃ ms dls, parseDocument inp = .ok (.obj ms) ∧
      FieldIs inp ms "version" m.version ∧ FieldIs inp ms "tag" m.tag ∧ FieldIs inp ms "commit" m.commit ∧
      FieldIs inp ms "channel" m.channel ∧ FieldIs inp ms "generated_at" m.generatedAt ∧
      OptFieldIs inp ms "notes_url" m.notesUrl ∧
      findMember ms (ascii "downloads") = some (.obj dls) ∧ m.downloads ≠ [] ∧
      ∀ d ∈ m.downloads, DownloadIs inp dls d :=
  parseUpdateMetadata_ok h

/-- the string reader agrees with the RFC 8259 decoder wherever it is invoked -/
theorem C38_string_literal (inp : Input) (pos p' : Nat) (s : List Nat) (h : parseString inp pos = .ok (s, p')) :
    StrAt inp pos s := parseString_ok h

/-- `append_utf8`'s shifts and masks are RFC 3629 for every Unicode scalar value -/
theorem C38_utf8 (cp : Nat) (h1 : cp < 0x110000) (h2 : ¬(0xD800 ≤ cp ∧ cp ≤ 0xDFFF)) :
    utf8Encode cp = some (appendUtf8 cp) := utf8Encode_appendUtf8 cp h1 h2

/-! ### non-vacuity -/

def bytesOf (s : String) : List Nat := s.toList.map Char.toNat

def isErr {α : Type} (r : Res α) (msg : String) : Bool :=
  match r with
  | .err m => m == msg
  | _ => false

/-- a document whose `version` is the surrogate pair `\uD83D\uDE00` (U+1F600) -/
def docSurrogate : Input :=
  (bytesOf "{\"version\":\"\\uD83D\\uDE00\",\"tag\":\"t\",\"commit\":\"c\",\"channel\":\"s\",\"generated_at\":\"g\",\"downloads\":{\"l\":{\"url\":\"u\\n\"}}}").toArray

/-- it is accepted, and `version` is the 4-byte UTF-8 sequence F0 9F 98 80 (not CESU-8) -/
example : parseUpdateMetadata docSurrogate =
    .ok { version := [0xF0, 0x9F, 0x98, 0x80], tag := [0x74], commit := [0x63], channel := [0x73], generatedAt := [0x67],
          notesUrl := none,
          downloads := [{ platform := [0x6C], url := [0x75, 0x0A], sha256 := none, arch := [], format := [] }] } := by
  decide +kernel

/-- the specification decodes the same literal to the same bytes -/
example : decodeStr false (bytesOf "\\uD83D\\uDE00\"rest") = some ([0xF0, 0x9F, 0x98, 0x80], bytesOf "rest") := by
  decide +kernel

/-- lone surrogates are undecodable in the specification and rejected by the model -/
example : decodeStr false (bytesOf "\\uD83D\"") = none ∧ decodeStr false (bytesOf "\\uDE00\"") = none ∧
    decodeStr false (bytesOf "\\uDE00\\uD83D\"") = none := by decide +kernel

example : isErr (parseDocument (bytesOf "\"\\uD83Dx\"").toArray) "Unpaired high surrogate in unicode escape" = true := by
  decide +kernel

/-- truncated documents end in an error message, not in an out-of-range read -/
example : isErr (parseDocument (bytesOf "{").toArray) "Unexpected end of JSON input" = true ∧
    isErr (parseDocument (bytesOf "-").toArray) "Unexpected end of JSON input" = true ∧
    isErr (parseDocument (bytesOf "{\"a\":1,").toArray) "Unexpected end of JSON input" = true := by decide +kernel

/-- a tree of depth 2 is produced (so `DepthLe` is not vacuously about scalars) -/
example : (match parseDocument (bytesOf "[[1]]").toArray with
    | .ok (.arr [.arr [.num t]]) => t == [0x31]
    | _ => false) = true := by decide +kernel

end EphVerif.C38
