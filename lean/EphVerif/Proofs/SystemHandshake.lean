/-
System-level composition: admission of inbound handshakes (C20) with the concrete key validator
(C12) and the concrete proof-of-work predicate (C19) over SHA-256 (C08), the initiator's solver
(C19), the session key both ends derive (C12) and the signed messages that then flow (SystemMessaging).

Every theorem is obtained by instantiating and composing imported theorems:
  C20  `accept`, `keys_validated`, `reject`            admission over abstract `keyValid` / `powValid` facts
  C12  `validate`, `computePublic_spec`, `key`, `key_length`, `modexp_spec`
  C19  `accept_node_handshake`, `accept_handshake`, `solver_handshake`, `binding_handshake`, `lz_spec32`
  C08  `sha_digest`, `hmac`                              (`Sha256::digest`, `HmacSha256::compute` = the standards)
  SystemMessaging `session_message_accepted`
All statements are ∀ over histories, identities, peer ids, scalars, nonces, candidate streams,
difficulties; the only arithmetic side conditions are the C++ integer widths.

Notation: `R : Responder` is a node in the responder role (`self` id bytes, configured `bits`,
`cooldown`, `idOf` = bytes of the peer ids C20 names by strings); `env sha R` is C20's environment
with `powValid := C19's nodeVerifyHandshake sha R.bits (peer, R.self, key) nonce`;
`preimage R p key n` = the bytes `handshake_pow_digest(p, self, key, n)` hashes.
-/
import EphVerif.Lemmas.SystemHandshake
import EphVerif.Lemmas.SystemHandshakeOrder
import EphVerif.Proofs.SystemMessaging

namespace EphVerif.SystemHandshake
open EphVerif.Kex EphVerif.Pow EphVerif.Spec.Pow EphVerif.SysHs EphVerif.SysHsL
open EphVerif.Message EphVerif.MessageSpec

/-- the hash of the code, as its standard -/
abbrev sha256 : List UInt8 → List UInt8 := EphVerif.Spec.sha256
/-- the MAC of the code, as its standard -/
abbrev hmac : List UInt8 → List UInt8 → List UInt8 := EphVerif.Spec.hmacSha256

/-- "offered with 1 < key < p and a nonce whose SHA-256 preimage digest over (claimed peer, this
    node, key) has at least `min bits 24` leading zero bits" -/
def Validated (R : Responder) (p : String) (key nonce : Nat) : Prop :=
  Spec.Kex.acceptable key ∧ meets sha256 (preimage R p key nonce) (capped R.bits)

/-- the same in numbers: `1 < key < 2^31 − 1` and the 256-bit digest, read big-endian, is below
    `2^(256 − min bits 24)` -/
theorem validated_arith (R : Responder) (p : String) (key nonce : Nat) :
    Validated R p key nonce ↔
      (1 < key ∧ key < 2147483647) ∧
      beVal (sha256 (preimage R p key nonce)) < 2 ^ (256 - min R.bits 24) := by
  unfold Validated meets
  rw [C19.lz_spec32 _ (EphVerif.Spec.sha256_length _) (capped R.bits) (by unfold capped; omega)]
  rfl

/-! ## (1) C20's admission theorems with the concrete validators -/

/-- every accepted handshake event of any history was `Validated` -/
theorem accepted_facts (R : Responder) (t0 : Int) (ops : List Handshake.Op) :
    ∀ e ∈ (Handshake.run (env sha256 R) (Handshake.init t0, []) ops).2, e.accepted = true →
      Validated R e.peer e.pub e.nonce := by
  intro e he ha
  have := C20.accept (env sha256 R) t0 ops e he ha
  exact ⟨(keyValid_iff _).mp this.1, (powFact_iff sha256 R _ _ _).mp this.2⟩

/-- every key the node holds for a peer after any history (key manager or session layer) was offered
    in a `Validated` handshake claiming that peer -/
theorem held_keys_facts (R : Responder) (t0 : Int) (ops : List Handshake.Op) (p : String) (k : Nat)
    (h : ((Handshake.run (env sha256 R) (Handshake.init t0, []) ops).1.peers p).sess = some k ∨
         ((Handshake.run (env sha256 R) (Handshake.init t0, []) ops).1.peers p).smKey = some k) :
    ∃ n, Validated R p k n := by
  obtain ⟨hk, n, hn⟩ := C20.keys_validated (env sha256 R) t0 ops p k h
  exact ⟨n, (keyValid_iff _).mp hk, (powFact_iff sha256 R _ _ _).mp hn⟩

/-- a handshake that is not `Validated` and is not the exact repeat of the recorded one is rejected,
    in every reachable state -/
theorem unvalidated_rejected (R : Responder) (t0 : Int) (ops : List Handshake.Op) (p : String) (pub nonce : Nat)
    (hv : ¬ Validated R p pub nonce) :
    let s := (Handshake.run (env sha256 R) (Handshake.init t0, []) ops).1
    Handshake.shortcut (env sha256 R) s.now (s.peers p) pub nonce = false →
    (Handshake.perform (env sha256 R) s p pub nonce).2 = false := by
  intro s hs
  unfold Handshake.perform
  simp only [hs]
  by_cases hk : Handshake.keyValid pub = true
  · have hp : (env sha256 R).powValid p pub nonce = false := by
      cases h : (env sha256 R).powValid p pub nonce with
      | false => rfl
      | true => exact absurd ⟨(keyValid_iff _).mp hk, (powFact_iff sha256 R _ _ _).mp h⟩ hv
    simp [hk, hp]
  · simp [hk]

/-- **(1)** for every responder configuration, start time and history of inbound handshakes
    (direct / transport / socket; valid, invalid key, invalid nonce, other keys, repeats inside the
    cooldown; clock advances; dropped connections):
    * every accepted handshake was `Validated`;
    * every key held for a peer was offered in a `Validated` handshake claiming that peer;
    * a rejected handshake leaves every peer's keys and session untouched, other peers' state
      untouched, and moves the claimed peer's reputation through one or two failure steps. -/
theorem handshake_facts_instantiated (R : Responder) (t0 : Int) (ops : List Handshake.Op) :
    let r := Handshake.run (env sha256 R) (Handshake.init t0, []) ops
    (∀ e ∈ r.2, e.accepted = true → Validated R e.peer e.pub e.nonce) ∧
    (∀ p k, ((r.1.peers p).sess = some k ∨ (r.1.peers p).smKey = some k) → ∃ n, Validated R p k n) ∧
    (∀ k p pub nonce, (Handshake.handshake (env sha256 R) r.1 k p pub nonce).2 = false →
      let s' := (Handshake.handshake (env sha256 R) r.1 k p pub nonce).1
      (∀ q, (s'.peers q).sess = (r.1.peers q).sess ∧ (s'.peers q).smKey = (r.1.peers q).smKey ∧
            (s'.peers q).conn = (r.1.peers q).conn) ∧
      (∀ q, q ≠ p → s'.peers q = r.1.peers q) ∧
      ((s'.peers p).rep = Handshake.repFailure (r.1.peers p).rep ∨
       (s'.peers p).rep = Handshake.repFailure (Handshake.repFailure (r.1.peers p).rep))) :=
  ⟨accepted_facts R t0 ops, fun p k h => held_keys_facts R t0 ops p k h,
   fun k p pub nonce h => C20.reject (env sha256 R) t0 ops k p pub nonce h⟩

/-! ## (2) honest handshakes are accepted -/

/-- which scalars have an acceptable public key: all but the multiples of the order of 5
    (`195225786 = (p−1)/11`; 5 is not a primitive root of `2^31 − 1`) -/
theorem public_acceptable_iff (s : Nat) (hs : s < 2 ^ 32) :
    Spec.Kex.acceptable (computePublic s) ↔ ¬ 195225786 ∣ s := by
  rw [← C12.validate]; exact validate_computePublic_iff s hs

/-- in the identity range `[2, p−2]` the refused scalars are exactly `k · 195225786`, `k = 1 … 10` -/
theorem excluded_identity_scalars (s : Nat) (h2 : 2 ≤ s) (hp : s ≤ 2147483647 - 2) :
    ¬ Spec.Kex.acceptable (computePublic s) ↔ ∃ k, 1 ≤ k ∧ k ≤ 10 ∧ s = k * 195225786 := by
  rw [← C12.validate, Bool.not_eq_true]
  exact excluded_scalars s h2 hp

/-- an honest initiator: identity, configured bits, the candidate stream of its solver -/
structure Initiator where
  id : Identity
  bits : Nat
  startOf : Nat → Nat

/-- `Node::generate_handshake_work(peer)` of the initiator, any candidate stream -/
def Initiator.work (I : Initiator) (peer : List UInt8) : Option Nat :=
  computeHandshakePow sha256 I.startOf ⟨I.id.peerId, peer, I.id.pub⟩ (nodeHandshakeDifficulty I.bits)

/-- "honest": scalar in the identity range and not one of the ten excluded values -/
def GoodScalar (s : Nat) : Prop := 2 ≤ s ∧ s ≤ 2147483647 - 2 ∧ ¬ 195225786 ∣ s

theorem GoodScalar.lt {s : Nat} (h : GoodScalar s) : s < 2 ^ 32 := by
  have := h.2.1; omega

/-- **(2)** the nonce an honest initiator's solver returns for (initiator id, responder id, initiator
    public) is `Validated` at every responder that does not demand more bits (after the cap), for
    every candidate stream … -/
theorem solver_validated (I : Initiator) (R : Responder) (p : String) (n : Nat)
    (hid : R.idOf p = I.id.peerId) (hg : GoodScalar I.id.scalar)
    (hb : capped R.bits ≤ capped I.bits) (hw : I.work R.self = some n) :
    Validated R p I.id.pub n := by
  refine ⟨(public_acceptable_iff _ hg.lt).mpr hg.2.2, ?_⟩
  have := solved_work_valid sha256 I.startOf ⟨I.id.peerId, R.self, I.id.pub⟩ I.bits R.bits n hw hb
  rw [C19.accept_node_handshake] at this
  unfold preimage; rw [hid]; exact this

/-- … so C20's `perform_handshake` accepts it in **every** reachable or unreachable state: the first
    time, after earlier failures, inside or outside the cooldown, and on exact repeat -/
theorem solver_accepted (I : Initiator) (R : Responder) (p : String) (n : Nat) (s : Handshake.State)
    (hid : R.idOf p = I.id.peerId) (hg : GoodScalar I.id.scalar)
    (hb : capped R.bits ≤ capped I.bits) (hw : I.work R.self = some n) :
    (Handshake.perform (env sha256 R) s p I.id.pub n).2 = true := by
  have hv := solver_validated I R p n hid hg hb hw
  exact perform_accepts _ s p _ n ((keyValid_iff _).mpr hv.1) ((powFact_iff sha256 R _ _ _).mpr hv.2)

/-- first time and exact repeat, spelled out: both calls return true and after them the node holds the
    key derived from the initiator's public value -/
theorem solver_accepted_twice (I : Initiator) (R : Responder) (p : String) (n : Nat) (t0 : Int)
    (hid : R.idOf p = I.id.peerId) (hg : GoodScalar I.id.scalar)
    (hb : capped R.bits ≤ capped I.bits) (hw : I.work R.self = some n) :
    let r1 := Handshake.perform (env sha256 R) (Handshake.init t0) p I.id.pub n
    let r2 := Handshake.perform (env sha256 R) r1.1 p I.id.pub n
    r1.2 = true ∧ r2.2 = true ∧ (r1.1.peers p).sess = some I.id.pub ∧ (r2.1.peers p).sess = some I.id.pub := by
  intro r1 r2
  have hv := solver_validated I R p n hid hg hb hw
  have hk := (keyValid_iff _).mpr hv.1
  have hp := (powFact_iff sha256 R _ _ _).mpr hv.2
  have h1 : r1.2 = true := solver_accepted I R p n _ hid hg hb hw
  have h2 : r2.2 = true := solver_accepted I R p n _ hid hg hb hw
  have hs1 : (r1.1.peers p).sess = some I.id.pub :=
    (perform_registers _ (Handshake.init t0) p _ n hk hp (by simp [Handshake.shortcut, Handshake.init])).1
  refine ⟨h1, h2, hs1, ?_⟩
  -- second call: either the short-circuit (state unchanged) or a fresh registration of the same key
  cases hsc : Handshake.shortcut (env sha256 R) r1.1.now (r1.1.peers p) I.id.pub n with
  | true =>
    have : r2.1 = r1.1 := by
      show (Handshake.perform (env sha256 R) r1.1 p I.id.pub n).1 = r1.1
      unfold Handshake.perform; simp [hsc]
    rw [this]; exact hs1
  | false => exact (perform_registers _ r1.1 p _ n hk hp hsc).1

/-- the same acceptance in C12's model of the key path: the responder derives its session key -/
theorem solver_accepted_key (I : Initiator) (Rid : Identity) (bitsR n : Nat) (hg : GoodScalar I.id.scalar)
    (hb : capped bitsR ≤ capped I.bits) (hw : I.work Rid.peerId = some n) :
    performHandshake sha256 hmac Rid bitsR I.id.peerId I.id.pub n =
      some (sessionKey sha256 hmac Rid.scalar Rid.pub I.id.pub) := by
  have hv : validatePublic I.id.pub = true := (C12.validate _).mpr ((public_acceptable_iff _ hg.lt).mpr hg.2.2)
  have hp := solved_work_valid sha256 I.startOf ⟨I.id.peerId, Rid.peerId, I.id.pub⟩ I.bits bitsR n hw hb
  unfold performHandshake
  simp [hv, hp]

/-! ## (3) a mutual honest handshake establishes one session whose messages flow both ways -/

/-- **(3)** any two honest identities (good scalars, any peer ids) configured with the same capped
    difficulty, any candidate streams: if each side's solver finds work, then each accepts the other,
    both register the same 32-byte session key, and every faithful protocol message signed by either
    end under that key is accepted by the other end as exactly that message. -/
theorem mutual_handshake_establishes_session (A B : Initiator) (nA nB : Nat)
    (hgA : GoodScalar A.id.scalar) (hgB : GoodScalar B.id.scalar) (hb : capped A.bits = capped B.bits)
    (hwA : A.work B.id.peerId = some nA) (hwB : B.work A.id.peerId = some nB) :
    ∃ k : List UInt8,
      performHandshake sha256 hmac A.id A.bits B.id.peerId B.id.pub nB = some k ∧
      performHandshake sha256 hmac B.id B.bits A.id.peerId A.id.pub nA = some k ∧
      k.length = 32 ∧
      ∀ m, System.Faithful m →
        decodeSigned hmac (encodeSigned hmac m k) k = .ok m := by
  have h1 := solver_accepted_key B A.id A.bits nB hgB (by omega) hwB
  have h2 := solver_accepted_key A B.id B.bits nA hgA (by omega) hwA
  obtain ⟨hl, hk, hm⟩ := System.session_message_accepted A.id B.id A.bits B.bits nA nB _ _ hgA.lt hgB.lt h1 h2
  refine ⟨_, h1, ?_, hl, fun m hf => ?_⟩
  · rw [h2, hk]
  · have := hm m hf
    rwa [hk] at this

/-- the key of (3), explicitly: HMAC-SHA256 keyed with SHA-256 of the 4 bytes of `g^(ab) mod p`, over
    the two publics in ascending order -/
theorem session_key_value (A B : Identity) (hA : A.scalar < 2 ^ 32) (hB : B.scalar < 2 ^ 32) :
    sessionKey sha256 hmac A.scalar A.pub B.pub =
      hmac (sha256 (Pow.beBytes 4 (Spec.Kex.g ^ (A.scalar * B.scalar) % Spec.Kex.p))) (handshakeMaterial A.pub B.pub) := by
  unfold sessionKey deriveSharedSecret
  rw [show sharedScalar A.scalar B.pub = Spec.Kex.g ^ (A.scalar * B.scalar) % Spec.Kex.p from C12.dh_value _ _ hA hB]

/-! ## (4) impersonation needs work of its own -/

/-- the fields a handshake proof of work is bound to, with the widths the C++ types give them -/
structure Claim where
  peer : List UInt8
  responder : List UInt8
  key : Nat
  nonce : Nat
deriving DecidableEq

def Claim.WF (c : Claim) : Prop :=
  c.peer.length < 2 ^ 64 ∧ c.responder.length < 2 ^ 64 ∧ c.key < 2 ^ 64 ∧ c.nonce < 2 ^ 64

def Claim.preimage (c : Claim) : List UInt8 := encHandshake ⟨c.peer, c.responder, c.key⟩ c.nonce

/-- different (claimed peer, responder, key, nonce) ⇒ different bytes under the hash
    (`C19.binding_handshake`, contrapositive) -/
theorem distinct_claims_distinct_preimages (c c' : Claim) (h : c.WF) (h' : c'.WF) (hne : c ≠ c') :
    c.preimage ≠ c'.preimage := by
  intro he
  have := C19.binding_handshake ⟨c.peer, c.responder, c.key⟩ ⟨c'.peer, c'.responder, c'.key⟩ c.nonce c'.nonce
    h.1 h'.1 h.2.1 h'.2.1 h.2.2.1 h'.2.2.1 h.2.2.2 h'.2.2.2 he
  apply hne
  cases c; cases c'
  simp only [HandshakeFields.mk.injEq] at this
  simp only [Claim.mk.injEq]
  exact ⟨this.1.1, this.1.2.1, this.1.2.2, this.2⟩

/-- **(4)** after any history, whoever got a handshake accepted under the claimed peer id `P` with key
    `K` and nonce `n` — the real peer or a third party with its own key — presented work valid for
    exactly (P, this responder, K): the SHA-256 digest of `preimage (P, self, K, n)` is below
    `2^(256 − d)`.  Work solved for any other (peer, responder, key, nonce) hashes *different bytes*
    (32-byte ids, 32-bit keys, 64-bit nonces), so it transfers only if those different bytes also
    happen to hash below the target: a fresh `d`-bit SHA-256 condition, not a consequence of the old one. -/
theorem impersonation_needs_work (R : Responder) (t0 : Int) (ops : List Handshake.Op) :
    ∀ e ∈ (Handshake.run (env sha256 R) (Handshake.init t0, []) ops).2, e.accepted = true →
      -- (a) the accepted claim carries its own valid work
      (Spec.Kex.acceptable e.pub ∧
        beVal (sha256 (Claim.preimage ⟨R.idOf e.peer, R.self, e.pub, e.nonce⟩)) < 2 ^ (256 - min R.bits 24)) ∧
      -- (b) and that condition is about bytes no other claim shares
      (∀ c' : Claim, c'.WF → (⟨R.idOf e.peer, R.self, e.pub, e.nonce⟩ : Claim).WF →
        c' ≠ ⟨R.idOf e.peer, R.self, e.pub, e.nonce⟩ →
        c'.preimage ≠ Claim.preimage ⟨R.idOf e.peer, R.self, e.pub, e.nonce⟩) := by
  intro e he ha
  have hv := (validated_arith R e.peer e.pub e.nonce).mp (accepted_facts R t0 ops e he ha)
  exact ⟨⟨hv.1, hv.2⟩, fun c' hc' hc hne => distinct_claims_distinct_preimages c' _ hc' hc hne⟩

/-- in particular: a third party replaying the genuine peer's nonce with its **own** key `K' ≠ K` is
    judged on a different preimage — its acceptance is equivalent to a `d`-bit condition on those bytes -/
theorem replayed_nonce_other_key (R : Responder) (p : String) (K K' n : Nat) (s : Handshake.State)
    (hK : K < 2 ^ 64) (hK' : K' < 2 ^ 64) (hn : n < 2 ^ 64)
    (hp : (R.idOf p).length < 2 ^ 64) (hs : R.self.length < 2 ^ 64) (hne : K' ≠ K)
    (hsc : Handshake.shortcut (env sha256 R) s.now (s.peers p) K' n = false) :
    preimage R p K' n ≠ preimage R p K n ∧
    ((Handshake.perform (env sha256 R) s p K' n).2 = true ↔ Validated R p K' n) := by
  constructor
  · have := distinct_claims_distinct_preimages ⟨R.idOf p, R.self, K', n⟩ ⟨R.idOf p, R.self, K, n⟩
      ⟨hp, hs, hK', hn⟩ ⟨hp, hs, hK, hn⟩ (by simp [hne])
    exact this
  · constructor
    · intro h
      by_contra hv
      -- not validated and not a repeat ⇒ rejected
      have : (Handshake.perform (env sha256 R) s p K' n).2 = false := by
        unfold Handshake.perform
        simp only [hsc]
        by_cases hk : Handshake.keyValid K' = true
        · have hpf : (env sha256 R).powValid p K' n = false := by
            cases h' : (env sha256 R).powValid p K' n with
            | false => rfl
            | true => exact absurd ⟨(keyValid_iff _).mp hk, (powFact_iff sha256 R _ _ _).mp h'⟩ hv
          simp [hk, hpf]
        · simp [hk]
      rw [this] at h; exact absurd h (by decide)
    · intro hv
      exact perform_accepts _ s p K' n ((keyValid_iff _).mpr hv.1) ((powFact_iff sha256 R _ _ _).mpr hv.2)

/-! ## the same with the implementation's hash and MAC

`Model.Sha256.digest` / `Model.Hmac.compute` are C08's transcriptions of `src/crypto/Sha256.cpp` /
`HmacSha256.cpp`; `C08.sha_digest` and `C08.hmac` prove them equal to the standards, so every
statement above holds word for word with them in the roles of `sha256` / `hmac`. -/

theorem sha_impl : EphVerif.Model.Sha256.digest = sha256 := funext C08.sha_digest
theorem hmac_impl : EphVerif.Model.Hmac.compute = hmac := by
  funext k d; exact C08.hmac k d

/-- (1) with the implementation hash: C20's environment built from `Sha256::digest` is the one above -/
theorem implementation_level_env (R : Responder) : env EphVerif.Model.Sha256.digest R = env sha256 R := by rw [sha_impl]

/-- (3) with the implementation hash and MAC -/
theorem implementation_level_mutual (A B : Initiator) (nA nB : Nat)
    (hgA : GoodScalar A.id.scalar) (hgB : GoodScalar B.id.scalar) (hb : capped A.bits = capped B.bits)
    (hwA : A.work B.id.peerId = some nA) (hwB : B.work A.id.peerId = some nB) :
    ∃ k : List UInt8,
      performHandshake EphVerif.Model.Sha256.digest EphVerif.Model.Hmac.compute A.id A.bits B.id.peerId B.id.pub nB = some k ∧
      performHandshake EphVerif.Model.Sha256.digest EphVerif.Model.Hmac.compute B.id B.bits A.id.peerId A.id.pub nA = some k ∧
      k.length = 32 := by
  rw [sha_impl, hmac_impl]
  obtain ⟨k, h1, h2, hl, _⟩ := mutual_handshake_establishes_session A B nA nB hgA hgB hb hwA hwB
  exact ⟨k, h1, h2, hl⟩

/-! ## (5) end to end: handshake, then signed messages over the encrypted, framed transport -/

/-- **(5)** any two honest identities with the same capped difficulty whose solvers find work: both
    ends hold one session key `k`, and — with `k` as signing key *and* transport key, as in the
    code — every list of faithful messages whose signed encodings fit a frame, sent under any 12-byte
    frame nonces and received through **any** cutting of the TCP stream into pieces, is delivered by
    the reader (C14) and decoded by `decode_signed` (C13/C15) as exactly those messages, once each,
    in order, with the session still up.  Composition of (3) with
    `SystemMessaging.transport_carries_signed_messages`. -/
theorem handshake_then_transport (A B : Initiator) (nA nB : Nat)
    (hgA : GoodScalar A.id.scalar) (hgB : GoodScalar B.id.scalar) (hb : capped A.bits = capped B.bits)
    (hwA : A.work B.id.peerId = some nA) (hwB : B.work A.id.peerId = some nB) :
    ∃ k : List UInt8,
      performHandshake sha256 hmac A.id A.bits B.id.peerId B.id.pub nB = some k ∧
      performHandshake sha256 hmac B.id B.bits A.id.peerId A.id.pub nA = some k ∧
      ∀ (sends : List (List UInt8 × Msg)) (chunks : List (List UInt8)),
        (∀ s ∈ sends, s.1.length = 12) → (∀ s ∈ sends, System.Faithful s.2) →
        (∀ s ∈ sends, (encodeSigned hmac s.2 k).length ≤ 1048576) →
        chunks.flatten = sends.flatMap (fun s => Frames.encodeFrame k s.1 (encodeSigned hmac s.2 k)) →
        ((Frames.feedChunks k Frames.Reader.init chunks).delivered.map (decodeSigned hmac · k)
            = sends.map (fun s => .ok s.2)) ∧
          (Frames.feedChunks k Frames.Reader.init chunks).ended = none := by
  obtain ⟨k, h1, h2, hl, _⟩ := mutual_handshake_establishes_session A B nA nB hgA hgB hb hwA hwB
  refine ⟨k, h1, h2, fun sends chunks hn hf hlen hc => ?_⟩
  exact System.transport_carries_signed_messages k k sends chunks hl hn hf hlen hc

/-- **(5′)** … and a message of that session replayed into a session keyed otherwise is rejected
    unless the other key collides with `k` under HMAC on that very encoding. -/
theorem handshake_then_wrong_session (A B : Initiator) (nA nB : Nat)
    (hgA : GoodScalar A.id.scalar) (hgB : GoodScalar B.id.scalar) (hb : capped A.bits = capped B.bits)
    (hwA : A.work B.id.peerId = some nA) (hwB : B.work A.id.peerId = some nB) :
    ∃ k : List UInt8,
      performHandshake sha256 hmac A.id A.bits B.id.peerId B.id.pub nB = some k ∧
      ∀ (m : Msg) (k' : List UInt8), hmac k' (encode m) ≠ hmac k (encode m) →
        decodeSigned hmac (encodeSigned hmac m k) k' = .reject := by
  obtain ⟨k, h1, _, _, _⟩ := mutual_handshake_establishes_session A B nA nB hgA hgB hb hwA hwB
  exact ⟨k, h1, fun m k' hnc => System.session_message_wrong_session_rejected m k k' hnc⟩

/-- **(5) with the implementation's hash, MAC, MAC verification and frame cipher**
    (`Sha256::digest`, `HmacSha256::compute`/`verify`, `ChaCha20::apply` as transcribed by C08/C09):
    the same end-to-end statement, word for word. -/
theorem implementation_level_handshake_then_transport (A B : Initiator) (nA nB : Nat)
    (hgA : GoodScalar A.id.scalar) (hgB : GoodScalar B.id.scalar) (hb : capped A.bits = capped B.bits)
    (hwA : A.work B.id.peerId = some nA) (hwB : B.work A.id.peerId = some nB) :
    ∃ k : List UInt8,
      performHandshake EphVerif.Model.Sha256.digest EphVerif.Model.Hmac.compute A.id A.bits B.id.peerId B.id.pub nB = some k ∧
      performHandshake EphVerif.Model.Sha256.digest EphVerif.Model.Hmac.compute B.id B.bits A.id.peerId A.id.pub nA = some k ∧
      ∀ (sends : List (List UInt8 × Msg)) (chunks : List (List UInt8)),
        (∀ s ∈ sends, s.1.length = 12) → (∀ s ∈ sends, System.Faithful s.2) →
        (∀ s ∈ sends, (encodeSigned EphVerif.Model.Hmac.compute s.2 k).length ≤ 1048576) →
        chunks.flatten = sends.flatMap
          (fun s => System.implFrame k s.1 (encodeSigned EphVerif.Model.Hmac.compute s.2 k)) →
        ((Frames.feedChunks k Frames.Reader.init chunks).delivered.map (System.decodeSignedViaVerify · k)
            = sends.map (fun s => .ok s.2)) ∧
          (Frames.feedChunks k Frames.Reader.init chunks).ended = none := by
  obtain ⟨k, h1, h2, hl⟩ := implementation_level_mutual A B nA nB hgA hgB hb hwA hwB
  refine ⟨k, h1, h2, fun sends chunks hn hf hlen hc => ?_⟩
  exact System.implementation_level_transport k k sends chunks hl hn hf hlen hc

/-! ## non-vacuity: concrete small identities, 2 bits of work, real SHA-256 / HMAC evaluated by the kernel -/

def alice : Initiator := ⟨⟨[1], 123456789⟩, 2, fun s => s % 7⟩
def bob : Initiator := ⟨⟨[2], 4000000000 % 2147483645 + 2⟩, 2, fun s => s % 5⟩

example : GoodScalar alice.id.scalar ∧ GoodScalar bob.id.scalar :=
  ⟨⟨by decide, by decide, by decide⟩, ⟨by decide, by decide, by decide⟩⟩

set_option maxRecDepth 100000 in
/-- both solvers find work, so the hypotheses of (2) and (3) are met -/
example : (alice.work bob.id.peerId).isSome = true ∧ (bob.work alice.id.peerId).isSome = true := by decide +kernel

set_option maxRecDepth 100000 in
/-- … and the conclusion of (3) on these identities, evaluated directly: both ends hold one key -/
example :
    (alice.work bob.id.peerId).bind (fun nA => performHandshake sha256 hmac bob.id bob.bits alice.id.peerId alice.id.pub nA) =
    (bob.work alice.id.peerId).bind (fun nB => performHandshake sha256 hmac alice.id alice.bits bob.id.peerId bob.id.pub nB) := by
  decide +kernel

/-- an excluded scalar: its public value is 1 and is refused -/
example : computePublic 195225786 = 1 ∧ validatePublic (computePublic 195225786) = false ∧
    computePublic (10 * 195225786) = 1 := by decide +kernel

/-- (4): two claims differing only in the key hash different bytes -/
example : Claim.preimage ⟨[1], [2], 7, 0⟩ ≠ Claim.preimage ⟨[1], [2], 8, 0⟩ := by decide

set_option maxRecDepth 100000 in
/-- (1): a history with a valid handshake (nonce solved for 2 bits), a wrong nonce and an invalid key;
    only the first is accepted and the held key is the validated one -/
example :
    let R : Responder := ⟨[2], 2, 5, fun _ => [1]⟩
    let n := (alice.work [2]).getD 0
    let r := Handshake.run (env sha256 R) (Handshake.init 0, [])
      [.hs .direct "a" alice.id.pub n, .hs .direct "a" alice.id.pub (n + 1), .hs .transport "a" 1 n]
    r.2.map (·.accepted) = [true, false, false] ∧ (r.1.peers "a").sess = some alice.id.pub := by
  decide +kernel

end EphVerif.SystemHandshake
