/-
C19 — proof-of-work checks accept exactly the nonces that meet the target.

Every theorem is stated for an arbitrary hash function `sha : List UInt8 → List UInt8` (nothing
about SHA-256 is used), for all field values, nonces and difficulties, and for digests of every
length (so in particular for the 32-byte digests and difficulties 0…255 of the property).
The literal 24 is the cap of the property statement; `caps` ties it to the regenerated constants.
-/
import EphVerif.Lemmas.C19

namespace EphVerif.C19
open EphVerif.Pow EphVerif.Spec.Pow EphVerif.C19L EphVerif.Gen

/-! ### (T) regenerated constants -/

/-- the caps in the code are the 24 of the property statement (Node.cpp ×3, StoreProof.hpp) -/
theorem caps : C19.kMaxAnnouncePowDifficulty = 24 ∧ C19.kMaxHandshakePowDifficulty = 24 ∧
    C19.kNodeMaxStorePowDifficulty = 24 ∧ C19.kMaxStorePowDifficulty = 24 := by decide

/-- announce PoW is carried (and checked) from message version 3 on; file names are cut at 255 -/
theorem misc_constants : C19.kAnnounceMinPowVersion = 3 ∧ C19.kMaxFilenameLength = 255 := by decide

/-! ### what `lz` means -/

/-- `digest` has at least `k` leading zero bits iff, read as a big-endian number, it is below
    `2^(bits − k)` -/
theorem lz_spec (digest : List UInt8) (k : Nat) (hk : k ≤ 8 * digest.length) :
    k ≤ lz digest ↔ beVal digest < 2 ^ (8 * digest.length - k) := C19L.lz_spec digest k hk

/-- 32-byte form used in the property text -/
theorem lz_spec32 (digest : List UInt8) (h : digest.length = 32) (k : Nat) (hk : k ≤ 255) :
    k ≤ lz digest ↔ beVal digest < 2 ^ (256 - k) := by
  have := C19L.lz_spec digest k (by omega)
  rw [h] at this
  exact this

example : lz [0, 0, 0x1f, 0xff] = 19 := by decide +kernel
example : (19 ≤ lz [0, 0, 0x1f, 0xff]) ∧ ¬ (20 ≤ lz [0, 0, 0x1f, 0xff]) := by decide +kernel

/-! ### C19.counters — all leading-zero counters agree with `lz`, hence with each other -/

theorem counters (digest : List UInt8) (d : Nat) :
    clzNode digest = lz digest ∧ clzStore digest = lz digest ∧ clzCli digest = lz digest ∧
    (meetsDifficulty digest d = true ↔ d ≤ lz digest) := by
  refine ⟨clzNode_eq_lz digest, clzStore_eq_lz digest, clzCli_eq_lz digest, ?_⟩
  rw [meets_eq]; simp

/-- the four acceptance predicates coincide for every digest and difficulty -/
theorem counters_agree (digest : List UInt8) (d : Nat) :
    (d ≤ clzNode digest ↔ d ≤ clzStore digest) ∧ (d ≤ clzNode digest ↔ d ≤ clzCli digest) ∧
    (d ≤ clzNode digest ↔ meetsDifficulty digest d = true) := by
  obtain ⟨h1, h2, h3, h4⟩ := counters digest d
  rw [h1, h2, h3, h4]; simp

/-! ### C19.accept — acceptance on each surface -/

section accept
variable (sha : List UInt8 → List UInt8)

theorem accept_announce (a : AnnounceFields) (nonce d : Nat) :
    announcePowValid sha a nonce d = true ↔ meets sha (encAnnounce a nonce) d := by
  unfold announcePowValid meets
  by_cases h : d = 0
  · simp [h]
  · simp [h, clzNode_eq_lz]

theorem accept_handshake (h : HandshakeFields) (nonce d : Nat) :
    handshakePowValid sha h nonce d = true ↔ meets sha (encHandshake h nonce) d := by
  unfold handshakePowValid meets
  by_cases h0 : d = 0
  · simp [h0]
  · simp [h0, clzNode_eq_lz]

/-- the CLI's validator for the handshake surface -/
theorem accept_transport_cli (h : HandshakeFields) (nonce d : Nat) :
    transportPowValid sha h nonce d = true ↔ meets sha (encHandshake h nonce) d := by
  unfold transportPowValid meets encTransportCli encHandshake
  by_cases h0 : d = 0
  · simp [h0]
  · simp [h0, clzCli_eq_lz]

/-- store surface: the validator itself caps the difficulty at 24 -/
theorem accept_store (s : StoreFields) (nonce d : Nat) :
    storePowValid sha s nonce d = true ↔ meets sha (encStore s nonce) (capped d) := by
  unfold storePowValid meets
  by_cases h0 : d = 0
  · simp [h0, capped]
  · have : C19.kMaxStorePowDifficulty = 24 := by decide
    simp [h0, clzStore_eq_lz, this, capTo_eq_min]

theorem accept_token (t : TokenFields) (nonce d : Nat) :
    tokenValid sha t nonce d = true ↔ meets sha (encToken t nonce) d := by
  unfold tokenValid meets
  rw [meets_eq]; simp

/-- a node configured with `configured` bits accepts an announce (message version ≥ 3) exactly
    when the digest has `min configured 24` leading zero bits -/
theorem accept_node_announce (configured version : Nat) (hv : 3 ≤ version) (a : AnnounceFields) (nonce : Nat) :
    nodeVerifyAnnounce sha configured version a nonce = true ↔ meets sha (encAnnounce a nonce) (capped configured) := by
  unfold nodeVerifyAnnounce nodeAnnounceDifficulty
  have h24 : C19.kMaxAnnouncePowDifficulty = 24 := by decide
  have h3 : C19.kAnnounceMinPowVersion = 3 := by decide
  rw [h24, h3, capTo_eq_min]
  by_cases h0 : capped configured = 0
  · simp [h0, meets]
  · have : ¬ version < 3 := by omega
    simp [h0, this, accept_announce]

/-- below version 3 the nonce is not on the wire: such announces are refused whenever work is required -/
theorem node_announce_old_version (configured version : Nat) (hv : version < 3) (a : AnnounceFields) (nonce : Nat) :
    nodeVerifyAnnounce sha configured version a nonce = decide (capped configured = 0) := by
  unfold nodeVerifyAnnounce nodeAnnounceDifficulty
  have h24 : C19.kMaxAnnouncePowDifficulty = 24 := by decide
  have h3 : C19.kAnnounceMinPowVersion = 3 := by decide
  rw [h24, h3, capTo_eq_min]
  by_cases h0 : capped configured = 0
  · simp [h0]
  · simp [h0, hv]

theorem accept_node_handshake (configured : Nat) (h : HandshakeFields) (nonce : Nat) :
    nodeVerifyHandshake sha configured h nonce = true ↔ meets sha (encHandshake h nonce) (capped configured) := by
  unfold nodeVerifyHandshake nodeHandshakeDifficulty
  have h24 : C19.kMaxHandshakePowDifficulty = 24 := by decide
  rw [h24, capTo_eq_min, accept_handshake]

/-- CLI and node hash the same bytes for a transport handshake -/
theorem cli_node_same_preimage (h : HandshakeFields) (nonce : Nat) :
    encTransportCli h nonce = encHandshake h nonce := rfl

/-- so a nonce is valid for the CLI iff it is valid for the node it talks to -/
theorem cli_node_agree (h : HandshakeFields) (nonce d : Nat) :
    transportPowValid sha h nonce d = handshakePowValid sha h nonce d := by
  have h1 := accept_transport_cli sha h nonce d
  have h2 := accept_handshake sha h nonce d
  cases hA : transportPowValid sha h nonce d <;> cases hB : handshakePowValid sha h nonce d <;> simp_all

end accept

/-! ### C19.solver — whatever a solver returns is accepted -/

section solver
variable (sha : List UInt8 → List UInt8)

/-- the first `k` candidates of a stream -/
def draws {σ : Type} (next : σ → Nat × σ) : Nat → σ → List Nat
  | 0, _ => []
  | k + 1, s => (next s).1 :: draws next k (next s).2

theorem search_sound {σ : Type} (valid : Nat → Bool) (next : σ → Nat × σ) (fuel : Nat) (s : σ) (n : Nat)
    (h : search valid next fuel s = some n) : valid n = true := by
  induction fuel generalizing s with
  | zero => simp [search] at h
  | succ f ih =>
    simp only [search] at h
    split at h
    · next hv => cases h; exact hv
    · exact ih _ h

/-- the solver gives up only if none of its `fuel` candidates is valid -/
theorem search_complete {σ : Type} (valid : Nat → Bool) (next : σ → Nat × σ) (fuel : Nat) (s : σ)
    (h : search valid next fuel s = none) : ∀ c ∈ draws next fuel s, valid c = false := by
  induction fuel generalizing s with
  | zero => simp [draws]
  | succ f ih =>
    simp only [search] at h
    split at h
    · cases h
    · next hv =>
      intro c hc
      simp only [draws, List.mem_cons] at hc
      rcases hc with rfl | hc
      · simpa using hv
      · exact ih _ h c hc

/-- and what it returns is the first valid candidate of the stream -/
theorem search_first {σ : Type} (valid : Nat → Bool) (next : σ → Nat × σ) (fuel : Nat) (s : σ) (n : Nat)
    (h : search valid next fuel s = some n) :
    ∃ pre post, draws next fuel s = pre ++ n :: post ∧ ∀ c ∈ pre, valid c = false := by
  induction fuel generalizing s with
  | zero => simp [search] at h
  | succ f ih =>
    simp only [search] at h
    split at h
    · cases h; exact ⟨[], draws next f (next s).2, by simp [draws], by simp⟩
    · next hv =>
      obtain ⟨pre, post, he, hp⟩ := ih _ h
      refine ⟨(next s).1 :: pre, post, by simp [draws, he], ?_⟩
      intro c hc
      simp only [List.mem_cons] at hc
      rcases hc with rfl | hc
      · simpa using hv
      · exact hp c hc

theorem solver_announce (startOf : Nat → Nat) (a : AnnounceFields) (d n : Nat)
    (h : computeAnnouncePow sha startOf a d = some n) : announcePowValid sha a n d = true := by
  unfold computeAnnouncePow at h
  by_cases h0 : d = 0
  · simp [announcePowValid, h0]
  · simp only [beq_iff_eq, h0, if_false] at h
    exact search_sound (fun n => announcePowValid sha a n d) _ _ _ _ h

theorem solver_handshake (startOf : Nat → Nat) (hf : HandshakeFields) (d n : Nat)
    (h : computeHandshakePow sha startOf hf d = some n) : handshakePowValid sha hf n d = true := by
  unfold computeHandshakePow at h
  by_cases h0 : d = 0
  · simp [handshakePowValid, h0]
  · simp only [beq_iff_eq, h0, if_false] at h
    exact search_sound (fun n => handshakePowValid sha hf n d) _ _ _ _ h

/-- the CLI's handshake work is accepted by the node's validator -/
theorem solver_transport_cli (startOf : Nat → Nat) (hf : HandshakeFields) (d n : Nat)
    (h : computeTransportPow sha startOf hf d = some n) : handshakePowValid sha hf n d = true := by
  rw [← cli_node_agree]
  unfold computeTransportPow at h
  by_cases h0 : d = 0
  · simp [transportPowValid, h0]
  · simp only [beq_iff_eq, h0, if_false] at h
    exact search_sound (fun n => transportPowValid sha hf n d) _ _ _ _ h

/-- store work (solved by the CLI with the library solver) is accepted by the daemon's validator
    at the same configured difficulty -/
theorem solver_store {σ : Type} (init : Nat → σ) (next : σ → Nat × σ) (s : StoreFields) (d maxAttempts n : Nat)
    (h : computeStorePow sha init next s d maxAttempts = some n) : storePowValid sha s n d = true := by
  unfold computeStorePow at h
  by_cases h0 : d = 0
  · simp [storePowValid, h0]
  · simp only [beq_iff_eq, h0, if_false] at h
    have hv := search_sound (fun n => storePowValid sha s n (capTo C19.kMaxStorePowDifficulty d)) _ _ _ _ h
    have hc : capTo C19.kMaxStorePowDifficulty d ≠ 0 := by
      have : C19.kMaxStorePowDifficulty = 24 := by decide
      rw [this]; unfold capTo; split <;> omega
    simp only [storePowValid, beq_iff_eq, hc, if_false, capTo_idem] at hv
    simp only [storePowValid, beq_iff_eq, h0, if_false]
    exact hv

theorem solver_token (t : TokenFields) (d maxAttempts n : Nat)
    (h : solveToken sha t d maxAttempts = some n) : tokenValid sha t n d = true := by
  unfold solveToken at h
  by_cases h0 : d = 0
  · simp [tokenValid, meetsDifficulty, h0]
  · simp only [beq_iff_eq, h0, if_false] at h
    split at h
    · cases h
    · exact search_sound (fun n => tokenValid sha t n d) _ _ _ _ h

-- non-vacuity: solvers do return nonces (toy hash: every digest is two zero bytes / one 0x01 byte)
example : solveToken (fun _ => [0, 0]) ⟨[], [], [1]⟩ 16 5 = some 0 := by decide
example : computeStorePow (fun _ => [0, 0]) id (fun s => (s, s + 1)) ⟨[], 0, []⟩ 9 0 = some 0 := by decide
example : computeHandshakePow (fun _ => [0, 0, 0, 0, 0, 0, 0, 0]) id ⟨[], [], 2⟩ 3 = some 0 := by decide
example : solveToken (fun _ => [1]) ⟨[], [], [1]⟩ 8 3 = none := by decide

end solver

/-! ### C19.binding — every field is bound: the preimage determines all fields and the nonce -/

/-- what the C++ types guarantee about an announce payload -/
structure AnnounceWF (a : AnnounceFields) : Prop where
  chunk : a.chunkId.length < 2 ^ 64
  peer : a.peerId.length < 2 ^ 64
  endpoint : a.endpoint.length < 2 ^ 64
  uri : a.manifestUri.length < 2 ^ 64
  shards : a.shards.length < 2 ^ 64
  ttl : -9223372036854775808 ≤ a.ttl ∧ a.ttl < 9223372036854775808

theorem binding_announce (a a' : AnnounceFields) (n n' : Nat) (ha : AnnounceWF a) (ha' : AnnounceWF a')
    (hn : n < 2 ^ 64) (hn' : n' < 2 ^ 64) (h : encAnnounce a n = encAnnounce a' n') : a = a' ∧ n = n' := by
  unfold encAnnounce at h
  obtain ⟨e1, h⟩ := lp8_append_inj ha.chunk ha'.chunk h
  obtain ⟨e2, h⟩ := lp8_append_inj ha.peer ha'.peer h
  obtain ⟨e3, h⟩ := lp8_append_inj ha.endpoint ha'.endpoint h
  obtain ⟨e4, h⟩ := lp8_append_inj ha.uri ha'.uri h
  obtain ⟨e5, h⟩ := lp8_append_inj ha.shards ha'.shards h
  obtain ⟨e6, h⟩ := be8_append_inj (u64OfInt_lt _) (u64OfInt_lt _) h
  have e7 := be8_inj hn hn' h
  have e6' := u64OfInt_inj ha.ttl ha'.ttl e6
  cases a; cases a'; simp_all

theorem binding_handshake (x x' : HandshakeFields) (n n' : Nat)
    (h1 : x.initiator.length < 2 ^ 64) (h1' : x'.initiator.length < 2 ^ 64)
    (h2 : x.responder.length < 2 ^ 64) (h2' : x'.responder.length < 2 ^ 64)
    (hp : x.initiatorPublic < 2 ^ 64) (hp' : x'.initiatorPublic < 2 ^ 64)
    (hn : n < 2 ^ 64) (hn' : n' < 2 ^ 64) (h : encHandshake x n = encHandshake x' n') : x = x' ∧ n = n' := by
  unfold encHandshake at h
  obtain ⟨e1, h⟩ := lp8_append_inj h1 h1' h
  obtain ⟨e2, h⟩ := lp8_append_inj h2 h2' h
  obtain ⟨e3, h⟩ := be8_append_inj hp hp' h
  have e4 := be8_inj hn hn' h
  cases x; cases x'; simp_all

/-- store: raw 32-byte chunk id, fixed-width size, prefixed hint, fixed-width nonce.  No bound on
    the hint is needed: the nonce at the end has fixed width, so the hint is delimited on both sides
    even where the 4-byte length saturates. -/
theorem binding_store (s s' : StoreFields) (n n' : Nat) (hc : s.chunkId.length = s'.chunkId.length)
    (hs : s.payloadSize < 2 ^ 64) (hs' : s'.payloadSize < 2 ^ 64)
    (hn : n < 2 ^ 64) (hn' : n' < 2 ^ 64) (h : encStore s n = encStore s' n') : s = s' ∧ n = n' := by
  unfold encStore lp4 at h
  have h1 := List.append_inj h hc
  obtain ⟨e2, h2⟩ := be8_append_inj hs hs' h1.2
  rw [List.append_assoc, List.append_assoc] at h2
  have h3 := List.append_inj h2 (by simp)
  have h4 := List.append_inj' h3.2 (by simp)
  have e4 := be8_inj hn hn' h4.2
  cases s; cases s'; simp_all

/-- bootstrap token: two 32-byte ids, the endpoint, fixed-width nonce -/
theorem binding_token (t t' : TokenFields) (n n' : Nat) (hc : t.chunkId.length = t'.chunkId.length)
    (hh : t.chunkHash.length = t'.chunkHash.length)
    (hn : n < 2 ^ 64) (hn' : n' < 2 ^ 64) (h : encToken t n = encToken t' n') : t = t' ∧ n = n' := by
  unfold encToken at h
  have h1 := List.append_inj h hc
  have h2 := List.append_inj h1.2 hh
  have h3 := List.append_inj' h2.2 (by simp)
  have e4 := be8_inj hn hn' h3.2
  cases t; cases t'; simp_all

-- non-vacuity of the hypotheses of the binding theorems
example : AnnounceWF ⟨[1], [2], [3], [4], [5], -1⟩ := by
  constructor <;> simp <;> decide

/-! ### store filename hint: CLI and daemon hash the same name -/

/-- the control channel carries a value without CR/LF unchanged -/
theorem wire_identity (v : List UInt8) (h : ∀ b ∈ v, b ≠ 10 ∧ b ≠ 13) : wireValue v = v := by
  unfold wireValue
  have h1 : ∀ w : List UInt8, (∀ b ∈ w, b ≠ 10) → w.takeWhile (· != 10) = w := by
    intro w
    induction w with
    | nil => intro _; rfl
    | cons x xs ih =>
      intro hw
      have hx : x ≠ 10 := hw x (by simp)
      simp only [List.takeWhile_cons, bne_iff_ne, ne_eq, hx, not_false_eq_true, if_true]
      rw [ih (fun b hb => hw b (by simp [hb]))]
  have h1 := h1 v (fun b hb => (h b hb).1)
  rw [h1, List.filter_eq_self]
  intro b hb; simpa using (h b hb).2

/-- for every path (any bytes, CR/LF included) the daemon derives from the PATH field it receives
    the very filename hint the CLI hashed, so a CLI-solved store nonce is checked against the same
    preimage -/
theorem cli_daemon_hint_agree (path : List UInt8) : daemonHint path = cliHint path := by
  unfold daemonHint cliHint
  rw [wire_identity]
  intro b hb
  simp only [cliWirePath, List.mem_filter, Bool.and_eq_true, bne_iff_ne, ne_eq] at hb
  exact ⟨hb.2.1, hb.2.2⟩

/-- why the CLI has to strip CR/LF first: without it the two sides disagree, e.g. on `a\rb` -/
theorem hint_disagrees_without_strip :
    sanitizeFilenameHint (wireValue [97, 13, 98]) ≠ sanitizeFilenameHint [97, 13, 98] := by decide

end EphVerif.C19
