/-
C23 — upload concurrency limits hold and slots are always released.

All theorems are about `Model/Uploads.lean` (the upload scheduler of `Node`, after
fixes/C23-duplicate-start-slot-leak.patch) and quantify over every configuration, every
history of requests / acknowledgements / ticks at arbitrary instants, and every answer of the
environment (session key present, send succeeds, chunk servable) at every step.
-/
import EphVerif.Lemmas.C23Uploads

namespace EphVerif.C23
open EphVerif.Uploads

/-- the step is the acknowledgement of this transfer -/
def acked (e : Step) : Option (String × String) :=
  match e.op with
  | .ack p c => some (p, c)
  | _ => none

/-- the upload scheduler runs during the step (a refused request returns before it) -/
def scheduled (e : Step) : Bool :=
  match e.op with
  | .request p c => e.env.hasKey p && e.env.servable c
  | _ => true

/-- The specification's ledger of running uploads along a history: started by the chunk frames
    the node emits, ended by acknowledgements and by the timeout (`C23Spec.advance`). -/
def ledgerAfter (cfg : Cfg) : State → C23Spec.Ledger → List Step → C23Spec.Ledger
  | _, L, [] => L
  | s, L, e :: rest =>
    ledgerAfter cfg (step cfg s e).1
      (C23Spec.advance cfg.timeout e.now L (acked e) (scheduled e) (sentOf (step cfg s e).2)) rest

/-- One step of the scheduler changes `active_uploads_` exactly as the specification's ledger
    changes: acknowledged transfer removed, timed-out transfers removed when the scheduler runs,
    every chunk frame sent starts (or restarts) its transfer. -/
theorem refines_step {cfg : Cfg} {s : State} (h : Inv cfg s) (e : Step) :
    toLedger (step cfg s e).1.active
      = C23Spec.advance cfg.timeout e.now (toLedger s.active) (acked e) (scheduled e) (sentOf (step cfg s e).2) := by
  unfold step acked scheduled C23Spec.advance
  cases hop : e.op with
  | request p c =>
    simp only [handleRequest]
    by_cases hk : e.env.hasKey p = true
    · by_cases hs : e.env.servable c = true
      · simp only [hk, hs, Bool.not_true, Bool.false_eq_true, if_false, Bool.and_self, if_true]
        exact process_ledger (s := { s with queue := s.queue ++ [⟨p, c⟩] }) h.uniq e.env e.now
      · have hs' : e.env.servable c = false := by simpa using hs
        simp only [hk, hs', Bool.not_true, Bool.not_false, Bool.false_eq_true, if_false, if_true,
          Bool.and_false, nackFrames]
        split <;> rfl
    · have hk' : e.env.hasKey p = false := by simpa using hk
      simp only [hk', Bool.not_false, if_true, Bool.false_and, Bool.false_eq_true, if_false, sentOf]
      rfl
  | ack p c =>
    simp only [handleAck, if_true]
    have hu : Uniq (noteEnd s p c).active := (inv_noteEnd h p c).uniq
    rw [process_ledger hu, noteEnd_active, toLedger_erase]
  | tick =>
    simp only [if_true]
    exact process_ledger h.uniq e.env e.now

/-- along any history the model's `active_uploads_` is the specification's ledger -/
theorem refines {cfg : Cfg} (hist : List Step) :
    ∀ {s : State}, Inv cfg s → toLedger (run cfg s hist).active = ledgerAfter cfg s (toLedger s.active) hist := by
  induction hist with
  | nil => intro s _; rfl
  | cons e rest ih =>
    intro s h
    simp only [run, ledgerAfter]
    rw [ih (inv_step h e), refines_step h e]

/-- **C23.limits** — at every point of every history the number of running uploads is at most
    `upload_max_parallel_transfers` and, per peer, at most `upload_max_transfers_per_peer`, when
    the respective limit is non-zero (0 = unlimited, as `can_accept_more_uploads` /
    `can_dispatch_upload` read it).  Stated for the model's map and, through `refines`, for the
    specification's ledger of running uploads. -/
theorem limits (cfg : Cfg) (t0 : Int) (hist : List Step) :
    let s := run cfg (State.init t0) hist
    let L := ledgerAfter cfg (State.init t0) [] hist
    (0 < cfg.maxParallel → s.active.length ≤ cfg.maxParallel ∧ L.length ≤ cfg.maxParallel) ∧
    (0 < cfg.maxPerPeer → ∀ p, countPeer p s.active ≤ cfg.maxPerPeer ∧ C23Spec.running L p ≤ cfg.maxPerPeer) := by
  intro s L
  have hi : Inv cfg s := inv_run hist (inv_init cfg t0)
  have hL : toLedger s.active = L := refines hist (inv_init cfg t0)
  refine ⟨fun hG => ?_, fun hP p => ?_⟩
  · have := hi.glob hG
    refine ⟨this, ?_⟩
    rw [← hL]; simpa [toLedger] using this
  · have h1 := hi.peer hP p
    have h2 := hi.count p
    refine ⟨by omega, ?_⟩
    rw [← hL, running_toLedger]; omega

/-- **C23.nack** — a request from a peer with a session (key registered and transport send
    succeeding) for a chunk the node cannot serve now is answered with exactly one negative
    acknowledgement for that chunk, and nothing is queued or started. -/
theorem nack (cfg : Cfg) (env : Env) (now : Int) (st : State) (p c : String)
    (hkey : env.hasKey p = true) (hlink : env.linkUp p = true) (hno : env.servable c = false) :
    handleRequest cfg env now st p c = (st, [Frame.nack p c]) := by
  simp [handleRequest, nackFrames, sendOk, hkey, hlink, hno]

/-- a request queued while servable is refused with a negative acknowledgement when its turn comes
    and the chunk can no longer be served (`dispatch_upload`) -/
theorem nack_at_dispatch (env : Env) (now : Int) (st : State) (r : Req)
    (hkey : env.hasKey r.peer = true) (hlink : env.linkUp r.peer = true) (hno : env.servable r.chunk = false) :
    dispatch env now st r = (st, [Frame.nack r.peer r.chunk]) := by
  simp [dispatch, nackFrames, sendOk, hkey, hlink, hno]

/-- **C23.release (invariant)** — at every point of every history each peer's in-use slot counter
    equals its number of running uploads, in the model's map and in the specification's ledger. -/
theorem slots (cfg : Cfg) (t0 : Int) (hist : List Step) (p : String) :
    let s := run cfg (State.init t0) hist
    s.perPeer p = countPeer p s.active ∧
    s.perPeer p = C23Spec.running (ledgerAfter cfg (State.init t0) [] hist) p := by
  intro s
  have hi : Inv cfg s := inv_run hist (inv_init cfg t0)
  have hL : toLedger s.active = ledgerAfter cfg (State.init t0) [] hist := refines hist (inv_init cfg t0)
  refine ⟨hi.count p, ?_⟩
  rw [← hL, running_toLedger]; exact hi.count p

/-- **C23.release** — once every upload started towards `p` has been acknowledged or has timed out
    (the specification's ledger holds no running transfer of `p`), `p`'s slot count is zero. -/
theorem release (cfg : Cfg) (t0 : Int) (hist : List Step) (p : String)
    (hnone : C23Spec.running (ledgerAfter cfg (State.init t0) [] hist) p = 0) :
    (run cfg (State.init t0) hist).perPeer p = 0 := by
  have := (slots cfg t0 hist p).2
  omega

/-- what "timed out" delivers: after any step in which the scheduler ran at `now`, every transfer
    still running that was not (re)started in this very step is younger than the timeout -/
theorem timeout_enforced (timeout now : Int) (L : C23Spec.Ledger) (ak : Option (String × String))
    (ht : 0 < timeout) (x : C23Spec.Xfer)
    (hx : x ∈ C23Spec.advance timeout now L ak true []) : now - x.started < timeout := by
  simp only [C23Spec.advance, C23Spec.startAll, if_true, C23Spec.expire] at hx
  have : ¬ timeout ≤ 0 := by omega
  simp only [this, if_false, List.mem_filter, Bool.not_eq_true', decide_eq_false_iff_not] at hx
  omega

/-! ### Non-vacuity and the recorded defect -/

def envAll : Env := ⟨fun _ => true, fun _ => true, fun _ => true⟩
def cfgDup : Cfg := ⟨3, 2, 2000000000, 30000000000⟩

/-- the duplicate-start history: two requests for one `(peer, chunk)`, then two acknowledgements -/
def dupHistory : List Step :=
  [⟨.request "p1" "c1", 0, envAll⟩, ⟨.request "p1" "c1", 0, envAll⟩,
   ⟨.ack "p1" "c1", 1, envAll⟩, ⟨.ack "p1" "c1", 2, envAll⟩]

def runOld (cfg : Cfg) (st : State) : List Step → State
  | [] => st
  | s :: rest => runOld cfg (step cfg st s true).1 rest

/-- both requests are dispatched (two chunk frames) while holding one slot … -/
example : (step cfgDup (step cfgDup (State.init 0) ⟨.request "p1" "c1", 0, envAll⟩).1 ⟨.request "p1" "c1", 0, envAll⟩).2
      = [Frame.chunk "p1" "c1"]
    ∧ (run cfgDup (State.init 0) (dupHistory.take 2)).perPeer "p1" = 1 := by decide
/-- … the hypothesis of `release` is met after the acknowledgements and the slot count is 0 … -/
example : C23Spec.running (ledgerAfter cfgDup (State.init 0) [] dupHistory) "p1" = 0
    ∧ (run cfgDup (State.init 0) dupHistory).perPeer "p1" = 0 := by decide
/-- … whereas the code before the repair leaves one slot in use for ever (the defect found) -/
theorem old_code_leaks_slot :
    (runOld cfgDup (State.init 0) dupHistory).active = [] ∧ (runOld cfgDup (State.init 0) dupHistory).perPeer "p1" = 1 := by
  decide

/-- limits are reached, not just respected: per-peer limit 2 with three requested chunks -/
example : (run cfgDup (State.init 0)
    [⟨.request "p1" "c1", 0, envAll⟩, ⟨.request "p1" "c2", 0, envAll⟩, ⟨.request "p1" "c3", 0, envAll⟩]).perPeer "p1" = 2 := by
  decide
/-- a timeout frees the slot at the first scheduler run at or after `started + timeout` -/
example : (run cfgDup (State.init 0)
    [⟨.request "p1" "c1", 0, envAll⟩, ⟨.tick, 29999999999, envAll⟩]).perPeer "p1" = 1
  ∧ (run cfgDup (State.init 0)
    [⟨.request "p1" "c1", 0, envAll⟩, ⟨.tick, 30000000000, envAll⟩]).perPeer "p1" = 0 := by decide
/-- `nack` hypotheses are satisfiable -/
example : handleRequest cfgDup ⟨fun _ => true, fun _ => true, fun _ => false⟩ 0 (State.init 0) "p1" "c9"
    = (State.init 0, [Frame.nack "p1" "c9"]) := nack _ _ _ _ _ _ rfl rfl rfl

end EphVerif.C23
