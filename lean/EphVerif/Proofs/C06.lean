/-
C06 — provider lookups return exactly the live, non-withdrawn providers.

Property theorems.  Model: `EphVerif.Providers` (mirror of `KademliaTable`'s locator table),
specification: `EphVerif.C06Spec` (abstract directory with eager per-provider expiry, no sweep),
joint runs over histories: `EphVerif.C06L.run`.  Everything is for *every* history (any number of
chunks, peers, TTLs of any sign, clock advances ≥ 0) and *every* tie-break hint of the truncation.
-/
import EphVerif.Lemmas.C06Two

namespace EphVerif.C06
open EphVerif.Providers EphVerif.C06Spec EphVerif.C06L List

/-- generated constant obligation: the code keeps the 20 providers the property names -/
theorem maxProviders_eq : maxProviders = 20 := by decide

/-! ### refinement -/

/-- **Refinement.**  Run the model and the abstract directory over the same history (the
    directory's `keep` choice at an announcement being the live part of the set the model kept).
    Then every lookup returns the same set of `(peer, expiry)` as the directory — as a permutation,
    hence also as a set — with at most 20 entries; and at every announcement the directory accepts
    the model's kept set as a legal choice of "the 20 expiring last" and the model keeps at most
    20 holders. -/
theorem refines (now0 : Int) (ops : List Op) : ∀ o ∈ (run (init now0) ops).2, o.ok :=
  (run_good (good_init now0) ops).2

/-- the same, spelled out for a lookup observation -/
theorem refines_find (now0 : Int) (ops : List Op) (c : String) (m s : List Ann)
    (h : Obs.found c m s ∈ (run (init now0) ops).2) :
    m ~ s ∧ (∀ a, a ∈ m ↔ a ∈ s) ∧ m.length ≤ 20 :=
  refines now0 ops _ h

/-- the same, as a statement about the state a history leads to: after *any* history, a lookup of
    *any* chunk returns exactly the announcements the abstract directory holds live at that time
    (each provider's most recent announcement, unless withdrawn or cut, and not yet expired). -/
theorem refines_at (now0 : Int) (ops : List Op) (c : String) :
    let st := (run (init now0) ops).1
    (findProviders st.t st.now c).2 ~ C06Spec.find st.s st.now c ∧
      (∀ a, a ∈ (findProviders st.t st.now c).2 ↔ a ∈ C06Spec.find st.s st.now c) ∧
      (findProviders st.t st.now c).2.length ≤ 20 := by
  intro st
  have h := refines now0 (ops ++ [.find c]) (.found c (findProviders st.t st.now c).2 (C06Spec.find st.s st.now c))
    (by rw [run_append]; simp [run, step, st])
  exact h

/-- what the directory answers is by definition the unexpired part of its announcement list -/
theorem spec_find_live (s : S) (now : Int) (c : String) (a : Ann) :
    a ∈ C06Spec.find s now c ↔ a ∈ s c ∧ now < a.exp := by
  simp [C06Spec.find, liveAt]

/-! ### what the abstract directory says (sanity of the specification) -/

/-- an announcement that needs no cut: afterwards the chunk's live announcements are the new one
    (if its expiry lies in the future) and the live announcements of the *other* peers -/
theorem spec_add_find (s : S) (now : Int) (c p : String) (e : Int) (keep : Option (List String))
    (h : ((specBase s now c p e).filter (liveAt now)).length ≤ 20) (a : Ann) :
    a ∈ C06Spec.find (C06Spec.add s now c p e keep).1 now c ↔
      (a = ⟨p, e⟩ ∧ now < e) ∨ (a ∈ C06Spec.find s now c ∧ a.peer ≠ p) := by
  unfold C06Spec.find
  rw [(spec_add_small s now c p e keep h).1]
  simp only [specBase, filter_append, mem_append, mem_filter, liveAt, decide_eq_true_eq, mem_singleton,
    Bool.and_eq_true, bne_iff_ne, ne_eq]
  constructor
  · rintro (⟨⟨h1, h2, _⟩, h4⟩ | ⟨rfl, h2⟩)
    · exact Or.inr ⟨⟨h1, h4⟩, h2⟩
    · exact Or.inl ⟨rfl, h2⟩
  · rintro (⟨rfl, h2⟩ | ⟨⟨h1, h2⟩, h3⟩)
    · exact Or.inr ⟨rfl, h2⟩
    · exact Or.inl ⟨⟨h1, h3, h2⟩, h2⟩

/-- an announcement never touches another chunk -/
theorem spec_add_other_chunk (s : S) (now : Int) (c p : String) (e : Int) (keep : Option (List String))
    (c' : String) (h : c' ≠ c) (now' : Int) :
    C06Spec.find (C06Spec.add s now c p e keep).1 now' c' = C06Spec.find s now' c' := by
  unfold C06Spec.find; rw [spec_add_other _ _ _ _ _ _ _ h]

/-- a withdrawal removes exactly that peer's announcement for that chunk -/
theorem spec_withdraw_find (s : S) (c p : String) (now : Int) (c' : String) (a : Ann) :
    a ∈ C06Spec.find (C06Spec.withdraw s c p) now c' ↔
      a ∈ C06Spec.find s now c' ∧ (c' = c → a.peer ≠ p) := by
  unfold C06Spec.find C06Spec.withdraw C06Spec.set
  by_cases h : c' = c
  · subst h
    simp only [if_true, mem_filter, bne_iff_ne, ne_eq, forall_const]
    constructor
    · rintro ⟨⟨h1, h2⟩, h3⟩; exact ⟨⟨h1, h3⟩, h2⟩
    · rintro ⟨⟨h1, h3⟩, h2⟩; exact ⟨⟨h1, h2⟩, h3⟩
  · simp [h]
/-! ### sweeps -/

/-- **A sweep removes exactly the expired holders** of every chunk, in every reachable state:
    what is left is the list of holders with `now < expiry`, in their old order.  No provider goes
    before its own expiry, whatever the other providers of the chunk announced. -/
theorem sweep_removes_only_expired (now0 : Int) (ops : List Op) (c : String) :
    let st := (run (init now0) ops).1
    holdersOf (sweep st.t st.now) c = (holdersOf st.t c).filter (liveAt st.now) := by
  intro st
  exact sweep_holders (run_good (good_init now0) ops).1.ok st.now c

/-- a lookup immediately after a sweep returns literally the same list as without the sweep -/
theorem sweep_safe_now (now0 : Int) (ops : List Op) (c : String) :
    let st := (run (init now0) ops).1
    (findProviders (sweep st.t st.now) st.now c).2 = (findProviders st.t st.now c).2 := by
  intro st
  exact sweep_find_same (run_good (good_init now0) ops).1.ok st.now c

/-- **Sweep safety.**  Insert a sweep anywhere in a history: the abstract directory (which has no
    sweep) is in the same state as without it, and every lookup of the rest of the history still
    returns exactly what the directory holds live. -/
theorem sweep_safe (now0 : Int) (pre post : List Op) :
    (run (init now0) (pre ++ [.sweep])).1.s = (run (init now0) pre).1.s ∧
    (run (init now0) (pre ++ [.sweep])).1.now = (run (init now0) pre).1.now ∧
    ∀ o ∈ (run (init now0) (pre ++ .sweep :: post)).2, o.ok := by
  refine ⟨?_, ?_, refines now0 _⟩ <;> rw [run_append] <;> simp [run, step]

/-- **Sweep safety, literally.**  Inserting a sweep anywhere in a history changes no later
    lookup result: for every continuation `post` of `pre ++ [sweep]` there is a continuation of
    `pre` with the same operations — differing at most in how ties at a cut to 20 are broken,
    which the property leaves open and `std::sort` does not fix — in which every lookup returns
    the same set of `(peer, expiry)`; and conversely.  (Stated with re-chosen hints because a hint
    is validated against the holder list, which after a sweep no longer contains the expired
    entries and may be ordered differently; the set of lookups a history can produce is what the
    sweep leaves unchanged.) -/
theorem sweep_safe_later (now0 : Int) (pre post : List Op) :
    (∃ post', post'.map eraseHint = post.map eraseHint ∧
      SameAnswers (run (run (init now0) (pre ++ [.sweep])).1 post).2 (run (run (init now0) pre).1 post').2) ∧
    (∃ post', post'.map eraseHint = post.map eraseHint ∧
      SameAnswers (run (run (init now0) pre).1 post).2 (run (run (init now0) (pre ++ [.sweep])).1 post').2) := by
  have hb := (run_good (good_init now0) pre).1
  have ha := (run_good (good_init now0) (pre ++ [.sweep])).1
  have hs : (run (init now0) (pre ++ [.sweep])).1.s = (run (init now0) pre).1.s := (sweep_safe now0 pre []).1
  have hn : (run (init now0) (pre ++ [.sweep])).1.now = (run (init now0) pre).1.now := (sweep_safe now0 pre []).2.1
  constructor
  · refine two_runs post _ _ ha hn.symm ?_
    rw [hs, hn]; exact hb
  · refine two_runs post _ _ hb hn ?_
    rw [← hs, ← hn]; exact ha

/-! ### truncation to the 20 expiring last -/

/-- **Top 20.**  After `add_contact` (any table, any hint) the holder list of the chunk is a
    valid cut of the list before truncation (`old` minus the announcing peer, plus the new
    entry): `min 20 n` entries are kept and every dropped entry expires no later than every
    kept one. -/
theorem top20 (t : Table) (now : Int) (c p : String) (ttl : Int) (hint : Option (List String)) :
    let base := addBase (holdersOf t c) p (now + ttl)
    let kept := holdersOf (addContact t now c p ttl hint) c
    kept.length = min 20 base.length ∧
      ∃ dropped, kept ++ dropped ~ base ∧ ∀ k ∈ kept, ∀ d ∈ dropped, d.exp ≤ k.exp := by
  intro base kept
  have hk : kept = addKept (holdersOf t c) p (now + ttl) hint := by
    simp [kept, add_holders]
  rw [hk]
  rcases addKept_cases (holdersOf t c) p (now + ttl) hint with ⟨hl, heq⟩ | ⟨hl, d, hc⟩
  · rw [heq]
    exact ⟨by simp only [base]; omega, [], by rw [append_nil], by simp⟩
  · exact ⟨by rw [hc.len]; simp only [base]; omega, d, hc.perm, hc.le⟩

/-- `cut` is a valid cut whatever the hint is — a valid one, an invalid one or none: exactly `n`
    entries are kept, together with the dropped ones they are a permutation of the input, and
    every dropped entry expires no later than every kept one. -/
theorem cut_valid (n : Nat) (base : List Ann) (hint : Option (List String)) (hn : n ≤ base.length) :
    (cut n base hint).length = n ∧
      ∃ dropped, cut n base hint ++ dropped ~ base ∧ ∀ k ∈ cut n base hint, ∀ d ∈ dropped, d.exp ≤ k.exp := by
  obtain ⟨d, hc⟩ := cut_ok n base hint hn
  exact ⟨hc.len, d, hc.perm, hc.le⟩

/-- the fallback sort is a permutation sorted by descending expiry -/
theorem sortDesc_correct (l : List Ann) :
    sortDesc l ~ l ∧ (sortDesc l).Pairwise (fun a b => b.exp ≤ a.exp) :=
  ⟨sortDesc_perm l, sortDesc_sorted l⟩

/-! ### non-vacuity: concrete histories -/

section Examples

/-- 21 providers of one chunk, `p1` and `p2` tied for the last place (both expire at 5 s) -/
def qs : List (String × Int) :=
  [("q0", 10), ("q1", 11), ("q2", 12), ("q3", 13), ("q4", 14), ("q5", 15), ("q6", 16), ("q7", 17), ("q8", 18), ("q9", 19), ("q10", 20), ("q11", 21), ("q12", 22), ("q13", 23), ("q14", 24), ("q15", 25), ("q16", 26), ("q17", 27)]

def crowd (hint : Option (List String)) : List Op :=
  [.add "c" "p1" 5 none, .add "c" "p2" 5 none] ++ (qs.map fun q => Op.add "c" q.1 q.2 none) ++
  [.add "c" "p21" 7 hint, .find "c"]

def peersOf (os : List Obs) : List (List String) :=
  os.filterMap fun | .found _ m _ => some (m.map (·.peer)) | _ => none

/-- no hint: the stable fallback keeps `p1`, drops `p2`; 20 providers are returned -/
example : ((peersOf (run (init 0) (crowd none)).2).map fun l => (l.length, l.contains "p1", l.contains "p2"))
    = [(20, true, false)] := by decide +kernel

/-- the other legal tie-break (what an unstable `std::sort` may do): keep `p2`, drop `p1` -/
example : ((peersOf (run (init 0) (crowd (some (["p2", "p21"] ++ qs.map (·.1))))).2).map
      fun l => (l.length, l.contains "p1", l.contains "p2")) = [(20, false, true)] := by decide +kernel

/-- an illegal hint (dropping the longest-lived `q17` instead) is refused: fallback result -/
example : ((peersOf (run (init 0) (crowd (some (["p1", "p2", "p21"] ++ (qs.take 17).map (·.1))))).2).map
      fun l => (l.length, l.contains "p1", l.contains "p2", l.contains "q17")) = [(20, true, false, true)] := by decide +kernel

/-- expiry between announcement and lookup: live at deadline − 1, gone at the deadline;
    a TTL ≤ 0 never shows up -/
example : (run (init 1000) [.add "c" "p" 5 none, .add "c" "z" 0 none, .adv 4, .find "c", .adv 1, .find "c"]).2 =
    [.added [⟨"p", 1005⟩] true, .added [⟨"p", 1005⟩, ⟨"z", 1000⟩] true,
     .found "c" [⟨"p", 1005⟩] [⟨"p", 1005⟩], .found "c" [] []] := by decide

/-- the sweep of the repaired code: a short-lived later announcement does not take the
    long-lived provider with it -/
example : (run (init 0) [.add "c" "long" 100 none, .add "c" "short" 10 none, .adv 10, .sweep, .find "c"]).2 =
    [.added [⟨"long", 100⟩] true, .added [⟨"long", 100⟩, ⟨"short", 10⟩] true,
     .found "c" [⟨"long", 100⟩] [⟨"long", 100⟩]] := by decide

/-- withdrawal and re-announcement with a shorter TTL -/
example : (run (init 0) [.add "c" "a" 100 none, .add "c" "b" 50 none, .withdraw "c" "a", .add "c" "b" 3 none,
      .adv 2, .find "c", .adv 1, .find "c"]).2.drop 3 =
    [.found "c" [⟨"b", 3⟩] [⟨"b", 3⟩], .found "c" [] []] := by decide

end Examples

end EphVerif.C06
