import EphVerif.Model.Providers
import EphVerif.Spec.Providers

namespace EphVerif.C06
open EphVerif.Providers

/-- generated constant obligation: the code keeps the 20 providers the property names -/
theorem maxProviders_eq : maxProviders = 20 := by decide

end EphVerif.C06
