/-
System-level lifetime statements: the TTL results C01, C02, C03, C05, C06 composed.

Everything is about the C05 node model (`Model/NodeCleanup.lean`: chunk store × provider locators ×
routing table × key-share table × manifest cache × swarm plans × notification queue) of a node
constructed from an arbitrary **raw** configuration `raw : Gen.C02.Cfg` — any field values, before
sanitisation — through the *generated* `sanitize_config` (`Sys.sysCfg raw e`), and about every history
`ops` of `adv / store / ingest / announce / reannounce / lookup / probe / tick / drain / audit`
(`OpsSys`: announcing peers are not the node itself; a re-announcement uses a TTL the node could have
computed, `≤ max_manifest_ttl`).  `e : Sys.Env` carries what the TTL sanitiser does not touch; in
particular `e.cleanup` = `Config::cleanup_interval`, **which the code does not sanitise**.

What is imported (not re-proved):
  * C02 `config`, `store`, `store_deadline_bound` — over the generated sanitise/clamp functions — give the
    creation bounds of local stores (`Sys.store_bounds`);
  * C03 `derived`, `cap` give the creation bounds of everything learned from a manifest
    (`Sys.manifest_shard_bounds`, `Sys.announce_contact_bounds`);
  * C01 `reads_exact`, `dead_unreachable` (and its refinement invariant) speak about the node's chunk store
    through the projection `Sys.agree_reach`;
  * C06 `refines_at`, `sweep_safe` speak about the node's provider directory through `Sys.lagree_reach`;
  * C05 `clean`, `clean_after_tick`, `once` and the invariant behind them.
Helper lemmas: `Lemmas/C05Sys{Bridge,Young,Proj,Frame,Read}.lean`.
-/
import EphVerif.Lemmas.C05SysRead
import EphVerif.Proofs.C05

namespace EphVerif.SystemLifetime
open EphVerif.NodeCleanup EphVerif.C05L EphVerif.Sys
open EphVerif.ChunkStore (aget)
open EphVerif.C05Spec (judgeDump judgeAudit count)

/-! ### (4) units and configurations -/

/-- all component models count time in `Int` nanoseconds and TTLs in `Int` seconds; the five spellings of
    10⁹ agree, and 24 h is `86400 · 10⁹` ns -/
theorem units : NodeCleanup.ns = 1000000000 ∧ ChunkStore.nsPerSec = 1000000000 ∧ C02Spec.nsPerS = 1000000000 ∧
    C03Spec.nsPerS = 1000000000 ∧ C05Spec.nsPerSec = 1000000000 ∧ C02Spec.dayS * C02Spec.nsPerS = dayNs :=
  ⟨rfl, rfl, rfl, rfl, rfl, day_eq.2⟩

/-- for every raw configuration the node works inside `1 s ≤ min ≤ max ≤ 24 h` (C02.config), so the
    hypotheses of the component theorems (`SaneCfg`) hold and the longest lifetime is at most a day -/
theorem window (raw : Raw) (e : Env) :
    1 ≤ (sysCfg raw e).node.minTtl ∧ (sysCfg raw e).node.minTtl ≤ (sysCfg raw e).node.maxTtl ∧
    (sysCfg raw e).node.maxTtl ≤ 86400 ∧ maxNs (sysCfg raw e) ≤ dayNs ∧ ChunkStore.SaneCfg (sysCfg raw e).node :=
  ⟨min_pos raw e, min_le_max raw e, max_le_day raw e, maxNs_le_day raw e, sane raw e.cleanup⟩

/-- the hand-written TTL functions of the node model are the generated ones (`prevShard`: the deadline of a key-share
    record already in the table, which `publish_shards` ignores — any value) -/
theorem ttl_functions_agree (raw : Raw) (e : Env) (ttl t W E prevShard : Int) :
    ChunkStore.nodeTtl (sysCfg raw e).node ttl = Gen.C02.store_chunk_put_ttl ttl (Ttl.effective raw) ∧
    manifestTtl (sysCfg raw e) W E = Gen.C02.manifest_ttl E (Ttl.effective raw) W ∧
    advertised (sysCfg raw e) ttl t = Gen.C02.announce_advertised_ttl ttl t (Ttl.effective raw) ∧
    storeLifetimes (sysCfg raw e) ttl = Ttl.storeChunk raw ttl W E prevShard :=
  ⟨nodeTtl_bridge raw e.cleanup ttl, manifestTtl_bridge raw e W E, advertised_bridge raw e ttl t,
   storeLifetimes_bridge raw e ttl W E prevShard⟩

/-! ### (1) ephemerality -/

/-- **Ephemerality bound, state form.**  Whatever the raw configuration, the inputs and the history: in the
    state reached, with `T` the time of the most recent cleanup,

    * every chunk record, locator, locator holder, routing contact and key-share record has a deadline `d`
      with `T < d ≤ now + max_ttl·10⁹ ≤ now + 24 h` — applied to the state right after the operation that
      created the entry at time `t`, this is `d ≤ t + 24 h` (C02.store, C03.cap through `Sys.Young`), and it
      is physically gone once a cleanup has run at or after `d` (C05.clean);
    * every cached manifest expires after `T` (wall clock) and every plan belongs to a cached manifest —
      but see `remote_manifest_outlives_day`: a cached manifest lives as long as the manifest itself says;
    * the read side: a chunk lookup that hits returns a record with `now < d` (C01.reads_exact), a provider
      lookup returns only holders with `now < d` (C06.refines_at), the key-share lookup succeeds only with
      `now < d`. -/
theorem ephemerality_bound (raw : Raw) (e : Env) (t0 : Int) (ops : List Op) (hw : OpsSys (sysCfg raw e) ops) :
    let s := (C05.reach (sysCfg raw e) t0 ops).s
    (∀ x ∈ s.recs, s.lastCleanup < x.2.expires ∧ x.2.expires ≤ s.now + dayNs) ∧
    (∀ c l, s.locs c = some l → (s.lastCleanup < l.exp ∧ l.exp ≤ s.now + dayNs) ∧
      ∀ h ∈ l.holders, s.lastCleanup < h.exp ∧ h.exp ≤ s.now + dayNs) ∧
    (∀ x ∈ Routing.allContacts s.routes, s.lastCleanup < x.exp ∧ x.exp ≤ s.now + dayNs) ∧
    (∀ x ∈ s.shards, s.lastCleanup < x.2 ∧ x.2 ≤ s.now + dayNs) ∧
    (∀ x ∈ s.cache, s.lastCleanup + e.wallOff < x.2) ∧
    (∀ x ∈ s.plans, (aget s.cache x.1).isSome = true) ∧
    (∀ c r, ChunkStore.getRecord s.recs s.now c = some r → s.now < r.expires) ∧
    (∀ c a, a ∈ (Providers.findProviders s.locs s.now c).2 → s.now < a.exp ∧ a.exp ≤ s.now + dayNs) ∧
    (∀ c, shardLive s c = true → ∃ d, aget s.shards c = some d ∧ s.now < d) := by
  intro s
  have hi : Inv (sysCfg raw e) s := inv_run (r := Run.init _ t0) (inv_init _ t0) ops hw.wf
  have hy : Young (sysCfg raw e) s := young_run raw e (r := Run.init _ t0) (young_init _ t0) ops hw
  have hB := maxNs_le_day raw e
  refine ⟨?_, ?_, ?_, ?_, hi.cache, hi.plans, ?_, ?_, ?_⟩
  · intro x hx; exact ⟨hi.recs x hx, by have := hy.recs x hx; omega⟩
  · intro c l hl
    obtain ⟨a1, a2⟩ := hi.locs c l hl
    obtain ⟨b1, b2⟩ := hy.locs c l hl
    exact ⟨⟨a1, by omega⟩, fun h hh => ⟨a2 h hh, by have := b2 h hh; omega⟩⟩
  · intro x hx
    obtain ⟨i, hi'⟩ := mem_allContacts hx
    exact ⟨hi.routes i x hi', by have := hy.routes i x hi'; omega⟩
  · intro x hx; exact ⟨hi.shards x hx, by have := hy.shards x hx; omega⟩
  · -- C01.reads_exact on the projected history
    intro c r hg
    have hag := agree_reach (sysCfg raw e) rfl t0 ops
    have hre := (C01.reads_exact (sysCfg raw e).node (sane raw e.cleanup) t0 [] (c01Hist ops) c).2.2.1
    have hnow := (C01.reads_exact (sysCfg raw e).node (sane raw e.cleanup) t0 [] (c01Hist ops) c).1
    rw [← hag.recs, ← hag.now, hg] at hre
    simp only [Option.map_some, StoreSpec.readRecord] at hre
    split at hre
    · rename_i en _
      split at hre
      · rename_i hlt
        have h2 : r.expires = en.deadline := (Prod.mk.inj (Option.some.inj hre)).2
        rw [h2, hag.now, hnow]; exact hlt
      · cases hre
    · cases hre
  · -- C06.refines_at on the projected history
    intro c a ha
    have hl := lagree_reach (sysCfg raw e) t0 ops
    have href := (C06.refines_at t0 (locHist (sysCfg raw e) (State.init (sysCfg raw e) t0) ops) c).2.1 a
    rw [hl.t, hl.now] at href
    have hlive := (C06.spec_find_live _ _ c a).mp (href.mp ha)
    obtain ⟨l, hl', hmem⟩ := mem_findProviders_result ha
    exact ⟨hlive.2, by have := (hy.locs c l hl').2 a hmem; omega⟩
  · intro c hs
    simp only [shardLive] at hs
    split at hs
    · rename_i d hd
      refine ⟨d, hd, ?_⟩
      simp only [cmp, EphVerif.Gen.C05.shardRecordExpiredIsGe, if_true, Bool.not_eq_true', decide_eq_false_iff_not] at hs
      omega
    · cases hs

/-- **Ephemerality of one local store, literally.**  Take any history `pre`, a `store_chunk` of `c` with any
    requested TTL at time `t`, and any continuation `post` that does not store `c` again.  With
    `d := t + (chunk lifetime C02 computes from the generated functions)`:
    `t < d ≤ t + 24 h` (C02.store_deadline_bound); whenever a record of `c` is held its deadline is `d`
    (C01's refinement invariant); from `d` on no lookup, fetch or listing serves it (C01.dead_unreachable);
    and once a cleanup has run at or after `d` the record is physically gone (C05's invariant). -/
theorem chunk_ephemeral (raw : Raw) (e : Env) (t0 : Int) (pre post : List Op) (c : String) (ttl : Int)
    (hint : Option (List String)) (hw : OpsSys (sysCfg raw e) (pre ++ Op.store c ttl hint :: post))
    (hpost : ∀ op ∈ post, storesC c op = false) :
    let t := (C05.reach (sysCfg raw e) t0 pre).s.now
    let d := t + (Ttl.storeChunk raw ttl t (t + e.wallOff)).chunk
    let s := (C05.reach (sysCfg raw e) t0 (pre ++ Op.store c ttl hint :: post)).s
    (t < d ∧ d ≤ t + dayNs) ∧
    (∀ r, (c, r) ∈ s.recs → r.expires = d) ∧
    (d ≤ s.now → ChunkStore.getRecord s.recs s.now c = none ∧ ChunkStore.nodeFetch s.recs s.now c = none ∧
      ∀ x, (c, x) ∉ (ChunkStore.nodeList s.recs s.now).map (fun y => (y.1, y.2.1))) ∧
    (d ≤ s.lastCleanup → ∀ r, (c, r) ∉ s.recs) := by
  intro t d s
  have hb := C02.store_deadline_bound raw ttl t (t + e.wallOff)
  obtain ⟨en, hlast, hdl⟩ := last_after_store raw e t0 pre post c ttl hint hpost
  have hrel := node_rel raw e t0 (pre ++ Op.store c ttl hint :: post)
  have hag := agree_reach (sysCfg raw e) rfl t0 (pre ++ Op.store c ttl hint :: post)
  have hi : Inv (sysCfg raw e) s := inv_run (r := Run.init _ t0) (inv_init _ t0) _ hw.wf
  have hexp : ∀ r, (c, r) ∈ s.recs → r.expires = d := by
    intro r hr
    have hr' : aget s.recs c = some r := ChunkStore.aget_of_mem (by rw [hag.recs]; exact hrel.uniq) hr
    rw [hag.recs] at hr'
    obtain ⟨e', he', _, _, hd'⟩ := hrel.sound c r hr'
    rw [hlast] at he'; cases he'
    rw [← hd', hdl]
  refine ⟨⟨by simp only [d]; omega, by simp only [d, dayNs]; omega⟩, hexp, ?_, ?_⟩
  · intro hdead
    have hd := C01.dead_unreachable (sysCfg raw e).node (sane raw e.cleanup) t0 [] _ c en hlast
      (by rw [hdl, ← hrel.now_eq, ← hag.now]; exact hdead)
    simp only at hd
    rw [← hag.recs, ← hag.now] at hd
    exact ⟨hd.2.1, hd.2.2.1, hd.2.2.2.2⟩
  · intro hcl r hr
    have h1 := hi.recs (c, r) hr
    have h2 := hexp r hr
    simp only at h1
    omega

/-- **Provider lookups of the node are exactly the abstract directory of C06** (each provider's most recent
    announcement, unless withdrawn or cut, and not yet expired; at most 20), on the provider-directory history
    `Sys.locHist` that the node history amounts to (C06.refines_at through `Sys.lagree_reach`). -/
theorem provider_lookup_exact (cfg : Cfg) (t0 : Int) (ops : List Op) (c : String) :
    let s := (C05.reach cfg t0 ops).s
    let st := (C06L.run (C06L.init t0) (locHist cfg (State.init cfg t0) ops)).1
    List.Perm (Providers.findProviders s.locs s.now c).2 (C06Spec.find st.s s.now c) ∧
    (Providers.findProviders s.locs s.now c).2.length ≤ 20 := by
  intro s st
  have hl := lagree_reach cfg t0 ops
  have h := C06.refines_at t0 (locHist cfg (State.init cfg t0) ops) c
  simp only [hl.t, hl.now] at h
  exact ⟨h.1, h.2.2⟩

/-- **A cleanup is invisible to provider lookups** (C06.sweep_safe): a tick whose cleanup finds no expired
    local chunk is, for the provider directory, a bare sweep — the abstract directory after it is the one
    before it, so every later lookup answers as if the tick had not happened. -/
theorem cleanup_keeps_directory (cfg : Cfg) (t0 : Int) (pre : List Op)
    (hgate : gate cfg (C05.reach cfg t0 pre).s = true)
    (hnone : (ChunkStore.sweep (C05.reach cfg t0 pre).s.recs (C05.reach cfg t0 pre).s.now).2 = []) :
    (C06L.run (C06L.init t0) (locHist cfg (State.init cfg t0) (pre ++ [Op.tick]))).1.s =
      (C06L.run (C06L.init t0) (locHist cfg (State.init cfg t0) pre)).1.s := by
  have happ := locHist_append cfg (State.init cfg t0) pre [Op.tick] []
  have hs : (run cfg ⟨State.init cfg t0, []⟩ pre).s = (C05.reach cfg t0 pre).s := rfl
  rw [happ, hs]
  have hops : locHist cfg (C05.reach cfg t0 pre).s [Op.tick] = [Providers.Op.sweep] := by
    simp only [locHist, locOps, hgate, if_true, hnone, List.map_nil, List.nil_append, List.append_nil]
  rw [hops]
  exact (C06.sweep_safe t0 (locHist cfg (State.init cfg t0) pre) []).1

/-- **When the physical removal happens.**  A tick runs the cleanup exactly when `cleanup_interval` has elapsed
    since the previous cleanup (C05.tick_cleans_iff); after a tick that cleans at `T` nothing with deadline
    `≤ T` is held and the audit is healthy (C05.clean_after_tick).  Hence an entry with deadline `d` is
    physically absent after the first tick at a time `≥ max d (lastCleanup + cleanup_interval)`: the node
    never *holds* anything for longer than `24 h + cleanup_interval + (the delay until the next tick)` —
    **provided `cleanup_interval` is bounded, which nothing in the code ensures** (`stale_forever`). -/
theorem removed_by_first_cleanup (raw : Raw) (e : Env) (t0 : Int) (pre : List Op)
    (hw : OpsSys (sysCfg raw e) (pre ++ [Op.tick])) (ks : List String) (nameOf : Routing.Id → String) :
    let s0 := (C05.reach (sysCfg raw e) t0 pre).s
    let s := (C05.reach (sysCfg raw e) t0 (pre ++ [Op.tick])).s
    (gate (sysCfg raw e) s0 = true ↔ s0.now ≥ s0.lastCleanup + e.cleanup * 1000000000) ∧
    (gate (sysCfg raw e) s0 = true →
      s.now = s0.now ∧ s.lastCleanup = s0.now ∧
      judgeDump (sysCfg raw e).self s0.now (s0.now + e.wallOff) (dumpOf ks nameOf s) = none ∧
      judgeAudit (audit (sysCfg raw e) ks s) = none) := by
  intro s0 s
  refine ⟨?_, ?_⟩
  · rw [C05.tick_cleans_iff]
    show s0.now - s0.lastCleanup ≥ e.cleanup * 1000000000 ↔ _
    omega
  · intro hg
    exact C05.clean_after_tick (sysCfg raw e) t0 pre [] hw.wf hg (by simp) ks nameOf

/-! ### (2) no resurrection -/

/-- **No resurrection.**  After a tick that cleans at `T`, whatever happens next — any operations at all,
    including new stores, manifests and announcements, at any later times — the node never again holds
    anything with deadline `≤ T`: the time of the latest cleanup only grows and every operation creates
    only entries that end after the instant of their creation. -/
theorem no_resurrection (cfg : Cfg) (t0 : Int) (pre post : List Op) (hw : OpsWf cfg (pre ++ Op.tick :: post))
    (hgate : gate cfg (C05.reach cfg t0 pre).s = true) (ks : List String) (nameOf : Routing.Id → String) :
    let T := (C05.reach cfg t0 pre).s.now
    let s := (C05.reach cfg t0 (pre ++ Op.tick :: post)).s
    T ≤ s.lastCleanup ∧ judgeDump cfg.self T (T + cfg.wallOff) (dumpOf ks nameOf s) = none := by
  intro T s
  have hw1 : OpsWf cfg (pre ++ [Op.tick]) := fun op hop => hw op (by
    rcases List.mem_append.mp hop with h | h
    · exact List.mem_append_left _ h
    · exact List.mem_append_right _ (by simp only [List.mem_singleton] at h; rw [h]; exact List.mem_cons_self ..))
  have hw2 : OpsWf cfg post := fun op hop => hw op (List.mem_append_right _ (List.mem_cons_of_mem _ hop))
  have hmid : Inv cfg (C05.reach cfg t0 (pre ++ [Op.tick])).s := inv_run (r := Run.init _ t0) (inv_init _ t0) _ hw1
  have hT : (C05.reach cfg t0 (pre ++ [Op.tick])).s.lastCleanup = T :=
    (C05.clean_after_tick cfg t0 pre [] hw1 hgate (by simp) [] nameOf).2.1
  have hs : s = (run cfg (C05.reach cfg t0 (pre ++ [Op.tick])) post).s := by
    show (C05.reach cfg t0 (pre ++ Op.tick :: post)).s = _
    rw [← C05.reach_append]; simp
  have hmono := last_mono_run hmid post hw2
  have hle : T ≤ s.lastCleanup := by rw [hs, ← hT]; exact hmono
  have hinv : Inv cfg s := inv_run (r := Run.init _ t0) (inv_init _ t0) _ hw
  exact ⟨hle, judgeDump_of_inv (inv_lower hinv hle) ks nameOf⟩

/-- **Frame.**  Without a store / ingest / announce / re-announce / key-share re-publication nothing appears at
    all: after any sequence of clock advances, provider probes, ticks, drains and audits the node holds a
    subset of what it held before (same ids, same deadlines; a plan may only have been recomputed). -/
theorem quiet_frame (cfg : Cfg) (t0 : Int) (pre post : List Op) (hq : ∀ op ∈ post, Quiet op) :
    Sub (C05.reach cfg t0 (pre ++ post)).s (C05.reach cfg t0 pre).s := by
  rw [C05.reach_append]
  exact quiet_run cfg _ post hq

/-! ### (3) notification accounting -/

/-- **Notification accounting.**  For every raw configuration and history, the number of notifications for an
    id (drained so far plus still queued) equals the number of its *store epochs that ended by expiry and
    were swept*: a `store_chunk` of the id at time `t` (deadline `d = t + effective TTL`) counts iff a tick
    that runs the cleanup at some `T ≥ d` occurs before the id is stored again (`Sys.sweptEpochs`).  An epoch
    that is overwritten first, or whose expiry no cleanup has seen yet, counts nothing; lookups, probes,
    manifests and announcements never count. -/
theorem notification_accounting (raw : Raw) (e : Env) (t0 : Int) (ops : List Op) (c : String) :
    count c (C05.reach (sysCfg raw e) t0 ops).notified =
      sweptEpochs (paramsOf (sysCfg raw e)) c t0 t0 (ops.map evOf) := by
  rw [C05.once (sysCfg raw e) (sane raw e.cleanup) t0 ops c, reported_eq]
  simp [C05Spec.N.init, pendingReport]

/-! ### finding-level observations (not violations of C01–C06) -/

def rawEx : Raw := { default_chunk_ttl := 3, min_manifest_ttl := 2, max_manifest_ttl := 10 }
/-- a raw configuration with nonsense bounds: negative default, zero minimum, inverted maximum -/
def rawBad : Raw := { default_chunk_ttl := -5, min_manifest_ttl := 0, max_manifest_ttl := -7 }
def envEx : Env := { cleanup := 1, rebalance := 1800, self := "self", selfId := List.replicate 32 1, wallOff := 1700000000000000000 }
/-- `cleanup_interval` = 10¹² s (≈ 31 700 years): accepted as is -/
def envLazy : Env := { envEx with cleanup := 1000000000000 }
def t0Ex : Int := 1000000000000

/-- **`cleanup_interval` is not sanitised.**  With a huge interval the cleanup branch never runs: ten years
    after its deadline the chunk record (and its key shares, manifest, plan, announcement) is still
    physically held — although unreadable, as C01 guarantees.  The `24 h + cleanup interval` retention bound
    is therefore only as good as the configured interval. -/
theorem stale_forever :
    let s := (C05.reach (sysCfg rawEx envLazy) t0Ex
      [.store "c1" 2 none, .adv 315360000000000000, .tick, .lookup "c1", .tick]).s
    s.recs.map (fun x => (x.1, x.2.expires - s.now)) = [("c1", -315359998000000000)] ∧
    s.shards ≠ [] ∧ s.cache ≠ [] ∧ s.plans ≠ [] ∧ s.notes = [] ∧
    ChunkStore.getRecord s.recs s.now "c1" = none := by decide +kernel

/-- **A cached manifest lives as long as the manifest says.**  A manifest learned from a peer with an expiry ten
    years ahead is accepted; its key shares are capped at `max_ttl` (C03.cap) and are gone after a day's worth
    of cleanups, but the manifest itself (key shards included) and its swarm plan stay cached: two days and
    a cleanup later the cache entry still has more than 24 h to live.  `ephemerality_bound` therefore bounds
    cached manifests only from below. -/
theorem remote_manifest_outlives_day :
    let s := (C05.reach (sysCfg rawEx envEx) t0Ex
      [.ingest "c9" (1700001000000000000 + 315360000000000000) false, .adv 172800000000000, .tick]).s
    s.shards = [] ∧ s.lastCleanup = s.now ∧
    s.cache.map (fun x => decide (x.2 > s.now + envEx.wallOff + dayNs)) = [true] ∧ s.plans.map (·.1) = ["c9"] := by
  decide +kernel

/-! ### non-vacuity -/

/-- the sanitiser at work: nonsense bounds become the window 1 s .. 1 s -/
example : (sysCfg rawBad envEx).node.minTtl = 1 ∧ (sysCfg rawBad envEx).node.maxTtl = 1 ∧
    (sysCfg rawBad envEx).node.store.defaultTtl = 1 := by decide +kernel

def histEx : List Op :=
  [.store "c1" 2 none, .store "c2" 0 none, .ingest "c3" 1700001002000000000 false,
   .announce "c2" 1700001004000000000 false "p1" (List.replicate 31 1 ++ [2]) "10.0.0.9:4000" 99 none,
   .reannounce "c1" 4 none, .adv 2000000000, .lookup "c1", .probe "c2", .tick, .drain,
   .store "c1" 2 none, .adv 500000000, .store "c1" 2 none, .adv 3000000000, .tick, .drain]

example : OpsSys (sysCfg rawEx envEx) histEx := by
  intro op hop
  simp only [histEx, List.mem_cons, List.not_mem_nil, or_false] at hop
  rcases hop with h | h | h | h | h | h | h | h | h | h | h | h | h | h | h | h <;> subst h <;>
    first | trivial | (show (4 : Int) ≤ _; decide +kernel) | (show "p1" ≠ "self"; decide)

/-- three store epochs of `c1` (one swept, one overwritten while live, one swept), one of `c2`: the accounting
    counts 2 and 1, and that is what was notified -/
example : sweptEpochs (paramsOf (sysCfg rawEx envEx)) "c1" t0Ex t0Ex (histEx.map evOf) = 2 ∧
    sweptEpochs (paramsOf (sysCfg rawEx envEx)) "c2" t0Ex t0Ex (histEx.map evOf) = 1 ∧
    (C05.reach (sysCfg rawEx envEx) t0Ex histEx).drained = ["c1", "c1", "c2"] := by decide +kernel

/-- the hypotheses of `chunk_ephemeral` are satisfiable and its deadline is the clamped one
    (requested 99 999 s, granted `max_ttl` = 10 s) -/
example : (∀ op ∈ [Op.adv 10000000000, .lookup "c1", .tick], storesC "c1" op = false) ∧
    (Ttl.storeChunk rawEx 99999 t0Ex (t0Ex + envEx.wallOff)).chunk = 10000000000 := by decide +kernel

/-- an accepted far-future manifest: key shares capped at `max_ttl` = 10 s after the arrival -/
example : (C05.reach (sysCfg rawEx envEx) t0Ex [.ingest "c9" (1700001000000000000 + 315360000000000000) false]).s.shards =
    [("c9", t0Ex + 10000000000)] := by decide +kernel

/-- quiet operations after a cleanup keep the state empty; `Quiet` is inhabited by the interesting ones -/
example : ∀ op ∈ [Op.adv 5, .probe "c1", .tick, .drain, .audit], Quiet op := by
  intro op hop
  simp only [List.mem_cons, List.not_mem_nil, or_false] at hop
  rcases hop with h | h | h | h | h <;> subst h <;> trivial

end EphVerif.SystemLifetime
