/-
C36 — daemon threads never race on shared node state (PARTIAL: lockset discipline).

Full property (not provable as a theorem about the C++ process: a data race is a runtime event):
  for every schedule of the control thread, the tick loop, the transport accept thread, the
  per-session reader threads (and the relay worker), no shared location of the node is read and
  written, or written twice, without synchronisation.

What is proved here, for an unbounded number of threads, program lengths and schedules, in the
interleaving semantics of `Model/Lockset.lean` (exclusive locks):

* `lockset_sound_except` : if every thread follows an access table `T` in its role, then in every
  reachable state any two threads that are simultaneously at conflicting accesses of a location
  `f` are witnessed by the checker: `(f, roles) ∈ violations multi T`.
* `lockset_sound` / `lockset_sound_premise` : hence, if the checker finds nothing (equivalently:
  every two conflicting rows of `T` share a lock), no reachable state is a race.
* `table_ok` / `premise_iff` : the decidable checker `violations multi T = []` is equivalent to
  the premise.
* `violation_realisable` : the criterion is tight — every triple the checker reports is an actual
  race of a two-thread program that follows `T` (so a reported pair is not excluded by the
  locking discipline; whether the real code exhibits it is what the TSan harness looks for).
* `table_keys`, `table_nodup`, `table_violations` : kernel evaluation of the checker (group by
  group, `mem_violationsG`) on the table extracted from the current sources
  (`Generated/C36.lean`); `table_violations_flat`, `C36_partial`, `C36_counterexamples`,
  `C36_full_iff` instantiate the general theorems on it.

* `lock_order_no_deadlock`, `no_deadlock_of_edges`, `lockOrderAcyclic_no_cycle` : a lock order (rank
  certificate for the extracted graph "l2 is acquired while l1 is held") excludes deadlock: whenever
  some thread has not finished, some thread can step.  `table_lock_order`, `C36_no_deadlock` decide
  and instantiate it on the extracted edge list.

Trusted: that the extracted table over-approximates the accesses and under-approximates the
locks held by the real threads (extractor soundness), see notes/C36.md.
-/
import EphVerif.Model.Lockset
import EphVerif.Lemmas.C36Lockset
import EphVerif.Generated.C36

namespace EphVerif.C36
open EphVerif.Lockset

/-- Any simultaneous pair of conflicting accesses of a system that follows table `T` is one of
    the pairs the checker reports. -/
theorem lockset_sound_except {multi : List Role} {T : List Row} {roleOf : Tid → Role} {s0 s : State}
    (ha : Admissible multi T roleOf s0) (hr : Reach s0 s)
    {t u : Tid} {f : Field} {k1 k2 : Kind} (hne : t ≠ u)
    (h1 : At s t f k1) (h2 : At s u f k2) (hw : k1 = Kind.W ∨ k2 = Kind.W) :
    (f, normPair (roleOf t) (roleOf u)) ∈ violations multi T := by
  obtain ⟨h0, hf, hm⟩ := ha
  have hex : Excl s := Excl.reach h0 hr
  have hfa : FollowsAll T roleOf s := FollowsAll.reach (s0 := s0) hf hr
  obtain ⟨a, haT, har, haf, hak, hal⟩ := hfa.at h1
  obtain ⟨b, hbT, hbr, hbf, hbk, hbl⟩ := hfa.at h2
  refine mem_violations.mpr ⟨a, haT, b, hbT, ?_, ?_, ?_⟩
  · -- conflicting rows
    have hroles : (a.role != b.role || multi.contains a.role) = true := by
      by_cases hr' : a.role = b.role
      · have : roleOf t = roleOf u := by rw [← har, ← hbr]; exact hr'
        have hin := hm t u hne this
        rw [← har] at hin
        simp [hin]
      · simp [hr']
    have hkinds : (a.kind == Kind.W || b.kind == Kind.W) = true := by
      rcases hw with h | h
      · simp [hak, h]
      · simp [hbk, h]
    have hfield : (a.field == b.field) = true := by simp [haf, hbf]
    simp only [conflict, hfield, hkinds, hroles, Bool.and_self]
  · -- no common lock, by mutual exclusion
    cases hs : shareLock a b with
    | false => rfl
    | true =>
      obtain ⟨l, hla, hlb⟩ := shareLock_true.mp hs
      exact absurd (hbl l hlb) (hex t u l hne (hal l hla))
  · rw [haf, har, hbr]

/-- The lockset theorem: a table on which the checker finds nothing excludes every race, for
    every number of threads, every program length and every schedule. -/
theorem lockset_sound {multi : List Role} {T : List Row} {roleOf : Tid → Role} {s0 s : State}
    (hv : violations multi T = []) (ha : Admissible multi T roleOf s0) (hr : Reach s0 s) :
    ¬ Race s := by
  rintro ⟨t, u, f, k1, k2, hne, h1, h2, hw⟩
  have := lockset_sound_except ha hr hne h1 h2 hw
  rw [hv] at this
  cases this

/-- the checker decides the premise "conflicting rows share a lock" -/
theorem premise_iff {multi : List Role} {T : List Row} :
    violations multi T = [] ↔ Premise multi T := by
  constructor
  · intro hv a ha b hb hc
    cases hs : shareLock a b with
    | true => rfl
    | false =>
      have : (a.field, normPair a.role b.role) ∈ violations multi T :=
        mem_violations.mpr ⟨a, ha, b, hb, hc, hs, rfl⟩
      rw [hv] at this
      cases this
  · intro hp
    cases hv : violations multi T with
    | nil => rfl
    | cons v vs =>
      have hm : v ∈ violations multi T := by rw [hv]; exact List.mem_cons_self ..
      obtain ⟨a, ha, b, hb, hc, hs, _⟩ := mem_violations.mp hm
      have := hp a ha b hb hc
      rw [hs] at this
      cases this

/-- `violations multi T = []` (decidable, evaluated by the kernel on a concrete table) implies the
    premise of the lockset theorem -/
theorem table_ok {multi : List Role} {T : List Row} (h : violations multi T = []) : Premise multi T :=
  premise_iff.mp h

theorem lockset_sound_premise {multi : List Role} {T : List Row} {roleOf : Tid → Role} {s0 s : State}
    (hp : Premise multi T) (ha : Admissible multi T roleOf s0) (hr : Reach s0 s) : ¬ Race s :=
  lockset_sound (premise_iff.mpr hp) ha hr

/-- Tightness: a reported triple is a real race of an admissible system — the two rows, each run
    by one thread that acquires exactly its lockset and then performs its access. -/
theorem violation_realisable {multi : List Role} {T : List Row} (hn : locksNodup T = true)
    {v : Viol} (hv : v ∈ violations multi T) :
    ∃ a b, a ∈ T ∧ b ∈ T ∧ v = (a.field, normPair a.role b.role) ∧
      Admissible multi T (pairRole a b) (pairInit a b) ∧
      ∃ s, Reach (pairInit a b) s ∧
        At s 0 a.field a.kind ∧ At s 1 a.field b.kind ∧ (a.kind = Kind.W ∨ b.kind = Kind.W) ∧ Race s := by
  obtain ⟨a, ha, b, hb, hc, hs, rfl⟩ := mem_violations.mp hv
  have hnd : ∀ r, r ∈ T → r.locks.Nodup := by
    intro r hr
    have := List.all_eq_true.mp hn r hr
    simpa using this
  simp only [conflict, Bool.and_eq_true, Bool.or_eq_true, beq_iff_eq, bne_iff_ne, ne_eq,
    List.contains_iff_mem] at hc
  obtain ⟨⟨hfield, hkind⟩, hrole⟩ := hc
  refine ⟨a, b, ha, hb, rfl, ⟨fun _ => rfl, ?_, ?_⟩, ?_⟩
  · -- every thread follows the table
    intro t
    by_cases h0 : t = 0
    · subst h0
      show Follows T a.role [] (acqs a.locks ++ [Event.access a.field a.kind])
      rw [follows_acqs]
      exact ⟨⟨a, ha, rfl, rfl, rfl, fun l hl => by simpa using hl⟩, trivial⟩
    · by_cases h1 : t = 1
      · subst h1
        show Follows T b.role [] (acqs b.locks ++ [Event.access b.field b.kind])
        rw [follows_acqs]
        exact ⟨⟨b, hb, rfl, rfl, rfl, fun l hl => by simpa using hl⟩, trivial⟩
      · simp [pairInit, pairProg, h0, h1, Follows]
  · -- role multiplicity
    intro t u hne heq
    obtain ⟨hab, ht⟩ := pairRole_eq a b hne heq
    rw [ht]
    rcases hrole with h | h
    · exact absurd hab h
    · exact h
  · -- the racy schedule: thread 0 takes its locks, then thread 1 takes its locks
    have r1 := run_acqs a.locks (pairInit a b) 0 [Event.access a.field a.kind] rfl (hnd a ha)
      (fun l _ u hm => by cases hm)
    let s1 : State := ⟨upd (pairInit a b).prog 0 [Event.access a.field a.kind],
      upd (pairInit a b).held 0 (a.locks.reverse ++ (pairInit a b).held 0)⟩
    have hp1 : s1.prog 1 = acqs b.locks ++ [Event.access b.field b.kind] := by
      show upd (pairInit a b).prog 0 [Event.access a.field a.kind] 1 = _
      rw [upd_other _ _ (by decide)]
      rfl
    have hfree : ∀ l, l ∈ b.locks → ∀ u, l ∉ s1.held u := by
      intro l hl u hm
      by_cases hu : u = 0
      · subst hu
        have : l ∈ a.locks := by
          have : l ∈ a.locks.reverse ++ (pairInit a b).held 0 := by
            simpa [s1, upd_same] using hm
          simpa [pairInit] using this
        exact shareLock_false hs l this hl
      · have : l ∈ (pairInit a b).held u := by
          simpa [s1, upd_other _ _ hu] using hm
        cases this
    have r2 := run_acqs b.locks s1 1 [Event.access b.field b.kind] hp1 (hnd b hb) hfree
    have f0 : (upd s1.prog 1 [Event.access b.field b.kind]) 0 = [Event.access a.field a.kind] := by
      rw [upd_other _ _ (by decide)]
      show upd (pairInit a b).prog 0 [Event.access a.field a.kind] 0 = _
      exact upd_same _ _ _
    have f1 : (upd s1.prog 1 [Event.access b.field b.kind]) 1 = [Event.access a.field b.kind] := by
      rw [upd_same, hfield]
    have at0 : At ⟨upd s1.prog 1 [Event.access b.field b.kind], upd s1.held 1 (b.locks.reverse ++ s1.held 1)⟩
        0 a.field a.kind := ⟨[], f0⟩
    have at1 : At ⟨upd s1.prog 1 [Event.access b.field b.kind], upd s1.held 1 (b.locks.reverse ++ s1.held 1)⟩
        1 a.field b.kind := ⟨[], f1⟩
    exact ⟨_, r1.trans r2, at0, at1, hkind, ⟨0, 1, a.field, a.kind, b.kind, by decide, at0, at1, hkind⟩⟩

/-! ### lock order: no deadlock -/

/-- Deadlock freedom from a lock order: if every thread acquires locks only in increasing rank
    (ranks bounded, acquisitions bracketed), then in every reachable state in which some thread has
    not finished, some thread can take a step — for any number of threads and any schedule. -/
theorem lock_order_no_deadlock {rank : Lock → Nat} {B : Nat} {s0 s : State}
    (ho : ∀ t, Ordered rank B (s0.held t) (s0.prog t)) (hr : Reach s0 s)
    (hne : ∃ t, s.prog t ≠ []) : ∃ s', Step s s' := by
  have hoa : OrderedAll rank B s := OrderedAll.reach (s0 := s0) ho hr
  obtain ⟨t, ht⟩ := hne
  cases hp : s.prog t with
  | nil => exact absurd hp ht
  | cons e rest =>
    cases e with
    | acq l => exact blocked_progress hoa (B - rank l) t l rest (Nat.le_refl _) hp
    | rel l => exact ⟨_, Step.rel hp⟩
    | access f k => exact ⟨_, Step.access hp⟩

/-- the rank certificate really is an acyclicity proof: no lock reaches itself along the edges -/
theorem lockOrderAcyclic_no_cycle {ranks : List Nat} {edges : List (Lock × Lock)}
    (hk : lockOrderAcyclic ranks edges = true) (l : Lock) : ¬ OrderPath edges l l := by
  intro hp
  exact Nat.lt_irrefl _ (rank_lt_of_path hk hp)

/-- Deadlock freedom from the extracted lock-order graph: threads that acquire a lock only while
    holding locks from which the graph has an edge to it cannot deadlock if the graph passes the
    decidable acyclicity check. -/
theorem no_deadlock_of_edges {ranks : List Nat} {edges : List (Lock × Lock)} {s0 s : State}
    (hk : lockOrderAcyclic ranks edges = true)
    (hf : ∀ t, FollowsOrder edges (s0.held t) (s0.prog t)) (hr : Reach s0 s)
    (hne : ∃ t, s.prog t ≠ []) : ∃ s', Step s s' :=
  lock_order_no_deadlock (fun t => ordered_of_followsOrder hk _ _ (hf t)) hr hne

/-! ### the table extracted from the current sources -/

/-- the access table of the working tree (regenerated on every run; emitted grouped by location) -/
def table : List Row := flattenG Gen.C36.groups

theorem table_keys : keysNodup Gen.C36.groups = true := by decide +kernel

theorem table_nodup : locksNodup table = true := by decide +kernel

/-- kernel evaluation of the checker (group by group) on the extracted table: exactly these
    (location, role pair) triples have two conflicting rows without a common lock -/
theorem table_violations : violationsG Gen.C36.multi Gen.C36.groups = Gen.C36.expectedViolations := by
  decide +kernel

/-- ... and these are, as a set, what the flat checker of the general theorems reports -/
theorem table_violations_flat (v : Viol) :
    v ∈ violations Gen.C36.multi table ↔ v ∈ Gen.C36.expectedViolations := by
  rw [← table_violations]
  exact (mem_violationsG table_keys).symm

/-- C36, the part that holds: in every system whose threads follow the extracted table, two
    threads are simultaneously at conflicting accesses only on a listed (location, roles) triple. -/
theorem C36_partial {roleOf : Tid → Role} {s0 s : State}
    (ha : Admissible Gen.C36.multi table roleOf s0) (hr : Reach s0 s)
    {t u : Tid} {f : Field} {k1 k2 : Kind} (hne : t ≠ u)
    (h1 : At s t f k1) (h2 : At s u f k2) (hw : k1 = Kind.W ∨ k2 = Kind.W) :
    (f, normPair (roleOf t) (roleOf u)) ∈ Gen.C36.expectedViolations :=
  (table_violations_flat _).mp (lockset_sound_except ha hr hne h1 h2 hw)

/-- C36, the part that fails (the known findings): every listed triple is a race of a system that
    follows the extracted table. -/
theorem C36_counterexamples {v : Viol} (hv : v ∈ Gen.C36.expectedViolations) :
    ∃ a b, a ∈ table ∧ b ∈ table ∧ v = (a.field, normPair a.role b.role) ∧
      Admissible Gen.C36.multi table (pairRole a b) (pairInit a b) ∧
      ∃ s, Reach (pairInit a b) s ∧
        At s 0 a.field a.kind ∧ At s 1 a.field b.kind ∧ (a.kind = Kind.W ∨ b.kind = Kind.W) ∧ Race s :=
  violation_realisable table_nodup ((table_violations_flat v).mpr hv)

/-- the full property holds of the extracted table exactly when nothing is listed -/
theorem C36_full_iff : Premise Gen.C36.multi table ↔ Gen.C36.expectedViolations = [] := by
  rw [← table_violations, violationsG_nil_iff table_keys]
  exact premise_iff.symm

/-- the lock-order graph extracted from the current sources is acyclic -/
theorem table_lock_order : lockOrderAcyclic Gen.C36.lockRanks Gen.C36.lockEdges = true := by
  decide +kernel

/-- hence no set of threads that nest their lock acquisitions as the sources do can deadlock -/
theorem C36_no_deadlock {s0 s : State}
    (hf : ∀ t, FollowsOrder Gen.C36.lockEdges (s0.held t) (s0.prog t)) (hr : Reach s0 s)
    (hne : ∃ t, s.prog t ≠ []) : ∃ s', Step s s' :=
  no_deadlock_of_edges table_lock_order hf hr hne

/-! ### non-vacuity -/

/-- lock order: two threads nesting lock 1 inside lock 0 follow the edge list `[(0, 1)]`, which is
    acyclic; the opposite nesting in one of them would need the edge `(1, 0)` and fail the check -/
example : lockOrderAcyclic [0, 1] [(0, 1)] = true ∧ lockOrderAcyclic [0, 1] [(0, 1), (1, 0)] = false ∧
    FollowsOrder [(0, 1)] [] [Event.acq 0, Event.acq 1, Event.access 3 Kind.W, Event.rel 1, Event.rel 0] := by
  refine ⟨by decide, by decide, ?_⟩
  simp [FollowsOrder]



/-- a table with a common lock on the written location, and a system of one writer and two
    readers (plus idle threads) following it -/
example : ∃ (T : List Row) (roleOf : Tid → Role) (s0 : State),
    violations [2] T = [] ∧ Admissible [2] T roleOf s0 ∧ s0.prog 0 ≠ [] ∧ s0.prog 1 ≠ [] ∧ s0.prog 2 ≠ [] := by
  refine ⟨[⟨0, 7, Kind.W, [1]⟩, ⟨2, 7, Kind.R, [1, 5]⟩],
    fun t => if t = 0 then 0 else 2,
    ⟨fun t => if t = 0 then [Event.acq 1, Event.access 7 Kind.W, Event.rel 1]
              else if t ≤ 2 then [Event.acq 5, Event.acq 1, Event.access 7 Kind.R, Event.rel 1, Event.rel 5]
              else [], fun _ => []⟩, by decide, ⟨fun _ => rfl, ?_, ?_⟩, by decide, by decide, by decide⟩
  · intro t
    by_cases h0 : t = 0
    · subst h0; simp [Follows]
    · by_cases h2 : t ≤ 2
      · simp [h0, h2, Follows]
      · simp [h0, h2, Follows]
  · intro t u hne heq
    by_cases t0 : t = 0
    · subst t0
      have u0 : u ≠ 0 := fun h => hne h.symm
      simp [u0] at heq
    · simp [t0]

/-- and a table on which the checker does report something -/
example : violations [2] [⟨0, 7, Kind.W, [1]⟩, ⟨2, 7, Kind.R, [5]⟩, ⟨2, 8, Kind.W, []⟩] = [(7, 0, 2), (8, 2, 2)] := by
  decide

end EphVerif.C36
