/-
C35 — no remote input can crash the node or the daemon (partial: what is proved is the
exception / termination flow; memory errors and liveness of the real threads are observed).

Statement (properties.jsonl): "No sequence of bytes sent by a remote peer — before or after
completing a handshake, including validly signed messages carrying adversarial manifests, shard
sets or lengths — or by a control-plane client makes the node or daemon crash, terminate, hit
undefined behaviour or memory errors, or stop serving others."

Full statement, as far as a model can carry it (proved below as `no_escape`):
  ∀ facts (every combination of "the throwing primitive at site s is executed and throws on this
  input in this node state", i.e. every input and every state), ∀ call depth, ∀ boundary of the
  call tree regenerated from the source (session reader thread, transport accept thread, control
  accept thread, relay worker thread, main-loop tick, and every `noexcept` function on the way):
  the outcome is `survives`, never `terminate e`.
It holds because every throwing primitive reachable from a boundary lies inside a `catch` that
handles its exception class — which is what the generated table records and `decide` re-checks.
(`Proofs/C35Codecs.lean` adds `decoders_total` and the `combine` throw condition, re-using C16, C18, C10.)

Not proved here (why the property is claimed *partial*): out-of-bounds accesses / UB / leaks of the
real binary and "keeps serving others" of the real threads are observed by the harness under
ASan/UBSan and by real-thread runs; allocation failure (`std::bad_alloc`) is outside the model.
-/
import EphVerif.Lemmas.C35Sound
import EphVerif.Spec.Escape

namespace EphVerif.C35
open EphVerif.Escape EphVerif.Gen.C35

/-- the may-analysis of the generated tree is closed (a post-fixpoint): re-checked by the kernel on
    every regeneration of the table -/
theorem summary_closed : isPostFix fns summary = true := by decide +kernel

/-- in it, nothing leaves any boundary — every throwing primitive reachable from a remote-input
    entry point lies inside a `catch` that handles its exception class -/
theorem boundaries_closed : rootsClosed summary = true := by decide +kernel

/-- **C35 (termination flow).**  ∀ input facts, ∀ call depths, at every boundary of the generated
    call tree the outcome is never `terminate`. -/
theorem no_escape (facts : Facts) (fuel : Nat) (name : String) (root : Nat) (h : (name, root) ∈ roots) :
    outcome fns facts fuel root = .survives := by
  have hr : (summary.getD root []).isEmpty = true := by
    have := boundaries_closed
    simp only [rootsClosed, List.all_eq_true] at this
    exact this (name, root) h
  exact outcome_survives fns summary summary_closed root hr facts fuel

/-- the same as an instance of the specification: inputs are fact assignments with a call depth,
    boundaries are those of the generated tree -/
theorem no_remote_crash :
    EscapeSpec.NoRemoteCrash (Input := Facts × Nat) roots
      (fun i b => match outcome fns i.1 i.2 b.2 with | .survives => .survives | .terminate _ => .terminates) := by
  intro i b hb
  show (match outcome fns i.1 i.2 b.2 with | .survives => EscapeSpec.Result.survives | .terminate _ => .terminates) = _
  rw [no_escape i.1 i.2 b.1 b.2 hb]

/-- the five thread / main-loop boundaries the property is about are in the generated list (a root
    dropped by the extractor breaks this) -/
theorem boundaries_listed :
    ∀ n ∈ EscapeSpec.requiredBoundaries, n ∈ roots.map (·.1) := by decide +kernel

/-- every `call` of the table points inside the table and every site number is named (the table is
    well formed, so `getD` defaults are never used) -/
theorem table_wellformed :
    fns.length = fnNames.length ∧
    (fns.all fun steps => steps.all fun
      | .prim s _ _ => decide (s < siteNames.length)
      | .call f _ => decide (f < fns.length)) = true ∧
    (roots.all fun r => decide (r.2 < fns.length)) = true := by decide +kernel

/-- exception classes of the summarised leaf callees, as derived from their bodies: the decoders
    throw nothing but `invalid_argument` (manifest) or nothing at all (messages), the manifest
    encoder only `length_error`, `Shamir::combine` only `invalid_argument` -/
theorem leaf_classes :
    leafSummary.lookup "protocol::decode_manifest" = some [.invalid_argument] ∧
    leafSummary.lookup "protocol::decode" = some [] ∧
    leafSummary.lookup "protocol::decode_signed" = some [] ∧
    leafSummary.lookup "protocol::encode_manifest" = some [.length_error] ∧
    leafSummary.lookup "crypto::Shamir::combine" = some [.invalid_argument] := by decide +kernel

/-! ### "stop serving others": the serial accept loops

Both accept threads take one connection at a time.  A client that connects and stays silent, or that
never reads its answer, holds the thread in a blocking `recv` / `send`.  Statement one needs: every
blocking step of an accept thread on an accepted connection is bounded, so the stalled client is
dropped after the timeout and the next client is served (`accept_threads_bounded`,
`next_client_served`).  It holds since `fixes/C35-accept-peer-id-timeout` (transport: the whole
inbound handshake under kHandshakeTimeout) and `fixes/C35-control-client-io-timeout` (control:
SO_RCVTIMEO and SO_SNDTIMEO on every accepted client).  and as long as no recv / send
loop on those threads retries on a timeout-class error.  `C35_counterexample` keeps the statements about the
unrepaired variants: there the next client is never reached. -/

/-- (T) the flags regenerated from the source: a receive timeout is set before the first blocking read of an
    accepted transport connection; the control accept loop sets SO_RCVTIMEO and SO_SNDTIMEO on an accepted
    client before handling it; and none of the recv / send loops that run on the accept threads
    (`recv_line`, `recv_exact`, `send_all` of ControlServer.cpp, `SessionManager::recv_all`) goes round again
    on a timeout-class error (which would re-arm the wait).  Removing a timeout or adding such a retry breaks
    this obligation. -/
theorem accept_threads_bounded :
    transportPeerIdTimeout = true ∧ transportReadRetries = false ∧
    controlReadTimeout = true ∧ controlWriteTimeout = true ∧
    controlLineReadRetries = false ∧ controlPayloadReadRetries = false ∧ controlWriteRetries = false ∧
    controlReadRetriesOnTimeout = false := by decide

/-- hence every blocking step of either accept thread is bounded by the timeout constant -/
theorem every_wait_bounded (T : Nat) (s : Site) : controlBounds T s = some T ∧ transportBounds T s = some T := by
  obtain ⟨h1, h2, h3, h4, h5, h6, h7, _⟩ := accept_threads_bounded
  cases s <;> simp [controlBounds, transportBounds, ioBound, h1, h2, h3, h4, h5, h6, h7]

/-- with the bounds the source has (whatever the timeout constant `T` is), every queued client is reached —
    whatever the clients before it do: stay silent, stop inside the header block, deliver less payload than
    announced, never read, or behave — after at most `k · (T + B)` when no request costs more than `B` -/
theorem next_client_served (T B : Nat) (cs : List Conn) (hB : ∀ c ∈ cs, c.work ≤ B) (k : Nat) :
    (∃ t, pickedUpAt (controlBounds T) cs k = some t ∧ t ≤ k * (T + B)) ∧
    (∃ t, pickedUpAt (transportBounds T) cs k = some t ∧ t ≤ k * (T + B)) :=
  ⟨pickedUpAt_bounded T B _ (fun s => (every_wait_bounded T s).1) cs hB k,
   pickedUpAt_bounded T B _ (fun s => (every_wait_bounded T s).2) cs hB k⟩

/-- the unrepaired variants: without a read bound the client behind a silent one is never reached; with read
    bounds but no write bound the client behind one that never reads is never reached; with all timeouts set
    but a payload loop that retries on timeout (seeded change round 2) the client behind one that delivers
    less payload than announced is never reached -/
theorem C35_counterexample :
    pickedUpAt (fun _ => ioBound false false 5) [.stalls .header 0, .completes 1] 1 = none ∧
    pickedUpAt (fun s => if s = .write then ioBound false false 5 else some 5) [.stalls .write 0, .completes 1] 1 = none ∧
    pickedUpAt (fun s => if s = .payload then ioBound true true 5 else some 5) [.stalls .payload 0, .completes 1] 1 = none := by
  decide

/-- what holds for a serial accept loop in general: well-behaved clients are always all reached; with every
    step bounded by `T` everybody is reached within `k · (T + B)` -/
theorem C35_partial :
    (∀ (cs : List Conn) (b : Bounds), (∀ c ∈ cs, c.wellBehaved = true) → ∀ k, (pickedUpAt b cs k).isSome = true) ∧
    (∀ (T B : Nat) (b : Bounds), (∀ s, b s = some T) → ∀ (cs : List Conn), (∀ c ∈ cs, c.work ≤ B) →
      ∀ k, ∃ t, pickedUpAt b cs k = some t ∧ t ≤ k * (T + B)) :=
  ⟨fun cs b h => pickedUpAt_well_behaved cs h b, fun T B b hb cs hB => pickedUpAt_bounded T B b hb cs hB⟩

/-- the real-thread probe's expectation follows the bounds: bounded at the site ⇒ the second client is served -/
theorem probe_expectation (s : Site) :
    servedBehind (fun _ => some 1) s = true ∧ servedBehind (fun x => if x = s then none else some 1) s = false := by
  cases s <;> decide

/-- non-vacuity of `next_client_served`: a queue with a silent client, one that short-changes its payload, one
    that never reads and a well-behaved one meets the hypothesis, and the fourth is reached at 3 with `T = 1` -/
example : (∀ c ∈ [Conn.stalls .header 0, .stalls .payload 0, .stalls .write 0, .completes 3], c.work ≤ 3) ∧
    pickedUpAt (fun _ => some 1) [.stalls .header 0, .stalls .payload 0, .stalls .write 0, .completes 3] 3 = some 3 := by
  decide

/-! ### non-vacuity: the theorem is about a tree with live primitives, and it distinguishes -/

/-- the generated tree is not empty: it has primitives reachable from the reader thread and from
    the control accept thread (so `no_escape` is not vacuous) -/
example : 0 < siteNames.length ∧ 0 < roots.length := by decide +kernel

/-- the analysis is not trivially empty: inside the tree exceptions do propagate between functions
    (some function lets a class out to its caller) -/
example : summary.any (fun s => !s.isEmpty) = true := by decide +kernel

/-- a tree shaped like the code *before* the repair — `combine` unguarded in `receive_chunk`, no
    handler around the handler call in `receive_loop` — terminates the process on the input whose
    only firing primitive is that `combine`; with the `catch` in place it survives -/
def brokenTree : List (List Step) :=
  [ [.call 1 []],                       -- 0: receive_loop → handler
    [.prim 0 .invalid_argument [[.std_exception]],   -- 1: receive_chunk: decode_manifest (guarded)
     .prim 1 .invalid_argument []] ]                 --    combine (unguarded)
def repairedTree : List (List Step) :=
  [ [.call 1 [[.std_exception, .all]]],
    [.prim 0 .invalid_argument [[.std_exception]],
     .prim 1 .invalid_argument [[.std_exception]]] ]

theorem broken_tree_terminates :
    outcome brokenTree (fun s => s == 1) 2 0 = .terminate .invalid_argument ∧
    outcome brokenTree (fun s => s == 0) 2 0 = .survives ∧
    outcome repairedTree (fun s => s == 1) 2 0 = .survives := by decide

end EphVerif.C35
