/-
C04 — persisted chunk files do not outlive the chunk.

Model: `EphVerif.ChunkStore` with the abstract file system `FS = Name ⇀ Bytes` and the exact
sequence of file-system operations of `persist_chunk_to_disk` / `secure_wipe_file` /
`sweep_expired` / the constructor (after the repairs C04-lookup-expiry-skips-wipe and
C04-orphan-files-at-startup).  A history (`HOp`) consists of chunk-store operations, restarts on
the same directory, crashes after the k-th file-system operation of any operation (`crash o k`)
and of the constructor itself (`crashBoot k`).  Everything below holds for every configuration with
persistence and wipe-on-expiry enabled, every initial directory content, every history and every
crash index — no bounds.
-/
import EphVerif.Lemmas.C04Inv

namespace EphVerif.C04
open EphVerif.ChunkStore
open EphVerif.StoreSpec (Op W last fileAllowed)

/-- generated-constant obligations -/
theorem constants : EphVerif.Gen.C04.kWipeBuffer = 4096 ∧ EphVerif.Gen.C04.chunkSuffix = ".chunk" := by decide

/-- **C04.inv.**  Start from a machine that is off with an arbitrary directory (files of earlier
    instances, torn files, anything).  After any history — stores, overwrites, lookups, sweeps,
    ticks, clock advances, restarts, a crash at any file-system step of any operation or of a
    start-up, and **any file-system call of any operation failing with an I/O error** (`HOp.fail`,
    `HOp.restartF`: failed open, failed or short write, failed unlink, in any combination) —
    whenever an instance is running: every record stored as persisted has its file with exactly its
    (encrypted) bytes, and every chunk file that is present is either such a file or is on the
    retry list `pending` (a wipe of it failed; every sweep tries again). -/
theorem inv (nc : NodeCfg) (hc : PersistCfg nc.store) (t0 : Int) (fs0 : FS) (ops : List HOp) :
    let h := hrun nc (offState t0 fs0) ops
    h.up = true →
    (∀ id r, aget h.w.sys.recs id = some r → r.persisted = true →
      aget h.w.sys.fs (.chunk id) = some r.data ∧ Name.chunk id ∉ h.w.sys.pending) ∧
    (∀ id c, aget h.w.sys.fs (.chunk id) = some c → Name.chunk id ∉ h.w.sys.pending →
      ∃ r, aget h.w.sys.recs id = some r ∧ r.persisted = true ∧ r.data = c) := by
  intro h hup
  have := hinv_run hc ops (hinv_off t0 fs0) hup
  exact ⟨this.files_ok, this.files_only⟩

/-- **C04.files_allowed** (the same in terms of the specification).  Whenever an instance is
    running, a chunk file that is present and not on the retry list holds exactly the bytes of the
    latest store of that id *by this instance*, and that chunk was still live at the most recent
    sweep or start-up: `StoreSpec.fileAllowed`.  In particular files of earlier instances, of
    interrupted or failed stores and of chunks whose expiry was first noticed by a lookup are not
    present (or are being retried). -/
theorem files_allowed (nc : NodeCfg) (hs : SaneCfg nc) (hc : PersistCfg nc.store) (t0 : Int) (fs0 : FS)
    (ops : List HOp) (id : String) (content : Bytes) :
    let x := hrun2 nc (paramsOf nc) (offState t0 fs0, freshSpec t0) ops
    x.1.up = true → aget x.1.w.sys.fs (.chunk id) = some content → Name.chunk id ∉ x.1.w.sys.pending →
    fileAllowed x.2.s x.1.cleaned id content = true := by
  intro x hup hfile hnp
  have hinv : HInv x.1 := by
    have := hinv_run hc ops (hinv_off t0 fs0)
    rw [← hrun2_fst nc (paramsOf nc) (offState t0 fs0, freshSpec t0)] at this
    exact this
  have hrel := (hrel_run hs ops (x := (offState t0 fs0, freshSpec t0)) (hrel_off t0 fs0)).1
  have hsi := hinv hup
  obtain ⟨r, hg, _, hd⟩ := hsi.files_only id content hfile hnp
  obtain ⟨e, he, h1, _, h3⟩ := hrel.sound id r hg
  have hl := hsi.live id r hg
  have he' : last x.2.s id = some e := he
  have hl' : x.1.cleaned < e.deadline := by rw [h3]; exact hl
  simp only [fileAllowed, he']
  simp [h1, hd, hl']

/-- the last step of a history -/
theorem hrun2_snoc_fst (nc : NodeCfg) (t0 : Int) (fs0 : FS) (ops : List HOp) (ev : HOp) :
    (hrun2 nc (paramsOf nc) (offState t0 fs0, freshSpec t0) (ops ++ [ev])).1 = hstep nc (hrun nc (offState t0 fs0) ops) ev := by
  rw [hrun2_fst]; simp [hrun, List.foldl_append]

/-- **C04.cleanup_faulty.**  Right after any sweep or start-up at time `T` — even one in which
    file-system calls failed — a file that exists for a chunk whose deadline is `≤ T`, or for an id
    this instance never stored, is on the retry list. -/
theorem cleanup_faulty (nc : NodeCfg) (hs : SaneCfg nc) (hc : PersistCfg nc.store) (t0 : Int) (fs0 : FS)
    (ops : List HOp) (ev : HOp) (φ : Faults) (hev : ev = .fail .sweep φ ∨ ev = .restartF φ) (id : String) :
    let x := hrun2 nc (paramsOf nc) (offState t0 fs0, freshSpec t0) (ops ++ [ev])
    x.1.up = true → (∀ e, last x.2.s id = some e → e.deadline ≤ x.1.w.now) →
    aget x.1.w.sys.fs (.chunk id) ≠ none → Name.chunk id ∈ x.1.w.sys.pending := by
  intro x hup hdead hpresent
  have hx : x.1 = hstep nc (hrun nc (offState t0 fs0) ops) ev := hrun2_snoc_fst nc t0 fs0 ops ev
  have hcl : x.1.cleaned = x.1.w.now := by
    have hup' : (hstep nc (hrun nc (offState t0 fs0) ops) ev).up = true := hx ▸ hup
    rw [hx]
    rcases hev with rfl | rfl
    · by_cases hu : (hrun nc (offState t0 fs0) ops).up = true
      · simp [hstep, hstepOp, hu, sweeps, stepF]
      · simp [hstep, hstepOp, hu] at hup'
    · simp [hstep]
  cases hm : decide (Name.chunk id ∈ x.1.w.sys.pending) with
  | true => exact of_decide_eq_true hm
  | false =>
    exfalso
    cases hf : aget x.1.w.sys.fs (.chunk id) with
    | none => exact hpresent hf
    | some content =>
      have := files_allowed nc hs hc t0 fs0 (ops ++ [ev]) id content hup hf (of_decide_eq_false hm)
      simp only [fileAllowed] at this
      cases he : last x.2.s id with
      | none => rw [he] at this; cases this
      | some e =>
        rw [he] at this
        have hd := hdead e he
        simp only [Bool.and_eq_true, decide_eq_true_eq] at this
        have := this.2
        rw [hcl] at this
        omega

/-- **C04.cleanup.**  Right after any sweep or start-up at time `T` that ran without I/O error,
    however the history went before (lookups that noticed an expiry first, overwrites, crashes,
    earlier instances, earlier failed stores, wipes and unlinks): nothing is left to retry and no
    file exists for a chunk whose deadline is `≤ T` nor for an id this instance never stored. -/
theorem cleanup (nc : NodeCfg) (hs : SaneCfg nc) (hc : PersistCfg nc.store) (t0 : Int) (fs0 : FS)
    (ops : List HOp) (ev : HOp) (hev : ev = .op .sweep ∨ ev = .restart) (id : String) :
    let x := hrun2 nc (paramsOf nc) (offState t0 fs0, freshSpec t0) (ops ++ [ev])
    x.1.up = true → x.1.w.sys.pending = [] ∧
    ((∀ e, last x.2.s id = some e → e.deadline ≤ x.1.w.now) → aget x.1.w.sys.fs (.chunk id) = none) := by
  intro x hup
  have hx : x.1 = hstep nc (hrun nc (offState t0 fs0) ops) ev := hrun2_snoc_fst nc t0 fs0 ops ev
  have hpend : x.1.w.sys.pending = [] := by
    have hup' : (hstep nc (hrun nc (offState t0 fs0) ops) ev).up = true := hx ▸ hup
    rw [hx]
    rcases hev with rfl | rfl
    · by_cases hu : (hrun nc (offState t0 fs0) ops).up = true
      · simp [hstep, hstepOp, hu, stepF, sysSweepF, wipeAllF_nofault]
      · simp [hstep, hstepOp, hu] at hup'
    · simp [hstep, boot, bootF, wipeAllF_nofault]
  refine ⟨hpend, fun hdead => ?_⟩
  cases hf : aget x.1.w.sys.fs (.chunk id) with
  | none => rfl
  | some content =>
    -- a fault-free sweep/start-up is the φ = [] instance of the faulty one
    have key : Name.chunk id ∈ x.1.w.sys.pending := by
      rcases hev with rfl | rfl
      · have := cleanup_faulty nc hs hc t0 fs0 ops (.fail .sweep []) [] (Or.inl rfl) id
        have hsame : hrun2 nc (paramsOf nc) (offState t0 fs0, freshSpec t0) (ops ++ [.fail .sweep []])
            = hrun2 nc (paramsOf nc) (offState t0 fs0, freshSpec t0) (ops ++ [.op .sweep]) := by
          have : ∀ (y : HWorld × W), hrun2 nc (paramsOf nc) y [.fail .sweep []] = hrun2 nc (paramsOf nc) y [.op .sweep] := by
            intro y; rfl
          have happ : ∀ (l1 l2 : List HOp) (y : HWorld × W),
              hrun2 nc (paramsOf nc) y (l1 ++ l2) = hrun2 nc (paramsOf nc) (hrun2 nc (paramsOf nc) y l1) l2 := by
            intro l1
            induction l1 with
            | nil => intro l2 y; rfl
            | cons o r ih => intro l2 y; exact ih l2 _
          rw [happ, happ, this]
        rw [hsame] at this
        exact this hup hdead (by rw [hf]; simp)
      · have := cleanup_faulty nc hs hc t0 fs0 ops (.restartF []) [] (Or.inr rfl) id
        have hsame : hrun2 nc (paramsOf nc) (offState t0 fs0, freshSpec t0) (ops ++ [.restartF []])
            = hrun2 nc (paramsOf nc) (offState t0 fs0, freshSpec t0) (ops ++ [.restart]) := by
          have : ∀ (y : HWorld × W), hrun2 nc (paramsOf nc) y [.restartF []] = hrun2 nc (paramsOf nc) y [.restart] := by
            intro y; rfl
          have happ : ∀ (l1 l2 : List HOp) (y : HWorld × W),
              hrun2 nc (paramsOf nc) y (l1 ++ l2) = hrun2 nc (paramsOf nc) (hrun2 nc (paramsOf nc) y l1) l2 := by
            intro l1
            induction l1 with
            | nil => intro l2 y; rfl
            | cons o r ih => intro l2 y; exact ih l2 _
          rw [happ, happ, this]
        rw [hsame] at this
        exact this hup hdead (by rw [hf]; simp)
    rw [hpend] at key; cases key

/-- **C04.failed_store.**  A store during which file-system calls fail (open refused, disk full in
    the middle of the write, unlink refused, …) ends in one of three states for the chunk's file:
    it holds exactly the record's bytes and the record is marked persisted; or it does not exist; or
    it is on the retry list and the next sweep without I/O error removes it (`cleanup`).  It is never
    silently left behind with the record not knowing about it. -/
theorem failed_store (nc : NodeCfg) (hc : PersistCfg nc.store) (t0 : Int) (fs0 : FS) (ops : List HOp)
    (id : String) (data : Bytes) (ttl : Int) (nonce : Bytes) (enc : Bool) (φ : Faults) :
    let h := hrun nc (offState t0 fs0) (ops ++ [.fail (.store id data ttl nonce enc) φ])
    h.up = true →
    (∃ r, aget h.w.sys.recs id = some r ∧ r.persisted = true ∧ aget h.w.sys.fs (.chunk id) = some r.data) ∨
    aget h.w.sys.fs (.chunk id) = none ∨ Name.chunk id ∈ h.w.sys.pending := by
  intro h hup
  have hi := inv nc hc t0 fs0 (ops ++ [.fail (.store id data ttl nonce enc) φ]) hup
  cases hf : aget h.w.sys.fs (.chunk id) with
  | none => exact Or.inr (Or.inl rfl)
  | some c =>
    cases hm : decide (Name.chunk id ∈ h.w.sys.pending) with
    | true => exact Or.inr (Or.inr (of_decide_eq_true hm))
    | false =>
      obtain ⟨r, hr, hper, hd⟩ := hi.2 id c hf (of_decide_eq_false hm)
      exact Or.inl ⟨r, hr, hper, by rw [hd]⟩

/-- **C04.store_persists.**  A store during which no file-system call fails marks the record
    persisted; together with the first half of `inv` this is the positive clause "a chunk's file
    exists while the chunk is live and holds exactly the stored bytes": the record of a successfully
    stored chunk stays in the table until a sweep at or after its deadline (C01), and as long as it
    is there its file is present with exactly its bytes and no wipe is owed for it — in particular
    a retry of an earlier failed wipe of the same path never hits the new file. -/
theorem store_persists (cfg : Cfg) (hp : cfg.persistent = true) (s : Recs) (fs : FS) (pend : List Name)
    (id : String) (data : Bytes) : (putF cfg [] s fs pend id data).persisted = true := by
  simp only [putF, hp, if_true, persistF, faultAt_nil]
  split <;> rfl

/-- **C04.crash_recovery.**  Crash at the `k`-th file-system operation of any operation `o` after
    any history (including failed stores and wipes), then any number of start-up attempts that
    themselves crash after `ks[i]` operations, then one start-up that completes without I/O error:
    the directory contains no chunk file at all, nothing is left to retry, and every other file is
    what it was at the very beginning. -/
theorem crash_recovery (nc : NodeCfg) (hc : PersistCfg nc.store) (t0 : Int) (fs0 : FS)
    (ops : List HOp) (o : Op) (k : Nat) (ks : List Nat) :
    let h := hrun nc (offState t0 fs0) (ops ++ [.crash o k] ++ ks.map .crashBoot ++ [.restart])
    h.up = true ∧ (∀ id, aget h.w.sys.fs (.chunk id) = none) ∧ h.w.sys.pending = [] ∧
    (∀ n, aget h.w.sys.fs (.other n) = aget fs0 (.other n)) := by
  intro h
  have hup : h.up = true := by simp [h, hrun, List.foldl_append, hstep]
  have hb : ∀ (fs : FS) (id : String), aget (boot nc.store fs).fs (.chunk id) = none ∧ (boot nc.store fs).pending = [] :=
    fun fs id => boot_no_chunk nc.store hc.1 hc.2 fs id
  refine ⟨hup, ?_, ?_, fun n => other_run nc _ (offState t0 fs0) (pendChunk_off t0 fs0) n⟩
  · intro id
    simp only [h, hrun, List.foldl_append, List.foldl_cons, List.foldl_nil, hstep]
    exact (hb _ id).1
  · simp only [h, hrun, List.foldl_append, List.foldl_cons, List.foldl_nil, hstep]
    exact (hb _ "").2

/-- **C04.others_untouched.**  No operation, crash, I/O error or start-up ever modifies a directory
    entry that is not a `*.chunk` file. -/
theorem others_untouched (nc : NodeCfg) (t0 : Int) (fs0 : FS) (ops : List HOp) (n : String) :
    aget (hrun nc (offState t0 fs0) ops).w.sys.fs (.other n) = aget fs0 (.other n) :=
  other_run nc ops (offState t0 fs0) (pendChunk_off t0 fs0) n

/-- **C04.overwritten.**  Wiping an existing file of `size` bytes (no I/O error) is: `passes` overwrite passes,
    each writing exactly `size` zero bytes (so `passes * size` in total) in buffer-sized writes that
    leave the file all-zero with unchanged length, and only then the remove. -/
theorem overwritten (cfg : Cfg) (fs : FS) (p : Name) (bs : Bytes) (hg : aget fs p = some bs) (n : Nat) :
    (wipeF cfg [] fs p n).1 = wipeOps cfg fs p ∧
    wipeOps cfg fs p = overwriteOps p bs.length cfg.passes ++ [.remove p] ∧
    writtenBytes (overwriteOps p bs.length cfg.passes) = cfg.passes * bs.length ∧
    (1 ≤ cfg.passes → aget (applyOps fs (overwriteOps p bs.length cfg.passes)) p = some (zeros bs.length)) ∧
    aget (applyOps fs (wipeOps cfg fs p)) p = none := by
  refine ⟨(wipeF_nofault cfg fs p n).1, by simp [wipeOps, hg], overwriteOps_written _ _ _, ?_, wipeOps_self _ _ _⟩
  intro h1
  rw [overwriteOps_content p cfg.passes fs bs hg]
  have : cfg.passes ≠ 0 := by omega
  simp [this]

/-! ### non-vacuity -/

def exCfg : NodeCfg := { store := { defaultTtl := 30, persistent := true, wipeOnExpiry := true, passes := 2 },
                         minTtl := 1, maxTtl := 3600, cleanupInterval := 5 }

example : PersistCfg exCfg.store ∧ SaneCfg exCfg := ⟨⟨rfl, rfl⟩, by decide, by decide⟩

/-- an orphan of an earlier instance and a foreign file; start-up removes the former only -/
example : (hrun exCfg (offState 0 [(.chunk "c9", [1, 2, 3]), (.other "README", [7])]) [.restart]).w.sys.fs
    = [(.other "README", [7])] := by decide

/-- store, expire, lookup notices the expiry, sweep: the file is gone and the id is reported -/
example :
    let h := hrun exCfg (offState 0 []) [.restart, .op (.store "c1" [5, 6] 1 [] false), .op (.advance 1000000000),
                                         .op (.lookup "c1")]
    h.w.sys.fs = [(.chunk "c1", [5, 6])] ∧ (step exCfg h.w .sweep).2 = .removed ["c1"] ∧
    (step exCfg h.w .sweep).1.sys.fs = [] := by decide

/-- a crash in the middle of an overwriting store leaves a half-wiped file; the next start-up clears it -/
example :
    let pre : List HOp := [.restart, .op (.store "c1" [5, 6, 7] 10 [] false)]
    let crashed := hrun exCfg (offState 0 []) (pre ++ [.crash (.store "c1" [8] 10 [] false) 1])
    crashed.w.sys.fs = [(.chunk "c1", [0, 0, 0])] ∧ crashed.up = false ∧
    (hstep exCfg crashed .restart).w.sys.fs = [] := by decide

/-- disk full in the middle of a store (call 1 = the payload write fails after 2 bytes): the partial
    file is wiped at once, the chunk stays readable from memory, marked not persisted -/
example :
    let h := hrun exCfg (offState 0 []) [.restart, .fail (.store "c1" [5, 6, 7, 8] 10 [] false) [(1, 2)]]
    h.w.sys.fs = [] ∧ h.w.sys.pending = [] ∧ (aget h.w.sys.recs "c1").map (·.persisted) = some false ∧
    get h.w.sys.recs h.w.now "c1" = some [5, 6, 7, 8] := by decide

/-- the unlink of a sweep is refused (call 3 of: open, 2 pass writes, unlink): the zeroed file stays
    and is on the retry list; the next sweep removes it -/
example :
    let h := hrun exCfg (offState 0 []) [.restart, .op (.store "c1" [5, 6] 1 [] false), .op (.advance 1000000000),
                                         .fail .sweep [(3, 0)]]
    h.w.sys.fs = [(.chunk "c1", [0, 0])] ∧ h.w.sys.pending = [.chunk "c1"] ∧ h.w.sys.recs = [] ∧
    (hstep exCfg h (.op .sweep)).w.sys.fs = [] ∧ (hstep exCfg h (.op .sweep)).w.sys.pending = [] := by decide

/-- the wipe of a 3-byte file with 2 passes: two zero writes of 3 bytes, then remove -/
example : wipeOps exCfg.store [(.chunk "c1", [5, 6, 7])] (.chunk "c1")
    = [.zero (.chunk "c1") 0 3, .zero (.chunk "c1") 0 3, .remove (.chunk "c1")] := by decide

end EphVerif.C04
