/-
C04 — persisted chunk files do not outlive the chunk.

Model: `EphVerif.ChunkStore` with the abstract file system `FS = Name ⇀ Bytes` and the exact
sequence of file-system operations of `persist_chunk_to_disk` / `secure_wipe_file` /
`sweep_expired` / the constructor (after the repairs C04-lookup-expiry-skips-wipe and
C04-orphan-files-at-startup).  A history (`HOp`) consists of chunk-store operations, restarts on
the same directory, crashes after the k-th file-system operation of any operation (`crash o k`)
and of the constructor itself (`crashBoot k`).  Everything below holds for every configuration with
persistence and wipe-on-expiry enabled, every initial directory content, every history and every
crash index — no bounds.
-/
import EphVerif.Lemmas.C04Inv

namespace EphVerif.C04
open EphVerif.ChunkStore
open EphVerif.StoreSpec (Op W last fileAllowed)

/-- generated-constant obligations -/
theorem constants : EphVerif.Gen.C04.kWipeBuffer = 4096 ∧ EphVerif.Gen.C04.chunkSuffix = ".chunk" := by decide

/-- **C04.inv.**  Start from a machine that is off with an arbitrary directory (files of earlier
    instances, torn files, anything).  After any history — stores, overwrites, lookups, sweeps,
    ticks, clock advances, restarts, a crash at any file-system step of any operation or of a
    start-up — whenever an instance is running, the chunk files in the directory are exactly the
    current records: a file exists for `id` iff there is a record for `id`, and it holds exactly the
    record's (encrypted) bytes. -/
theorem inv (nc : NodeCfg) (hc : PersistCfg nc.store) (t0 : Int) (fs0 : FS) (ops : List HOp) (id : String) :
    let h := hrun nc (offState t0 fs0) ops
    h.up = true → aget h.w.sys.fs (.chunk id) = (aget h.w.sys.recs id).map (·.data) := by
  intro h hup
  exact (hinv_run hc ops (hinv_off t0 fs0) hup).files id

/-- **C04.files_allowed** (the same in terms of the specification).  Whenever an instance is
    running, a chunk file that is present holds exactly the bytes of the latest store of that id
    *by this instance*, and that chunk was still live at the most recent cleanup (sweep or
    start-up): `StoreSpec.fileAllowed`.  In particular files of earlier instances, of interrupted
    stores and of chunks whose expiry was first noticed by a lookup are not present. -/
theorem files_allowed (nc : NodeCfg) (hs : SaneCfg nc) (hc : PersistCfg nc.store) (t0 : Int) (fs0 : FS)
    (ops : List HOp) (id : String) (content : Bytes) :
    let x := hrun2 nc (paramsOf nc) (offState t0 fs0, freshSpec t0) ops
    x.1.up = true → aget x.1.w.sys.fs (.chunk id) = some content →
    fileAllowed x.2.s x.1.cleaned id content = true := by
  intro x hup hfile
  have hinv : HInv x.1 := by
    have := hinv_run hc ops (hinv_off t0 fs0)
    rw [← hrun2_fst nc (paramsOf nc) (offState t0 fs0, freshSpec t0)] at this
    exact this
  have hrel := (hrel_run hs ops (x := (offState t0 fs0, freshSpec t0)) (hrel_off t0 fs0)).1
  have hsi := hinv hup
  rw [hsi.files id] at hfile
  cases hg : aget x.1.w.sys.recs id with
  | none => rw [hg] at hfile; cases hfile
  | some r =>
    rw [hg] at hfile
    simp only [Option.map, Option.some.injEq] at hfile
    obtain ⟨e, he, h1, _, h3⟩ := hrel.sound id r hg
    have hl := hsi.live id r hg
    have he' : last x.2.s id = some e := he
    have hl' : x.1.cleaned < e.deadline := by rw [h3]; exact hl
    simp only [fileAllowed, he']
    simp [h1, hfile, hl']

/-- **C04.cleanup.**  Right after any sweep or start-up at time `T`, however the history went
    before (lookups that noticed an expiry first, overwrites, crashes, earlier instances), no file
    exists for a chunk whose deadline is `≤ T` nor for an id this instance never stored. -/
theorem cleanup (nc : NodeCfg) (hs : SaneCfg nc) (hc : PersistCfg nc.store) (t0 : Int) (fs0 : FS)
    (ops : List HOp) (ev : HOp) (hev : ev = .op .sweep ∨ ev = .restart) (id : String) :
    let x := hrun2 nc (paramsOf nc) (offState t0 fs0, freshSpec t0) (ops ++ [ev])
    x.1.up = true → (∀ e, last x.2.s id = some e → e.deadline ≤ x.1.w.now) →
    aget x.1.w.sys.fs (.chunk id) = none := by
  intro x hup hdead
  have hcl : x.1.cleaned = x.1.w.now := by
    have hx : x.1 = hstep nc (hrun nc (offState t0 fs0) ops) ev := by
      show (hrun2 nc (paramsOf nc) (offState t0 fs0, freshSpec t0) (ops ++ [ev])).1 = _
      rw [hrun2_fst]; simp [hrun, List.foldl_append]
    have hup' : (hstep nc (hrun nc (offState t0 fs0) ops) ev).up = true := hx ▸ hup
    rw [hx]
    rcases hev with rfl | rfl
    · by_cases hu : (hrun nc (offState t0 fs0) ops).up = true
      · simp [hstep, hu, sweeps, step]
      · simp [hstep, hu] at hup'
    · simp [hstep]
  cases hf : aget x.1.w.sys.fs (.chunk id) with
  | none => rfl
  | some content =>
    have := files_allowed nc hs hc t0 fs0 (ops ++ [ev]) id content hup hf
    simp only [fileAllowed] at this
    cases he : last x.2.s id with
    | none => rw [he] at this; cases this
    | some e =>
      rw [he] at this
      have hd := hdead e he
      simp only [Bool.and_eq_true, decide_eq_true_eq] at this
      have := this.2
      rw [hcl] at this
      omega

/-- **C04.crash_recovery.**  Crash at the `k`-th file-system operation of any operation `o` after
    any history, then any number of start-up attempts that themselves crash after `ks[i]`
    operations, then one start-up that completes: the directory contains no chunk file at all, and
    every other file is what it was at the very beginning. -/
theorem crash_recovery (nc : NodeCfg) (hc : PersistCfg nc.store) (t0 : Int) (fs0 : FS)
    (ops : List HOp) (o : Op) (k : Nat) (ks : List Nat) :
    let h := hrun nc (offState t0 fs0) (ops ++ [.crash o k] ++ ks.map .crashBoot ++ [.restart])
    h.up = true ∧ (∀ id, aget h.w.sys.fs (.chunk id) = none) ∧
    (∀ n, aget h.w.sys.fs (.other n) = aget fs0 (.other n)) := by
  intro h
  have hup : h.up = true := by simp [h, hrun, List.foldl_append, hstep]
  refine ⟨hup, ?_, fun n => other_run nc _ (offState t0 fs0) n⟩
  intro id
  have hi := (hinv_run hc (ops ++ [.crash o k] ++ ks.map .crashBoot ++ [.restart]) (hinv_off t0 fs0) hup).files id
  have hr : h.w.sys.recs = [] := by simp [h, hrun, List.foldl_append, hstep, boot]
  rw [hi, hr]; rfl

/-- **C04.others_untouched.**  No operation, crash or start-up ever modifies a directory entry
    that is not a `*.chunk` file. -/
theorem others_untouched (nc : NodeCfg) (t0 : Int) (fs0 : FS) (ops : List HOp) (n : String) :
    aget (hrun nc (offState t0 fs0) ops).w.sys.fs (.other n) = aget fs0 (.other n) :=
  other_run nc ops (offState t0 fs0) n

/-- **C04.overwritten.**  Wiping an existing file of `size` bytes is: `passes` overwrite passes,
    each writing exactly `size` zero bytes (so `passes * size` in total) in buffer-sized writes that
    leave the file all-zero with unchanged length, and only then the remove. -/
theorem overwritten (cfg : Cfg) (fs : FS) (p : Name) (bs : Bytes) (hg : aget fs p = some bs) :
    wipeOps cfg fs p = overwriteOps p bs.length cfg.passes ++ [.remove p] ∧
    writtenBytes (overwriteOps p bs.length cfg.passes) = cfg.passes * bs.length ∧
    (1 ≤ cfg.passes → aget (applyOps fs (overwriteOps p bs.length cfg.passes)) p = some (zeros bs.length)) ∧
    aget (applyOps fs (wipeOps cfg fs p)) p = none := by
  refine ⟨by simp [wipeOps, hg], overwriteOps_written _ _ _, ?_, wipeOps_self _ _ _⟩
  intro h1
  rw [overwriteOps_content p cfg.passes fs bs hg]
  have : cfg.passes ≠ 0 := by omega
  simp [this]

/-! ### non-vacuity -/

def exCfg : NodeCfg := { store := { defaultTtl := 30, persistent := true, wipeOnExpiry := true, passes := 2 },
                         minTtl := 1, maxTtl := 3600, cleanupInterval := 5 }

example : PersistCfg exCfg.store ∧ SaneCfg exCfg := ⟨⟨rfl, rfl⟩, by decide, by decide⟩

/-- an orphan of an earlier instance and a foreign file; start-up removes the former only -/
example : (hrun exCfg (offState 0 [(.chunk "c9", [1, 2, 3]), (.other "README", [7])]) [.restart]).w.sys.fs
    = [(.other "README", [7])] := by decide

/-- store, expire, lookup notices the expiry, sweep: the file is gone and the id is reported -/
example :
    let h := hrun exCfg (offState 0 []) [.restart, .op (.store "c1" [5, 6] 1 [] false), .op (.advance 1000000000),
                                         .op (.lookup "c1")]
    h.w.sys.fs = [(.chunk "c1", [5, 6])] ∧ (step exCfg h.w .sweep).2 = .removed ["c1"] ∧
    (step exCfg h.w .sweep).1.sys.fs = [] := by decide

/-- a crash in the middle of an overwriting store leaves a half-wiped file; the next start-up clears it -/
example :
    let pre : List HOp := [.restart, .op (.store "c1" [5, 6, 7] 10 [] false)]
    let crashed := hrun exCfg (offState 0 []) (pre ++ [.crash (.store "c1" [8] 10 [] false) 1])
    crashed.w.sys.fs = [(.chunk "c1", [0, 0, 0])] ∧ crashed.up = false ∧
    (hstep exCfg crashed .restart).w.sys.fs = [] := by decide

/-- the wipe of a 3-byte file with 2 passes: two zero writes of 3 bytes, then remove -/
example : wipeOps exCfg.store [(.chunk "c1", [5, 6, 7])] (.chunk "c1")
    = [.zero (.chunk "c1") 0 3, .zero (.chunk "c1") 0 3, .remove (.chunk "c1")] := by decide

end EphVerif.C04
