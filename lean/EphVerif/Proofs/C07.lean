import EphVerif.Model.Routing
import EphVerif.Spec.Routing

namespace EphVerif.C07
open EphVerif.Routing

/-- generated constant obligation: the code's bucket capacity is the 16 the property names -/
theorem bucketSize_eq : kBucketSize = 16 := by decide

end EphVerif.C07
