import EphVerif.Lemmas.C07Closest
import EphVerif.Lemmas.C07Retain

/-!
# C07 — routing table answers XOR-closest live peers and keeps bucket shape

  "A closest-peer query returns, in strictly increasing XOR distance to the target, the min(k, n)
   nearest of the n unexpired contacts the table holds; the node's own id is never held, no bucket
   holds more than 16 contacts, every contact sits in the bucket of its highest bit differing from
   the local id, and a refreshed contact keeps a single entry with its newest address and expiry."

Property theorems about the model `EphVerif.Routing` (Model/Routing.lean) of
`src/dht/KademliaTable.cpp`, stated with the vocabulary of Spec/Routing.lean.  They hold for every
local id, every start time and every finite sequence of operations (`Op`: clock advances of any
sign, `register_peer`, `add_contact`, sweeps, queries) over arbitrary 32-byte ids; no bound on the
number of operations, contacts or on time.  `WfId x` says `x` is a `PeerId` (32 bytes);
`OpsWf ops` says the ids mentioned by the operations are.
-/
namespace EphVerif.C07
open EphVerif.Routing EphVerif.C07Spec EphVerif.C07L

/-- the table reached from the empty one (local id `self`, clock at `t0`) by `ops` -/
def reach (self : Id) (t0 : Int) (ops : List Op) : State := run (State.init self t0) ops

/-- generated-constant obligation: the code's bucket capacity is the 16 the property names -/
theorem bucketSize_eq : kBucketSize = 16 := by decide

/-- generated-constant obligation: `kIdBits` (= `PeerId{}.size() * 8`) is 256 -/
theorem idBits_eq : kIdBits = 256 := by decide

/-- **bucket index.**  The byte-wise `countl_zero` loop of `bucket_index_for` returns the position
    of the highest set bit of `self xor peer` read as 256-bit numbers, and no bucket for the
    local id itself. -/
theorem bucket_index_eq_log2 (self peer : Id) (hs : WfId self) (hp : WfId peer) :
    bucketIndexFor self peer = if self = peer then none else some (Nat.log2 (toNat self ^^^ toNat peer)) :=
  bucketIndexFor_wf hs hp idBits_eq

/-- … which is to say: `bucket_index_for` answers `i` exactly when `i` is the highest bit in which
    the two ids differ (stated with `Nat.testBit`, without `log2`). -/
theorem bucket_index_iff_highest_diff (self peer : Id) (hs : WfId self) (hp : WfId peer) (i : Nat) :
    bucketIndexFor self peer = some i ↔ HighestDiff (toNat self) (toNat peer) i := by
  rw [bucket_index_eq_log2 self peer hs hp, highestDiff_iff]
  constructor
  · intro h
    split at h
    · cases h
    · rename_i hne
      cases h
      exact ⟨fun he => hne (hs.inj hp he), rfl⟩
  · rintro ⟨hne, rfl⟩
    rw [if_neg (fun he => hne (by rw [he]))]
    rfl

/-- **bucket shape, on the model's own terms** (no assumption on the ids at all): after any
    history the local id is not held, no bucket has more than 16 entries, every entry of bucket `i`
    is one `bucket_index_for` sends to `i`, and no id occurs twice in the whole table. -/
theorem inv (self : Id) (t0 : Int) (ops : List Op) :
    let t := (reach self t0 ops).table
    (∀ c, Held t c → c.id ≠ self) ∧
    (∀ i, (t.buckets i).length ≤ 16) ∧
    (∀ i, ∀ c ∈ t.buckets i, bucketIndexFor self c.id = some i) ∧
    (allContacts t).Pairwise (fun a b => a.id ≠ b.id) ∧
    (∀ c, c ∈ allContacts t ↔ Held t c) := by
  intro t
  have h : Inv t := (Inv.empty self).run ops
  have hself : t.self = self := run_self _ ops
  refine ⟨?_, ?_, ?_, h.allContacts_nodup, fun c => mem_allContacts h⟩
  · intro c hc; rw [← hself]; exact h.self_not_held hc
  · intro i; rw [← bucketSize_eq]; exact (h i).cap
  · intro i c hc; rw [← hself]; exact (h i).place c hc

/-- **bucket shape, as the property states it** (ids as 256-bit numbers): the node's own id is
    never held, no bucket holds more than 16 contacts, every contact sits in the bucket of its
    highest differing bit, one entry per id. -/
theorem shape (self : Id) (t0 : Int) (ops : List Op) (hs : WfId self) (ho : OpsWf ops) :
    Shape (toNat self) (dumpOf (reach self t0 ops).table) := by
  have h : Inv (reach self t0 ops).table := (Inv.empty self).run ops
  have w : WfT (reach self t0 ops).table := WfT.run (Inv.empty self) (WfT.empty hs) ho
  have := shape_of_inv h w idBits_eq bucketSize_eq
  rwa [show (reach self t0 ops).table.self = self from run_self _ ops] at this

/-- every contact sits in the bucket of its highest bit differing from the local id -/
theorem placement (self : Id) (t0 : Int) (ops : List Op) (hs : WfId self) (ho : OpsWf ops) :
    ∀ i, ∀ c ∈ (reach self t0 ops).table.buckets i, HighestDiff (toNat self) (toNat c.id) i := by
  intro i c hc
  have h : Inv (reach self t0 ops).table := (Inv.empty self).run ops
  have w : WfT (reach self t0 ops).table := WfT.run (Inv.empty self) (WfT.empty hs) ho
  have hp := (h i).place c hc
  rw [show (reach self t0 ops).table.self = self from run_self _ ops] at hp
  exact (bucket_index_iff_highest_diff self c.id hs (w.held i c hc) i).1 hp

/-- **newest address and expiry.**  After any history every held contact carries the address and
    expiry of the most recent registration of its id (`runLog` = the model's `run` together with
    the specification's log of registrations; `register_peer`'s epoch value means "now"). -/
theorem newest (self : Id) (t0 : Int) (ops : List Op) (hs : WfId self) (ho : OpsWf ops) :
    Newest (runLog (State.init self t0, []) ops).2 (dumpOf (reach self t0 ops).table) := by
  have hn : NewestInv (State.init self t0, ([] : Log)).1.table (State.init self t0, ([] : Log)).2 :=
    fun _ c hc => by simp [State.init, Table.empty] at hc
  have := NewestInv.runLog (st := (State.init self t0, [])) hn (Inv.empty self) (WfT.empty hs) ho
  have h : Inv (runLog (State.init self t0, []) ops).1.table := by
    rw [runLog_fst]; exact (Inv.empty self).run ops
  have r := newest_of this h
  rwa [runLog_fst] at r

/-- **a refreshed contact keeps a single entry**: right after `register_peer` of an id other than
    the local one — whether or not it was held before — the table holds exactly one entry with
    that id, and it carries the new address and expiry. -/
theorem registered_single (self : Id) (t0 : Int) (ops : List Op) (hs : WfId self) (ho : OpsWf ops)
    (id : Id) (addr : String) (exp : Int) (hid : WfId id) (hne : id ≠ self) :
    JustRegistered (dumpOf (reach self t0 (ops ++ [.reg id addr exp])).table) (toNat id) addr
      (effExp (reach self t0 ops).now exp) := by
  have h : Inv (reach self t0 ops).table := (Inv.empty self).run ops
  have w : WfT (reach self t0 ops).table := WfT.run (Inv.empty self) (WfT.empty hs) ho
  have hself : (reach self t0 ops).table.self = self := run_self _ ops
  simp only [reach, run, List.foldl_append, List.foldl_cons, List.foldl_nil] at *
  simp only [step, registerPeer]
  have := justRegistered_upsert h w idBits_eq bucketSize_eq (List.foldl step (State.init self t0) ops).now
    (if exp = 0 then ⟨id, addr, (List.foldl step (State.init self t0) ops).now⟩ else ⟨id, addr, exp⟩)
    (by split <;> exact hid) (by rw [hself]; split <;> exact hne)
  have e1 : (if exp = 0 then (⟨id, addr, (List.foldl step (State.init self t0) ops).now⟩ : Contact) else ⟨id, addr, exp⟩).id = id := by
    split <;> rfl
  have e2 : (if exp = 0 then (⟨id, addr, (List.foldl step (State.init self t0) ops).now⟩ : Contact) else ⟨id, addr, exp⟩).addr = addr := by
    split <;> rfl
  have e3 : (if exp = 0 then (⟨id, addr, (List.foldl step (State.init self t0) ops).now⟩ : Contact) else ⟨id, addr, exp⟩).exp
      = effExp (List.foldl step (State.init self t0) ops).now exp := by
    unfold effExp; split <;> rfl
  rw [e1, e2, e3] at this
  exact this

/-- the same for the `upsert_bucket` call of `add_contact` (expiry = now + ttl) -/
theorem added_single (self : Id) (t0 : Int) (ops : List Op) (hs : WfId self) (ho : OpsWf ops)
    (id : Id) (addr : String) (ttl : Int) (hid : WfId id) (hne : id ≠ self) :
    JustRegistered (dumpOf (reach self t0 (ops ++ [.add id addr ttl])).table) (toNat id) addr
      ((reach self t0 ops).now + ttl) := by
  have h : Inv (reach self t0 ops).table := (Inv.empty self).run ops
  have w : WfT (reach self t0 ops).table := WfT.run (Inv.empty self) (WfT.empty hs) ho
  have hself : (reach self t0 ops).table.self = self := run_self _ ops
  simp only [reach, run, List.foldl_append, List.foldl_cons, List.foldl_nil] at *
  exact justRegistered_upsert h w idBits_eq bucketSize_eq (List.foldl step (State.init self t0) ops).now
    ⟨id, addr, (List.foldl step (State.init self t0) ops).now + ttl⟩ hid (by rw [hself]; exact hne)

/-- **retained** (what the table holds is fixed by the registration history): after any history,
    `register_peer` of any id costs no *other* unexpired contact its place, except — when the id is
    new, not the local one, and its bucket already holds 16 unexpired contacts — the front (least
    recently registered) entry of that bucket. -/
theorem retained (self : Id) (t0 : Int) (ops : List Op) (hs : WfId self) (ho : OpsWf ops)
    (id : Id) (addr : String) (exp : Int) (hid : WfId id) :
    Retained (toNat self) (dumpOf (reach self t0 ops).table)
      (dumpOf (reach self t0 (ops ++ [.reg id addr exp])).table) (reach self t0 ops).now (toNat id) := by
  have h : Inv (reach self t0 ops).table := (Inv.empty self).run ops
  have w : WfT (reach self t0 ops).table := WfT.run (Inv.empty self) (WfT.empty hs) ho
  have hself : (reach self t0 ops).table.self = self := run_self _ ops
  simp only [reach, run, List.foldl_append, List.foldl_cons, List.foldl_nil] at *
  simp only [step, registerPeer]
  have := retained_upsert h w idBits_eq bucketSize_eq (List.foldl step (State.init self t0) ops).now
    (if exp = 0 then ⟨id, addr, (List.foldl step (State.init self t0) ops).now⟩ else ⟨id, addr, exp⟩)
    (by split <;> exact hid)
  have e1 : (if exp = 0 then (⟨id, addr, (List.foldl step (State.init self t0) ops).now⟩ : Contact) else ⟨id, addr, exp⟩).id = id := by
    split <;> rfl
  rw [e1, hself] at this
  exact this

/-- the same for the `upsert_bucket` call of `add_contact` -/
theorem retained_add (self : Id) (t0 : Int) (ops : List Op) (hs : WfId self) (ho : OpsWf ops)
    (id : Id) (addr : String) (ttl : Int) (hid : WfId id) :
    Retained (toNat self) (dumpOf (reach self t0 ops).table)
      (dumpOf (reach self t0 (ops ++ [.add id addr ttl])).table) (reach self t0 ops).now (toNat id) := by
  have h : Inv (reach self t0 ops).table := (Inv.empty self).run ops
  have w : WfT (reach self t0 ops).table := WfT.run (Inv.empty self) (WfT.empty hs) ho
  have hself : (reach self t0 ops).table.self = self := run_self _ ops
  simp only [reach, run, List.foldl_append, List.foldl_cons, List.foldl_nil] at *
  have := retained_upsert h w idBits_eq bucketSize_eq (List.foldl step (State.init self t0) ops).now
    ⟨id, addr, (List.foldl step (State.init self t0) ops).now + ttl⟩ hid
  rw [hself] at this
  exact this

/-- **a refresh evicts nobody**: if the registered id is already held by an unexpired contact,
    every unexpired contact with another id is still held afterwards -/
theorem refresh_evicts_nobody {own : Nat} {before after : Dump} {now : Int} {id : Nat}
    (h : Retained own before after now id)
    (hheld : ∃ x ∈ entries before, now < x.exp ∧ x.id = id) :
    ∀ e ∈ entries before, now < e.exp → e.id ≠ id → e ∈ entries after := by
  intro e he hlt hne
  simp only [entries, List.mem_flatMap] at he
  obtain ⟨b, hb, heb⟩ := he
  rcases h b hb e heb hlt hne with hin | ⟨hnew, _⟩
  · exact hin
  · obtain ⟨x, hx, hxl, hxid⟩ := hheld
    exact absurd hxid (hnew x (List.mem_filter.2 ⟨hx, by simpa [unexpiredAt] using hxl⟩))

/-- queries and clock moves do not change the table at all -/
theorem query_keeps_table (self : Id) (t0 : Int) (ops : List Op) (target : Id) (k : Nat) (d : Int) :
    (reach self t0 (ops ++ [.closest target k])).table = (reach self t0 ops).table ∧
    (reach self t0 (ops ++ [.adv d])).table = (reach self t0 ops).table := by
  simp [reach, run, List.foldl_append, step]

/-- **closest-peer queries.**  After any history, `closest_peers(target, k)` returns min(k, n) of
    the n unexpired held contacts, in strictly increasing XOR distance (as 256-bit numbers) to the
    target, all of them unexpired held contacts, and every unexpired held contact it leaves out
    is strictly farther than every one it returns (`k = 0` gives the empty list). -/
theorem closest (self : Id) (t0 : Int) (ops : List Op) (hs : WfId self) (ho : OpsWf ops)
    (target : Id) (ht : WfId target) (k : Nat) :
    let s := reach self t0 ops
    IsClosest (entries (dumpOf s.table)) s.now (toNat target) k ((closestPeers s.table s.now target k).map abs) := by
  intro s
  exact closest_isClosest ((Inv.empty self).run ops) (WfT.run (Inv.empty self) (WfT.empty hs) ho) s.now ht k

/-- the clauses of `IsClosest` leave no freedom: at most one list satisfies them -/
theorem closest_unique {held : List Entry} {now : Int} {target k : Nat} {r₁ r₂ : List Entry}
    (h1 : IsClosest held now target k r₁) (h2 : IsClosest held now target k r₂) : r₁ = r₂ :=
  isClosest_unique h1 h2

/-- **`std::sort` cannot matter.**  Over contacts with pairwise distinct 32-byte ids, any two
    permutations of the candidate list that the comparator `lhs.distance < rhs.distance` accepts as
    sorted are the same list (distinct ids have distinct distances), so every correct sorting
    algorithm — stable or not — yields what the model's merge sort yields. -/
theorem sort_unique (L : List Contact) (target : Id) (ht : WfId target) (hw : ∀ c ∈ L, WfId c.id)
    (hn : L.Pairwise (fun a b => a.id ≠ b.id)) (S₁ S₂ : List Candidate)
    (h1 : S₁.Perm (L.map (mkCand target))) (h2 : S₂.Perm (L.map (mkCand target)))
    (s1 : S₁.Pairwise (fun a b => lexLt b.distance a.distance = false))
    (s2 : S₂.Pairwise (fun a b => lexLt b.distance a.distance = false)) : S₁ = S₂ :=
  sorted_unique ht hw hn h1 h2 (s1.imp (fun h => by simp [candLe, h])) (s2.imp (fun h => by simp [candLe, h]))

/-- byte-lexicographic order of distances is numeric order of the 256-bit XOR distances -/
theorem distance_order (a b target : Id) (ha : WfId a) (hb : WfId b) (ht : WfId target) :
    lexLt (xorDistance a target) (xorDistance b target) = true ↔
      toNat a ^^^ toNat target < toNat b ^^^ toNat target := by
  rw [lexLt_iff _ _ (by rw [length_xorDistance, length_xorDistance, ha.1, hb.1])
    (bytes_xorDistance _ _ ha.2 ht.2) (bytes_xorDistance _ _ hb.2 ht.2),
    toNat_xorDistance _ _ (by rw [ha.1, ht.1]) ha.2 ht.2, toNat_xorDistance _ _ (by rw [hb.1, ht.1]) hb.2 ht.2]

/-- **sweeps** remove nothing unexpired, add nothing, and leave nothing expired -/
theorem sweep_keeps (self : Id) (t0 : Int) (ops : List Op) :
    let s := reach self t0 ops
    SweepKeeps (entries (dumpOf s.table)) (entries (dumpOf (reach self t0 (ops ++ [.sweep])).table)) s.now ∧
    ∀ e ∈ entries (dumpOf (reach self t0 (ops ++ [.sweep])).table), s.now < e.exp := by
  intro s
  have : (reach self t0 (ops ++ [.sweep])).table = sweepBuckets s.table s.now := by
    simp [reach, run, List.foldl_append, step, s]
  rw [this]
  exact ⟨sweepKeeps _ _, sweep_clean _ _⟩

/-! ### non-vacuity: concrete histories exercising every branch -/

/-- a 32-byte id with first byte `hi` and last byte `lo`, zeros between -/
def idOf (hi lo : Nat) : Id := hi :: (List.replicate 30 0 ++ [lo])

theorem idOf_wf (hi lo : Nat) (h1 : hi < 256) (h2 : lo < 256) : WfId (idOf hi lo) := by
  refine ⟨by simp [idOf], ?_⟩
  intro b hb
  simp only [idOf, List.mem_cons, List.mem_append, List.mem_replicate, List.not_mem_nil, or_false] at hb
  rcases hb with rfl | ⟨_, rfl⟩ | rfl <;> omega

/-- ids sharing a 255-bit prefix with the local id go to bucket 0, ids differing in the top bit to
    bucket 255, and byte boundaries fall where they should (7/8) -/
example : bucketIndexFor (idOf 0 0) (idOf 0 1) = some 0 := by decide
example : bucketIndexFor (idOf 0 0) (idOf 128 0) = some 255 := by decide
example : bucketIndexFor (idOf 0 0) (idOf 0 128) = some 7 := by decide
example : bucketIndexFor (idOf 0 0) (List.replicate 30 0 ++ [1, 0]) = some 8 := by decide
example : bucketIndexFor (idOf 255 255) (idOf 255 254) = some 0 := by decide
example : bucketIndexFor (idOf 7 9) (idOf 7 9) = none := by decide

/-- 17 registrations into one bucket (ids 0x80…01 … 0x80…11 at the all-zero local id) -/
def seventeen : List Op := (List.range 17).map fun k => Op.reg (idOf 128 (k + 1)) s!"a{k + 1}" 100

example : ((reach (idOf 0 0) 10 seventeen).table.buckets 255).map (fun c => c.id.getLast?) =
    (List.range 16).map (fun k => some (k + 2)) := by decide

/-- a refresh keeps one entry, moves it to the back and takes the new address and expiry -/
example : (reach (idOf 0 0) 10 [.reg (idOf 128 1) "a" 100, .reg (idOf 128 2) "b" 100, .reg (idOf 128 1) "a2" 200]).table.buckets 255
    = [⟨idOf 128 2, "b", 100⟩, ⟨idOf 128 1, "a2", 200⟩] := by decide

/-- refreshing the oldest entry just before the bucket overflows saves it: the next one goes -/
example : ((reach (idOf 0 0) 10 (seventeen.take 16 ++ [.reg (idOf 128 1) "again" 300, .reg (idOf 128 17) "n" 100])).table.buckets 255).map
    (fun c => c.id.getLast?) = (List.range 14).map (fun k => some (k + 3)) ++ [some 1, some 17] := by decide

/-- expired entries are pruned before the LRU eviction is considered: with 16 entries of which the
    first has expired, a newcomer displaces nobody alive -/
example : ((reach (idOf 0 0) 10 ([Op.reg (idOf 128 1) "short" 20] ++ (seventeen.drop 1).take 15 ++
      [.adv 10, .reg (idOf 128 17) "n" 100])).table.buckets 255).map (fun c => c.id.getLast?) =
    (List.range 16).map (fun k => some (k + 2)) := by decide

/-- the epoch sentinel of `register_peer` means "now" (so the contact is born expired), the local
    id is ignored, and `add_contact` counts its ttl from now -/
example :
    let t := (reach (idOf 0 0) 10 [.reg (idOf 0 1) "e" 0, .reg (idOf 0 0) "me" 100, .add (idOf 0 2) "p" 5]).table
    t.buckets 0 = [⟨idOf 0 1, "e", 10⟩] ∧ t.buckets 1 = [⟨idOf 0 2, "p", 15⟩] ∧ t.buckets 255 = [] := by decide

/-- a history for queries: contacts in buckets 0, 1, 2 and 255, one of which has expired exactly at
    the query time 20 (`now = expires_at` counts as expired) -/
def queryOps : List Op :=
  [.reg (idOf 128 1) "far" 100, .reg (idOf 0 4) "d4" 100, .reg (idOf 0 7) "gone" 20, .reg (idOf 0 1) "d1" 100,
   .reg (idOf 0 2) "d2" 100, .adv 10]

theorem queryOps_wf : OpsWf queryOps := by
  intro op h
  simp only [queryOps, List.mem_cons, List.not_mem_nil, or_false] at h
  rcases h with rfl | rfl | rfl | rfl | rfl | rfl <;>
    first | trivial | exact idOf_wf _ _ (by omega) (by omega)

set_option maxRecDepth 10000 in
/-- non-vacuity of `closest` with a limit below the number of live contacts: the hypotheses are met
    by `queryOps`, and the specification (which fixes the answer, `closest_unique`) evaluates to the
    three nearest of the four live contacts, nearest first, without the expired one -/
example : (closestPeers (reach (idOf 0 0) 10 queryOps).table 20 (idOf 0 6) 3).map abs
    = [abs ⟨idOf 0 4, "d4", 100⟩, abs ⟨idOf 0 2, "d2", 100⟩, abs ⟨idOf 0 1, "d1", 100⟩] := by
  have h := closest (idOf 0 0) 10 queryOps (idOf_wf _ _ (by omega) (by omega)) queryOps_wf (idOf 0 6)
    (idOf_wf _ _ (by omega) (by omega)) 3
  exact closest_unique h (by decide)

/-- the contact that expired at the query time is still held (nothing swept it), which is what makes
    the previous example exercise the `expired` skip -/
example : (reach (idOf 0 0) 10 queryOps).table.buckets 2 = [⟨idOf 0 4, "d4", 100⟩, ⟨idOf 0 7, "gone", 20⟩] ∧
    (reach (idOf 0 0) 10 queryOps).now = 20 := by decide

/-- non-vacuity of `shape`, `newest` and `registered_single` on the 17-registration history -/
theorem seventeen_wf : OpsWf seventeen := by
  intro op h
  simp only [seventeen, List.mem_map, List.mem_range] at h
  obtain ⟨k, hk, rfl⟩ := h
  exact idOf_wf _ _ (by omega) (by omega)

example : Shape (toNat (idOf 0 0)) (dumpOf (reach (idOf 0 0) 10 seventeen).table) :=
  shape _ _ _ (idOf_wf _ _ (by omega) (by omega)) seventeen_wf

example : JustRegistered (dumpOf (reach (idOf 0 0) 10 (seventeen ++ [.reg (idOf 128 5) "new" 0])).table)
    (toNat (idOf 128 5)) "new" 10 :=
  registered_single _ _ _ (idOf_wf _ _ (by omega) (by omega)) seventeen_wf _ _ _ (idOf_wf _ _ (by omega) (by omega)) (by decide)

/-- non-vacuity of `retained`: a full bucket (16 of the 17-history's ids are left), refresh of a
    member that is not the oldest — all 16 stay, the refreshed one at the back with its new address;
    then a new id — exactly the front entry goes -/
example : ((reach (idOf 0 0) 10 (seventeen ++ [.reg (idOf 128 9) "again" 100])).table.buckets 255).map
    (fun c => (c.id.getLast?, c.addr == "again")) =
    ((List.range 16).map (fun k => (some (k + 2), false))).filter (·.1 != some 9) ++ [(some 9, true)] := by decide

example : Retained (toNat (idOf 0 0)) (dumpOf (reach (idOf 0 0) 10 seventeen).table)
    (dumpOf (reach (idOf 0 0) 10 (seventeen ++ [.reg (idOf 128 9) "again" 100])).table) 10 (toNat (idOf 128 9)) :=
  retained _ _ _ (idOf_wf _ _ (by omega) (by omega)) seventeen_wf _ _ _ (idOf_wf _ _ (by omega) (by omega))

end EphVerif.C07
