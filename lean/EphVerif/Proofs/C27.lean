/-
C27 — a configured control token gates STORE, FETCH and STOP.

Full statement proved here (`gate`): for every node behaviour `ops`, hash function, configuration
with token `t`, instant, peer address, daemon state `st` and parsed request whose COMMAND is STORE,
FETCH or STOP (any letter case): if the request's TOKEN header is not exactly `t` (missing, prefix,
suffix, case change, anything else) the daemon answers STATUS:ERROR with the command's
`*_UNAUTHENTICATED` code and its state is *identical* afterwards: nothing stored, no manifest
registered, no file written (all of these live in `st.node`), no rate-limit slot used, the stop
callback not invoked and the transport not stopped.  `gate_stream` lifts this to the bytes of a
connection: if no LF-delimited line of the stream is a `TOKEN:t` header (CR ignored, key in any
letter case) then the request `parse_request` builds from it has no such TOKEN.
-/
import EphVerif.Lemmas.C27Basics
import EphVerif.Lemmas.C27Lines
import EphVerif.Spec.Control
import EphVerif.Generated.C27

namespace EphVerif.C27
open EphVerif.Control

/-- (T) in `handle_store` the token comparison precedes every effect call -/
theorem store_gate_precedes_effects : Gen.C27.storeGateFirst = 1 := by decide
/-- (T) in `handle_fetch` the token comparison precedes every effect call -/
theorem fetch_gate_precedes_effects : Gen.C27.fetchGateFirst = 1 := by decide
/-- (T) in `handle_stop` the token comparison precedes every effect call -/
theorem stop_gate_precedes_effects : Gen.C27.stopGateFirst = 1 := by decide

/-- `constant_time_equal` decides equality of byte strings -/
theorem token_compare_exact (expected provided : Bytes) : constantTimeEqual expected provided = true ↔ expected = provided :=
  constantTimeEqual_iff expected provided

/-- the token test fails for every request that does not carry exactly the configured token -/
theorem checkToken_refuses {cfg : Config} {t : Bytes} (ht : cfg.token = some t) {fields : Fields}
    (hl : getField fields (ascii "TOKEN") ≠ some t) : checkToken cfg fields ≠ .ok := by
  unfold checkToken checkToken.getLast
  rw [ht]
  cases hg : getField fields (ascii "TOKEN") with
  | none => simp
  | some v =>
    have hne : t ≠ v := fun h => hl (by rw [hg, h])
    have : constantTimeEqual t v = false := by
      cases hc : constantTimeEqual t v with
      | false => rfl
      | true => exact absurd ((constantTimeEqual_iff t v).mp hc) hne
    simp [this]

/-- the command names of the gated handlers and their authentication error -/
def authCode (command : Bytes) : Option String :=
  if command = ascii "STORE" then some "ERR_STORE_UNAUTHENTICATED"
  else if command = ascii "FETCH" then some "ERR_FETCH_UNAUTHENTICATED"
  else if command = ascii "STOP" then some "ERR_STOP_UNAUTHENTICATED"
  else none

/-- **C27.gate** -/
theorem gate {ν : Type} (sha : Bytes → Bytes) (ops : NodeOps ν) (cfg : Config) (t : Bytes) (now : Int) (addr : Bytes)
    (st : ServerState ν) (req : Request) (c : Bytes) (code : String)
    (ht : cfg.token = some t)
    (hc : getField req.fields (ascii "COMMAND") = some c)
    (hcmd : authCode (toUpper c) = some code)
    (hl : getField req.fields (ascii "TOKEN") ≠ some t) :
    handleRequest sha ops cfg now addr st req = (st, err code) ∧ Spec.Control.isAuthError false code = true := by
  have hno := checkToken_refuses ht hl
  have n1 : ascii "STORE" ≠ ascii "STOP" := by decide
  have n2 : ascii "FETCH" ≠ ascii "STOP" := by decide
  have n3 : ascii "FETCH" ≠ ascii "STORE" := by decide
  unfold authCode at hcmd
  unfold handleRequest
  rw [hc]
  by_cases h2 : toUpper c = ascii "STORE"
  · have hcode : code = "ERR_STORE_UNAUTHENTICATED" := by
      rw [h2] at hcmd; simpa using hcmd.symm
    subst hcode
    refine ⟨?_, by decide⟩
    simp only [h2, n1, ↓reduceIte]
    unfold handleStore
    simp [hno]
  · by_cases h3 : toUpper c = ascii "FETCH"
    · have hcode : code = "ERR_FETCH_UNAUTHENTICATED" := by
        rw [h3] at hcmd; simpa [n3] using hcmd.symm
      subst hcode
      refine ⟨?_, by decide⟩
      simp only [h3, n2, n3, ↓reduceIte]
      unfold handleFetch
      simp [hno]
    · by_cases h1 : toUpper c = ascii "STOP"
      · have hcode : code = "ERR_STOP_UNAUTHENTICATED" := by
          rw [h1] at hcmd; simpa [n1.symm, n2.symm] using hcmd.symm
        subst hcode
        refine ⟨?_, by decide⟩
        simp only [h1, ↓reduceIte]
        unfold handleStop
        simp [hno]
      · simp [h1, h2, h3] at hcmd

/-- the fields of a successfully parsed request -/
theorem parse_ok_fields {cap : Nat} {input unread : Bytes} {req : Request}
    (hp : parseRequest cap input = .ok req unread) :
    req.fields = (lineLoop serverMaxLine (reqLine cap) input [] 0 {}).1.fields := by
  unfold parseRequest at hp
  rcases hres : lineLoop serverMaxLine (reqLine cap) input [] 0 {} with ⟨st, e, rest⟩
  rw [hres] at hp
  simp only at hp
  split at hp
  · simp at hp
  · split at hp
    · simp at hp
    · split at hp
      · split at hp
        · simp at hp
        · injection hp with h1 _; rw [← h1]
      · injection hp with h1 _; rw [← h1]

/-- **C27.gate, on the bytes of a connection**: if no LF-delimited line of the stream is the header
    `TOKEN:t` (CR ignored, key in any letter case), the request built from it carries no such token -/
theorem gate_stream {cap : Nat} {t input unread : Bytes} {req : Request}
    (hp : parseRequest cap input = .ok req unread)
    (hnot : Spec.Control.presentsToken (splitBy 10 input []) t = false) :
    getField req.fields (ascii "TOKEN") ≠ some t := by
  intro hg
  have hm := getField_eq_some hg
  rw [parse_ok_fields hp] at hm
  rcases lineLoop_fields_from_lines cap serverMaxLine input [] [] 0 {} rfl _ hm with h | ⟨l, hl, hh⟩
  · simp at h
  · have : Spec.Control.presentsToken (splitBy 10 input []) t = true := by
      unfold Spec.Control.presentsToken
      rw [List.any_eq_true]
      exact ⟨l, hl, by rw [hh]; simp [ascii, Spec.Control.asciiBytes]⟩
    rw [this] at hnot; exact absurd hnot (by decide)

/-- **C27.gate for a whole connection**: what `handle_client` does with a byte stream that parses
    into a STORE / FETCH / STOP request and contains no `TOKEN:t` line -/
theorem gate_connection {ν : Type} (sha : Bytes → Bytes) (ops : NodeOps ν) (cfg : Config) (t : Bytes) (now : Int) (addr : Bytes)
    (st : ServerState ν) (input unread : Bytes) (req : Request) (c : Bytes) (code : String)
    (ht : cfg.token = some t)
    (hp : parseRequest cfg.cap input = .ok req unread)
    (hc : getField req.fields (ascii "COMMAND") = some c)
    (hcmd : authCode (toUpper c) = some code)
    (hnot : Spec.Control.presentsToken (splitBy 10 input []) t = false) :
    handleClient sha ops cfg now addr st input = (st, some (err code)) ∧ Spec.Control.isAuthError false code = true := by
  have hg := gate sha ops cfg t now addr st req c code ht hc hcmd (gate_stream hp hnot)
  refine ⟨?_, hg.2⟩
  unfold handleClient
  rw [hp]
  simp only [hg.1]

/-- a request that never reached a handler (parse error, connection closed) changes nothing either -/
theorem unparsed_has_no_effect {ν : Type} (sha : Bytes → Bytes) (ops : NodeOps ν) (cfg : Config) (now : Int) (addr : Bytes)
    (st : ServerState ν) (input : Bytes) (h : ∀ req unread, parseRequest cfg.cap input ≠ .ok req unread) :
    (handleClient sha ops cfg now addr st input).1 = st := by
  unfold handleClient
  cases hp : parseRequest cfg.cap input with
  | closed => rfl
  | error code u => rfl
  | ok req u => exact absurd hp (h req u)

/-! ## non-vacuity -/

/-- a FETCH with an OUT path and a token that is a proper prefix of the configured one -/
example : ∃ req : Request, getField req.fields (ascii "COMMAND") = some (ascii "fetch") ∧
    authCode (toUpper (ascii "fetch")) = some "ERR_FETCH_UNAUTHENTICATED" ∧
    getField req.fields (ascii "TOKEN") ≠ some (ascii "secret") :=
  ⟨{ fields := [(ascii "COMMAND", ascii "fetch"), (ascii "TOKEN", ascii "secre"), (ascii "OUT", ascii "/tmp/x")] },
   by decide, by decide, by decide⟩

/-- the same stream is accepted by the token test once it carries the exact token: the gate is not
    simply closed -/
example : checkToken { token := some (ascii "secret"), powDifficulty := 0, cap := 10, minTtl := 1, maxTtl := 2, defaultTtl := 1 }
    [(ascii "TOKEN", ascii "secret")] = .ok := by decide

/-- does the stream parse into a request with this COMMAND value? -/
def parsesToCommand (cap : Nat) (input c : Bytes) : Bool :=
  match parseRequest cap input with
  | .ok req _ => getField req.fields (ascii "COMMAND") == some c
  | _ => false

/-- a byte stream without any `TOKEN:secret` line that parses into a STOP request -/
example : Spec.Control.presentsToken (splitBy 10 (ascii "COMMAND:stop\ntoken:Secret\n\n") []) (ascii "secret") = false ∧
    parsesToCommand 10 (ascii "COMMAND:stop\ntoken:Secret\n\n") (ascii "stop") = true := by
  decide

end EphVerif.C27
