import EphVerif.Model.Control
import EphVerif.Spec.Control
import EphVerif.Generated.C27

namespace EphVerif.C27

/-- (T) in `handle_store` the token comparison precedes every effect call -/
theorem store_gate_precedes_effects : Gen.C27.storeGateFirst = 1 := by decide
/-- (T) in `handle_fetch` the token comparison precedes every effect call -/
theorem fetch_gate_precedes_effects : Gen.C27.fetchGateFirst = 1 := by decide
/-- (T) in `handle_stop` the token comparison precedes every effect call -/
theorem stop_gate_precedes_effects : Gen.C27.stopGateFirst = 1 := by decide

end EphVerif.C27
