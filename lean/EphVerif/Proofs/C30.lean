import EphVerif.Lemmas.C30

/-!
# C30 — `eph fetch` only writes bytes that match the manifest

Property: *`eph fetch` writes an output file only if its bytes hash to the manifest's content hash (that is,
equal the stored payload), whichever path delivered them — transport hint, relay, control hint, control://
fallback or the local daemon; a peer or endpoint that returns other bytes makes that path fail instead of
producing a file.*

`CliFetch.fetch` is the model of the `fetch` command from the decoded manifest on (after the repair that makes
`finalize_fetch` compare the hash on every path).  All theorems hold for every hash function `sha`, every
manifest hash `h`, every discovery mode, every list of paths with arbitrary priorities and every response of
every endpoint; payload sizes and the number of paths are unbounded.
-/
namespace EphVerif.C30
open EphVerif.CliFetch EphVerif.C30L

variable (sha : Bytes → Bytes)

/-- **C30.only_matching.**  Whatever the endpoints answer on whichever path: if a file is written, its bytes hash
to the manifest's content hash. -/
theorem only_matching (mode : Mode) (h : Bytes) (paths : List Path) (li : Nat) (loc : Resp) (b : Bytes)
    (hw : (fetch sha mode h paths li loc).file = some b) : sha b = h := by
  unfold fetch at hw
  generalize hrun : run sha h (directOrder mode paths) = r at hw
  obtain ⟨s, l⟩ := r
  cases s with
  | wrote c =>
    simp only [Option.some.injEq] at hw
    subst hw
    exact run_wrote sha (l := directOrder mode paths) (by rw [hrun])
  | remote => simp at hw
  | next =>
    simp only at hw
    by_cases hd : mode.directOnly = true
    · rw [if_pos hd] at hw; simp at hw
    · rw [if_neg hd] at hw
      cases hdl : deliver sha h false loc with
      | wrote c =>
        rw [hdl] at hw
        simp only [Option.some.injEq] at hw
        subst hw
        exact (deliver_wrote sha hdl).2
      | remote => rw [hdl] at hw; simp at hw
      | next => rw [hdl] at hw; simp at hw

/-- **C30.mismatch_fails.**  An endpoint that returns bytes not hashing to the manifest's content hash is treated
exactly like an endpoint that fails: replacing every such response (on the direct paths and at the local daemon)
by an outright failure changes neither the file written, nor the exit code, nor the sequence of endpoints
contacted — in particular the path fails and the next one is tried. -/
theorem mismatch_fails (mode : Mode) (h : Bytes) (paths : List Path) (li : Nat) (loc : Resp) :
    fetch sha mode h (paths.map (neutralPath sha h)) li (neutral sha h loc) = fetch sha mode h paths li loc := by
  unfold fetch
  rw [directOrder_map _ (neutralPath_shape sha h), run_neutral, deliver_neutral, contacted_neutral]

/-- **C30.first_delivering.**  The direct walk writes `b` exactly when, in attempt order, every earlier path failed
(was down, failed, or returned non-matching bytes) and the next path delivered `b` with the matching hash. -/
theorem first_delivering (mode : Mode) (h : Bytes) (paths : List Path) (b : Bytes) :
    (run sha h (directOrder mode paths)).1 = .wrote b ↔
      ∃ pre p post, directOrder mode paths = pre ++ p :: post ∧
        (∀ q ∈ pre, deliver sha h (isTransportKind q.kind) q.resp = .next) ∧ p.resp = .payload b ∧ sha b = h :=
  run_wrote_iff sha h _ b

/-- **C30.honest_local.**  When every direct path fails (for whatever reason, including dishonest payloads) and no
direct-only mode was requested, an honest local daemon's payload is written and the command succeeds. -/
theorem honest_local (mode : Mode) (h : Bytes) (paths : List Path) (li : Nat) (b : Bytes)
    (hdirect : (run sha h (directOrder mode paths)).1 = .next) (hmode : mode.directOnly = false) (hb : sha b = h) :
    (fetch sha mode h paths li (.payload b)).file = some b ∧ (fetch sha mode h paths li (.payload b)).exit = 0 := by
  unfold fetch
  generalize hrun : run sha h (directOrder mode paths) = r at hdirect
  obtain ⟨s, l⟩ := r
  simp only at hdirect
  subst hdirect
  simp [hmode, deliver, hb]

/-- **C30.next_tried.**  In automatic mode the command ends in failure only after every endpoint that is up — every
hint of the manifest and the local daemon — has been contacted: no path is skipped because an earlier one
returned wrong bytes. -/
theorem next_tried (h : Bytes) (paths : List Path) (li : Nat) (loc : Resp)
    (hfail : (fetch sha .auto h paths li loc).exit = 1) :
    (∀ p ∈ paths, p.resp ≠ .down → p.idx ∈ (fetch sha .auto h paths li loc).tried) ∧
      (loc ≠ .down → li ∈ (fetch sha .auto h paths li loc).tried) := by
  unfold fetch at hfail ⊢
  generalize hrun : run sha h (directOrder .auto paths) = r at hfail ⊢
  obtain ⟨s, l⟩ := r
  cases s with
  | wrote c => simp at hfail
  | remote => simp at hfail
  | next =>
    have hnext : (run sha h (directOrder .auto paths)).1 = .next := by rw [hrun]
    have htr := run_next_tried sha hnext
    rw [hrun] at htr
    simp only [show Mode.auto.directOnly = false from rfl, Bool.false_eq_true, if_false] at hfail ⊢
    have hloc : loc ≠ .down → li ∈ contacted li loc := by
      intro hl
      cases loc with
      | down => exact absurd rfl hl
      | fail => simp [contacted]
      | payload c => simp [contacted]
      | okNoPayload => simp [contacted]
    cases hdl : deliver sha h false loc with
    | wrote c => rw [hdl] at hfail; simp at hfail
    | remote => rw [hdl] at hfail; simp at hfail
    | next =>
      simp only []
      constructor
      · intro p hp hup
        exact List.mem_append_left _ (htr p (mem_directOrder_auto p paths hp) hup)
      · intro hl
        exact List.mem_append_right _ (hloc hl)

/-- a written file implies exit code 0 -/
theorem wrote_exit_zero (mode : Mode) (h : Bytes) (paths : List Path) (li : Nat) (loc : Resp) (b : Bytes)
    (hw : (fetch sha mode h paths li loc).file = some b) : (fetch sha mode h paths li loc).exit = 0 := by
  unfold fetch at hw ⊢
  generalize run sha h (directOrder mode paths) = r at hw ⊢
  obtain ⟨s, l⟩ := r
  cases s with
  | wrote c => rfl
  | remote => rfl
  | next =>
    simp only at hw ⊢
    by_cases hd : mode.directOnly = true
    · rw [if_pos hd] at hw; simp at hw
    · rw [if_neg hd] at hw ⊢
      cases hdl : deliver sha h false loc with
      | wrote c => rfl
      | remote => rfl
      | next => rw [hdl] at hw; simp at hw

/-! ## non-vacuity (a toy hash: the identity; the statements above hold for every `sha`) -/

/-- a control hint returning substituted bytes is passed over, the fallback's matching bytes are written, and both
were contacted in priority order -/
example :
    fetch id .auto [1, 2, 3]
      [⟨0, .fallback, 0, .payload [1, 2, 3]⟩, ⟨1, .control, 9, .payload [1, 2, 4]⟩] 2 .down
      = ⟨some [1, 2, 3], 0, [1, 0]⟩ := by decide
/-- all five kinds dishonest (truncated, substituted, extended, empty, other): nothing is written, exit code 1,
every endpoint was tried, transport before control before fallback before the local daemon -/
example :
    fetch id .auto [1, 2, 3]
      [⟨0, .control, 1, .payload [1, 2]⟩, ⟨1, .fallback, 0, .payload [1, 2, 3, 0]⟩, ⟨2, .relay, 7, .payload []⟩,
       ⟨3, .transport, 7, .payload [9, 9, 9]⟩] 4 (.payload [3, 2, 1])
      = ⟨none, 1, [2, 3, 0, 1, 4]⟩ := by decide
/-- the hypotheses of `honest_local` are satisfiable -/
example : (run id [7] (directOrder .auto [⟨0, .control, 0, .payload [8]⟩])).1 = .next ∧ Mode.auto.directOnly = false := by
  decide

/-! ## every state of the manifest -/

/-- **C30.only_matching (all manifests).**  Whatever state the manifest is in — decodable or not, expired, without a
recoverable key, without publisher identity — and whatever every endpoint answers: a file is written only when the manifest
could be decoded *and* the bytes hash to its content hash. -/
theorem only_matching_all (m : MState) (mode : Mode) (h : Bytes) (paths : List Path) (li : Nat) (loc : Resp) (b : Bytes)
    (hw : (fetchM sha m mode h paths li loc).file = some b) : m.decodable = true ∧ sha b = h := by
  unfold fetchM at hw
  by_cases hd : m.decodable = true
  · rw [if_pos hd] at hw
    exact ⟨hd, only_matching sha mode h _ li loc b hw⟩
  · rw [if_neg hd] at hw
    exfalso
    unfold fetchUndecodable at hw
    by_cases hm : mode.directOnly = true
    · rw [if_pos hm] at hw; cases hw
    · rw [if_neg hm] at hw
      cases loc <;> cases hw

/-- **C30.undecodable_never_writes.**  Without a decodable manifest there is no content hash: nothing is written, whatever
the local endpoint answers. -/
theorem undecodable_never_writes (m : MState) (hm : m.decodable = false) (mode : Mode) (h : Bytes) (paths : List Path)
    (li : Nat) (loc : Resp) : (fetchM sha m mode h paths li loc).file = none := by
  cases hf : (fetchM sha m mode h paths li loc).file with
  | none => rfl
  | some b => have := (only_matching_all sha m mode h paths li loc b hf).1; rw [hm] at this; cases this

/-- **C30.mismatch_fails (all manifests).**  In every manifest state a non-matching payload is indistinguishable from a
failure (file, exit code, endpoints contacted). -/
theorem mismatch_fails_all (m : MState) (mode : Mode) (h : Bytes) (paths : List Path) (li : Nat) (loc : Resp)
    (hdec : m.decodable = true) :
    fetchM sha m mode h (paths.map (neutralPath sha h)) li (neutral sha h loc) = fetchM sha m mode h paths li loc := by
  unfold fetchM
  rw [if_pos hdec, if_pos hdec]
  have : (paths.map (neutralPath sha h)).map (view m) = (paths.map (view m)).map (neutralPath sha h) := by
    rw [List.map_map, List.map_map]
    apply List.map_congr_left
    intro p _
    exact view_neutral sha m h p
  rw [this]
  exact mismatch_fails sha mode h _ li loc

/-- An expired manifest or one without publisher identity never dials a transport or relay hint; a manifest whose key
shares cannot be recombined never yields a file over those paths. -/
theorem transport_gated (m : MState) (k : Kind) (r : Resp) (hk : isTransportKind k = true) :
    ((m.expired = true ∨ m.publisher = false) → effResp m k r = .down) ∧
    (m.keyOk = false → ∀ b, effResp m k r ≠ .payload b) := by
  unfold effResp
  rw [hk]
  constructor
  · intro h
    have : (m.publisher && !m.expired) = false := by
      rcases h with h | h <;> simp [h]
    simp [this]
  · intro hko b
    by_cases hp : (m.publisher && !m.expired) = true
    · simp only [if_true, hp]
      cases r <;> simp [hko]
    · simp [hp]

/-- expired manifest, honest control endpoint: the (verified) bytes are still written; the transport hint with the same
bytes is not even contacted -/
example :
    fetchM id ⟨true, true, true, true⟩ .auto [1, 2, 3]
      [⟨0, .transport, 0, .payload [1, 2, 3]⟩, ⟨1, .control, 5, .payload [1, 2, 3]⟩] 2 .down
      = ⟨some [1, 2, 3], 0, [1]⟩ := by decide
/-- undecodable manifest: the local endpoint's bytes are refused -/
example : fetchM id ⟨false, false, true, true⟩ .auto [1, 2, 3] [] 0 (.payload [1, 2, 3]) = ⟨none, 1, [0]⟩ := by decide

end EphVerif.C30
