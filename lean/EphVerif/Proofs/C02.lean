/-
C02 — every lifetime the node creates lies inside the sanitised TTL window.

All statements are about the definitions of `Generated/C02.lean`, which are re-translated from the
clang AST of the working tree on every run (sanitize_*, sanitize_config, clamp_chunk_ttl, and the
slices of Node::store_chunk / announce_chunk, ChunkStore::put, KademliaTable::publish_shards /
add_contact, ControlServer STORE), glued by `Model/Ttl.lean`.  Durations are unbounded `Int`
seconds: the C++ only compares and assigns them (no arithmetic on `int64` seconds before the
clamp), and `store_deadline_bound` shows the nanosecond deadlines stay within 24 h of `now`.
-/
import EphVerif.Lemmas.C02Window

namespace EphVerif.C02
open EphVerif.Gen.C02 EphVerif.Ttl EphVerif.C02L

/-- **C02.config** for every configuration (all field values, negative / zero / inverted bounds
    included) the node's effective limits satisfy 1 s ≤ min ≤ max ≤ 24 h, min ≤ default ≤ max,
    5 s ≤ rotation ≤ 1 h and every PoW difficulty ≤ 24 bits. -/
theorem config (cfg : Cfg) : C02Spec.ConfigOk (limits (effective cfg)) := by
  have w := window cfg
  have r := rotation_range cfg.key_rotation_interval
  unfold C02Spec.ConfigOk limits effective C02Spec.dayS C02Spec.hourS
  refine ⟨w.min_pos, w.min_le_max, w.max_le_day, w.min_le_default, w.default_le_max, ?_, ?_, ?_, ?_, ?_⟩
  · simp only [sanitize_config]; exact r.1
  · simp only [sanitize_config]; exact r.2
  · simp only [sanitize_config]; gen_consts; grind
  · simp only [sanitize_config]; gen_consts; grind
  · simp only [sanitize_config]; gen_consts; grind

/-- **C02.store** whatever TTL is requested (zero, negative, tiny, huge), each of the four
    lifetimes recorded for a store — chunk record, manifest expiry, shard record, self-announce —
    lies inside [min, max] of the effective configuration. -/
theorem store (cfg : Cfg) (ttl steady wall prevShard : Int)
    -- a key-share record already in the table was itself written with a TTL ≤ max at an earlier time
    (hprev : prevShard ≤ steady + (effective cfg).max_manifest_ttl * 1000000000) :
    C02Spec.StoreOk (effective cfg).min_manifest_ttl (effective cfg).max_manifest_ttl (storeChunk cfg ttl steady wall prevShard) := by
  have w : Window (effective cfg) := window cfg
  have hpos := w.min_pos
  -- the TTL that reaches each of the four recording sites is the clamped one
  have r1 := store_ttl_range (effective cfg) w ttl
  have r2 : (effective cfg).min_manifest_ttl * 1000000000 ≤ store_chunk_manifest_expires ttl (effective cfg) wall - wall ∧
      store_chunk_manifest_expires ttl (effective cfg) wall - wall ≤ (effective cfg).max_manifest_ttl * 1000000000 := by
    have := clamp_range (if ttl > 0 then ttl else (effective cfg).default_chunk_ttl) _ _ w.min_pos w.min_le_max
    unfold store_chunk_manifest_expires
    simp only []
    omega
  have r3 : (effective cfg).min_manifest_ttl ≤ store_chunk_shard_ttl ttl (effective cfg) ∧
      store_chunk_shard_ttl ttl (effective cfg) ≤ (effective cfg).max_manifest_ttl := by
    unfold store_chunk_shard_ttl
    exact clamp_range _ _ _ w.min_pos w.min_le_max
  have r4 : (effective cfg).min_manifest_ttl ≤ store_chunk_announce_ttl ttl (effective cfg) ∧
      store_chunk_announce_ttl ttl (effective cfg) ≤ (effective cfg).max_manifest_ttl := by
    unfold store_chunk_announce_ttl
    exact clamp_range _ _ _ w.min_pos w.min_le_max
  -- ChunkStore::put keeps it, and the callees add it to `now`
  have hp := put_id (effective cfg) (store_chunk_put_ttl ttl (effective cfg)) (by omega)
  unfold C02Spec.StoreOk C02Spec.DurationOk C02Spec.nsPerS storeChunk chunkStorePut
  simp only [hp]
  unfold announce_chunk_contact_ttl compute_expiry publish_shards_expires add_contact_expires
  refine ⟨⟨?_, ?_⟩, r2, ⟨?_, ?_⟩, ⟨?_, ?_⟩⟩ <;> omega

/-- the recorded deadlines are at most 24 h after `now`: no `int64` nanosecond overflow for any
    clock value below 2^63 − 86 400·10^9 -/
theorem store_deadline_bound (cfg : Cfg) (ttl steady wall : Int) :
    (storeChunk cfg ttl steady wall).chunk ≤ 86400 * 1000000000 ∧ 0 < (storeChunk cfg ttl steady wall).chunk := by
  have w : Window (effective cfg) := window cfg
  have s := store cfg ttl steady wall steady (by have := w.min_pos; have := w.min_le_max; omega)
  unfold C02Spec.StoreOk C02Spec.DurationOk C02Spec.nsPerS at s
  have := w.min_pos
  have := w.max_le_day
  have e : (storeChunk cfg ttl steady wall steady).chunk = (storeChunk cfg ttl steady wall).chunk := rfl
  omega

/-- **C02.put_noop** `ChunkStore::put`'s own floor never changes a TTL that is inside the window -/
theorem put_noop (cfg : Cfg) (d : Int)
    (h1 : (effective cfg).min_manifest_ttl ≤ d) (_h2 : d ≤ (effective cfg).max_manifest_ttl) :
    chunkstore_put_ttl d (effective cfg) = d := by
  have w : Window (effective cfg) := window cfg
  exact put_id _ _ (by have := w.min_pos; omega)

/-- **C02.control** for every one of the 2^64 values a TTL header can carry: if the control plane
    accepts the STORE then min ≤ header ≤ max (the `u64 → int64` conversion cannot smuggle a huge
    value in as a negative one that is then clamped into the window) -/
theorem control (cfg : Cfg) (header : Nat) (_h : header < 2 ^ 64) (ttl : Int)
    (acc : controlStore cfg header = some ttl) :
    (effective cfg).min_manifest_ttl ≤ (header : Int) ∧ (header : Int) ≤ (effective cfg).max_manifest_ttl := by
  have w : Window (effective cfg) := window cfg
  have := w.min_pos
  unfold controlStore control_store_ttl control_store_ttl_rejected toInt64 at acc
  simp only [decide_eq_true_eq] at acc
  grind

/-- the same in the specification's words -/
theorem control_spec (cfg : Cfg) (header : Nat) (h : header < 2 ^ 64) :
    C02Spec.ControlOk (effective cfg).min_manifest_ttl (effective cfg).max_manifest_ttl header (controlStore cfg header).isSome := by
  unfold C02Spec.ControlOk
  intro hs
  match hc : controlStore cfg header with
  | none => simp [hc] at hs
  | some t => exact control cfg header h t hc

/-! ### Non-vacuity -/

/-- an inverted, partly negative configuration is repaired to a proper window … -/
example : limits (effective { default_chunk_ttl := -7, min_manifest_ttl := 900, max_manifest_ttl := 30, key_rotation_interval := 0, announce_pow_difficulty := 200, handshake_pow_difficulty := 25, store_pow_difficulty := 24 })
    = { default := 900, min := 900, max := 900, rotation := 5, announcePow := 24, handshakePow := 24, storePow := 24 } := by
  decide

/-- … a huge requested TTL is clamped to max, a negative one falls back to the default -/
example : (storeChunk { default_chunk_ttl := 60, min_manifest_ttl := 30, max_manifest_ttl := 100 } 9223372036854775807 5 7).chunk
    = 100 * 1000000000 := by decide
example : (storeChunk { default_chunk_ttl := 60, min_manifest_ttl := 30, max_manifest_ttl := 100 } (-5) 5 7).shard
    = 60 * 1000000000 := by decide

/-- the control plane accepts 30 and refuses 29, 101 and 2^63 (which the cast turns negative) -/
example : controlStore { default_chunk_ttl := 60, min_manifest_ttl := 30, max_manifest_ttl := 100 } 30 = some 30 := by decide
example : controlStore { default_chunk_ttl := 60, min_manifest_ttl := 30, max_manifest_ttl := 100 } 29 = none := by decide
example : controlStore { default_chunk_ttl := 60, min_manifest_ttl := 30, max_manifest_ttl := 100 } 101 = none := by decide
example : controlStore { default_chunk_ttl := 60, min_manifest_ttl := 30, max_manifest_ttl := 100 } 9223372036854775808 = none := by decide

end EphVerif.C02
