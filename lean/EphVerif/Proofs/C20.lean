import EphVerif.Lemmas.C20

/-!
C20 — inbound handshakes are accepted only with a valid key and valid PoW.

`Handshake.run env (init t0, []) ops` is the node after an arbitrary history `ops` of handshakes
(direct `perform_handshake`, the transport handler, the session layer's inbound path), clock
advances of any size and dropped connections, together with the log of handshake events.
`env.powValid` is an arbitrary predicate (claimed peer, offered key, nonce): the theorems hold
whatever the proof-of-work check is; `keyValid` is `KeyExchange::validate_public`.
-/
namespace EphVerif.C20
open EphVerif.Handshake

/-- generated constant obligations: the validity range of a public key and the reputation steps
    the property and the code comments name -/
theorem constants : Gen.C20.kPrime = 2147483647 ∧ Gen.C20.repMinScore = -100 ∧ Gen.C20.repFailurePenalty = 2 := by
  decide

/-- **C20.accept** — for every history of handshakes at any spacing (including repeats inside the
    cooldown): a handshake that is accepted (returns true / is acknowledged / gets its session
    registered) offered a valid public key and a nonce valid for (claimed peer, this node, that key). -/
theorem accept (env : Env) (t0 : Int) (ops : List Op) :
    ∀ e ∈ (run env (init t0, []) ops).2, e.accepted = true →
      keyValid e.pub = true ∧ env.powValid e.peer e.pub e.nonce = true :=
  (run_inv ops (init t0) [] (inv_init env t0) (by simp)).2

/-- every key the node holds for a peer after any history — in the key manager or in the session
    layer — was offered in a handshake with a valid key and a valid nonce for that peer -/
theorem keys_validated (env : Env) (t0 : Int) (ops : List Op) (p : String) (k : Nat)
    (h : ((run env (init t0, []) ops).1.peers p).sess = some k ∨
         ((run env (init t0, []) ops).1.peers p).smKey = some k) :
    keyValid k = true ∧ ∃ n, env.powValid p k n = true := by
  have hi := (run_inv ops (init t0) [] (inv_init env t0) (by simp)).1 p
  rcases h with h | h
  · exact hi.2.1 k h
  · exact hi.2.2 k h

/-- **C20.reject** — in every state reachable by a history, a rejected handshake (of any kind)
    leaves the key-manager key, the session-layer key and the session of *every* peer unchanged,
    leaves every other peer's state untouched, and moves the claimed peer's reputation through one
    failure step (invalid key) or two (invalid nonce). -/
theorem reject (env : Env) (t0 : Int) (ops : List Op) (k : Kind) (p : String) (pub nonce : Nat) :
    let s := (run env (init t0, []) ops).1
    (handshake env s k p pub nonce).2 = false →
    let s' := (handshake env s k p pub nonce).1
    (∀ q, (s'.peers q).sess = (s.peers q).sess ∧ (s'.peers q).smKey = (s.peers q).smKey ∧
          (s'.peers q).conn = (s.peers q).conn) ∧
    (∀ q, q ≠ p → s'.peers q = s.peers q) ∧
    ((s'.peers p).rep = repFailure (s.peers p).rep ∨
     (s'.peers p).rep = repFailure (repFailure (s.peers p).rep)) := by
  intro s h
  exact handshake_false (run_inv ops (init t0) [] (inv_init env t0) (by simp)).1 h

/-- **C20.reject**, reputation clause in the property's words: the claimed peer's reputation is
    strictly lower afterwards unless it already sits at the floor, and never leaves `[-100, ..]`. -/
theorem reject_lowers (env : Env) (t0 : Int) (ops : List Op) (k : Kind) (p : String) (pub nonce : Nat) :
    let s := (run env (init t0, []) ops).1
    (handshake env s k p pub nonce).2 = false →
    let s' := (handshake env s k p pub nonce).1
    (-100 < (s.peers p).rep → (s'.peers p).rep < (s.peers p).rep) ∧
    ((s.peers p).rep ≤ -100 → (s'.peers p).rep = -100) ∧ -100 ≤ (s'.peers p).rep := by
  intro s h s'
  have hr := (reject env t0 ops k p pub nonce h).2.2
  have e1 : ∀ x : Int, repFailure x = max (x - 2) (-100) := fun x => rfl
  rcases hr with hr | hr
  · show (-100 < (s.peers p).rep → (s'.peers p).rep < (s.peers p).rep) ∧ _
    rw [show (s'.peers p).rep = repFailure (s.peers p).rep from hr, e1]
    omega
  · show (-100 < (s.peers p).rep → (s'.peers p).rep < (s.peers p).rep) ∧ _
    rw [show (s'.peers p).rep = repFailure (repFailure (s.peers p).rep) from hr, e1, e1]
    omega

/-- the reputation failure step, as numbers -/
theorem repFailure_eq (x : Int) : repFailure x = max (x - 2) (-100) := rfl

/-! ### Non-vacuity: a cooldown-repeat history

Cooldown 5 s; nonces 0 and 1 are valid, everything else is not.  A valid handshake, its exact repeat
one second later (accepted by the short-circuit), then — still inside the cooldown — the same key
with a wrong nonce, an invalid key, and another key with a wrong nonce through the transport and
socket paths: all rejected, the registered key stays 12345, the reputation falls 1 → -3 → -5 → -9 → … -/
def demoEnv : Env := { cooldown := 5, powValid := fun _ _ n => decide (n < 2) }

def demoOps : List Op :=
  [.hs .direct "p" 12345 0, .adv 1000000000, .hs .direct "p" 12345 0, .hs .direct "p" 12345 7,
   .hs .transport "p" 1 0, .hs .socket "p" 777 9, .hs .direct "p" 12345 1]

example : ((run demoEnv (init 0, []) demoOps).2.map (·.accepted)) = [true, true, false, false, false, true] := by
  decide

example : ((run demoEnv (init 0, []) demoOps).1.peers "p").sess = some 12345 ∧
          ((run demoEnv (init 0, []) demoOps).1.peers "p").rep = -8 := by
  decide

end EphVerif.C20
