import EphVerif.Model.Handshake

namespace EphVerif.C20
open EphVerif.Handshake

/-- generated constant obligation: the reputation floor the property names -/
theorem floor_eq : Gen.C20.repMinScore = -100 := by decide

end EphVerif.C20
