/-
C05 — a cleanup tick removes all expired state and reports each expiry once.

Property theorems about `Model/NodeCleanup.lean` (the node's expiry bookkeeping: chunk store ×
provider locators × routing table × key-share table × manifest cache × swarm plans × notification
queue), judged by `Spec/NodeCleanup.lean`.  All statements quantify over every configuration, every
start time, every constant wall-clock offset and every history of
`adv / store / ingest / announce / reannounce / lookup / probe / tick / drain / audit`
(any length, any ids, TTLs of any sign, any manifest expiry, any tie-break hint of the provider
truncation); helper lemmas live in `Lemmas/C05{Basic,Inv,Once,Run}.lean` (`reach cfg t0 ops` = the node after
the history `ops` from construction at `t0`; `Still op` = the clock does not move during `op`).
-/
import EphVerif.Lemmas.C05Run

namespace EphVerif.C05
open EphVerif.NodeCleanup EphVerif.C05L
open EphVerif.ChunkStore (aget)
open EphVerif.C05Spec (judgeDump judgeAudit N Ev count)

/-! ### (T) what the proofs rely on in the source, regenerated on every run -/

/-- the cleanup branch is gated by `elapsed >= cleanup_interval`; it pushes a notification and withdraws
    the node's own announcement for every id the chunk-store sweep returns, sweeps the DHT, prunes
    manifest cache and swarm plans (`wall_now >= expires_at`); every expiry test in the shard-table
    sweep, the locator sweep, `expired()`, `shard_record` and the TTL audit is `now >= expires_at` -/
theorem constants :
    EphVerif.Gen.C05.tickGateIsGe = true ∧ EphVerif.Gen.C05.tickNotifiesInSweepLoop = true ∧
    EphVerif.Gen.C05.tickWithdrawsSelf = true ∧ EphVerif.Gen.C05.tickSweepsDht = true ∧
    EphVerif.Gen.C05.tickPrunesManifests = true ∧ EphVerif.Gen.C05.manifestPruneIsGe = true ∧
    EphVerif.Gen.C05.tickPrunesPlans = true ∧ EphVerif.Gen.C05.shardSweepIsGe = true ∧
    EphVerif.Gen.C05.locatorSweepIsGe = true ∧ EphVerif.Gen.C05.contactExpiredIsGe = true ∧
    EphVerif.Gen.C05.shardRecordExpiredIsGe = true ∧ EphVerif.Gen.C05.auditLocalIsGe = true ∧
    EphVerif.Gen.C05.auditLocatorIsGe = true ∧ EphVerif.Gen.C05.auditContactIsGe = true := by
  decide

/-! ### when a tick cleans -/

/-- a tick enters the cleanup branch exactly when `cleanup_interval` (seconds) has elapsed since the
    previous cleanup — at the boundary, not one nanosecond later -/
theorem tick_cleans_iff (cfg : Cfg) (s : State) :
    gate cfg s = true ↔ s.now - s.lastCleanup ≥ cfg.node.cleanupInterval * 1000000000 :=
  gate_iff cfg s

/-! ### C05.clean -/

/-- **After any history, nothing the node holds had expired by the time of the most recent cleanup.**
    For every list of chunk names `ks` the dump of the node — local chunks, locators with their holders,
    routing contacts, key-share records, cached manifests, swarm plans — passes the specification's
    judgement at `T = lastCleanup`: no entry with expiry `≤ T` (wall `≤ T + offset` for manifests), every
    plan belongs to a manifest that is still cached (and live), and the node is a holder only of chunks it
    still stores. -/
theorem clean (cfg : Cfg) (t0 : Int) (ops : List Op) (hw : OpsWf cfg ops) (ks : List String)
    (nameOf : Routing.Id → String) :
    judgeDump cfg.self (reach cfg t0 ops).s.lastCleanup ((reach cfg t0 ops).s.lastCleanup + cfg.wallOff)
      (dumpOf ks nameOf (reach cfg t0 ops).s) = none :=
  judgeDump_of_inv (inv_run (inv_init cfg t0) ops hw) ks nameOf

/-- **The literal statement.**  Take any history `pre`, let a tick run the cleanup at time `T`, and let
    anything at all happen afterwards at the same instant (`post`: more stores, manifests, announcements,
    lookups, scheduler passes that re-ingest manifests, ticks, drains, audits).  Then the node holds no
    chunk, provider contact, locator, key-share record, cached manifest or swarm plan with expiry `≤ T`,
    it is announced only for chunks it still stores (its announcement of every expired local chunk is
    withdrawn), and the TTL audit reports no expired local chunk, locator or contact and no orphaned
    announcement. -/
theorem clean_after_tick (cfg : Cfg) (t0 : Int) (pre post : List Op) (hw : OpsWf cfg (pre ++ Op.tick :: post))
    (hgate : gate cfg (reach cfg t0 pre).s = true) (hstill : ∀ op ∈ post, Still op)
    (ks : List String) (nameOf : Routing.Id → String) :
    let T := (reach cfg t0 pre).s.now
    let s := (reach cfg t0 (pre ++ Op.tick :: post)).s
    s.now = T ∧ s.lastCleanup = T ∧
    judgeDump cfg.self T (T + cfg.wallOff) (dumpOf ks nameOf s) = none ∧
    judgeAudit (audit cfg ks s) = none := by
  intro T s
  have hinv : Inv cfg s := inv_run (inv_init cfg t0) _ hw
  have hs : s = (run cfg (exec cfg (reach cfg t0 pre) Op.tick) post).s := by
    show (reach cfg t0 (pre ++ Op.tick :: post)).s = _
    rw [reach_append]; rfl
  obtain ⟨tn, tl⟩ := tick_clock cfg (reach cfg t0 pre).s
  rw [hgate] at tl
  have h0 : (exec cfg (reach cfg t0 pre) Op.tick).s.lastCleanup = (exec cfg (reach cfg t0 pre) Op.tick).s.now := by
    show (tick cfg (reach cfg t0 pre).s).lastCleanup = (tick cfg (reach cfg t0 pre).s).now
    rw [tn, tl]; rfl
  obtain ⟨hn, hl⟩ := still_run cfg (exec cfg (reach cfg t0 pre) Op.tick) post hstill h0
  have hnow : s.now = T := by rw [hs, hn]; exact tn
  have hlast : s.lastCleanup = T := by rw [hs, hl]; exact tn
  refine ⟨hnow, hlast, ?_, ?_⟩
  · have := judgeDump_of_inv hinv ks nameOf
    rw [hlast] at this; exact this
  · exact judgeAudit_of_inv hinv (hlast.trans hnow.symm) ks

/-- the node's own announcement exists only for a chunk it stores and that had not expired at the most
    recent cleanup: the announcement of every expired local chunk is withdrawn (even when the announcement
    itself would have lived longer than the record) -/
theorem withdrawn (cfg : Cfg) (t0 : Int) (ops : List Op) (hw : OpsWf cfg ops) (c : String) (l : Providers.Loc)
    (hl : (reach cfg t0 ops).s.locs c = some l) (hself : ∃ h ∈ l.holders, h.peer = cfg.self) :
    ∃ r, (c, r) ∈ (reach cfg t0 ops).s.recs ∧ (reach cfg t0 ops).s.lastCleanup < r.expires := by
  have hinv : Inv cfg (reach cfg t0 ops).s := inv_run (r := Run.init cfg t0) (inv_init cfg t0) ops hw
  obtain ⟨r, hr⟩ := hinv.self c l hl hself
  exact ⟨r, hr, hinv.recs (c, r) hr⟩

/-! ### C05.once -/

/-- **Every notification is a report the specification demands, and every demanded report is a
    notification.**  After any history, for every id, the number of times it occurs in the concatenation of
    everything drained so far plus the still queued notifications equals the number of times the abstract
    node reported it — where the abstract node knows only stores, ticks and the clock, reports an id at a
    cleanup iff the deadline of its *current* copy is `≤` the cleanup time, and then forgets the copy.
    Lookups, probes, manifests, announcements, drains and audits are invisible to it: which of them noticed
    the expiry first cannot matter. -/
theorem once (cfg : Cfg) (hs : ChunkStore.SaneCfg cfg.node) (t0 : Int) (ops : List Op) (c : String) :
    count c (reach cfg t0 ops).notified =
      (C05Spec.run (paramsOf cfg) (N.init t0) (ops.map evOf)).reported.get c :=
  (sim_run hs (sim_init cfg t0) ops).reported c

/-- the specification's cleanup, spelled out: at a tick that cleans, an id is reported once more iff its
    current copy is due, and afterwards no copy is due (a second tick cannot report it again) -/
theorem spec_cleanup (p : C05Spec.Params) (n : N) (c : String) (h : C05Spec.cleans p n = true) :
    (C05Spec.step p n .tick).reported.get c = n.reported.get c + (if C05Spec.due n c then 1 else 0) ∧
    C05Spec.due (C05Spec.step p n .tick) c = false := by
  simp only [C05Spec.step, h, if_true]
  constructor
  · by_cases hd : C05Spec.due n c = true <;> simp [hd]
  · cases hcg : n.copies.get c with
    | none => simp [C05Spec.due, hcg]
    | some d => by_cases hle : d ≤ n.now <;> simp [C05Spec.due, hcg, hle]

/-- a tick that does not clean reports nothing -/
theorem spec_no_cleanup (p : C05Spec.Params) (n : N) (h : C05Spec.cleans p n = false) : C05Spec.step p n .tick = n := by
  simp [C05Spec.step, h]

/-- every report consumes a store: an id is never reported more often than it was stored — in
    particular never an id that was not stored, and an id stored once is reported at most once -/
theorem spec_reported_le_stores (p : C05Spec.Params) (t0 : Int) (evs : List Ev) (c : String) :
    (C05Spec.run p (N.init t0) evs).reported.get c ≤ stores c evs := by
  have := spec_budget p (N.init t0) evs c 0 (by simp [N.init])
  omega

theorem notified_le_stores (cfg : Cfg) (hs : ChunkStore.SaneCfg cfg.node) (t0 : Int) (ops : List Op) (c : String) :
    count c (reach cfg t0 ops).notified ≤ stores c (ops.map evOf) := by
  rw [once cfg hs]; exact spec_reported_le_stores _ _ _ _

/-! ### non-vacuity -/

def cfgEx : Cfg :=
  { node := { store := { defaultTtl := 3, persistent := false, wipeOnExpiry := true, passes := 1 },
              minTtl := 2, maxTtl := 10, cleanupInterval := 1 },
    rebalance := 1800, self := "self", selfId := List.replicate 32 1, wallOff := 1700000000000000000 }

def t0Ex : Int := 1000000000000
def p1 : Routing.Id := List.replicate 31 1 ++ [2]

/-- two local chunks, a remote manifest and a provider contact, all expiring by `t0 + 2 s`; the expiry of
    `c1` is first noticed by a lookup, that of `c2`'s provider entry by a probe -/
def preEx : List Op :=
  [.store "c1" 2 none, .store "c2" 2 none, .ingest "c3" 1700001002000000000 false,
   .announce "c2" 1700001002000000000 false "p1" p1 "10.0.0.9:4000" 2 none,
   .adv 2000000000, .lookup "c1", .probe "c2"]

example : ChunkStore.SaneCfg cfgEx.node := ⟨by decide, by decide⟩
example : OpsWf cfgEx (preEx ++ [.tick, .drain, .adv 1000000000, .tick, .drain]) := by
  intro op hop
  simp only [preEx, List.cons_append, List.nil_append, List.mem_cons, List.not_mem_nil, or_false] at hop
  rcases hop with h | h | h | h | h | h | h | h | h | h | h | h <;> subst h <;> simp [OpWf, cfgEx]

/-- before the tick the node does hold expired state (so the cleanup has something to do) … -/
example : judgeDump "self" (t0Ex + 2000000000) (t0Ex + 2000000000 + cfgEx.wallOff)
    (dumpOf ["c1", "c2", "c3"] (fun _ => "p1") (reach cfgEx t0Ex preEx).s) = some "expired-chunk" := by decide +kernel

/-- … the tick is a cleanup tick … -/
example : gate cfgEx (reach cfgEx t0Ex preEx).s = true := by decide +kernel

/-- … and afterwards nothing at all is left, whichever of lookup / probe / sweep noticed first -/
example : let s := (reach cfgEx t0Ex (preEx ++ [.tick])).s
    s.recs = [] ∧ s.shards = [] ∧ s.cache = [] ∧ s.plans = [] ∧ Routing.allContacts s.routes = [] ∧
    s.locs "c1" = none ∧ s.locs "c2" = none ∧ s.notes = ["c2", "c1"] := by decide +kernel

/-- lookup between deadline and tick: still exactly one notification per chunk, none at the next tick -/
example : (reach cfgEx t0Ex (preEx ++ [.tick, .drain, .adv 1000000000, .tick, .drain])).drained = ["c2", "c1"] ∧
    (reach cfgEx t0Ex (preEx ++ [.tick, .drain, .adv 1000000000, .tick, .drain])).s.notes = [] := by decide +kernel

/-- a chunk stored again after its deadline but before any cleanup is replaced, not reported; its second
    copy is reported once when it expires -/
example : (reach cfgEx t0Ex [.store "c1" 2 none, .adv 2500000000, .lookup "c1", .store "c1" 2 none, .tick, .drain]).drained = [] ∧
    (reach cfgEx t0Ex [.store "c1" 2 none, .adv 2500000000, .lookup "c1", .store "c1" 2 none, .tick, .drain,
      .adv 2000000000, .tick, .drain, .adv 1000000000, .tick, .drain]).drained = ["c1"] := by decide +kernel

/-- the node's own announcement outliving the record (announced 4 s, stored 2 s) is withdrawn by the tick
    although it has not expired, while the other provider of the chunk stays -/
example : let s := (reach cfgEx t0Ex [.store "c1" 2 none, .reannounce "c1" 4 none,
      .announce "c1" 1700001008000000000 false "p1" p1 "10.0.0.9:4000" 6 none, .adv 2000000000, .tick]).s
    (s.locs "c1").map (fun l => l.holders.map (·.peer)) = some ["p1"] ∧ s.recs = [] := by decide +kernel

/-- repair C11-1 in the model: a manifest for a chunk the node holds is adopted only if it stands for the same
    content and key (`same`); otherwise cache, key shares and plan keep the lifetimes of the local store, while the
    announcing provider is still recorded -/
example :
    (reach cfgEx t0Ex [.store "c1" 2 none, .ingest "c1" 1700001009000000000 false]).s.cache = [("c1", 1700001002000000000)] ∧
    (reach cfgEx t0Ex [.store "c1" 2 none, .ingest "c1" 1700001009000000000 true]).s.cache = [("c1", 1700001009000000000)] ∧
    (let s := (reach cfgEx t0Ex [.store "c1" 2 none, .announce "c1" 1700001009000000000 false "p1" p1 "10.0.0.9:4000" 5 none]).s
     s.cache = [("c1", 1700001002000000000)] ∧ (s.locs "c1").map (fun l => l.holders.map (·.peer)) = some ["self", "p1"]) := by
  decide +kernel

/-- the cleanup gate at the boundary: one nanosecond before `cleanup_interval` has elapsed the expired chunk
    is not swept, at the boundary it is -/
example : (reach cfgEx t0Ex [.store "c1" 2 none, .adv 1500000000, .tick, .adv 999999999, .tick]).s.notes = [] ∧
    (reach cfgEx t0Ex [.store "c1" 2 none, .adv 1500000000, .tick, .adv 1000000000, .tick]).s.notes = ["c1"] := by
  decide +kernel

end EphVerif.C05
