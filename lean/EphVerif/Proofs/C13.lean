import EphVerif.Spec.Message
namespace EphVerif.C13
theorem placeholder : True := trivial
end EphVerif.C13
