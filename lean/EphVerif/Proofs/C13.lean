/-
C13 — signed messages are accepted only with the exact MAC over the exact bytes.

Statement (properties.jsonl): signed decoding returns a message exactly when the last 32 bytes
equal HMAC-SHA256 under the session key of all preceding bytes and those bytes decode; any bit
flip, truncation, extension, reordering or different key causes rejection.

The MAC is a parameter `mac key data` with the single hypothesis that it returns 32 bytes
(`Spec.hmacSha256` does: `hmac_length`), so these theorems do not depend on C08.  The first
sentence is `iff`.  The second sentence cannot be literally true of any MAC-based scheme — a
mutated buffer that happens to satisfy the MAC equation again *is* a correctly signed buffer — so
it is proved in the exact form "every other buffer/key is rejected unless the MAC equation holds
for it", and the residual cases are reduced to named collisions of the MAC (`…_needs_collision`);
excluding those is the cryptographic assumption on HMAC-SHA256, which is not claimed here.
-/
import EphVerif.Lemmas.C13Verify
import EphVerif.Spec.Message
import EphVerif.Spec.Hmac

namespace EphVerif.C13
open EphVerif.Message EphVerif.MessageSpec EphVerif.Gen.C15

/-- a MAC with 32-byte tags -/
def Mac32 (mac : Bytes → Bytes → Bytes) : Prop := ∀ k d, (mac k d).length = 32

/-- the driver's MAC (RFC 2104 HMAC-SHA256, property C08) qualifies -/
theorem hmac_length : Mac32 EphVerif.Spec.hmacSha256 := fun k d => EphVerif.Spec.hmacSha256_length k d

/-- generated-constant obligation: the tag length the code cuts off is the property's 32 -/
theorem digest_size : kDigestSize = 32 := rfl

/-- C13, first sentence: ∀ buf key m, `decode_signed buf key = ok m` ↔ `32 ≤ |buf|` ∧ the last 32
    bytes are `mac key (first |buf|−32 bytes)` ∧ those first bytes decode to `m`. -/
theorem iff (mac : Bytes → Bytes → Bytes) (hmac : Mac32 mac) : SignedExact mac decode (decodeSigned mac) := by
  intro buf key m
  rw [decodeSigned_eq]
  by_cases hlt : buf.length < 32
  · rw [if_pos hlt]
    constructor
    · intro h; cases h
    · intro h; omega
  · rw [if_neg hlt]
    cases hv : hmacVerify mac key (buf.take (buf.length - 32)) (buf.drop (buf.length - 32))
    · have hne : ¬ buf.drop (buf.length - 32) = mac key (buf.take (buf.length - 32)) := by
        intro h; rw [(hmacVerify_iff mac hmac _ _ _).mpr h] at hv; cases hv
      simp only [Bool.false_eq_true, if_false]
      constructor
      · intro h; cases h
      · intro h; exact absurd h.2.1 hne
    · have heq := (hmacVerify_iff mac hmac _ _ _).mp hv
      simp only [if_true]
      constructor
      · intro h; exact ⟨by omega, heq, h⟩
      · intro h; exact h.2.2

/-- the MAC equation of a buffer under a key -/
def Tagged (mac : Bytes → Bytes → Bytes) (key buf : Bytes) : Prop :=
  32 ≤ buf.length ∧ buf.drop (buf.length - 32) = mac key (buf.take (buf.length - 32))

/-- C13, second sentence, exact form: a buffer (however obtained: flipped bits, truncated, extended,
    reordered, checked under another key) that does not satisfy the MAC equation is rejected —
    rejected, not `oob`. -/
theorem rejected_unless_tagged (mac : Bytes → Bytes → Bytes) (hmac : Mac32 mac) (buf key : Bytes)
    (h : ¬ Tagged mac key buf) : decodeSigned mac buf key = .reject := by
  cases hd : decodeSigned mac buf key with
  | reject => rfl
  | oob => exact absurd hd (decodeSigned_ne_oob mac buf key)
  | ok m => exact absurd ⟨((iff mac hmac) buf key m |>.mp hd).1, ((iff mac hmac) buf key m |>.mp hd).2.1⟩ h

/-- signing then verifying decodes the plain encoding (so, with C15, gives the message back) -/
theorem sign_then_verify (mac : Bytes → Bytes → Bytes) (hmac : Mac32 mac) (m : Msg) (key : Bytes) :
    decodeSigned mac (encodeSigned mac m key) key = decode (encode m) := by
  have hm : (mac key (encode m)).length = 32 := hmac _ _
  have hl : (encodeSigned mac m key).length - 32 = (encode m).length := by simp [encodeSigned, hm]
  have ht : (encodeSigned mac m key).take ((encodeSigned mac m key).length - 32) = encode m := by
    rw [hl]; simp [encodeSigned]
  have hdr : (encodeSigned mac m key).drop ((encodeSigned mac m key).length - 32) = mac key (encode m) := by
    rw [hl]; simp [encodeSigned]
  rw [decodeSigned_eq, if_neg (by simp [encodeSigned, hm]), ht, hdr, (hmacVerify_iff mac hmac _ _ _).mpr rfl]
  rfl

/-- acceptance of `body ‖ tag` pins the tag -/
theorem accepted_tag (mac : Bytes → Bytes → Bytes) (hmac : Mac32 mac) (body tag key : Bytes) (m : Msg) (ht : tag.length = 32)
    (h : decodeSigned mac (body ++ tag) key = .ok m) : tag = mac key body ∧ decode body = .ok m := by
  obtain ⟨_, h2, h3⟩ := split_body_tag body tag ht
  have := (iff mac hmac (body ++ tag) key m).mp h
  rw [h2, h3] at this
  exact ⟨this.2.1, this.2.2⟩

/-- any change confined to the tag (every single- or multi-bit flip inside the last 32 bytes) is
    rejected: no assumption on the MAC needed -/
theorem tag_change_rejected (mac : Bytes → Bytes → Bytes) (hmac : Mac32 mac) (body tag tag' key : Bytes) (m : Msg)
    (ht : tag.length = 32) (ht' : tag'.length = 32) (hne : tag' ≠ tag)
    (h : decodeSigned mac (body ++ tag) key = .ok m) : decodeSigned mac (body ++ tag') key = .reject := by
  apply rejected_unless_tagged mac hmac
  obtain ⟨_, h2, h3⟩ := split_body_tag body tag' ht'
  rintro ⟨_, heq⟩
  rw [h2, h3] at heq
  exact hne (heq.trans (accepted_tag mac hmac body tag key m ht h).1.symm)

/-- a change to the body under the old tag is accepted only if the new body collides with the old
    one under the MAC -/
theorem body_change_needs_collision (mac : Bytes → Bytes → Bytes) (hmac : Mac32 mac) (body body' tag key : Bytes)
    (m m' : Msg) (ht : tag.length = 32) (h : decodeSigned mac (body ++ tag) key = .ok m)
    (h' : decodeSigned mac (body' ++ tag) key = .ok m') : mac key body' = mac key body :=
  (accepted_tag mac hmac body' tag key m' ht h').1.symm.trans (accepted_tag mac hmac body tag key m ht h).1

/-- … hence rejected for a MAC without that collision -/
theorem body_change_rejected (mac : Bytes → Bytes → Bytes) (hmac : Mac32 mac) (body body' tag key : Bytes) (m : Msg)
    (ht : tag.length = 32) (h : decodeSigned mac (body ++ tag) key = .ok m)
    (hnc : mac key body' ≠ mac key body) : decodeSigned mac (body' ++ tag) key = .reject := by
  apply rejected_unless_tagged mac hmac
  obtain ⟨_, h2, h3⟩ := split_body_tag body' tag ht
  rintro ⟨_, heq⟩
  rw [h2, h3] at heq
  exact hnc (heq.symm.trans (accepted_tag mac hmac body tag key m ht h).1)

/-- a buffer accepted under two keys exhibits a cross-key collision on its body -/
theorem other_key_needs_collision (mac : Bytes → Bytes → Bytes) (hmac : Mac32 mac) (buf key key' : Bytes) (m m' : Msg)
    (h : decodeSigned mac buf key = .ok m) (h' : decodeSigned mac buf key' = .ok m') :
    mac key' (buf.take (buf.length - 32)) = mac key (buf.take (buf.length - 32)) :=
  ((iff mac hmac buf key' m').mp h').2.1.symm.trans ((iff mac hmac buf key m).mp h).2.1

/-- every truncation of an accepted buffer is rejected unless its own last 32 bytes are the MAC of
    what precedes them; below 32 bytes always -/
theorem truncation_rejected (mac : Bytes → Bytes → Bytes) (hmac : Mac32 mac) (buf key : Bytes) (n : Nat)
    (h : ¬ Tagged mac key (buf.take n)) : decodeSigned mac (buf.take n) key = .reject :=
  rejected_unless_tagged mac hmac _ key h

theorem short_rejected (mac : Bytes → Bytes → Bytes) (buf key : Bytes) (h : buf.length < 32) :
    decodeSigned mac buf key = .reject := by
  rw [decodeSigned_eq, if_pos h]

/-- every extension (bytes appended after the tag) is rejected unless the extended buffer is itself
    correctly tagged, i.e. its new last 32 bytes are the MAC of everything before them -/
theorem extension_rejected (mac : Bytes → Bytes → Bytes) (hmac : Mac32 mac) (buf ext key : Bytes)
    (h : ¬ Tagged mac key (buf ++ ext)) : decodeSigned mac (buf ++ ext) key = .reject :=
  rejected_unless_tagged mac hmac _ key h

/-! ### non-vacuity (a toy 32-byte MAC evaluated by the kernel; the driver runs the real HMAC) -/

/-- toy MAC: key length, data length and first data byte, padded to 32 bytes -/
def toyMac (k d : Bytes) : Bytes := [UInt8.ofNat k.length, UInt8.ofNat d.length, d.headD 0] ++ List.replicate 29 0

theorem toyMac32 : Mac32 toyMac := fun _ _ => by simp [toyMac]

def sampleMsg : Msg := ⟨4, 5, .handshake 7 9 4⟩

example : decodeSigned toyMac (encodeSigned toyMac sampleMsg [1, 2, 3]) [1, 2, 3] = .ok sampleMsg := by decide
/-- wrong key (the toy MAC sees the key length) -/
example : decodeSigned toyMac (encodeSigned toyMac sampleMsg [1, 2, 3]) [1, 2] = .reject := by decide
/-- truncated by one byte -/
example : decodeSigned toyMac ((encodeSigned toyMac sampleMsg [1, 2, 3]).dropLast) [1, 2, 3] = .reject := by decide
/-- extended by one byte -/
example : decodeSigned toyMac (encodeSigned toyMac sampleMsg [1, 2, 3] ++ [0]) [1, 2, 3] = .reject := by decide
example : Tagged toyMac [1, 2, 3] (encodeSigned toyMac sampleMsg [1, 2, 3]) := by unfold Tagged; decide

end EphVerif.C13
