/-
C16 — protocol decoding is total and memory-safe.

Statement (properties.jsonl): for every byte string and key, plain and signed decoding terminate
without out-of-bounds access, undefined behaviour or exceptions, and anything they accept has its
fields taken verbatim from the input: re-encoding the decoded message reproduces a prefix of the
input.

In `Model/Message.lean` every pointer access of the C++ decoder is a checked read whose failure
is the outcome `oob` (also `span.first/last` with a count beyond the span); the decoders are
structurally recursive-free total functions (no fuel, no `partial`), so termination is by
construction and the theorems below say that the failure outcome is unreachable — for every
input, of any length, with any length fields, and for any MAC function.  Exceptions: the decoder
contains no throwing operation other than allocation; `std::bad_alloc` is outside the model.
-/
import EphVerif.Lemmas.C16Decode
import EphVerif.Lemmas.C16Size
import EphVerif.Spec.Message

namespace EphVerif.C16
open EphVerif.Message EphVerif.MessageSpec EphVerif.Gen.C15

/-- generated-constant obligation: the tag is 32 bytes (`HmacSha256::kDigestSize`) -/
theorem digest_size : kDigestSize = 32 := rfl

/-- ∀ bytes, key, MAC: neither `decode` nor `decode_signed` reads outside its input. -/
theorem total (mac : Bytes → Bytes → Bytes) : Total decode (decodeSigned mac) :=
  ⟨decode_ne_oob, decodeSigned_ne_oob mac⟩

/-- the same for the two inner parsers, whatever span they are handed -/
theorem total_inner (d : Bytes) (pow : Bool) (t : Nat) :
    parseAnnounce d pow ≠ .oob ∧ decodePayloadV1 t d ≠ .oob :=
  ⟨parseAnnounce_ne_oob d pow, decodePayloadV1_ne_oob t d⟩

/-- ∀ bytes m: `decode bytes = ok m → encode m` is a prefix of `bytes` (fields verbatim; the
    decoder ignores what follows the message). -/
theorem reencode_prefix : Verbatim encode decode := fun _ _ h => decode_prefix h

/-- the signed decoder returns only messages whose wire form is a prefix of the signed body -/
theorem prefix_signed (mac : Bytes → Bytes → Bytes) (buf key : Bytes) (m : Msg)
    (h : decodeSigned mac buf key = .ok m) : encode m <+: buf := by
  unfold decodeSigned spanFirst spanLast at h
  have hd : kDigestSize = 32 := rfl
  split at h
  · cases h
  · dsimp only at h
    rw [if_pos (by omega), if_pos (by omega)] at h
    simp only [chk_some] at h
    split at h
    · cases h
    · exact (decode_prefix h).trans (List.take_prefix _ _)

/-- accepted messages carry a supported version, so `encode` writes it back unchanged -/
theorem accepted_version {buf : Bytes} {m : Msg} (h : decode buf = .ok m) :
    isSupportedVersion m.version = true ∧ Message.clampVersion m.version = m.version := by
  unfold decode at h
  split at h
  · cases h
  · simp only [chk_eq_ok] at h
    obtain ⟨version, _, type, _, h⟩ := h
    split at h
    · cases h
    · rename_i hsup
      rw [map_eq_ok] at h
      obtain ⟨p, _, rfl⟩ := h
      have hs : isSupportedVersion version = true := by simpa using hsup
      exact ⟨hs, clampVersion_of_supported hs⟩

/-- LP64: the size_t sums of the decoder stay below 2^64 (no wrap-around), for any length fields -/
theorem sizes_fit {d : Bytes} {el ml al dl extra : Nat} (h1 : rdU32 d 4 = some el) (h2 : rdU32 d 8 = some ml)
    (h3 : rdU32 d 12 = some al) (h4 : rdU32 d 4 = some dl) (he : extra ≤ 8) :
    16 + kChunkIdSize + kPeerIdSize + el + ml + al + extra < 2 ^ 64 ∧ 8 + kChunkIdSize + dl < 2 ^ 64 :=
  ⟨announce_expectedSize_fits h1 h2 h3 he, chunk_expected_fits h4⟩

/-! ### non-vacuity: inputs that reach the interesting branches, evaluated on the model -/

/-- announce header claiming three lengths of 2^32-1 in a 90-byte buffer: rejected, not `oob` -/
example : decode ([4, 1] ++ [0, 0, 0, 60] ++ List.replicate 12 255 ++ List.replicate 72 0) = .reject := by decide
/-- an acknowledgement with flag byte 1 is accepted and re-encodes to itself … -/
example : decode ([1, 4, 1] ++ List.replicate 64 0) = .ok ⟨1, 4, .ack (List.replicate 32 0) (List.replicate 32 0) true⟩ := by
  decide
/-- … with trailing bytes it is still accepted (prefix, not equality) … -/
example : decode ([1, 4, 1] ++ List.replicate 64 0 ++ [9, 9]) = .ok ⟨1, 4, .ack (List.replicate 32 0) (List.replicate 32 0) true⟩ := by
  decide
/-- … and with flag byte 2 it is refused (the repaired behaviour; before the fix it decoded to `true`
    and re-encoded with flag 1, which is not a prefix of the input) -/
example : decode ([1, 4, 2] ++ List.replicate 64 0) = .reject := by decide
example : decode [] = .reject ∧ decode [4] = .reject ∧ decode [4, 1] = .reject ∧ decode [0, 2] = .reject ∧ decode [4, 7] = .reject := by
  decide

end EphVerif.C16
