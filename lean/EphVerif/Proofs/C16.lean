import EphVerif.Spec.Message
namespace EphVerif.C16
theorem placeholder : True := trivial
end EphVerif.C16
