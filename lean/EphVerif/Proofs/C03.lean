/-
C03 — state learned from a manifest never outlives that manifest.

The statements are about `Model/ManifestTtl.lean`, whose TTL computations are the definitions of
`Generated/C02.lean` (manifest_ttl, enforce_manifest_ttl, clamp_chunk_ttl and the slices of
ingest_manifest / receive_chunk / handle_announce / schedule_assigned_fetch / announce_chunk /
ChunkStore::put / publish_shards / add_contact, re-translated from the clang AST on every run).
`cfg0` is any configuration the node is constructed from; the node works with
`effective cfg0 = sanitize_config cfg0`.  Two clocks: steady `now`, wall `now + off`, `off`
arbitrary but constant.  All quantities in nanoseconds except TTLs (seconds).
-/
import EphVerif.Lemmas.C03Manifest

namespace EphVerif.C03
open EphVerif.Gen.C02 EphVerif.Ttl EphVerif.MTtl EphVerif.C03Spec EphVerif.C02L EphVerif.C03L

/-- every record an accepted manifest writes ends no later than the manifest and at most
    max_ttl after the arrival -/
theorem writes_bounded (cfg : Cfg) (w : Window cfg) (off now E prev : Int) (p : Path) (ws : List Write)
    (h : writes cfg off now E prev p = some ws) :
    ∀ x ∈ ws, x.wall off ≤ E ∧ x.wall off ≤ (now + off) + cfg.max_manifest_ttl * 1000000000 := by
  have hmin := w.min_pos
  cases p with
  | ingest =>
    simp only [writes, ingest_ttl_source] at h
    split at h
    · cases h
    · rename_i ttl hm
      have r := manifest_ttl_some cfg w E (now + off) ttl hm
      cases h
      intro x hx
      simp only [List.mem_cons, List.mem_nil_iff, or_false] at hx
      subst hx
      simp only [Write.wall, publish_shards_expires, ingest_shard_ttl]
      omega
  | receive good =>
    simp only [writes, receive_ttl_source] at h
    split at h
    · cases h
    · rename_i ttl hm
      have r := manifest_ttl_some cfg w E (now + off) ttl hm
      cases good with
      | false => simp at h
      | true =>
        simp only [if_true] at h
        cases h
        have hp := put_id cfg ttl r.2.2.1
        intro x hx
        simp only [List.mem_cons, List.mem_nil_iff, or_false] at hx
        rcases hx with rfl | rfl | rfl
        · simp only [Write.wall, publish_shards_expires, receive_shard_ttl]; omega
        · simp only [Write.wall, add_contact_expires, announce_chunk_contact_ttl, receive_announce_ttl]; omega
        · simp only [Write.wall, chunkStorePut, receive_put_ttl, hp, compute_expiry]; omega
  | announce peer attl endpoint assigned replicaLive =>
    simp only [writes, announce_ttl_source] at h
    split at h
    · cases h
    · rename_i ttl hm
      have r := manifest_ttl_some cfg w E (now + off) ttl hm
      have ha := advertised_range cfg w attl ttl r.1 r.2.1
      have hpend := pending_expires_range cfg E (now + off)
      cases h
      intro x hx
      simp only [List.mem_append, List.mem_cons, List.mem_nil_iff, or_false] at hx
      rcases hx with (rfl | hx) | hx
      · simp only [Write.wall, publish_shards_expires, announce_shard_ttl]; omega
      · cases endpoint with
        | false => simp at hx
        | true =>
          simp only [if_true, List.mem_cons, List.mem_nil_iff, or_false] at hx
          subst hx
          simp only [Write.wall, add_contact_expires]; omega
      · split at hx
        · simp only [List.mem_cons, List.mem_nil_iff, or_false] at hx
          subst hx
          simp only [Write.wall]; omega
        · simp at hx

/-- **C03.derived** for every configuration, manifest expiry `E`, arrival path, time and clock
    offset: if the manifest is accepted, every derived deadline — key-share record, provider
    contact, replica chunk, pending fetch — is, as wall time, `≤ E` and `≤ t + max_ttl`. -/
theorem derived (cfg0 : Cfg) (off now E prev : Int) (p : Path) (ws : List Write)
    (h : writes (effective cfg0) off now E prev p = some ws) :
    ∀ x ∈ ws, NotAfterManifest E (x.wall off) ∧ Capped (now + off) (effective cfg0).max_manifest_ttl (x.wall off) := by
  unfold NotAfterManifest Capped C03Spec.nsPerS
  exact writes_bounded (effective cfg0) (window cfg0) off now E prev p ws h

/-- **C03.cap** a far-future expiry never extends a lifetime beyond the maximum TTL: whatever `E`
    is, nothing created from the manifest lives longer than max_ttl ≤ 24 h from its arrival -/
theorem cap (cfg0 : Cfg) (off now E prev : Int) (p : Path) (ws : List Write)
    (h : writes (effective cfg0) off now E prev p = some ws) :
    ∀ x ∈ ws, x.wall off - (now + off) ≤ (effective cfg0).max_manifest_ttl * 1000000000 ∧
      x.wall off - (now + off) ≤ 86400 * 1000000000 := by
  intro x hx
  have b := writes_bounded (effective cfg0) (window cfg0) off now E prev p ws h x hx
  have hday : (effective cfg0).max_manifest_ttl ≤ 86400 := (window cfg0).max_le_day
  omega

/-- **C03.reject** a manifest that is expired (`E ≤ t`) or has less than min_ttl left is rejected on
    every path … -/
theorem reject (cfg0 : Cfg) (off now E prev : Int) (p : Path)
    (h : Rejectable E (now + off) (effective cfg0).min_manifest_ttl) :
    writes (effective cfg0) off now E prev p = none := by
  unfold Rejectable C03Spec.nsPerS at h
  have hn := manifest_ttl_none (effective cfg0) (window cfg0) E (now + off) h
  cases p <;> simp only [writes, ingest_ttl_source, receive_ttl_source, announce_ttl_source, hn]

/-- … and leaves the node state exactly as it was (the step returns the state it was given). -/
theorem reject_state (cfg0 : Cfg) (off now E : Int) (p : Path) (c : ChunkSt)
    (h : Rejectable E (now + off) (effective cfg0).min_manifest_ttl) :
    arrive (effective cfg0) off now E p c = (c, false) := by
  unfold arrive
  rw [reject cfg0 off now E _ p h]

/-- a replica that fails decryption / the hash check changes nothing either -/
theorem reject_bad_replica (cfg0 : Cfg) (off now E : Int) (c : ChunkSt) :
    arrive (effective cfg0) off now E (.receive false) c = (c, false) := by
  have hw : writes (effective cfg0) off now E (c.shard.getD 0) (.receive false) = none := by
    simp only [writes]
    split <;> simp
  unfold arrive
  rw [hw]

/-- **C03.pending** (scheduler pass, any state) an entry whose recorded expiry has passed is dropped
    and nothing is dispatched for it, whatever the scheduler wanted to send … -/
theorem pending_dropped (cfg : Cfg) (off now : Int) (want : Nat) (c : ChunkSt) (p : Pending)
    (hp : c.pending = some p) (h0 : p.exp ≠ 0) (hdue : p.exp ≤ now + off) :
    (processPending cfg off now want c).pending = none ∧ dispatched off now want c = 0 := by
  have hd : pendingDue (now + off) p = true := by
    unfold pendingDue
    simp only [Bool.and_eq_true, bne_iff_ne, ne_eq, decide_eq_true_eq]
    exact ⟨h0, hdue⟩
  unfold processPending dispatched
  simp only [hp, hd, if_true]
  split <;> simp

/-- … and a request is only ever dispatched strictly before the recorded expiry. -/
theorem pending_dispatch_only_before (off now : Int) (want : Nat) (c : ChunkSt)
    (h : 0 < dispatched off now want c) :
    ∃ p, c.pending = some p ∧ (now + off < p.exp ∨ p.exp = 0) := by
  unfold dispatched at h
  split at h
  · omega
  · rename_i p hp
    refine ⟨p, hp, ?_⟩
    split at h
    · omega
    · split at h
      · omega
      · rename_i hnd
        unfold pendingDue at hnd
        simp only [Bool.and_eq_true, bne_iff_ne, ne_eq, decide_eq_true_eq, not_and, Int.not_le] at hnd
        by_cases hz : p.exp = 0
        · exact Or.inr hz
        · exact Or.inl (by have := hnd hz; omega)

/-- **C03.pending** (end to end) the pending fetch created by an accepted announce of a manifest
    expiring at `E` (arriving at a wall time after the epoch): at every later scheduler pass at or
    after `E` no fetch request is dispatched for it and the entry is gone after that pass. -/
theorem pending (cfg0 : Cfg) (off now0 E prev : Int) (peer : String) (attl : Int) (endpoint : Bool) (ws : List Write)
    (hwall : 0 < now0 + off)
    (hacc : writes (effective cfg0) off now0 E prev (.announce peer attl endpoint true false) = some ws)
    (d : Int) (hd : (⟨.pending, d⟩ : Write) ∈ ws)
    (now : Int) (want attempts : Nat) (c : ChunkSt) (hc : c.pending = some ⟨d, attempts, E⟩)
    (hlate : E ≤ now + off) :
    dispatched off now want c = 0 ∧ (processPending (effective cfg0) off now want c).pending = none := by
  have b := writes_bounded (effective cfg0) (window cfg0) off now0 E prev _ ws hacc _ hd
  simp only [Write.wall] at b
  -- the recorded expiry is the generated `pending_manifest_expires`, which is positive here
  have hpos : 0 < d := by
    simp only [writes, announce_ttl_source] at hacc
    split at hacc
    · cases hacc
    · rename_i ttl hm
      have r := manifest_ttl_some (effective cfg0) (window cfg0) E (now0 + off) ttl hm
      cases hacc
      simp only [List.mem_append, List.mem_cons, List.mem_nil_iff, or_false, Write.mk.injEq, reduceCtorEq, false_and,
        Bool.not_false, Bool.and_self, if_true, false_or] at hd
      have hpp := pending_expires_pos (effective cfg0) (window cfg0) E (now0 + off) hwall (by omega)
      cases endpoint <;> simp at hd <;> omega
  have r := pending_dropped (effective cfg0) off now want c ⟨d, attempts, E⟩ hc (by simp; omega) (by simp; omega)
  exact ⟨r.2, r.1⟩

/-! ### Histories -/

/-- an arrival: steady time, manifest expiry, path -/
structure Arrival where
  now : Int
  E : Int
  /-- deadline of the key-share record already cached for the chunk (anything) -/
  prev : Int
  path : Path

/-- every record written along a history, stamped with the arrival that wrote it -/
def history (cfg : Cfg) (off : Int) : List Arrival → List (Arrival × Write)
  | [] => []
  | a :: rest =>
    (match writes cfg off a.now a.E a.prev a.path with
     | none => []
     | some ws => ws.map fun w => (a, w)) ++ history cfg off rest

/-- **C03.derived over histories** along any sequence of arrivals (any times, expiries, paths,
    accepted or not), every record ever written ends no later than the manifest that caused it and at
    most max_ttl after that manifest's arrival -/
theorem derived_history (cfg0 : Cfg) (off : Int) (as : List Arrival) :
    ∀ aw ∈ history (effective cfg0) off as,
      NotAfterManifest aw.1.E (aw.2.wall off) ∧ Capped (aw.1.now + off) (effective cfg0).max_manifest_ttl (aw.2.wall off) := by
  induction as with
  | nil => intro aw h; simp [history] at h
  | cons a rest ih =>
    intro aw h
    simp only [history, List.mem_append] at h
    rcases h with h | h
    · split at h
      · simp at h
      · rename_i ws hw
        simp only [List.mem_map] at h
        obtain ⟨w, hwm, rfl⟩ := h
        exact derived cfg0 off a.now a.E a.prev a.path ws hw w hwm
    · exact ih aw h

/-! ### Non-vacuity -/

def exCfg : Cfg := { default_chunk_ttl := 60, min_manifest_ttl := 30, max_manifest_ttl := 100 }

/-- a manifest with 50.7 s left is accepted and its key shares expire 50 s later, before the manifest -/
example : writes (effective exCfg) 1000 5000 (5000 + 1000 + 50700000000) 0 .ingest = some [⟨.shard, 5000 + 50000000000⟩] := by decide
/-- 10 years ahead: every lifetime is capped at max_ttl = 100 s, the pending fetch included -/
example : writes (effective exCfg) 1000 5000 (5000 + 1000 + 315360000000000000) 0 (.announce "p1" 500 true true false)
    = some [⟨.shard, 5000 + 100000000000⟩, ⟨.contact "p1", 5000 + 100000000000⟩, ⟨.pending, 5000 + 1000 + 100000000000⟩] := by decide
/-- an announced TTL larger than the manifest's remaining life is cut down to it -/
example : writes (effective exCfg) 0 0 45000000000 0 (.announce "p1" 90 true false false)
    = some [⟨.shard, 45000000000⟩, ⟨.contact "p1", 45000000000⟩] := by decide
/-- 29.9 s left < min_ttl = 30 s: rejected; expired: rejected -/
example : writes (effective exCfg) 0 0 29900000000 0 .ingest = none := by decide
example : writes (effective exCfg) 0 7 7 0 (.receive true) = none := by decide
/-- a longer-lived record (90 s) for the same chunk id is already cached: the shorter manifest's shares still
    get the shorter deadline -/
example : writes (effective exCfg) 0 0 31000000000 90000000000 .ingest = some [⟨.shard, 31000000000⟩] := by decide
/-- a replica is stored with the manifest-derived TTL -/
example : writes (effective exCfg) 0 0 31000000000 0 (.receive true)
    = some [⟨.shard, 31000000000⟩, ⟨.contact "self", 31000000000⟩, ⟨.chunk, 31000000000⟩] := by decide
/-- the scheduler drops the entry exactly at its expiry and dispatches before it -/
example : (processPending (effective exCfg) 0 99 3 { pending := some ⟨100, 1, 100⟩ }).pending = some ⟨100, 4, 100⟩ := by decide
example : (processPending (effective exCfg) 0 100 3 { pending := some ⟨100, 1, 100⟩ }).pending = none := by decide

end EphVerif.C03
