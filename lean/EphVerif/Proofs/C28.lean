import EphVerif.Model.Control
import EphVerif.Spec.Control

namespace EphVerif.C28

/-- (T) the limits the property names -/
theorem limits_eq : Gen.C28.kStoreRateBurstLimit = 6 ∧ Gen.C28.kStoreRateWindow = 30 ∧
    Gen.C28.kFetchStreamBurstLimit = 12 ∧ Gen.C28.kFetchStreamRateWindow = 30 := by decide

end EphVerif.C28
