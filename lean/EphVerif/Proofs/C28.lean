/-
C28 — STORE admission enforces size, TTL, PoW and an unforgeable rate limit.

`admit_request` / `admit_connection`: an OK_STORE reply implies PAYLOAD-LENGTH present, payload within the
cap, TTL (header value reinterpreted as int64 seconds, or the default) inside [min, max], and -- when
store PoW is enabled -- a STORE-POW nonce for which `store_pow_valid(sha256(payload), size,
sanitised PATH, nonce)` holds (`sha` is any function; the validator is C19's model).
`too_large_reads_no_body`: a header block containing a PAYLOAD-LENGTH line above the cap is answered
with an error while the blank line and every body byte are still unread.
`rate_store` / `rate_fetch`: with no token configured, for every history of clock advances and
connections (any addresses, any bytes), every address gets at most 6 OK_STORE and at most 12
streamed OK_FETCH in every closed window of 30 s.
-/
import EphVerif.Lemmas.C28Admit
import EphVerif.Spec.Control

namespace EphVerif.C28
open EphVerif.Control

/-- (T) the limits the property names, as the code has them -/
theorem limits_eq : Gen.C28.kStoreRateBurstLimit = 6 ∧ Gen.C28.kStoreRateWindow = 30 ∧
    Gen.C28.kFetchStreamBurstLimit = 12 ∧ Gen.C28.kFetchStreamRateWindow = 30 := by decide

/-- (T) the comparisons of the two limiters and of the cap check have the strictness the proofs rely on -/
theorem comparisons_eq : Gen.C28.storeWindowStrict = 1 ∧ Gen.C28.storeLimitInclusive = 1 ∧
    Gen.C28.fetchWindowStrict = 1 ∧ Gen.C28.fetchLimitInclusive = 1 ∧ Gen.C28.payloadCapStrict = 1 ∧
    Gen.C28.ttlLowStrict = 1 ∧ Gen.C28.ttlHighStrict = 1 := by decide

/-- (T) with no token configured the bucket is not derived from the request's TOKEN header -/
theorem bucket_not_from_header : Gen.C28.storeIdentityFromHeader = 0 ∧ Gen.C28.fetchIdentityFromHeader = 0 := by decide

/-- (T) the default cap is the documented 32 MiB -/
theorem default_cap_eq : Gen.C28.kDefaultControlStreamBytes = 32 * 1024 * 1024 ∧
    Gen.C28.kConfigControlStreamMaxBytes = 32 * 1024 * 1024 := by decide

section
variable {ν : Type} (sha : Bytes → Bytes) (ops : NodeOps ν) (cfg : Config)

/-- **C28.admit** on a parsed request -/
theorem admit_request (now : Int) (addr : Bytes) (st : ServerState ν) (req : Request)
    (hok : (handleRequest sha ops cfg now addr st req).2.code = "OK_STORE") :
    Admitted sha cfg req (handleRequest sha ops cfg now addr st req).2 :=
  handleRequest_ok_store sha ops cfg now addr st req hok

/-- **C28.admit** on the bytes of a connection: an OK_STORE answer means the stream parsed into a
    request whose payload is within the cap and which passed every admission test -/
theorem admit_connection (now : Int) (addr : Bytes) (st : ServerState ν) (input : Bytes) (r : Reply)
    (hr : (handleClient sha ops cfg now addr st input).2 = some r) (hok : r.code = "OK_STORE") :
    ∃ req unread, parseRequest cfg.cap input = .ok req unread ∧ req.payload.length ≤ cfg.cap ∧ Admitted sha cfg req r := by
  unfold handleClient at hr
  cases hp : parseRequest cfg.cap input with
  | closed => rw [hp] at hr; simp at hr
  | error code u =>
    rw [hp] at hr
    simp only [Option.some.injEq] at hr
    have := (parseErrorCode_not_pass (parse_error_codes hp)).1
    rw [← hr] at hok
    simp only [err] at hok
    rw [hok] at this
    simp [storePassCode] at this
  | ok req u =>
    rw [hp] at hr
    simp only [Option.some.injEq] at hr
    refine ⟨req, u, rfl, parse_payload_le_cap hp, ?_⟩
    rw [← hr] at hok ⊢
    exact admit_request sha ops cfg now addr st req hok

end

/-- the TTL admitted is the value of the TTL header read as a decimal `uint64` and reinterpreted as
    `int64`, so a header value of 2^63 or more never lies inside a window of non-negative bounds -/
theorem wrapped_ttl_negative (n : Nat) (h1 : 9223372036854775808 ≤ n) (h2 : n < 18446744073709551616) : secondsOfU64 n < 0 := by
  unfold secondsOfU64
  have : ¬ n < 9223372036854775808 := by omega
  simp only [this, ↓reduceIte]
  omega

/-- **C28: a declared length above the cap is refused before any body byte is read.**
    `before`, `l`, `after` are the header lines (each a complete line within the 16 KiB limit), `l`
    declares `n > cap`; the daemon answers with an error (its own parse error, or that of an earlier
    malformed line) and the blank line plus the whole body are still unread. -/
theorem too_large_reads_no_body (cap : Nat) (before after : List Bytes) (l v body : Bytes) (n : Nat)
    (hgood : ∀ x ∈ before ++ l :: after, GoodLine serverMaxLine x)
    (hh : Spec.Control.header l = some (ascii "PAYLOAD-LENGTH", v)) (hv : parseU64 v = some n) (hn : n > cap) :
    ∃ code pre, parseRequest cap (wireLines (before ++ l :: after) ++ 10 :: body) = .error code (pre ++ 10 :: body) := by
  obtain ⟨s', pre, hf⟩ := foldLines_too_large hh hv hn after before {}
  obtain ⟨code, hc⟩ := foldLines_stop_error cap _ _ _ _ hf
  refine ⟨code, wireLines (pre ++ after), ?_⟩
  unfold parseRequest
  rw [lineLoop_block serverMaxLine (reqLine cap) _ body {} hgood, hf]
  simp only [hc]

/-- when every earlier header line is accepted, the error is ERR_CONTROL_PAYLOAD_TOO_LARGE and the
    unread bytes start right after the offending line -/
theorem too_large_code (cap : Nat) (before after : List Bytes) (l v body : Bytes) (n : Nat) (s : ReqState)
    (hgood : ∀ x ∈ before ++ l :: after, GoodLine serverMaxLine x)
    (hbefore : foldLines (reqLine cap) {} before = (s, none))
    (hh : Spec.Control.header l = some (ascii "PAYLOAD-LENGTH", v)) (hv : parseU64 v = some n) (hn : n > cap) :
    parseRequest cap (wireLines (before ++ l :: after) ++ 10 :: body) =
      .error "ERR_CONTROL_PAYLOAD_TOO_LARGE" (wireLines after ++ 10 :: body) := by
  have hf : ∀ (bs : List Bytes) (s0 : ReqState), foldLines (reqLine cap) s0 bs = (s, none) →
      foldLines (reqLine cap) s0 (bs ++ l :: after) =
        ({ s with sawAnyLines := true, error := some "ERR_CONTROL_PAYLOAD_TOO_LARGE" }, some after) := by
    intro bs
    induction bs with
    | nil => intro s0 h0; simp only [foldLines] at h0; injection h0 with h0 _; subst h0
             simp [foldLines, reqLine_too_large s0 hh hv hn]
    | cons b bs ih =>
      intro s0 h0
      rw [foldLines] at h0
      rw [List.cons_append, foldLines]
      cases hb : reqLine cap s0 (stripCR b) with
      | next st' => rw [hb] at h0; exact ih st' h0
      | stop st' => rw [hb] at h0; simp at h0
  unfold parseRequest
  rw [lineLoop_block serverMaxLine (reqLine cap) _ body {} hgood, hf before {} hbefore]

section
variable {ν : Type} (sha : Bytes → Bytes) (ops : NodeOps ν) (cfg : Config)

theorem window_eq : ((Gen.C28.kStoreRateWindow : Nat) : Int) * nsPerSecond = Spec.Control.windowNs ∧
    ((Gen.C28.kFetchStreamRateWindow : Nat) : Int) * nsPerSecond = Spec.Control.windowNs := by decide

/-- **C28.rate (STORE)**: no token configured; any node behaviour, any initial instant, any history of
    clock advances and connections from any addresses carrying any bytes; any address `a`, any
    window start `t`: at most 6 OK_STORE replies to `a` in `[t, t + 30 s]`. -/
theorem rate_store (htok : cfg.token = none) (node : ν) (now0 : Int) (evs : List Event) (a : Bytes) (t : Int) :
    Spec.Control.inWindow (timesOf (runEvents sha ops cfg now0 (ServerState.init node) [] evs).2.2 a "OK_STORE") t
      ≤ Spec.Control.storeLimit := by
  have hinv := runEvents_inv sha ops cfg htok evs now0 (ServerState.init node) [] (SysInv.init now0 node)
  have hb := (hinv.store a).2
  have hs := Bounded.sublist (timesOf_sublist_S _ a) hb
  have := hs t
  unfold countIn at this
  rw [window_eq.1] at this
  exact this

/-- **C28.rate (streamed FETCH)**: likewise at most 12 streamed OK_FETCH replies per address in every
    closed 30 s window. -/
theorem rate_fetch (htok : cfg.token = none) (node : ν) (now0 : Int) (evs : List Event) (a : Bytes) (t : Int) :
    Spec.Control.inWindow (streamTimesOf (runEvents sha ops cfg now0 (ServerState.init node) [] evs).2.2 a) t
      ≤ Spec.Control.fetchLimit := by
  have hinv := runEvents_inv sha ops cfg htok evs now0 (ServerState.init node) [] (SysInv.init now0 node)
  have hb := (hinv.fetch a).2
  have hs := Bounded.sublist (streamTimesOf_sublist_F _ a) hb
  have := hs t
  unfold countIn at this
  rw [window_eq.2] at this
  exact this

/-- the specification's universally quantified form -/
theorem rate_ok (htok : cfg.token = none) (node : ν) (now0 : Int) (evs : List Event) (a : Bytes) :
    Spec.Control.RateOk 6 (timesOf (runEvents sha ops cfg now0 (ServerState.init node) [] evs).2.2 a "OK_STORE") ∧
    Spec.Control.RateOk 12 (streamTimesOf (runEvents sha ops cfg now0 (ServerState.init node) [] evs).2.2 a) :=
  ⟨fun t => rate_store sha ops cfg htok node now0 evs a t, fun t => rate_fetch sha ops cfg htok node now0 evs a t⟩

end

/-! ## non-vacuity -/

/-- a node that stores nothing and knows no manifest -/
def unitOps : NodeOps Unit :=
  { decodeManifest := fun _ => none, ingest := fun _ _ => none, fetch := fun _ _ => none,
    store := fun _ _ _ _ => (), write := fun _ _ _ => none, stopTransport := fun _ => () }

def openCfg : Config := { token := none, powDifficulty := 0, cap := 8, minTtl := 30, maxTtl := 100, defaultTtl := 60 }

def storeBytes : Bytes := ascii "COMMAND:STORE\nTOKEN:whatever\nPAYLOAD-LENGTH:2\n\nhi"

/-- seven identical STOREs at one instant: six are accepted (so `admit` and `rate_store` talk about
    something), the seventh is refused by the limiter; one nanosecond past 30 s a further one is accepted -/
example :
    ((runEvents (fun _ => []) unitOps openCfg 0 (ServerState.init ()) []
        ((List.replicate 7 (Event.connect (ascii "10.0.0.1") storeBytes)) ++
          [Event.advance 30000000000, Event.connect (ascii "10.0.0.1") storeBytes,
           Event.advance 1, Event.connect (ascii "10.0.0.1") storeBytes])).2.2.map
      fun e => (e.reply.map (·.code)).getD "-") =
    ["OK_STORE", "OK_STORE", "OK_STORE", "OK_STORE", "OK_STORE", "OK_STORE", "ERR_STORE_RATE_LIMITED",
     "ERR_STORE_RATE_LIMITED", "OK_STORE"] := by decide

/-- a header block declaring 9 bytes with a cap of 8 -/
example : ∃ code pre, parseRequest 8 (wireLines ([ascii "COMMAND:STORE"] ++ ascii "payload-length:9\r" :: [ascii "TTL:60"]) ++ 10 :: ascii "123456789")
    = .error code (pre ++ 10 :: ascii "123456789") :=
  too_large_reads_no_body 8 [ascii "COMMAND:STORE"] [ascii "TTL:60"] (ascii "payload-length:9\r") (ascii "9") (ascii "123456789") 9
    (by decide) (by decide) (by decide) (by decide)

end EphVerif.C28
