/-
C10 — Shamir sharing reconstructs from any threshold subset and rejects bad sets.

Property theorems about the model `EphVerif.Shamir` (`Model/Shamir.lean`, the repaired
src/crypto/Shamir.cpp).  Helper lemmas: `Lemmas/C10*.lean`.
-/
import EphVerif.Lemmas.C10JointSecrecy

namespace EphVerif.C10
open EphVerif.Shamir EphVerif.C10L EphVerif.Gen.C10

/-- a secret as the property speaks of it: 32 bytes -/
def Secret (s : List Nat) : Prop := s.length = 32 ∧ ∀ b ∈ s, b < 256

/-! ### the share arithmetic is a field -/

/-- (T) The Lean transcription of `build_exp_table` / `build_log_table` (with the polynomial, loop bounds and sizes
    regenerated from the source) produces exactly the tables dumped from the compiled source. -/
theorem tables_match_source : expList = expTableLit ∧ logList = logTableLit := ⟨expList_eq, logList_eq⟩

/-- `(bytes, gf_add, gf_mul)` is a field: closure, commutativity, associativity, units, additive inverses
    (every element is its own), distributivity, multiplicative inverses, `0 ≠ 1`.
    (`Lemmas/C10GF.lean` packages the same facts as a Mathlib `Field` instance.) -/
theorem gf256_field :
    (∀ a b, a < 256 → b < 256 → gfAdd a b < 256 ∧ gfMul a b < 256) ∧
    (∀ a b, gfAdd a b = gfAdd b a ∧ gfMul a b = gfMul b a) ∧
    (∀ a b c, gfAdd (gfAdd a b) c = gfAdd a (gfAdd b c) ∧ gfMul (gfMul a b) c = gfMul a (gfMul b c)) ∧
    (∀ a, a < 256 → gfAdd a 0 = a ∧ gfAdd a a = 0 ∧ gfMul a 1 = a) ∧
    (∀ a b c, a < 256 → b < 256 → c < 256 → gfMul a (gfAdd b c) = gfAdd (gfMul a b) (gfMul a c)) ∧
    (∀ a, a < 256 → a ≠ 0 → ∃ b, b < 256 ∧ gfMul a b = 1) ∧
    (0 : Nat) ≠ 1 := by
  refine ⟨fun a b ha hb => ⟨xor_lt ha hb, gfMul_lt a b⟩, fun a b => ⟨Nat.xor_comm a b, gfMul_comm a b⟩,
    fun a b c => ⟨Nat.xor_assoc a b c, gfMul_assoc a b c⟩,
    fun a ha => ⟨Nat.xor_zero a, Nat.xor_self a, gfMul_one ha⟩,
    fun a b c ha hb hc => gfMul_xor ha hb hc,
    fun a ha ha0 => ⟨gfInv a, gfInv_lt a, gfMul_gfInv ha ha0⟩, by decide⟩

/-- `gf_div` throws exactly for a zero divisor and otherwise returns the quotient. -/
theorem gf_div (a b : Nat) (ha : a < 256) (hb : b < 256) :
    (b = 0 → gfDiv a b = .invalidArgument) ∧
    (b ≠ 0 → ∃ c, c < 256 ∧ gfDiv a b = .ok c ∧ gfMul c b = a) := by
  refine ⟨fun h => h ▸ gfDiv_zero a, fun h => ⟨gfMul a (gfInv b), gfMul_lt _ _, gfDiv_eq ha hb h, ?_⟩⟩
  rw [gfMul_assoc, gfMul_comm (gfInv b) b, gfMul_gfInv hb h, gfMul_one ha]

/-- The field is GF(2^8) = F₂[x]/(x^8+x^4+x^3+x^2+1): the log/exp-table product equals shift-and-add
    multiplication with reduction by 0x11D (`ShamirSpec.pmul`, written without the tables). -/
theorem gf_mul_is_polynomial_multiplication (a b : Nat) (ha : a < 256) (hb : b < 256) :
    gfMul a b = ShamirSpec.pmul a b := gfMul_eq_pmul ha hb

/-! ### split -/

/-- For every secret, every `1 ≤ t ≤ n ≤ 255` (including `n = 255`) and every outcome of the random draws, `split`
    terminates with `n` shares whose indices are exactly `1, …, n` (hence distinct and non-zero), and byte `b` of the
    share with index `x` is the value at `x` of the polynomial `secret[b] + c₁X + … + c_{t-1}X^{t-1}` whose `t - 1`
    coefficients are the draws made for byte `b`. -/
theorem split (rd : Nat → Nat) (secret : List Nat) (t n : Nat) (ht : 1 ≤ t) (htn : t ≤ n) (hn : n ≤ 255) :
    ∃ shares, Shamir.split rd secret t n = .ok shares ∧ shares.length = n ∧
      shares.map (·.index) = List.range' 1 n ∧
      (shares.map (·.index)).Nodup ∧ (∀ s ∈ shares, s.index ≠ 0 ∧ s.index ≤ 255) ∧
      ∀ s ∈ shares, s.value.length = secret.length ∧
        ∀ b, b < secret.length →
          (coeffsFor rd t b).length = t - 1 ∧
          s.value.getD b 0 = evalPoly s.index (secret.getD b 0) (coeffsFor rd t b) := by
  have hidx : ((List.range' 1 n).map (mkShare rd secret t)).map (·.index) = List.range' 1 n := by
    rw [List.map_map]
    conv => rhs; rw [← List.map_id (List.range' 1 n)]
    apply List.map_congr_left
    intro x hx
    have := List.mem_range'_1.1 hx
    exact mkShare_index rd secret t (by omega)
  refine ⟨_, split_eq rd secret ht htn hn, by simp, hidx, ?_, ?_, ?_⟩
  · rw [hidx]; exact List.nodup_range' ..
  · intro s hs
    obtain ⟨x, hx, rfl⟩ := List.mem_map.1 hs
    have := List.mem_range'_1.1 hx
    rw [mkShare_index rd secret t (by omega)]
    omega
  · intro s hs
    obtain ⟨x, hx, rfl⟩ := List.mem_map.1 hs
    have := List.mem_range'_1.1 hx
    refine ⟨mkShare_value_length .., fun b hb => ⟨coeffsFor_length .., ?_⟩⟩
    rw [mkShare_index rd secret t (by omega), mkShare_value_getD rd secret t (by omega) hb]

/-- The defect that was repaired, as a statement about the loop: with the original `std::uint8_t` counter
    (256 values) and `share_count = 255` the share-index loop never exits, for any amount of fuel. -/
theorem split_uint8_counter_never_exits (fuel : Nat) : shareIndices 256 255 fuel 1 [] = none :=
  shareIndices_uint8_255 fuel 1 [] (by decide)

/-! ### combine -/

/-- Any selection of the shares of a split, in any order, whose first `t` members carry distinct indices
    (in particular: any `t` different shares) reconstructs the secret. -/
theorem combine (rd : Nat → Nat) (secret : List Nat) (hsec : Secret secret) (t n : Nat)
    (ht : 1 ≤ t) (htn : t ≤ n) (hn : n ≤ 255) (shares : List Share)
    (hsplit : Shamir.split rd secret t n = .ok shares)
    (sel : List Share) (hsub : ∀ s ∈ sel, s ∈ shares) (hlen : t ≤ sel.length)
    (hnd : ((sel.take t).map (·.index)).Nodup) :
    Shamir.combine sel t = .ok secret := by
  rw [split_eq rd secret ht htn hn] at hsplit
  cases hsplit
  have hfrom : FromSplit rd secret t n (sel.take t) := by
    intro s hs
    obtain ⟨x, hx, rfl⟩ := List.mem_map.1 (hsub s (List.mem_of_mem_take hs))
    have := List.mem_range'_1.1 hx
    exact ⟨x, by omega, by omega, rfl⟩
  have := combineN_fromSplit rd secret hsec.2 ht hn sel hlen hfrom hnd
  rwa [hsec.1] at this

/-- Fewer than `t` shares: invalid-argument. -/
theorem reject_too_few (sel : List Share) (t : Nat) (h : sel.length < t) :
    Shamir.combine sel t = .invalidArgument := by
  simp [Shamir.combine, combineN, h]

/-- A repeated index, or index 0, among the shares used (the first `t`): invalid-argument – whatever the share
    values are (in particular also when they are all zero). -/
theorem reject_bad_indices (sel : List Share) (t : Nat)
    (h : ¬ ((sel.take t).map (·.index)).Nodup ∨ 0 ∈ (sel.take t).map (·.index)) :
    Shamir.combine sel t = .invalidArgument := by
  unfold Shamir.combine combineN
  split
  · rfl
  · have : validIndices ((sel.take t).map (·.index)) [] = false := by
      rw [Bool.eq_false_iff]
      intro hv
      have := (validIndices_nil_iff _).1 hv
      rcases h with h | h
      · exact h this.2
      · exact this.1 h
    simp only [this, Bool.false_eq_true, if_false]

/-- `combine` presents a value only for at least `t` shares whose used indices are distinct and non-zero;
    it never hangs. -/
theorem combine_value_only_if_wellformed (sel : List Share) (t : Nat) :
    Shamir.combine sel t ≠ .hang ∧
    ∀ v, Shamir.combine sel t = .ok v →
      t ≤ sel.length ∧ ((sel.take t).map (·.index)).Nodup ∧ 0 ∉ (sel.take t).map (·.index) := by
  by_cases hlen : sel.length < t
  · rw [reject_too_few sel t hlen]
    exact ⟨by simp, fun v h => by cases h⟩
  by_cases hbad : ¬ ((sel.take t).map (·.index)).Nodup ∨ 0 ∈ (sel.take t).map (·.index)
  · rw [reject_bad_indices sel t hbad]
    exact ⟨by simp, fun v h => by cases h⟩
  · have hnd : ((sel.take t).map (·.index)).Nodup := by
      by_contra h; exact hbad (Or.inl h)
    have h0 : 0 ∉ (sel.take t).map (·.index) := fun h => hbad (Or.inr h)
    exact ⟨combineN_ne_hang _ _ _, fun v _ => ⟨by omega, hnd, h0⟩⟩

/-- On well-formed input (bytes, at least `t` shares, distinct non-zero indices among the first `t`) `combine`
    returns a 32-byte value: the division inside `interpolate` cannot throw. -/
theorem combine_wellformed_ok (sel : List Share) (t : Nat) (hlen : t ≤ sel.length)
    (hb : ∀ s ∈ sel, s.index < 256 ∧ ∀ v ∈ s.value, v < 256)
    (hnd : ((sel.take t).map (·.index)).Nodup) (h0 : 0 ∉ (sel.take t).map (·.index)) :
    ∃ v, Shamir.combine sel t = .ok v ∧ v.length = 32 ∧ ∀ x ∈ v, x < 256 := by
  unfold Shamir.combine combineN
  rw [if_neg (by omega), if_pos ((validIndices_nil_iff _).2 ⟨h0, hnd⟩)]
  have hx : Bytes ((sel.take t).map (·.index)) := by
    intro v hv
    obtain ⟨s, hs, rfl⟩ := List.mem_map.1 hv
    exact (hb s (List.mem_of_mem_take hs)).1
  obtain ⟨v, h1, h2, h3⟩ := interpolate_total kInterpolateBytes (sel.take t) hx
    (fun s hs => (hb s (List.mem_of_mem_take hs)).2) hnd
  exact ⟨v, h1, by rw [h2]; exact kSecretBytes_eq.2, h3⟩

/-! ### fewer than `t` shares carry no information -/

/-- Fix any `t - 1` distinct non-zero share indices `xs` and any candidate secret byte `s`.  Then the map from the
    `t - 1` random coefficients of a byte's polynomial to the `t - 1` share values at `xs` is a bijection on byte
    vectors: every observation `vs` is explained by exactly one coefficient vector, whatever `s` is.  (With uniformly
    drawn coefficients the observed values are uniform and independent of the secret.) -/
theorem secrecy (t : Nat) (xs : List Nat) (hk : xs.length = t - 1) (hx : ∀ x ∈ xs, 1 ≤ x ∧ x ≤ 255)
    (hnd : xs.Nodup) (s : Nat) (hs : s < 256) (vs : List Nat) (hvl : vs.length = t - 1) (hvs : ∀ v ∈ vs, v < 256) :
    ∃! cs : List Nat, cs.length = t - 1 ∧ (∀ c ∈ cs, c < 256) ∧ xs.map (fun x => evalPoly x s cs) = vs := by
  have hxb : Bytes xs := fun x hx' => by have := hx x hx'; omega
  have h0 : 0 ∉ xs := fun h => by have := hx 0 h; omega
  obtain ⟨cs, ⟨h1, h2, h3⟩, huniq⟩ := secrecy_core hxb hnd h0 hs (hvl.trans hk.symm) hvs
  refine ⟨cs, ⟨h1.trans hk, h2, h3⟩, ?_⟩
  rintro cs' ⟨g1, g2, g3⟩
  exact huniq cs' (g1.trans hk.symm) g2 g3

/-- **Secrecy of the whole secret.**  (T) `Shamir::split` calls the random device inside its per-byte loop
    (`kDrawPerByte`, regenerated from the source), i.e. the coefficient of `X^(d+1)` of secret byte `b` is draw number
    `b·(t-1) + d`: distinct (byte, degree) pairs use distinct draws, and one split of a 32-byte secret consumes
    `32·(t-1)` draws. -/
theorem draws_fresh_per_byte :
    kDrawPerByte = true ∧
    (∀ t b d b' d', d < t - 1 → d' < t - 1 →
      drawIndex kDrawPerByte t b d = drawIndex kDrawPerByte t b' d' → b = b' ∧ d = d') ∧
    ∀ t, drawsConsumed kDrawPerByte 32 t = 32 * (t - 1) := by
  refine ⟨kDrawPerByte_eq, ?_, ?_⟩
  · intro t b d b' d' hd hd' h
    rw [kDrawPerByte_eq] at h
    exact drawIndex_perByte_injective hd hd' h
  · intro t
    simp [drawsConsumed, kDrawPerByte_eq, kDegreeStart_eq]

/-- Fix any `t - 1` distinct non-zero share indices `xs` and any 32-byte secret.  Then the map from the `32·(t-1)` draws
    of one `split` (written as the coefficient matrix `css`: row `b` = the `t-1` draws made for byte `b`; the draw stream is
    `streamOf (t-1) css`) to all `32·(t-1)` bytes of the shares at `xs` is a bijection: every observation `obs` of `t-1` share
    values is produced by exactly one draw sequence, whatever the secret is.  With independent uniform draws the `t-1`
    shares are therefore uniform and independent of the whole secret.  The statement is about `mkShare`, i.e. the
    consumption pattern of the source; it is false for the shared pattern (`shared_draws_leak`). -/
theorem secrecy_joint (t : Nat) (xs : List Nat) (hk : xs.length = t - 1) (hx : ∀ x ∈ xs, 1 ≤ x ∧ x ≤ 255)
    (hnd : xs.Nodup) (secret : List Nat) (hsec : Secret secret)
    (obs : List (List Nat)) (hol : obs.length = t - 1) (hob : ∀ o ∈ obs, o.length = 32 ∧ ∀ v ∈ o, v < 256) :
    ∃! css : List (List Nat), css.length = 32 ∧ (∀ cs ∈ css, cs.length = t - 1 ∧ ∀ c ∈ cs, c < 256) ∧
      xs.map (fun x => (mkShare (streamOf (t - 1) css) secret t x).value) = obs := by
  have hxb : Bytes xs := fun x hx' => by have := hx x hx'; omega
  have h0 : 0 ∉ xs := fun h => by have := hx 0 h; omega
  have hmk : ∀ rd x, mkShare rd secret t x = mkShareP true rd secret t x := by
    intro rd x; unfold mkShare; rw [kDrawPerByte_eq]
  simp only [hmk]
  obtain ⟨css, ⟨h1, h2, h3⟩, huniq⟩ := secrecy_joint_core hk hxb hnd h0 hsec.2 hol
    (fun o ho => ⟨(hob o ho).1.trans hsec.1.symm, (hob o ho).2⟩)
  refine ⟨css, ⟨h1.trans hsec.1, h2, h3⟩, ?_⟩
  rintro css' ⟨g1, g2, g3⟩
  exact huniq css' (g1.trans hsec.1.symm) g2 g3

/-- The other consumption pattern (draws made once, outside the per-byte loop, and shared by all bytes): every single
    share satisfies `value[i] ^ value[j] = secret[i] ^ secret[j]` – one share reveals the secret up to one byte. -/
theorem shared_draws_leak (rd : Nat → Nat) (secret : List Nat) (t x : Nat) (hx : x ≤ 255) (i j : Nat)
    (hi : i < secret.length) (hj : j < secret.length) :
    (mkShareP false rd secret t x).value.getD i 0 ^^^ (mkShareP false rd secret t x).value.getD j 0 =
      secret.getD i 0 ^^^ secret.getD j 0 :=
  shared_leak rd secret t (by omega) hi hj

/-- … hence with shared draws the map draws ↦ share bytes is not onto: no draw sequence makes the share with index 1
    of the secret `[0, 0]` (t = 2) equal to `[0, 1]`. -/
theorem shared_draws_secrecy_fails : ¬ ∃ rd : Nat → Nat, (mkShareP false rd [0, 0] 2 1).value = [0, 1] := by
  rintro ⟨rd, h⟩
  have := shared_draws_leak rd [0, 0] 2 1 (by decide) 0 1 (by decide) (by decide)
  rw [h] at this
  exact absurd this (by decide)

/-! ### non-vacuity -/

/-- a concrete instance: 32-byte secret, draws `7k + 3`, 2-of-3 -/
def exSecret : List Nat := List.range' 10 32
def exRd : Nat → Nat := fun k => 7 * k + 3

example : Secret exSecret := ⟨by decide, by decide⟩

example : Shamir.combine [mkShare exRd exSecret 2 3, mkShare exRd exSecret 2 1] 2 = .ok exSecret :=
  combine exRd exSecret ⟨by decide, by decide⟩ 2 3 (by decide) (by decide) (by decide) _
    (split_eq exRd exSecret (by decide) (by decide) (by decide)) _
    (by
      intro s h
      rcases List.mem_cons.1 h with rfl | h
      · exact List.mem_map.2 ⟨3, by decide, rfl⟩
      · rcases List.mem_cons.1 h with rfl | h
        · exact List.mem_map.2 ⟨1, by decide, rfl⟩
        · cases h)
    (by decide) (by decide +kernel)

example : Shamir.combine [⟨2, List.replicate 32 0⟩, ⟨2, List.replicate 32 0⟩] 2 = .invalidArgument :=
  reject_bad_indices _ _ (Or.inl (by decide))

example : Shamir.combine [⟨0, List.replicate 32 5⟩, ⟨2, List.replicate 32 0⟩] 2 = .invalidArgument :=
  reject_bad_indices _ _ (Or.inr (by decide))

example : ∃! cs : List Nat, cs.length = 3 - 1 ∧ (∀ c ∈ cs, c < 256) ∧ [4, 9].map (fun x => evalPoly x 77 cs) = [1, 200] :=
  secrecy 3 [4, 9] rfl (by decide) (by decide) 77 (by decide) [1, 200] rfl (by decide)

example : ∃! css : List (List Nat), css.length = 32 ∧ (∀ cs ∈ css, cs.length = 2 - 1 ∧ ∀ c ∈ cs, c < 256) ∧
    [3].map (fun x => (mkShare (streamOf (2 - 1) css) exSecret 2 x).value) = [List.replicate 32 5] :=
  secrecy_joint 2 [3] rfl (by decide) (by decide) exSecret ⟨by decide, by decide⟩ _ rfl (by decide)

end EphVerif.C10
