import EphVerif.Lemmas.C18Safe

/-!
C18 — manifest decoding is total and free of undefined behaviour.

The model's decoder (Model/Manifest.lean) is a total Lean function (structural recursion on the
count bytes and on the groups of four base64 characters: it cannot loop), whose result type names
every way the C++ can end: `ok`, `invalidArg` (throw std::invalid_argument), `oob` (a read outside
the buffer), `ub` (signed overflow in the clock conversion), `otherExc`.
-/
namespace EphVerif.C18
open EphVerif.Manifest EphVerif.Gen.C17

/-- **C18.**  For every string, decoding returns a manifest or throws `invalid_argument`:
    it never reads out of bounds, never overflows in the expiry conversion, never throws anything
    else.  (`Res.Acceptable r` is `r = ok _ ∨ r = invalidArg`.) -/
theorem total (uri : Bytes) : (decodeManifest uri).Acceptable := by
  unfold decodeManifest
  split
  · trivial
  · exact acc_bind (b64Decode_acceptable _) fun p _ => decodePayload_acc p

/-- the same, spelled out -/
theorem total_cases (uri : Bytes) : (∃ m, decodeManifest uri = .ok m) ∨ decodeManifest uri = .invalidArg := by
  have h := total uri
  cases hr : decodeManifest uri <;> simp_all [Res.Acceptable]

/-- the base64 stage alone: any string -/
theorem base64_total (s : Bytes) : (b64Decode s).Acceptable := b64Decode_acceptable s

/-- the accepted expiry range is the literal ±9 223 372 036 s, and inside it the conversion to
    `int64` nanoseconds is exact (no `ub`) -/
theorem expiry_conversion_safe (secs : Int) (h : minExpirySeconds ≤ secs ∧ secs ≤ maxExpirySeconds) :
    minExpirySeconds = -9223372036 ∧ maxExpirySeconds = 9223372036 ∧
    secondsToTicks secs = .ok (secs * 1000000000) := by
  rw [minExpirySeconds_eq, maxExpirySeconds_eq] at h
  exact ⟨minExpirySeconds_eq, maxExpirySeconds_eq, secondsToTicks_ok h⟩

/-- why the range check is needed (the defect repaired by fixes/C18-expiry-conversion-overflow):
    one second past the range the conversion is undefined behaviour -/
theorem expiry_unchecked_is_ub :
    secondsToTicks 9223372037 = .ub ∧ secondsToTicks (-9223372037) = .ub ∧
    secondsToTicks (toI64 9223372036854775807) = .ub := by decide

/-! ### non-vacuity: both acceptable outcomes occur, also for extreme expiry fields -/

/-- a minimal version-4 payload whose expiry field holds `u` (the examples below run the payload
    parser directly, so that they do not depend on the base64 table) -/
def expiryProbe (u : Nat) : Bytes :=
  4 :: (List.replicate 76 0 ++ (appendU64 u ++ List.replicate 10 0))

/-- the decoded tick count, if decoding returned a manifest -/
def expiryOf : Res Manifest → Option Int
  | .ok m => some m.expiresNs
  | _ => none

example : decodeManifest [] = .invalidArg := by decide
example : decodeManifest kScheme = .invalidArg := by decide +kernel
example : expiryOf (decodePayload (expiryProbe 9223372036)) = some 9223372036000000000 := by decide +kernel
example : decodePayload (expiryProbe 9223372037) = .invalidArg := by decide +kernel
example : decodePayload (expiryProbe 9223372036854775807) = .invalidArg := by decide +kernel
example : decodePayload (expiryProbe 9223372036854775808) = .invalidArg := by decide +kernel
example : expiryOf (decodePayload (expiryProbe 18446744073709551615)) = some (-1000000000) := by decide +kernel
example : expiryOf (decodePayload (expiryProbe (toU64 (-9223372036)))) = some (-9223372036000000000) := by decide +kernel
example : decodePayload (expiryProbe (toU64 (-9223372037))) = .invalidArg := by decide +kernel
/-- a payload cut by one byte is refused, not read past -/
example : decodePayload ((expiryProbe 0).take 94) = .invalidArg ∧ (expiryProbe 0).length = 95 := by decide +kernel

end EphVerif.C18
