/-
Model of `ChunkStore` (src/core/ChunkStore.cpp) and of the thin `Node` wrappers around it
(src/core/Node.cpp: store_chunk, fetch_chunk, export_chunk_record, handle_request, stored_chunks,
the sweep part of tick), for properties C01 and C04.

The model follows the code *after* the three repairs proposed with these properties:
  * fix C01-listing-expired          : `Node::stored_chunks` filters out records past their deadline;
  * fix C04-lookup-expiry-skips-wipe : `get_record` refuses an expired record but leaves it for
                                       `sweep_expired` (which wipes the file and reports the id);
  * fix C04-orphan-files-at-startup  : the constructor wipes every `*.chunk` file it finds.

Times are integers (nanoseconds of the steady clock), TTLs are integers (seconds), ids are opaque
strings, bytes are `List Nat`.  `unordered_map<string, ChunkRecord>` is an association list with
unique keys (`aset` = cons + erase).  The storage directory is an abstract file system
`FS = Name ⇀ Bytes`; every file-system effect of the code is a list of primitive operations
(`FsOp`), so that a crash is "apply only the first k operations".

What is *not* modelled: I/O errors (every FS operation succeeds), the mutex, `fsync` (never
called by the code), the encryption done by `Node::store_chunk` (the record's `plain` field is the
plaintext that `data` decrypts to: crypto round trip is property C11).
-/
import EphVerif.Generated.C01
import EphVerif.Generated.C04
import EphVerif.Spec.ChunkStore

namespace EphVerif.ChunkStore

abbrev Bytes := List Nat

/-! ### association lists (shared by the record table and the file system) -/
section Assoc
variable {κ : Type} {ν : Type} [DecidableEq κ]

def aget : List (κ × ν) → κ → Option ν
  | [], _ => none
  | (k, v) :: rest, x => if k = x then some v else aget rest x

def adel (l : List (κ × ν)) (x : κ) : List (κ × ν) := l.filter (fun e => !decide (e.1 = x))

def aset (l : List (κ × ν)) (x : κ) (v : ν) : List (κ × ν) := (x, v) :: adel l x

def Uniq (l : List (κ × ν)) : Prop := l.Pairwise (fun a b => a.1 ≠ b.1)
end Assoc

/-! ### records -/

structure Rec where
  data : Bytes
  /-- ghost: what `Node::fetch_chunk` returns for this record (= `data` for unencrypted records) -/
  plain : Bytes
  expires : Int
  encrypted : Bool
  nonce : Bytes
  persisted : Bool
deriving DecidableEq, Repr, Inhabited

abbrev Recs := List (String × Rec)

structure Cfg where
  /-- `config_.default_chunk_ttl` in seconds -/
  defaultTtl : Int
  persistent : Bool
  wipeOnExpiry : Bool
  /-- `wipe_passes_` (already `max(…, 1)`) -/
  passes : Nat
deriving Repr, Inhabited

def nsPerSec : Int := 1000000000

/-- the three expiry tests of the code; the comparison operator is regenerated from the source -/
def expiredGet (now e : Int) : Bool :=
  if EphVerif.Gen.C01.getRecordExpiredIsGe then decide (now ≥ e) else decide (now > e)
def expiredSweep (now e : Int) : Bool :=
  if EphVerif.Gen.C01.sweepExpiredIsGe then decide (now ≥ e) else decide (now > e)
def expiredList (now e : Int) : Bool :=
  if EphVerif.Gen.C01.listingExpiredIsGe then decide (now ≥ e) else decide (now > e)

/-- `put`: `ttl > 0 ? ttl : default`, then `max(…, kMinimumTtl)` (seconds) -/
def effTtl (cfg : Cfg) (ttl : Int) : Int :=
  let e := if ttl > 0 then ttl else cfg.defaultTtl
  if e < (EphVerif.Gen.C01.kMinimumTtlSec : Int) then (EphVerif.Gen.C01.kMinimumTtlSec : Int) else e

def mkRec (cfg : Cfg) (now : Int) (data plain : Bytes) (ttl : Int) (nonce : Bytes) (enc : Bool) : Rec :=
  { data := data, plain := plain, expires := now + effTtl cfg ttl * nsPerSec, encrypted := enc,
    nonce := nonce, persisted := cfg.persistent }

/-- in-memory effect of `ChunkStore::put` -/
def put (cfg : Cfg) (s : Recs) (now : Int) (id : String) (data plain : Bytes) (ttl : Int)
    (nonce : Bytes) (enc : Bool) : Recs :=
  aset s id (mkRec cfg now data plain ttl nonce enc)

/-- `ChunkStore::get_record` (repaired: no side effect) -/
def getRecord (s : Recs) (now : Int) (id : String) : Option Rec :=
  match aget s id with
  | none => none
  | some r => if expiredGet now r.expires then none else some r

def get (s : Recs) (now : Int) (id : String) : Option Bytes := (getRecord s now id).map (·.data)

/-- `ChunkStore::sweep_expired`: remaining records, removed ids -/
def sweep (s : Recs) (now : Int) : Recs × List String :=
  (s.filter (fun e => !expiredSweep now e.2.expires),
   (s.filter (fun e => expiredSweep now e.2.expires)).map (·.1))

/-- `ChunkStore::snapshot` (diagnostic view used by `audit_ttl`: includes expired-unswept records) -/
def snapshot (s : Recs) : List (String × Int × Bool × Nat) :=
  s.map fun e => (e.1, e.2.expires, e.2.encrypted, e.2.data.length)

/-! ### file system -/

inductive Name where
  /-- `<storage_root>/<hex id>.chunk` -/
  | chunk (id : String)
  /-- any other directory entry -/
  | other (n : String)
deriving DecidableEq, Repr, Inhabited

def Name.isChunk : Name → Bool
  | .chunk _ => true
  | .other _ => false

abbrev FS := List (Name × Bytes)

inductive FsOp where
  /-- `std::ofstream(path, binary|trunc)` -/
  | create (p : Name)
  /-- `stream.write(data)` + `flush` on the freshly created file -/
  | append (p : Name) (bs : Bytes)
  /-- one `stream.write(buffer, len)` of zero bytes at offset `off` of an existing file -/
  | zero (p : Name) (off len : Nat)
  /-- `std::filesystem::remove` -/
  | remove (p : Name)
deriving DecidableEq, Repr, Inhabited

def zeros (n : Nat) : Bytes := List.replicate n 0

def applyOp (fs : FS) : FsOp → FS
  | .create p => aset fs p []
  | .append p bs =>
    match aget fs p with
    | some old => aset fs p (old ++ bs)
    | none => fs
  | .zero p off len =>
    match aget fs p with
    | some old => aset fs p (old.take off ++ zeros len ++ old.drop (off + len))
    | none => fs
  | .remove p => adel fs p

def applyOps (fs : FS) (ops : List FsOp) : FS := ops.foldl applyOp fs

def wipeBuf : Nat := EphVerif.Gen.C04.kWipeBuffer

/-- one overwrite pass of `secure_wipe_file`: `while (remaining > 0) write(min(4096, remaining))` -/
def passOps (p : Name) : Nat → Nat → Nat → List FsOp
  | 0, _, _ => []
  | fuel + 1, off, rem =>
    if rem = 0 then [] else
      let c := if wipeBuf = 0 then rem else min wipeBuf rem
      .zero p off c :: passOps p fuel (off + c) (rem - c)

/-- all overwrite writes of `secure_wipe_file` for a file of `size` bytes -/
def overwriteOps (p : Name) (size passes : Nat) : List FsOp :=
  (List.replicate passes (passOps p size 0 size)).flatten

/-- `secure_wipe_file(path)`: nothing if the file does not exist, else passes then remove -/
def wipeOps (cfg : Cfg) (fs : FS) (p : Name) : List FsOp :=
  match aget fs p with
  | none => []
  | some bs => overwriteOps p bs.length cfg.passes ++ [.remove p]

/-- `persist_chunk_to_disk`: wipe a file already at the path, open-truncate, write -/
def persistOps (cfg : Cfg) (fs : FS) (p : Name) (data : Bytes) : List FsOp :=
  wipeOps cfg fs p ++ [.create p, .append p data]

/-- file-system operations of `ChunkStore::put`, in program order -/
def putOps (cfg : Cfg) (s : Recs) (fs : FS) (id : String) (data : Bytes) : List FsOp :=
  let p := Name.chunk id
  let o1 := match aget s id with
    | some r => if r.persisted then wipeOps cfg fs p else []
    | none => []
  let o2 := if cfg.persistent then persistOps cfg (applyOps fs o1) p data else []
  o1 ++ o2

/-- file-system operations of `sweep_expired`, records visited in table order -/
def sweepOps (cfg : Cfg) (now : Int) : Recs → FS → List FsOp
  | [], _ => []
  | (id, r) :: rest, fs =>
    if expiredSweep now r.expires && r.persisted && cfg.wipeOnExpiry then
      let o := wipeOps cfg fs (.chunk id)
      o ++ sweepOps cfg now rest (applyOps fs o)
    else sweepOps cfg now rest fs

/-- `purge_orphaned_chunk_files` (repair): wipe every regular `*.chunk` file of the directory,
    in directory order (`names` is the list collected by the directory scan) -/
def purgeOps (cfg : Cfg) : List Name → FS → List FsOp
  | [], _ => []
  | p :: rest, fs =>
    if p.isChunk then
      let o := wipeOps cfg fs p
      o ++ purgeOps cfg rest (applyOps fs o)
    else purgeOps cfg rest fs

/-- file-system operations of the constructor -/
def ctorOps (cfg : Cfg) (fs : FS) : List FsOp :=
  if cfg.persistent && cfg.wipeOnExpiry then purgeOps cfg (fs.map (·.1)) fs else []

/-! ### the store as a whole: memory + directory -/

structure Sys where
  recs : Recs
  fs : FS
deriving Repr, Inhabited

/-- a fresh instance on an existing directory -/
def boot (cfg : Cfg) (fs : FS) : Sys := { recs := [], fs := applyOps fs (ctorOps cfg fs) }

def sysPut (cfg : Cfg) (y : Sys) (now : Int) (id : String) (data plain : Bytes) (ttl : Int)
    (nonce : Bytes) (enc : Bool) : Sys :=
  { recs := put cfg y.recs now id data plain ttl nonce enc,
    fs := applyOps y.fs (putOps cfg y.recs y.fs id data) }

def sysSweep (cfg : Cfg) (y : Sys) (now : Int) : Sys × List String :=
  ({ recs := (sweep y.recs now).1, fs := applyOps y.fs (sweepOps cfg now y.recs y.fs) },
   (sweep y.recs now).2)

/-! ### `Node` wrappers -/

structure NodeCfg where
  store : Cfg
  /-- sanitised `min_manifest_ttl`, `max_manifest_ttl`, `cleanup_interval` (seconds) -/
  minTtl : Int
  maxTtl : Int
  cleanupInterval : Int
deriving Repr, Inhabited

/-- `clamp_chunk_ttl` -/
def clampChunkTtl (ttl minT maxT : Int) : Int :=
  let t := if ttl < minT then minT else ttl
  let t := if t > maxT then maxT else t
  if t ≤ 0 then (EphVerif.Gen.C01.kMinAllowedManifestTtlSec : Int) else t

/-- TTL handed to `ChunkStore::put` by `Node::store_chunk` -/
def nodeTtl (nc : NodeCfg) (ttl : Int) : Int :=
  clampChunkTtl (if ttl > 0 then ttl else nc.store.defaultTtl) nc.minTtl nc.maxTtl

/-- `Node::store_chunk` (chunk-store effect): `cipher` is what `encrypt_with_key` produced -/
def nodeStore (nc : NodeCfg) (y : Sys) (now : Int) (id : String) (plain cipher nonce : Bytes) (ttl : Int) : Sys :=
  sysPut nc.store y now id cipher plain (nodeTtl nc ttl) nonce true

/-- `Node::fetch_chunk` for a locally stored chunk -/
def nodeFetch (s : Recs) (now : Int) (id : String) : Option Bytes :=
  (getRecord s now id).map (·.plain)

/-- `Node::export_chunk_record` -/
def nodeExport (s : Recs) (now : Int) (id : String) : Option Rec := getRecord s now id

/-- `Node::handle_request` + `dispatch_upload`: the bytes sent to the peer, if any.  The cached
    manifest of a locally stored chunk expires at the same instant as the record; a request is
    refused when fewer than `min_manifest_ttl` whole seconds remain (`manifest_ttl`). -/
def nodeRequest (nc : NodeCfg) (s : Recs) (now : Int) (id : String) : Option Bytes :=
  match getRecord s now id with
  | none => none
  | some r =>
    let remaining := (r.expires - now) / nsPerSec
    if r.expires ≤ now then none
    else if remaining ≤ 0 then none
    else if remaining < nc.minTtl then none
    else some r.data

/-- `Node::stored_chunks` (repaired: expired-unswept records are not listed) -/
def nodeList (s : Recs) (now : Int) : List (String × Int × Bool × Nat) :=
  (snapshot s).filter fun e => !expiredList now e.2.1

/-- the chunk-store part of `Node::tick`: sweep when the cleanup interval has elapsed -/
def nodeTick (nc : NodeCfg) (y : Sys) (lastCleanup now : Int) : Sys × Int × Option (List String) :=
  if now - lastCleanup ≥ nc.cleanupInterval * nsPerSec then
    let r := sysSweep nc.store y now
    (r.1, now, some r.2)
  else (y, lastCleanup, none)

/-! ### histories: the operations of `StoreSpec.Op` executed by the model -/

open EphVerif.StoreSpec (Op Obs)

structure World where
  now : Int
  sys : Sys
  /-- `Node::last_cleanup_` -/
  lastCleanup : Int
deriving Repr, Inhabited

def recObs (o : Option Rec) : Obs := .record (o.map fun r => (r.data, r.expires))

def step (nc : NodeCfg) (w : World) : Op → World × Obs
  | .store id data ttl nonce enc =>
    ({ w with sys := sysPut nc.store w.sys w.now id data data ttl nonce enc }, .unit)
  | .nstore id plain cipher nonce ttl =>
    ({ w with sys := nodeStore nc w.sys w.now id plain cipher nonce ttl }, .unit)
  | .lookup id => (w, .bytes (get w.sys.recs w.now id))
  | .record id => (w, recObs (getRecord w.sys.recs w.now id))
  | .fetch id => (w, .bytes (nodeFetch w.sys.recs w.now id))
  | .request id => (w, .bytes (nodeRequest nc w.sys.recs w.now id))
  | .list => (w, .listing ((nodeList w.sys.recs w.now).map fun e => (e.1, e.2.1)))
  | .sweep =>
    let r := sysSweep nc.store w.sys w.now
    ({ w with sys := r.1 }, .removed r.2)
  | .tick =>
    let r := nodeTick nc w.sys w.lastCleanup w.now
    ({ w with sys := r.1, lastCleanup := r.2.1 }, match r.2.2 with | some l => .removed l | none => .unit)
  | .advance d => ({ w with now := w.now + d }, .unit)

/-- every observation of the model along a history is accepted by the specification -/
def accepted (nc : NodeCfg) (p : EphVerif.StoreSpec.Params) :
    World → EphVerif.StoreSpec.W → List Op → Bool
  | _, _, [] => true
  | w, a, op :: rest =>
    let r := step nc w op
    (EphVerif.StoreSpec.judge p a op r.2).isNone && accepted nc p r.1 (EphVerif.StoreSpec.step p a op) rest

/-! ### histories with restarts and crashes (C04) -/

inductive HOp where
  | op (o : Op)
  /-- the instance goes away (no file-system effect) and a new one is constructed on the directory -/
  | restart
  /-- the process dies after the first `k` file-system operations of `o` -/
  | crash (o : Op) (k : Nat)
  /-- a start-up attempt that dies after the first `k` file-system operations of the constructor -/
  | crashBoot (k : Nat)
deriving Repr, Inhabited

/-- file-system operations an operation performs, in program order -/
def fsOpsOf (nc : NodeCfg) (w : World) : Op → List FsOp
  | .store id data _ _ _ => putOps nc.store w.sys.recs w.sys.fs id data
  | .nstore id _ cipher _ _ => putOps nc.store w.sys.recs w.sys.fs id cipher
  | .sweep => sweepOps nc.store w.now w.sys.recs w.sys.fs
  | .tick =>
    if w.now - w.lastCleanup ≥ nc.cleanupInterval * nsPerSec then sweepOps nc.store w.now w.sys.recs w.sys.fs else []
  | _ => []

structure HWorld where
  w : World
  /-- is there a running instance? -/
  up : Bool
  /-- time of the most recent completed cleanup (sweep or constructor) of the running instance -/
  cleaned : Int
deriving Repr, Inhabited

def sweeps (nc : NodeCfg) (w : World) : Op → Bool
  | .sweep => true
  | .tick => decide (w.now - w.lastCleanup ≥ nc.cleanupInterval * nsPerSec)
  | _ => false

def hstep (nc : NodeCfg) (h : HWorld) : HOp → HWorld
  | .op o =>
    if h.up then
      { h with w := (step nc h.w o).1, cleaned := if sweeps nc h.w o then h.w.now else h.cleaned }
    else
      -- nobody is running: only the clock can move
      match o with
      | .advance d => { h with w := { h.w with now := h.w.now + d } }
      | _ => h
  | .restart =>
    { w := { h.w with sys := boot nc.store h.w.sys.fs, lastCleanup := h.w.now }, up := true, cleaned := h.w.now }
  | .crash o k =>
    if h.up then
      { h with w := { h.w with sys := { recs := [], fs := applyOps h.w.sys.fs ((fsOpsOf nc h.w o).take k) } }, up := false }
    else h
  | .crashBoot k =>
    { h with w := { h.w with sys := { recs := [], fs := applyOps h.w.sys.fs ((ctorOps nc.store h.w.sys.fs).take k) } }, up := false }

def hrun (nc : NodeCfg) (h : HWorld) (ops : List HOp) : HWorld := ops.foldl (hstep nc) h

end EphVerif.ChunkStore
