/-
Model of `ChunkStore` (src/core/ChunkStore.cpp) and of the thin `Node` wrappers around it
(src/core/Node.cpp: store_chunk, fetch_chunk, export_chunk_record, handle_request, stored_chunks,
the sweep part of tick), for properties C01 and C04.

The model follows the code *after* the three repairs proposed with these properties:
  * fix C01-listing-expired          : `Node::stored_chunks` filters out records past their deadline;
  * fix C04-lookup-expiry-skips-wipe : `get_record` refuses an expired record but leaves it for
                                       `sweep_expired` (which wipes the file and reports the id);
  * fix C04-orphan-files-at-startup  : the constructor wipes every `*.chunk` file it finds.

Times are integers (nanoseconds of the steady clock), TTLs are integers (seconds), ids are opaque
strings, bytes are `List Nat`.  `unordered_map<string, ChunkRecord>` is an association list with
unique keys (`aset` = cons + erase).  The storage directory is an abstract file system
`FS = Name ⇀ Bytes`; every file-system effect of the code is a list of primitive operations
(`FsOp`), so that a crash is "apply only the first k operations".

What is *not* modelled: I/O errors (every FS operation succeeds), the mutex, `fsync` (never
called by the code), the encryption done by `Node::store_chunk` (the record's `plain` field is the
plaintext that `data` decrypts to: crypto round trip is property C11).
-/
import EphVerif.Generated.C01
import EphVerif.Generated.C04
import EphVerif.Spec.ChunkStore

namespace EphVerif.ChunkStore

abbrev Bytes := List Nat

/-! ### association lists (shared by the record table and the file system) -/
section Assoc
variable {κ : Type} {ν : Type} [DecidableEq κ]

def aget : List (κ × ν) → κ → Option ν
  | [], _ => none
  | (k, v) :: rest, x => if k = x then some v else aget rest x

def adel (l : List (κ × ν)) (x : κ) : List (κ × ν) := l.filter (fun e => !decide (e.1 = x))

def aset (l : List (κ × ν)) (x : κ) (v : ν) : List (κ × ν) := (x, v) :: adel l x

def Uniq (l : List (κ × ν)) : Prop := l.Pairwise (fun a b => a.1 ≠ b.1)
end Assoc

/-! ### records -/

structure Rec where
  data : Bytes
  /-- ghost: what `Node::fetch_chunk` returns for this record (= `data` for unencrypted records) -/
  plain : Bytes
  expires : Int
  encrypted : Bool
  nonce : Bytes
  persisted : Bool
deriving DecidableEq, Repr, Inhabited

abbrev Recs := List (String × Rec)

structure Cfg where
  /-- `config_.default_chunk_ttl` in seconds -/
  defaultTtl : Int
  persistent : Bool
  wipeOnExpiry : Bool
  /-- `wipe_passes_` (already `max(…, 1)`) -/
  passes : Nat
deriving Repr, Inhabited

def nsPerSec : Int := 1000000000

/-- the three expiry tests of the code; the comparison operator is regenerated from the source -/
def expiredGet (now e : Int) : Bool :=
  if EphVerif.Gen.C01.getRecordExpiredIsGe then decide (now ≥ e) else decide (now > e)
def expiredSweep (now e : Int) : Bool :=
  if EphVerif.Gen.C01.sweepExpiredIsGe then decide (now ≥ e) else decide (now > e)
def expiredList (now e : Int) : Bool :=
  if EphVerif.Gen.C01.listingExpiredIsGe then decide (now ≥ e) else decide (now > e)

/-- `put`: `ttl > 0 ? ttl : default`, then `max(…, kMinimumTtl)` (seconds) -/
def effTtl (cfg : Cfg) (ttl : Int) : Int :=
  let e := if ttl > 0 then ttl else cfg.defaultTtl
  if e < (EphVerif.Gen.C01.kMinimumTtlSec : Int) then (EphVerif.Gen.C01.kMinimumTtlSec : Int) else e

def mkRec (cfg : Cfg) (now : Int) (data plain : Bytes) (ttl : Int) (nonce : Bytes) (enc : Bool) : Rec :=
  { data := data, plain := plain, expires := now + effTtl cfg ttl * nsPerSec, encrypted := enc,
    nonce := nonce, persisted := cfg.persistent }

/-- in-memory effect of `ChunkStore::put` -/
def put (cfg : Cfg) (s : Recs) (now : Int) (id : String) (data plain : Bytes) (ttl : Int)
    (nonce : Bytes) (enc : Bool) : Recs :=
  aset s id (mkRec cfg now data plain ttl nonce enc)

/-- `ChunkStore::get_record` (repaired: no side effect) -/
def getRecord (s : Recs) (now : Int) (id : String) : Option Rec :=
  match aget s id with
  | none => none
  | some r => if expiredGet now r.expires then none else some r

def get (s : Recs) (now : Int) (id : String) : Option Bytes := (getRecord s now id).map (·.data)

/-- `ChunkStore::sweep_expired`: remaining records, removed ids -/
def sweep (s : Recs) (now : Int) : Recs × List String :=
  (s.filter (fun e => !expiredSweep now e.2.expires),
   (s.filter (fun e => expiredSweep now e.2.expires)).map (·.1))

/-- `ChunkStore::snapshot` (diagnostic view used by `audit_ttl`: includes expired-unswept records) -/
def snapshot (s : Recs) : List (String × Int × Bool × Nat) :=
  s.map fun e => (e.1, e.2.expires, e.2.encrypted, e.2.data.length)

/-! ### file system -/

inductive Name where
  /-- `<storage_root>/<hex id>.chunk` -/
  | chunk (id : String)
  /-- any other directory entry -/
  | other (n : String)
deriving DecidableEq, Repr, Inhabited

def Name.isChunk : Name → Bool
  | .chunk _ => true
  | .other _ => false

abbrev FS := List (Name × Bytes)

inductive FsOp where
  /-- `std::ofstream(path, binary|trunc)` -/
  | create (p : Name)
  /-- `stream.write(data)` + `flush` on the freshly created file -/
  | append (p : Name) (bs : Bytes)
  /-- one `stream.write(buffer, len)` of zero bytes at offset `off` of an existing file -/
  | zero (p : Name) (off len : Nat)
  /-- `std::filesystem::remove` -/
  | remove (p : Name)
deriving DecidableEq, Repr, Inhabited

def zeros (n : Nat) : Bytes := List.replicate n 0

def applyOp (fs : FS) : FsOp → FS
  | .create p => aset fs p []
  | .append p bs =>
    match aget fs p with
    | some old => aset fs p (old ++ bs)
    | none => fs
  | .zero p off len =>
    match aget fs p with
    | some old => aset fs p (old.take off ++ zeros len ++ old.drop (off + len))
    | none => fs
  | .remove p => adel fs p

def applyOps (fs : FS) (ops : List FsOp) : FS := ops.foldl applyOp fs

def wipeBuf : Nat := EphVerif.Gen.C04.kWipeBuffer

/-- one overwrite pass of `secure_wipe_file`: `while (remaining > 0) write(min(4096, remaining))` -/
def passOps (p : Name) : Nat → Nat → Nat → List FsOp
  | 0, _, _ => []
  | fuel + 1, off, rem =>
    if rem = 0 then [] else
      let c := if wipeBuf = 0 then rem else min wipeBuf rem
      .zero p off c :: passOps p fuel (off + c) (rem - c)

/-- all overwrite writes of `secure_wipe_file` for a file of `size` bytes -/
def overwriteOps (p : Name) (size passes : Nat) : List FsOp :=
  (List.replicate passes (passOps p size 0 size)).flatten

/-- `secure_wipe_file(path)`: nothing if the file does not exist, else passes then remove -/
def wipeOps (cfg : Cfg) (fs : FS) (p : Name) : List FsOp :=
  match aget fs p with
  | none => []
  | some bs => overwriteOps p bs.length cfg.passes ++ [.remove p]

/-! ### I/O errors

Every file-system *call* the code makes on a chunk file (open for wiping, one buffer write, open
with truncation, the payload write, unlink) has an index within its operation, in program order.
`Faults` says which calls fail and, for a failing write, how many bytes still get through (a short
write followed by ENOSPC).  A failed call has no effect on the directory beyond those bytes.
The routines below mirror the C++ control flow *including its error handling* (after the repair
C04-retry-failed-wipes) and return the file-system operations that took effect. -/

abbrev Faults := List (Nat × Nat)

def faultAt (φ : Faults) (i : Nat) : Option Nat := aget φ i

/-- what a failing write still does: a strict prefix of the intended bytes -/
def truncOp : FsOp → Nat → List FsOp
  | .zero p off len, s => if min s (len - 1) = 0 then [] else [.zero p off (min s (len - 1))]
  | .append p bs, s => if min s (bs.length - 1) = 0 then [] else [.append p (bs.take (min s (bs.length - 1)))]
  | _, _ => []

/-- a run of write calls on an open stream: after the first failure the stream is in the failed
    state and nothing more is written.  Returns (effective ops, next call index, all succeeded) -/
def writesF (φ : Faults) : List FsOp → Nat → List FsOp × Nat × Bool
  | [], n => ([], n, true)
  | o :: r, n =>
    match faultAt φ n with
    | some s => (truncOp o s, n + 1, false)
    | none => ((o :: (writesF φ r (n + 1)).1), (writesF φ r (n + 1)).2.1, (writesF φ r (n + 1)).2.2)

/-- `secure_wipe_file(path)` with I/O errors: `true` iff the file does not exist afterwards.
    Open failure: nothing happens.  Write failure: the remaining passes are skipped, the unlink is
    still attempted.  Unlink failure: the (overwritten) file stays. -/
def wipeF (cfg : Cfg) (φ : Faults) (fs : FS) (p : Name) (n : Nat) : List FsOp × Nat × Bool :=
  match aget fs p with
  | none => ([], n, true)
  | some bs =>
    match faultAt φ n with
    | some _ => ([], n + 1, false)
    | none =>
      let w := writesF φ (overwriteOps p bs.length cfg.passes) (n + 1)
      match faultAt φ w.2.1 with
      | some _ => (w.1, w.2.1 + 1, false)
      | none => (w.1 ++ [.remove p], w.2.1 + 1, true)

/-- `secure_wipe_file` for each path in turn (`wipe_or_retry_later`): the paths whose wipe failed
    are returned; they go to `pending_wipes_`. -/
def wipeAllF (cfg : Cfg) (φ : Faults) : List Name → FS → Nat → List FsOp × Nat × List Name
  | [], _, n => ([], n, [])
  | p :: rest, fs, n =>
    let w := wipeF cfg φ fs p n
    let r := wipeAllF cfg φ rest (applyOps fs w.1) w.2.1
    (w.1 ++ r.1, r.2.1, if w.2.2 then r.2.2 else p :: r.2.2)

structure PersistRes where
  ops : List FsOp
  n : Nat
  /-- return value of `persist_chunk_to_disk` -/
  ok : Bool
  /-- the clean-up wipe after a failure failed too: the path goes to `pending_wipes_` -/
  defer : Bool
deriving Repr, Inhabited

/-- `persist_chunk_to_disk` with I/O errors: wipe a file already at the path (result ignored, the
    open-truncate below replaces whatever is left), open-truncate, write+flush; on a failed open or
    write, `wipe_or_retry_later(path)` and report failure. -/
def persistF (cfg : Cfg) (φ : Faults) (fs : FS) (p : Name) (data : Bytes) (n : Nat) : PersistRes :=
  let o1 := wipeF cfg φ fs p n
  let fs1 := applyOps fs o1.1
  match faultAt φ o1.2.1 with
  | some _ =>
    let c := wipeF cfg φ fs1 p (o1.2.1 + 1)
    { ops := o1.1 ++ c.1, n := c.2.1, ok := false, defer := !c.2.2 }
  | none =>
    let n2 := o1.2.1 + 1
    if data.isEmpty then { ops := o1.1 ++ [.create p], n := n2, ok := true, defer := false }
    else
      match faultAt φ n2 with
      | some s =>
        let part := truncOp (.append p data) s
        let c := wipeF cfg φ (applyOps fs1 (.create p :: part)) p (n2 + 1)
        { ops := o1.1 ++ (.create p :: part) ++ c.1, n := c.2.1, ok := false, defer := !c.2.2 }
      | none => { ops := o1.1 ++ [.create p, .append p data], n := n2 + 1, ok := true, defer := false }

structure PutRes where
  ops : List FsOp
  n : Nat
  persisted : Bool
  pending : List Name
deriving Repr, Inhabited

/-- file-system side of `ChunkStore::put`: wipe the file of the record being replaced
    (`wipe_or_retry_later`), then persist; `pending` is `pending_wipes_` afterwards -/
def oldWipeF (cfg : Cfg) (φ : Faults) (s : Recs) (fs : FS) (id : String) : List FsOp × Nat × Bool :=
  match aget s id with
  | some r => if r.persisted then wipeF cfg φ fs (.chunk id) 0 else ([], 0, true)
  | none => ([], 0, true)

def putF (cfg : Cfg) (φ : Faults) (s : Recs) (fs : FS) (pending : List Name) (id : String) (data : Bytes) : PutRes :=
  let p := Name.chunk id
  let o1 := oldWipeF cfg φ s fs id
  let pend1 := if o1.2.2 then pending else p :: pending
  if cfg.persistent then
    let pr := persistF cfg φ (applyOps fs o1.1) p data o1.2.1
    let pend2 := pend1.filter (fun q => !decide (q = p))
    { ops := o1.1 ++ pr.ops, n := pr.n, persisted := pr.ok, pending := if pr.defer then p :: pend2 else pend2 }
  else { ops := o1.1, n := o1.2.1, persisted := false, pending := pend1 }

/-- does the sweep at `now` wipe the file of this record? -/
def wiped (cfg : Cfg) (now : Int) (r : Rec) : Bool := expiredSweep now r.expires && r.persisted && cfg.wipeOnExpiry

/-- the paths `sweep_expired` wipes, in order: first the wipes still owed (`retry_pending_wipes`),
    then the files of the expired persisted records in table order -/
def sweepNames (cfg : Cfg) (now : Int) (s : Recs) (pending : List Name) : List Name :=
  pending ++ (s.filter (fun e => wiped cfg now e.2)).map (fun e => Name.chunk e.1)

/-- the paths the constructor purges: every `*.chunk` entry of the directory, in directory order -/
def purgeNames (cfg : Cfg) (fs : FS) : List Name :=
  if cfg.persistent && cfg.wipeOnExpiry then (fs.map (·.1)).filter (·.isChunk) else []

/-! ### the store as a whole: memory + directory -/

structure Sys where
  recs : Recs
  fs : FS
  /-- `pending_wipes_`: files whose wipe failed; every sweep tries again -/
  pending : List Name := []
deriving Repr, Inhabited

/-- a fresh instance on an existing directory -/
def bootF (cfg : Cfg) (φ : Faults) (fs : FS) : Sys :=
  let w := wipeAllF cfg φ (purgeNames cfg fs) fs 0
  { recs := [], fs := applyOps fs w.1, pending := w.2.2 }

def boot (cfg : Cfg) (fs : FS) : Sys := bootF cfg [] fs

/-- file-system operations of the constructor (no I/O errors) -/
def ctorOps (cfg : Cfg) (fs : FS) : List FsOp := (wipeAllF cfg [] (purgeNames cfg fs) fs 0).1

def mkRecP (cfg : Cfg) (now : Int) (data plain : Bytes) (ttl : Int) (nonce : Bytes) (enc : Bool) (persisted : Bool) : Rec :=
  { mkRec cfg now data plain ttl nonce enc with persisted := persisted }

def sysPutF (cfg : Cfg) (φ : Faults) (y : Sys) (now : Int) (id : String) (data plain : Bytes) (ttl : Int)
    (nonce : Bytes) (enc : Bool) : Sys :=
  let r := putF cfg φ y.recs y.fs y.pending id data
  { recs := aset y.recs id (mkRecP cfg now data plain ttl nonce enc r.persisted),
    fs := applyOps y.fs r.ops, pending := r.pending }

def sysPut (cfg : Cfg) (y : Sys) (now : Int) (id : String) (data plain : Bytes) (ttl : Int)
    (nonce : Bytes) (enc : Bool) : Sys := sysPutF cfg [] y now id data plain ttl nonce enc

def sysSweepF (cfg : Cfg) (φ : Faults) (y : Sys) (now : Int) : Sys × List String :=
  let w := wipeAllF cfg φ (sweepNames cfg now y.recs y.pending) y.fs 0
  ({ recs := (sweep y.recs now).1, fs := applyOps y.fs w.1, pending := w.2.2 }, (sweep y.recs now).2)

def sysSweep (cfg : Cfg) (y : Sys) (now : Int) : Sys × List String := sysSweepF cfg [] y now

/-! ### `Node` wrappers -/

structure NodeCfg where
  store : Cfg
  /-- sanitised `min_manifest_ttl`, `max_manifest_ttl`, `cleanup_interval` (seconds) -/
  minTtl : Int
  maxTtl : Int
  cleanupInterval : Int
deriving Repr, Inhabited

/-- `clamp_chunk_ttl` -/
def clampChunkTtl (ttl minT maxT : Int) : Int :=
  let t := if ttl < minT then minT else ttl
  let t := if t > maxT then maxT else t
  if t ≤ 0 then (EphVerif.Gen.C01.kMinAllowedManifestTtlSec : Int) else t

/-- TTL handed to `ChunkStore::put` by `Node::store_chunk` -/
def nodeTtl (nc : NodeCfg) (ttl : Int) : Int :=
  clampChunkTtl (if ttl > 0 then ttl else nc.store.defaultTtl) nc.minTtl nc.maxTtl

/-- `Node::store_chunk` (chunk-store effect): `cipher` is what `encrypt_with_key` produced -/
def nodeStoreF (nc : NodeCfg) (φ : Faults) (y : Sys) (now : Int) (id : String) (plain cipher nonce : Bytes) (ttl : Int) : Sys :=
  sysPutF nc.store φ y now id cipher plain (nodeTtl nc ttl) nonce true

def nodeStore (nc : NodeCfg) (y : Sys) (now : Int) (id : String) (plain cipher nonce : Bytes) (ttl : Int) : Sys :=
  nodeStoreF nc [] y now id plain cipher nonce ttl

/-- `Node::fetch_chunk` for a locally stored chunk -/
def nodeFetch (s : Recs) (now : Int) (id : String) : Option Bytes :=
  (getRecord s now id).map (·.plain)

/-- `Node::export_chunk_record` -/
def nodeExport (s : Recs) (now : Int) (id : String) : Option Rec := getRecord s now id

/-- `Node::handle_request` + `dispatch_upload`: the bytes sent to the peer, if any.  The cached
    manifest of a locally stored chunk expires at the same instant as the record; a request is
    refused when fewer than `min_manifest_ttl` whole seconds remain (`manifest_ttl`). -/
def nodeRequest (nc : NodeCfg) (s : Recs) (now : Int) (id : String) : Option Bytes :=
  match getRecord s now id with
  | none => none
  | some r =>
    let remaining := (r.expires - now) / nsPerSec
    if r.expires ≤ now then none
    else if remaining ≤ 0 then none
    else if remaining < nc.minTtl then none
    else some r.data

/-- `Node::stored_chunks` (repaired: expired-unswept records are not listed) -/
def nodeList (s : Recs) (now : Int) : List (String × Int × Bool × Nat) :=
  (snapshot s).filter fun e => !expiredList now e.2.1

/-- the chunk-store part of `Node::tick`: sweep when the cleanup interval has elapsed -/
def nodeTickF (nc : NodeCfg) (φ : Faults) (y : Sys) (lastCleanup now : Int) : Sys × Int × Option (List String) :=
  if now - lastCleanup ≥ nc.cleanupInterval * nsPerSec then
    let r := sysSweepF nc.store φ y now
    (r.1, now, some r.2)
  else (y, lastCleanup, none)

def nodeTick (nc : NodeCfg) (y : Sys) (lastCleanup now : Int) : Sys × Int × Option (List String) :=
  nodeTickF nc [] y lastCleanup now

/-! ### histories: the operations of `StoreSpec.Op` executed by the model -/

open EphVerif.StoreSpec (Op Obs)

structure World where
  now : Int
  sys : Sys
  /-- `Node::last_cleanup_` -/
  lastCleanup : Int
deriving Repr, Inhabited

def recObs (o : Option Rec) : Obs := .record (o.map fun r => (r.data, r.expires))

/-- one operation under the I/O errors `φ` (indices count the file-system calls of this operation) -/
def stepF (nc : NodeCfg) (φ : Faults) (w : World) : Op → World × Obs
  | .store id data ttl nonce enc =>
    ({ w with sys := sysPutF nc.store φ w.sys w.now id data data ttl nonce enc }, .unit)
  | .nstore id plain cipher nonce ttl =>
    ({ w with sys := nodeStoreF nc φ w.sys w.now id plain cipher nonce ttl }, .unit)
  | .lookup id => (w, .bytes (get w.sys.recs w.now id))
  | .record id => (w, recObs (getRecord w.sys.recs w.now id))
  | .fetch id => (w, .bytes (nodeFetch w.sys.recs w.now id))
  | .request id => (w, .bytes (nodeRequest nc w.sys.recs w.now id))
  | .list => (w, .listing ((nodeList w.sys.recs w.now).map fun e => (e.1, e.2.1)))
  | .sweep =>
    let r := sysSweepF nc.store φ w.sys w.now
    ({ w with sys := r.1 }, .removed r.2)
  | .tick =>
    let r := nodeTickF nc φ w.sys w.lastCleanup w.now
    ({ w with sys := r.1, lastCleanup := r.2.1 }, match r.2.2 with | some l => .removed l | none => .unit)
  | .advance d => ({ w with now := w.now + d }, .unit)

/-- one operation without I/O errors -/
def step (nc : NodeCfg) (w : World) (o : Op) : World × Obs := stepF nc [] w o

/-- every observation of the model along a history is accepted by the specification -/
def accepted (nc : NodeCfg) (p : EphVerif.StoreSpec.Params) :
    World → EphVerif.StoreSpec.W → List Op → Bool
  | _, _, [] => true
  | w, a, op :: rest =>
    let r := step nc w op
    (EphVerif.StoreSpec.judge p a op r.2).isNone && accepted nc p r.1 (EphVerif.StoreSpec.step p a op) rest

/-! ### histories with restarts and crashes (C04) -/

inductive HOp where
  | op (o : Op)
  /-- the operation runs with the I/O errors `φ` -/
  | fail (o : Op) (φ : Faults)
  /-- the instance goes away (no file-system effect) and a new one is constructed on the directory -/
  | restart
  /-- a start-up whose purge hits the I/O errors `φ` -/
  | restartF (φ : Faults)
  /-- the process dies after the first `k` file-system operations of `o` -/
  | crash (o : Op) (k : Nat)
  /-- a start-up attempt that dies after the first `k` file-system operations of the constructor -/
  | crashBoot (k : Nat)
deriving Repr, Inhabited

/-- does this operation run the sweep? -/
def sweeps (nc : NodeCfg) (w : World) : Op → Bool
  | .sweep => true
  | .tick => decide (w.now - w.lastCleanup ≥ nc.cleanupInterval * nsPerSec)
  | _ => false

/-- file-system operations an operation performs, in program order, under the I/O errors `φ` -/
def fsOpsOfF (nc : NodeCfg) (φ : Faults) (w : World) : Op → List FsOp
  | .store id data _ _ _ => (putF nc.store φ w.sys.recs w.sys.fs w.sys.pending id data).ops
  | .nstore id _ cipher _ _ => (putF nc.store φ w.sys.recs w.sys.fs w.sys.pending id cipher).ops
  | .sweep => (wipeAllF nc.store φ (sweepNames nc.store w.now w.sys.recs w.sys.pending) w.sys.fs 0).1
  | .tick =>
    if w.now - w.lastCleanup ≥ nc.cleanupInterval * nsPerSec then
      (wipeAllF nc.store φ (sweepNames nc.store w.now w.sys.recs w.sys.pending) w.sys.fs 0).1
    else []
  | _ => []

def fsOpsOf (nc : NodeCfg) (w : World) (o : Op) : List FsOp := fsOpsOfF nc [] w o

/-- number of file-system calls (fault indices) the operation makes when none fails -/
def callsOf (nc : NodeCfg) (w : World) : Op → Nat
  | .store id data _ _ _ => (putF nc.store [] w.sys.recs w.sys.fs w.sys.pending id data).n
  | .nstore id _ cipher _ _ => (putF nc.store [] w.sys.recs w.sys.fs w.sys.pending id cipher).n
  | .sweep => (wipeAllF nc.store [] (sweepNames nc.store w.now w.sys.recs w.sys.pending) w.sys.fs 0).2.1
  | .tick =>
    if w.now - w.lastCleanup ≥ nc.cleanupInterval * nsPerSec then
      (wipeAllF nc.store [] (sweepNames nc.store w.now w.sys.recs w.sys.pending) w.sys.fs 0).2.1
    else 0
  | _ => 0

structure HWorld where
  w : World
  /-- is there a running instance? -/
  up : Bool
  /-- time of the most recent sweep or start-up of the running instance -/
  cleaned : Int
deriving Repr, Inhabited

def hstepOp (nc : NodeCfg) (φ : Faults) (h : HWorld) (o : Op) : HWorld :=
  if h.up then
    { h with w := (stepF nc φ h.w o).1, cleaned := if sweeps nc h.w o then h.w.now else h.cleaned }
  else
    -- nobody is running: only the clock can move
    match o with
    | .advance d => { h with w := { h.w with now := h.w.now + d } }
    | _ => h

def hstep (nc : NodeCfg) (h : HWorld) : HOp → HWorld
  | .op o => hstepOp nc [] h o
  | .fail o φ => hstepOp nc φ h o
  | .restart =>
    { w := { h.w with sys := boot nc.store h.w.sys.fs, lastCleanup := h.w.now }, up := true, cleaned := h.w.now }
  | .restartF φ =>
    { w := { h.w with sys := bootF nc.store φ h.w.sys.fs, lastCleanup := h.w.now }, up := true, cleaned := h.w.now }
  | .crash o k =>
    if h.up then
      { h with w := { h.w with sys := { recs := [], fs := applyOps h.w.sys.fs ((fsOpsOf nc h.w o).take k) } }, up := false }
    else h
  | .crashBoot k =>
    { h with w := { h.w with sys := { recs := [], fs := applyOps h.w.sys.fs ((ctorOps nc.store h.w.sys.fs).take k) } }, up := false }

def hrun (nc : NodeCfg) (h : HWorld) (ops : List HOp) : HWorld := ops.foldl (hstep nc) h

end EphVerif.ChunkStore
