/-
Model of src/crypto/HmacSha256.cpp as it is: `compute` (long keys hashed, zero-padded key block,
ipad/opad, two streaming hashers fed in two `update` calls each) and `verify` (length check, then
the accumulation loop with the operators the extractor read from the source).  Sizes and pad bytes come from `Generated/C08.lean`.
Core Lean only.
-/
import EphVerif.Model.Sha256

namespace EphVerif.Model.Hmac
open EphVerif.Gen.C08
open EphVerif.Model

/-- `std::array<uint8_t, kBlockSize> key_block{}` after `std::copy(src, key_block.begin())` -/
def copyIntoBlock (src : List UInt8) : List UInt8 :=
  src.take hmacBlockSize ++ List.replicate (hmacBlockSize - src.length) 0

def keyBlock (key : List UInt8) : List UInt8 :=
  if key.length > hmacBlockSize then copyIntoBlock (Sha256.digest key) else copyIntoBlock key

/-- `HmacSha256::compute` -/
def compute (key data : List UInt8) : List UInt8 :=
  let kb := keyBlock key
  let oKeyPad := kb.map (· ^^^ UInt8.ofNat opad)
  let iKeyPad := kb.map (· ^^^ UInt8.ofNat ipad)
  let innerHash := Sha256.finalize (Sha256.update (Sha256.update Sha256.init iKeyPad) data)
  Sha256.finalize (Sha256.update (Sha256.update Sha256.init oKeyPad) innerHash)

/-! ### `HmacSha256::verify`

The comparison loop is interpreted from what the extractor found in the source
(`Generated/C08.lean`: `verifyAccInit`, `verifyAccOp`, `verifyDiffOp`, `verifyFinalCmp`,
`verifyFinalConst`):

    std::uint8_t diff = <init>;
    for (i < expected.size()) diff <acc>= static_cast<std::uint8_t>(expected[i] <diff> mac[i]);
    return diff <cmp> <const>;

so a change of the accumulation operator (`|=` → `+=`, `^=`, `=` …), of the per-byte difference or
of the final test changes the model, and `Lemmas/C08Hmac.lean` carries the obligation that they are
`|`, `^`, `== 0` (which is what makes the loop an equality test). -/

/-- a C++ binary operator on `uint8_t` operands, result truncated to `uint8_t`
    (`""` is plain assignment: the right operand) -/
def binOp (op : String) (a b : UInt8) : UInt8 :=
  if op = "|" then a ||| b
  else if op = "^" then a ^^^ b
  else if op = "&" then a &&& b
  else if op = "+" then a + b
  else if op = "-" then a - b
  else if op = "*" then a * b
  else b

/-- `diff <cmp> <const>` after integral promotion -/
def finalTest (cmp : String) (c : Nat) (diff : UInt8) : Bool :=
  if cmp = "==" then diff.toNat == c
  else if cmp = "!=" then diff.toNat != c
  else if cmp = "<" then decide (diff.toNat < c)
  else if cmp = "<=" then decide (diff.toNat ≤ c)
  else if cmp = ">" then decide (diff.toNat > c)
  else decide (diff.toNat ≥ c)

/-- the accumulation loop `diff <acc>= uint8(expected[i] <diff> mac[i])` for `i < expected.size()` -/
def accumulateDiff : UInt8 → List UInt8 → List UInt8 → UInt8
  | diff, e :: es, m :: ms => accumulateDiff (binOp verifyAccOp diff (binOp verifyDiffOp e m)) es ms
  | diff, _, _ => diff

/-- `HmacSha256::verify` (`mac[i]` is in bounds because of the length check) -/
def verify (key data mac : List UInt8) : Bool :=
  if mac.length ≠ hmacDigestSize then false
  else finalTest verifyFinalCmp verifyFinalConst (accumulateDiff (UInt8.ofNat verifyAccInit) (compute key data) mac)

end EphVerif.Model.Hmac
