/-
Model of src/crypto/HmacSha256.cpp as it is: `compute` (long keys hashed, zero-padded key block,
ipad/opad, two streaming hashers fed in two `update` calls each) and `verify` (length check, then
OR-accumulated byte differences).  Sizes and pad bytes come from `Generated/C08.lean`.
Core Lean only.
-/
import EphVerif.Model.Sha256

namespace EphVerif.Model.Hmac
open EphVerif.Gen.C08
open EphVerif.Model

/-- `std::array<uint8_t, kBlockSize> key_block{}` after `std::copy(src, key_block.begin())` -/
def copyIntoBlock (src : List UInt8) : List UInt8 :=
  src.take hmacBlockSize ++ List.replicate (hmacBlockSize - src.length) 0

def keyBlock (key : List UInt8) : List UInt8 :=
  if key.length > hmacBlockSize then copyIntoBlock (Sha256.digest key) else copyIntoBlock key

/-- `HmacSha256::compute` -/
def compute (key data : List UInt8) : List UInt8 :=
  let kb := keyBlock key
  let oKeyPad := kb.map (· ^^^ UInt8.ofNat opad)
  let iKeyPad := kb.map (· ^^^ UInt8.ofNat ipad)
  let innerHash := Sha256.finalize (Sha256.update (Sha256.update Sha256.init iKeyPad) data)
  Sha256.finalize (Sha256.update (Sha256.update Sha256.init oKeyPad) innerHash)

/-- the accumulation loop `diff |= expected[i] ^ mac[i]` for `i < expected.size()` -/
def accumulateDiff : UInt8 → List UInt8 → List UInt8 → UInt8
  | diff, e :: es, m :: ms => accumulateDiff (diff ||| (e ^^^ m)) es ms
  | diff, _, _ => diff

/-- `HmacSha256::verify` (`mac[i]` is in bounds because of the length check) -/
def verify (key data mac : List UInt8) : Bool :=
  if mac.length ≠ hmacDigestSize then false
  else accumulateDiff 0 (compute key data) mac == 0

end EphVerif.Model.Hmac
