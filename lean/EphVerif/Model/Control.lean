/-
The control-plane handlers of the daemon (properties C27 and C28), core Lean only.

Mirrors src/daemon/ControlServer.cpp after the `fix:` patches fixes/C27-*.patch and
fixes/C28-*.patch:
  constant_time_equal, hashed_token_identity (as an injective tag), allow_store_request,
  allow_stream_fetch, note_store_pow_failure, clear_store_pow_failures, handle_client (dispatch),
  handle_stop, handle_store, handle_fetch.

The node behind the handlers is abstract (`NodeOps`): the theorems hold for every behaviour of
manifest decoding, registration, chunk lookup, storing and file writing.  Time is the value of
`steady_clock::now()` in nanoseconds at the moment the request is handled.
-/
import EphVerif.Model.ControlWire
import EphVerif.Model.Pow

namespace EphVerif.Control

/-! ## `constant_time_equal` -/

/-- `diff |= expected[i] ^ provided[i]` over the common length -/
def xorFold : Bytes → Bytes → UInt8 → UInt8
  | e :: es, p :: ps, diff => xorFold es ps (diff ||| (e ^^^ p))
  | _, _, diff => diff

def constantTimeEqual (expected provided : Bytes) : Bool :=
  if expected.length != provided.length then false else xorFold expected provided 0 == 0

/-! ## configuration and state -/

structure Config where
  /-- `cfg.control_token` -/
  token : Option Bytes
  /-- `cfg.store_pow_difficulty` -/
  powDifficulty : Nat
  /-- `max_control_stream_bytes()` -/
  cap : Nat
  minTtl : Int
  maxTtl : Int
  defaultTtl : Int
deriving Repr

/-- key of a rate-limit bucket: the peer address (`remote_identity`) or
    `hashed_token_identity(token)` (SHA-256 of the token, taken as injective) -/
inductive Identity where
  | addr (a : Bytes)
  | token (t : Bytes)
deriving DecidableEq, Repr

/-- what the handlers use of `Node`, `protocol::decode_manifest` and the file system -/
structure NodeOps (ν : Type) where
  /-- `protocol::decode_manifest(uri)`: the chunk the manifest names; `none` = throws -/
  decodeManifest : Bytes → Option Bytes
  /-- `node.ingest_manifest(uri)`: `none` = returned false, otherwise the node with the manifest registered -/
  ingest : ν → Bytes → Option ν
  /-- `node.fetch_chunk(chunk_id)` -/
  fetch : ν → Bytes → Option Bytes
  /-- `node.store_chunk(derive_chunk_id(payload), payload, ttl, name)` -/
  store : ν → Bytes → Int → Option Bytes → ν
  /-- `write_file_bytes(absolute(OUT), data)`: `none` = throws -/
  write : ν → Bytes → Bytes → Option ν
  /-- `node.stop_transport()` -/
  stopTransport : ν → ν

structure ServerState (ν : Type) where
  node : ν
  storeHist : Identity → List Int
  fetchHist : Identity → List Int
  powFailures : Identity → List Int
  /-- `transport_stopped_` -/
  transportStopped : Bool
  /-- number of times `stop_callback_` ran -/
  stopCalls : Nat

def ServerState.init {ν : Type} (node : ν) : ServerState ν :=
  { node := node, storeHist := fun _ => [], fetchHist := fun _ => [], powFailures := fun _ => [],
    transportStopped := false, stopCalls := 0 }

def setHist (h : Identity → List Int) (i : Identity) (v : List Int) : Identity → List Int :=
  fun j => if j = i then v else h j

/-! ## sliding windows -/

def nsPerSecond : Int := 1000000000

/-- `history.erase(remove_if(.., now - timestamp > window), ..)` -/
def prune (strict : Nat) (windowS : Nat) (now : Int) (h : List Int) : List Int :=
  h.filter fun ts => !cmpGt strict (now - ts) (windowS * nsPerSecond)

/-- `allow_store_request` / `allow_stream_fetch`: (allowed?, history afterwards) -/
def allow (strict inclusive windowS limit : Nat) (now : Int) (h : List Int) : Bool × List Int :=
  let h' := prune strict windowS now h
  if (if inclusive = 1 then decide (h'.length ≥ limit) else decide (h'.length > limit)) then (false, h')
  else (true, h' ++ [now])

def allowStore (now : Int) (h : List Int) : Bool × List Int :=
  allow Gen.C28.storeWindowStrict Gen.C28.storeLimitInclusive Gen.C28.kStoreRateWindow Gen.C28.kStoreRateBurstLimit now h

def allowFetch (now : Int) (h : List Int) : Bool × List Int :=
  allow Gen.C28.fetchWindowStrict Gen.C28.fetchLimitInclusive Gen.C28.kFetchStreamRateWindow Gen.C28.kFetchStreamBurstLimit now h

/-- `note_store_pow_failure`: (locked?, history afterwards) -/
def notePowFailure (now : Int) (h : List Int) : Bool × List Int :=
  let h' := prune 1 Gen.C28.kStorePowFailureWindow now h ++ [now]
  (decide (h'.length ≥ Gen.C28.kStorePowFailureLimit), h')

/-! ## replies -/

structure Reply where
  success : Bool
  code : String
  /-- OK_STORE: payload, TTL used, filename hint -/
  stored : Option (Bytes × Int × Option Bytes) := none
  /-- OK_FETCH with STREAM: the bytes sent as payload -/
  streamed : Option Bytes := none
  /-- OK_FETCH with OUT: path and data written -/
  written : Option (Bytes × Bytes) := none
deriving Repr, DecidableEq

def err (code : String) : Reply := { success := false, code := code }

/-! ## authentication -/

inductive Auth where
  | ok | missing | invalid
deriving DecidableEq, Repr

/-- the token test every gated handler starts with -/
def checkToken (cfg : Config) (fields : Fields) : Auth :=
  match cfg.token with
  | none => .ok
  | some expected =>
    match getLast fields (ascii "TOKEN") with
    | none => .missing
    | some provided => if constantTimeEqual expected provided then .ok else .invalid
where
  /-- `fields.find(key)` on the map `parse_request` built with `fields[key] = value` -/
  getLast (fs : Fields) (k : Bytes) : Option Bytes := getField fs k

/-- `rate_identity` after the C28 repair: the token bucket when a token is configured (the request
    has passed `checkToken`, so its TOKEN is the configured one), the peer address otherwise -/
def rateIdentity (cfg : Config) (addr : Bytes) : Identity :=
  match cfg.token with
  | some t => .token t
  | none => .addr addr

/-! ## handlers -/

section
variable {ν : Type} (sha : Bytes → Bytes) (ops : NodeOps ν) (cfg : Config)

/-- `handle_stop` -/
def handleStop (st : ServerState ν) (req : Request) : ServerState ν × Reply :=
  if checkToken cfg req.fields ≠ .ok then (st, err "ERR_STOP_UNAUTHENTICATED")
  else
    let shouldStopTransport := !st.transportStopped
    let node' := if shouldStopTransport then ops.stopTransport st.node else st.node
    ({ st with node := node', transportStopped := true, stopCalls := st.stopCalls + 1 },
     { success := true, code := "OK_STOP" })

/-- `std::chrono::seconds(uint64)`: the value reinterpreted as `int64` -/
def secondsOfU64 (n : Nat) : Int := if n < 9223372036854775808 then n else (n : Int) - 18446744073709551616

/-- the rest of `handle_store` once the request has passed the rate limiter: proof of work, then
    `node.store_chunk` -/
def storeAdmitted (now : Int) (ident : Identity) (st : ServerState ν) (req : Request) (ttl : Int) : ServerState ν × Reply :=
  let hint : Option Bytes := (getField req.fields (ascii "PATH")).bind Pow.sanitizeFilenameHint
  let work : Pow.StoreFields := { chunkId := sha req.payload, payloadSize := req.payload.length, filenameHint := hint.getD [] }
  let powFail (plain : String) : ServerState ν × Reply :=
    let f := notePowFailure now (st.powFailures ident)
    ({ st with powFailures := setHist st.powFailures ident f.2 }, err (if f.1 then "ERR_STORE_POW_LOCKED" else plain))
  let accept : ServerState ν × Reply :=
    ({ st with powFailures := setHist st.powFailures ident [], node := ops.store st.node req.payload ttl hint },
     { success := true, code := "OK_STORE", stored := some (req.payload, ttl, hint) })
  if cfg.powDifficulty > 0 then
    match getField req.fields (ascii "STORE-POW") with
    | none => powFail "ERR_STORE_POW_REQUIRED"
    | some v =>
      match parseU64 v with
      | none => powFail "ERR_STORE_POW_INVALID"
      | some nonce =>
        if Pow.storePowValid sha work nonce cfg.powDifficulty then accept else powFail "ERR_STORE_POW_INVALID"
  else accept

/-- the TTL of a STORE request: the TTL header (decimal `uint64`, reinterpreted as `int64` seconds) or
    the configured default; `none` = ERR_STORE_TTL_INVALID -/
def requestTtl (req : Request) : Option Int :=
  match getField req.fields (ascii "TTL") with
  | none => some cfg.defaultTtl
  | some v => (parseU64 v).map secondsOfU64

/-- `ttl < min_ttl || ttl > max_ttl` -/
def ttlOutOfRange (ttl : Int) : Bool :=
  cmpGt Gen.C28.ttlLowStrict cfg.minTtl ttl || cmpGt Gen.C28.ttlHighStrict ttl cfg.maxTtl

/-- `handle_store` -/
def handleStore (now : Int) (addr : Bytes) (st : ServerState ν) (req : Request) : ServerState ν × Reply :=
  if checkToken cfg req.fields ≠ .ok then (st, err "ERR_STORE_UNAUTHENTICATED")
  else if !req.payloadHeaderPresent then (st, err "ERR_STORE_PAYLOAD_REQUIRED")
  else if req.payload.length > cfg.cap then (st, err "ERR_STORE_PAYLOAD_TOO_LARGE")
  else
    match requestTtl cfg req with
    | none => (st, err "ERR_STORE_TTL_INVALID")
    | some ttl =>
      if ttlOutOfRange cfg ttl then (st, err "ERR_STORE_TTL_OUT_OF_RANGE")
      else
        let ident := rateIdentity cfg addr
        let lim := allowStore now (st.storeHist ident)
        let st := { st with storeHist := setHist st.storeHist ident lim.2 }
        if !lim.1 then (st, err "ERR_STORE_RATE_LIMITED")
        else storeAdmitted sha ops cfg now ident st req ttl

/-- the STREAM values that select streaming to the client -/
def streamToClient (fields : Fields) : Bool :=
  match getField fields (ascii "STREAM") with
  | none => false
  | some v =>
    let mode := toUpper v
    mode == ascii "CLIENT" || mode == ascii "1" || mode == ascii "TRUE" || mode == ascii "YES"

/-- the end of `handle_fetch` once the chunk is at hand: stream it (rate limited) or write it to OUT -/
def fetchDeliver (now : Int) (addr : Bytes) (st : ServerState ν) (stream : Bool) (out : Option Bytes) (data : Bytes) :
    ServerState ν × Reply :=
  if stream then
    let ident := rateIdentity cfg addr
    let lim := allowFetch now (st.fetchHist ident)
    let st := { st with fetchHist := setHist st.fetchHist ident lim.2 }
    if !lim.1 then (st, err "ERR_FETCH_RATE_LIMITED")
    else if data.length > cfg.cap then (st, err "ERR_FETCH_PAYLOAD_TOO_LARGE")
    else (st, { success := true, code := "OK_FETCH", streamed := some data })
  else
    match out with
    | none => (st, err "ERR_FETCH_OUT_REQUIRED")
    | some path =>
      match ops.write st.node path data with
      | none => (st, err "ERR_FETCH_WRITE_FAILED")
      | some node' => ({ st with node := node' }, { success := true, code := "OK_FETCH", written := some (path, data) })

/-- `handle_fetch` -/
def handleFetch (now : Int) (addr : Bytes) (st : ServerState ν) (req : Request) : ServerState ν × Reply :=
  if checkToken cfg req.fields ≠ .ok then (st, err "ERR_FETCH_UNAUTHENTICATED")
  else
    match getField req.fields (ascii "MANIFEST") with
    | none => (st, err "ERR_FETCH_MANIFEST_REQUIRED")
    | some uri =>
      match ops.decodeManifest uri with
      | none => (st, err "ERR_FETCH_MANIFEST_INVALID")
      | some chunk =>
        let out := getField req.fields (ascii "OUT")
        let stream := streamToClient req.fields
        if !stream && out.isNone then (st, err "ERR_FETCH_OUT_REQUIRED")
        else
          match ops.ingest st.node uri with
          | none => (st, err "ERR_FETCH_MANIFEST_REGISTRATION")
          | some node' =>
            let st := { st with node := node' }
            match ops.fetch node' chunk with
            | none => (st, err "ERR_FETCH_CHUNK_MISSING")
            | some data => fetchDeliver ops cfg now addr st stream out data

/-- the commands that only read state -/
def readOnlyCode (command : Bytes) : Option String :=
  if command = ascii "PING" then some "OK_PING"
  else if command = ascii "STATUS" then some "OK_STATUS"
  else if command = ascii "LIST" then some "OK_LIST"
  else if command = ascii "DEFAULTS" then some "OK_DEFAULTS"
  else if command = ascii "METRICS" then some "OK_METRICS"
  else if command = ascii "DIAGNOSTICS" then some "OK_DIAGNOSTICS"
  else none

/-- dispatch of `handle_client` on a parsed request -/
def handleRequest (now : Int) (addr : Bytes) (st : ServerState ν) (req : Request) : ServerState ν × Reply :=
  match getField req.fields (ascii "COMMAND") with
  | none => (st, err "ERR_MISSING_COMMAND")
  | some c =>
    let command := toUpper c
    if command = ascii "STOP" then handleStop ops cfg st req
    else if command = ascii "STORE" then handleStore sha ops cfg now addr st req
    else if command = ascii "FETCH" then handleFetch ops cfg now addr st req
    else match readOnlyCode command with
      | some code => (st, { success := true, code := code })
      | none => (st, err "ERR_UNSUPPORTED_COMMAND")

/-- `handle_client`: everything the daemon does with one connection.  `none` = the connection is
    closed without a response. -/
def handleClient (now : Int) (addr : Bytes) (st : ServerState ν) (input : Bytes) : ServerState ν × Option Reply :=
  match parseRequest cfg.cap input with
  | .closed => (st, none)
  | .error code _ => (st, some (err code))
  | .ok req _ =>
    let (st', r) := handleRequest sha ops cfg now addr st req
    (st', some r)

/-! ## histories -/

/-- what happens to the daemon: the clock advances, or a peer connects and sends bytes -/
inductive Event where
  | advance (ns : Nat)
  | connect (addr input : Bytes)
deriving Repr

structure LogEntry where
  time : Int
  addr : Bytes
  reply : Option Reply
deriving Repr

/-- the daemon handling a history of events, connection after connection (one accept thread) -/
def runEvents : Int → ServerState ν → List LogEntry → List Event → Int × ServerState ν × List LogEntry
  | now, st, log, [] => (now, st, log)
  | now, st, log, .advance d :: es => runEvents (now + d) st log es
  | now, st, log, .connect addr input :: es =>
    let r := handleClient sha ops cfg now addr st input
    runEvents now r.1 (log ++ [{ time := now, addr := addr, reply := r.2 }]) es

end

def replyHasCode (code : String) : Option Reply → Bool
  | some r => r.code == code
  | none => false

def replyStreamed : Option Reply → Bool
  | some r => r.code == "OK_FETCH" && r.streamed.isSome
  | none => false

/-- the instants at which address `a` got a reply with code `code` -/
def timesOf (log : List LogEntry) (a : Bytes) (code : String) : List Int :=
  (log.filter fun e => e.addr == a && replyHasCode code e.reply).map (·.time)

/-- the instants at which address `a` got a streamed OK_FETCH -/
def streamTimesOf (log : List LogEntry) (a : Bytes) : List Int :=
  (log.filter fun e => e.addr == a && replyStreamed e.reply).map (·.time)

end EphVerif.Control
