/-
Model of the proof-of-work code of EphemeralNet (property C19), core Lean only.

Mirrors, function by function:
  src/core/Node.cpp              to_big_endian_bytes, update_length_prefixed (8-byte prefix),
                                 announce_pow_digest, handshake_pow_digest, count_leading_zero_bits,
                                 announce_pow_valid, handshake_pow_valid, derive_pow_seed,
                                 derive_handshake_seed, compute_announce_pow, compute_handshake_pow,
                                 sanitize_config (difficulty caps), Node::verify_announce_pow
  src/security/StoreProof.cpp    to_big_endian, update_length_prefixed (4-byte prefix, clamped),
                                 pow_digest, count_leading_zero_bits, store_pow_valid,
                                 compute_store_pow, sanitize_filename_hint
  src/bootstrap/TokenChallenge.cpp  write_nonce, digest_meets_difficulty, solve_token_challenge
  src/main.cpp                   count_leading_zero_bits, transport_handshake_digest,
                                 transport_pow_valid, compute_transport_pow, the `store` command's
                                 PATH / filename-hint glue
  src/daemon/Control{Client,Server}.cpp  header line serialisation / recv_line (for the PATH value)

The hash function is a parameter (`sha`) everywhere: the theorems of C19 hold for every function
`List UInt8 → List UInt8`; the driver instantiates it with `EphVerif.Spec.sha256`.
Numbers are unbounded `Nat`; every place where the C++ truncates to 64/32/8 bits is explicit.
-/
import EphVerif.Generated.C19

namespace EphVerif.Pow
open EphVerif.Gen

/-! ## byte encoders -/

/-- `w` bytes, most significant first: byte `i` is `static_cast<uint8_t>((value >> 8*(w-1-i)) & 0xFF)`
    (`to_big_endian_bytes`, `to_big_endian`, `write_nonce`, the 4-byte length prefix). -/
def beBytes : Nat → Nat → List UInt8
  | 0, _ => []
  | w + 1, v => UInt8.ofNat (v >>> (8 * w)) :: beBytes w v

/-- `to_big_endian_bytes(std::uint64_t)` -/
def be8 (v : Nat) : List UInt8 := beBytes 8 v
/-- the 4-byte prefix of StoreProof.cpp -/
def be4 (v : Nat) : List UInt8 := beBytes 4 v

/-- `static_cast<std::uint64_t>(int64)` -/
def u64OfInt (i : Int) : Nat := (i % 18446744073709551616).toNat

/-- Node.cpp / main.cpp `update_length_prefixed`: 8-byte big-endian `data.size()`, then the data -/
def lp8 (data : List UInt8) : List UInt8 := be8 data.length ++ data

/-- StoreProof.cpp `update_length_prefixed`: 4-byte big-endian `min(data.size(), 2^32-1)`, then the data -/
def lp4 (data : List UInt8) : List UInt8 := be4 (min data.length 4294967295) ++ data

/-! ## the four digest encoders (the bytes fed to SHA-256) -/

/-- `protocol::AnnouncePayload` without the nonce -/
structure AnnounceFields where
  chunkId : List UInt8
  peerId : List UInt8
  endpoint : List UInt8
  manifestUri : List UInt8
  shards : List UInt8
  /-- `payload.ttl.count()` (signed seconds) -/
  ttl : Int
deriving DecidableEq, Repr, Inhabited

/-- `announce_pow_digest` preimage -/
def encAnnounce (a : AnnounceFields) (nonce : Nat) : List UInt8 :=
  lp8 a.chunkId ++ (lp8 a.peerId ++ (lp8 a.endpoint ++ (lp8 a.manifestUri ++ (lp8 a.shards ++
    (be8 (u64OfInt a.ttl) ++ be8 nonce)))))

structure HandshakeFields where
  initiator : List UInt8
  responder : List UInt8
  /-- `std::uint32_t initiator_public` -/
  initiatorPublic : Nat
deriving DecidableEq, Repr, Inhabited

/-- `handshake_pow_digest` preimage (Node.cpp) -/
def encHandshake (h : HandshakeFields) (nonce : Nat) : List UInt8 :=
  lp8 h.initiator ++ (lp8 h.responder ++ (be8 h.initiatorPublic ++ be8 nonce))

/-- `transport_handshake_digest` preimage (main.cpp, CLI side of the same surface) -/
def encTransportCli (h : HandshakeFields) (nonce : Nat) : List UInt8 :=
  lp8 h.initiator ++ (lp8 h.responder ++ (be8 h.initiatorPublic ++ be8 nonce))

/-- `security::StoreWorkInput` -/
structure StoreFields where
  chunkId : List UInt8
  payloadSize : Nat
  filenameHint : List UInt8
deriving DecidableEq, Repr, Inhabited

/-- StoreProof.cpp `pow_digest` preimage: raw chunk id, size, length-prefixed hint (an empty hint is
    the prefix `00 00 00 00` alone), nonce -/
def encStore (s : StoreFields) (nonce : Nat) : List UInt8 :=
  s.chunkId ++ (be8 s.payloadSize ++ (lp4 s.filenameHint ++ be8 nonce))

/-- what `solve_token_challenge` hashes: `manifest.chunk_id`, `manifest.chunk_hash`, `hint.endpoint` -/
structure TokenFields where
  chunkId : List UInt8
  chunkHash : List UInt8
  endpoint : List UInt8
deriving DecidableEq, Repr, Inhabited

/-- `material` of `solve_token_challenge` with the nonce written at the end -/
def encToken (t : TokenFields) (nonce : Nat) : List UInt8 :=
  t.chunkId ++ (t.chunkHash ++ (t.endpoint ++ be8 nonce))

/-! ## the four leading-zero counters, as written -/

/-- Node.cpp inner loop: `for (bit = 7; bit >= 0; --bit) { if ((byte >> bit) & 1) return total; ++total; } return total;`
    first argument: number of bit positions still to visit (current `bit` = that number - 1) -/
def scanBitsNode (byte : UInt8) : Nat → Nat → Nat
  | 0, total => total
  | bit + 1, total => if (byte.toNat >>> bit) &&& 1 != 0 then total else scanBitsNode byte bit (total + 1)

/-- Node.cpp `count_leading_zero_bits` (running `total` as accumulator) -/
def clzNodeAux : List UInt8 → Nat → Nat
  | [], total => total
  | b :: rest, total => if b == 0 then clzNodeAux rest (total + 8) else scanBitsNode b 8 total

def clzNode (digest : List UInt8) : Nat := clzNodeAux digest 0

/-- StoreProof.cpp inner loop: counts into a fresh `leading`, `break`s at the first set bit -/
def scanBitsStore (byte : UInt8) : Nat → Nat → Nat
  | 0, leading => leading
  | bit + 1, leading => if (byte.toNat >>> bit) &&& 1 != 0 then leading else scanBitsStore byte bit (leading + 1)

/-- StoreProof.cpp `count_leading_zero_bits`: `total += leading; break;` -/
def clzStoreAux : List UInt8 → Nat → Nat
  | [], total => total
  | b :: rest, total => if b == 0 then clzStoreAux rest (total + 8) else total + scanBitsStore b 8 0

def clzStore (digest : List UInt8) : Nat := clzStoreAux digest 0

/-- main.cpp inner loop (`& 0x01u`) -/
def scanBitsCli (byte : UInt8) : Nat → Nat → Nat
  | 0, total => total
  | bit + 1, total => if (byte.toNat >>> bit) &&& 1 != 0 then total else scanBitsCli byte bit (total + 1)

/-- main.cpp `count_leading_zero_bits` over a span -/
def clzCliAux : List UInt8 → Nat → Nat
  | [], total => total
  | b :: rest, total => if b == 0 then clzCliAux rest (total + 8) else scanBitsCli b 8 total

def clzCli (digest : List UInt8) : Nat := clzCliAux digest 0

/-- TokenChallenge.cpp `digest_meets_difficulty` (full zero bytes, then a mask on the next byte) -/
def meetsDifficulty (digest : List UInt8) (d : Nat) : Bool :=
  if d == 0 then true else
  let fullBytes := d / 8
  let remainingBits := d % 8
  if fullBytes > digest.length then false else
  if !((digest.take fullBytes).all (· == 0)) then false else
  if remainingBits == 0 then true else
  if fullBytes ≥ digest.length then false else
  let mask : UInt8 := UInt8.ofNat (255 <<< (8 - remainingBits))
  (digest.getD fullBytes 0 &&& mask) == 0

/-! ## validators -/

section
variable (sha : List UInt8 → List UInt8)

/-- Node.cpp `announce_pow_valid` (no cap here; the cap is applied to the configuration) -/
def announcePowValid (a : AnnounceFields) (nonce d : Nat) : Bool :=
  if d == 0 then true else decide (clzNode (sha (encAnnounce a nonce)) ≥ d)

/-- Node.cpp `handshake_pow_valid` -/
def handshakePowValid (h : HandshakeFields) (nonce d : Nat) : Bool :=
  if d == 0 then true else decide (clzNode (sha (encHandshake h nonce)) ≥ d)

/-- main.cpp `transport_pow_valid` -/
def transportPowValid (h : HandshakeFields) (nonce d : Nat) : Bool :=
  if d == 0 then true else decide (clzCli (sha (encTransportCli h nonce)) ≥ d)

/-- `if (d > kMax) d = kMax;` -/
def capTo (cap d : Nat) : Nat := if d > cap then cap else d

/-- StoreProof.cpp `store_pow_valid` (caps inside the validator) -/
def storePowValid (s : StoreFields) (nonce d : Nat) : Bool :=
  if d == 0 then true else
  let d' := capTo C19.kMaxStorePowDifficulty d
  decide (clzStore (sha (encStore s nonce)) ≥ d')

/-- what `solve_token_challenge` tests for each attempt -/
def tokenValid (t : TokenFields) (nonce d : Nat) : Bool :=
  meetsDifficulty (sha (encToken t nonce)) d

/-- `sanitize_config`: the node's effective difficulties -/
def nodeAnnounceDifficulty (configured : Nat) : Nat := capTo C19.kMaxAnnouncePowDifficulty configured
def nodeHandshakeDifficulty (configured : Nat) : Nat := capTo C19.kMaxHandshakePowDifficulty configured
def nodeStoreDifficulty (configured : Nat) : Nat := capTo C19.kNodeMaxStorePowDifficulty configured

/-- `Node::verify_announce_pow` for a node configured with `configured` bits -/
def nodeVerifyAnnounce (configured version : Nat) (a : AnnounceFields) (nonce : Nat) : Bool :=
  let d := nodeAnnounceDifficulty configured
  if d == 0 then true else
  if version < C19.kAnnounceMinPowVersion then false else
  announcePowValid sha a nonce d

/-- the PoW test of `Node::perform_handshake` (remote = initiator, this node = responder) -/
def nodeVerifyHandshake (configured : Nat) (h : HandshakeFields) (nonce : Nat) : Bool :=
  handshakePowValid sha h nonce (nodeHandshakeDifficulty configured)

/-! ## solvers: the first candidate of a candidate stream that validates -/

/-- `for (attempt = 0; attempt < fuel; ++attempt) { c = next(); if (valid(c)) return c; } return nullopt;` -/
def search {σ : Type} (valid : Nat → Bool) (next : σ → Nat × σ) : Nat → σ → Option Nat
  | 0, _ => none
  | fuel + 1, s =>
    let (c, s') := next s
    if valid c then some c else search valid next fuel s'

/-- candidates `start + attempt` in `uint64` arithmetic -/
def countingStream (s : Nat) : Nat × Nat := (s % 18446744073709551616, s + 1)

/-- the first 8 digest bytes read big-endian (`seed = (seed << 8) | digest[i]`) -/
def seedBE (digest : List UInt8) : Nat := (digest.take 8).foldl (fun acc b => acc * 256 + b.toNat) 0

/-- `std::memcpy(&seed, digest.data(), 8)` on a little-endian machine -/
def seedLE (digest : List UInt8) : Nat := (digest.take 8).foldr (fun b acc => acc * 256 + b.toNat) 0

/-- Node.cpp `compute_announce_pow`; `startOf seed` is the first draw of `std::mt19937_64(seed)`
    through `uniform_int_distribution<uint64_t>(0, max)` (a parameter: any function) -/
def computeAnnouncePow (startOf : Nat → Nat) (a : AnnounceFields) (d : Nat) : Option Nat :=
  if d == 0 then some 0 else
  let start := startOf (seedBE (sha (encAnnounce a 0)))
  search (fun n => announcePowValid sha a n d) countingStream C19.kMaxAnnouncePowAttempts start

/-- Node.cpp `compute_handshake_pow` -/
def computeHandshakePow (startOf : Nat → Nat) (h : HandshakeFields) (d : Nat) : Option Nat :=
  if d == 0 then some 0 else
  let start := startOf (seedBE (sha (encHandshake h 0)))
  search (fun n => handshakePowValid sha h n d) countingStream C19.kMaxHandshakePowAttempts start

/-- main.cpp `compute_transport_pow` -/
def computeTransportPow (startOf : Nat → Nat) (h : HandshakeFields) (d : Nat) : Option Nat :=
  if d == 0 then some 0 else
  let start := startOf (seedBE (sha (encTransportCli h 0)))
  search (fun n => transportPowValid sha h n d) countingStream C19.kTransportPowMaxAttempts start

/-- StoreProof.cpp `compute_store_pow`; the candidates are the successive outputs of
    `std::mt19937_64(seed)`: `init seed` is the generator state, `next` draws one value -/
def computeStorePow {σ : Type} (init : Nat → σ) (next : σ → Nat × σ) (s : StoreFields) (d maxAttempts : Nat) : Option Nat :=
  if d == 0 then some 0 else
  let d' := capTo C19.kMaxStorePowDifficulty d
  let attempts := if maxAttempts == 0 then C19.kDefaultStorePowMaxAttempts else maxAttempts
  search (fun n => storePowValid sha s n d') next attempts (init (seedLE (sha (encStore s 0))))

/-- TokenChallenge.cpp `solve_token_challenge` -/
def solveToken (t : TokenFields) (d maxAttempts : Nat) : Option Nat :=
  if d == 0 then some 0 else
  if t.endpoint.isEmpty || maxAttempts == 0 then none else
  search (fun n => tokenValid sha t n d) countingStream maxAttempts 0

end

/-! ## the store filename hint on the CLI and on the daemon -/

/-- `std::filesystem::path(raw).filename()` on POSIX: what follows the last `/` -/
def basename (p : List UInt8) : List UInt8 := (p.reverse.takeWhile (· != 47)).reverse

/-- StoreProof.cpp `sanitize_filename_hint` -/
def sanitizeFilenameHint (raw : List UInt8) : Option (List UInt8) :=
  if raw.isEmpty then none else
  let base := basename raw
  if base.isEmpty || base == [46] || base == [46, 46] then none
  else if base.length ≤ C19.kMaxFilenameLength then some base
  else some (base.take C19.kMaxFilenameLength)

/-- the value the daemon's `parse_request` stores for a header whose value the client wrote
    verbatim (`KEY:value\n`): `recv_line` stops at the first LF and drops every CR.
    (When the value contains an LF the rest of it is parsed as further header lines.) -/
def wireValue (v : List UInt8) : List UInt8 := (v.takeWhile (· != 10)).filter (· != 13)

/-- the CLI `store` command: the path string it uses for the PATH field and for the hint -/
def cliWirePath (path : List UInt8) : List UInt8 := path.filter (fun b => b != 10 && b != 13)

/-- filename hint the CLI puts into its proof of work -/
def cliHint (path : List UInt8) : Option (List UInt8) := sanitizeFilenameHint (cliWirePath path)

/-- filename hint the daemon derives from the PATH field it received -/
def daemonHint (path : List UInt8) : Option (List UInt8) := sanitizeFilenameHint (wireValue (cliWirePath path))

/-! ## candidate streams of the real solvers: `std::mt19937_64`

Not used by any theorem (the theorems quantify over every stream); the driver needs it to predict
the exact nonce the implementation returns.  ISO C++ [rand.eng.mers] with the `mt19937_64`
parameters (w=64, n=312, m=156, r=31, a=0xB5026F5AA96619E9, u=29, d=0x5555555555555555, s=17,
b=0x71D67FFFEDA60000, t=37, c=0xFFF7EEE000000000, l=43, f=6364136223846793005). -/

structure Mt64 where
  mt : Array UInt64
  idx : Nat
deriving Inhabited

namespace Mt64

def seed (s : Nat) : Mt64 := Id.run do
  let mut a : Array UInt64 := Array.replicate 312 0
  let mut prev : UInt64 := UInt64.ofNat s
  a := a.set! 0 prev
  for i in [1:312] do
    prev := (6364136223846793005 : UInt64) * (prev ^^^ (prev >>> 62)) + UInt64.ofNat i
    a := a.set! i prev
  return ⟨a, 312⟩

def twist (a : Array UInt64) : Array UInt64 := Id.run do
  let mut a := a
  for i in [0:312] do
    let x := (a[i]! &&& 0xFFFFFFFF80000000) ||| (a[(i + 1) % 312]! &&& 0x7FFFFFFF)
    let xA := if x &&& 1 != 0 then (x >>> 1) ^^^ 0xB5026F5AA96619E9 else x >>> 1
    a := a.set! i (a[(i + 156) % 312]! ^^^ xA)
  return a

def next (g : Mt64) : Nat × Mt64 :=
  let g := if g.idx ≥ 312 then { mt := twist g.mt, idx := 0 } else g
  let y := g.mt[g.idx]!
  let y := y ^^^ ((y >>> 29) &&& 0x5555555555555555)
  let y := y ^^^ ((y <<< 17) &&& 0x71D67FFFEDA60000)
  let y := y ^^^ ((y <<< 37) &&& 0xFFF7EEE000000000)
  let y := y ^^^ (y >>> 43)
  (y.toNat, { g with idx := g.idx + 1 })

/-- first draw of `std::mt19937_64(seed)`; libstdc++'s `uniform_int_distribution<uint64_t>(0, 2^64−1)`
    returns the generator output unchanged when the ranges coincide -/
def firstDraw (s : Nat) : Nat := (next (seed s)).1

end Mt64

end EphVerif.Pow
