/-
Model of the assigned-fetch scheduler of `Node` (src/core/Node.cpp): `schedule_assigned_fetch`,
`process_pending_fetches`, `dispatch_pending_fetch`, `schedule_next_fetch_attempt`,
`can_dispatch_fetch`, `note_dispatch_start` / `note_dispatch_end`, `clear_pending_fetch`,
`refresh_provider_count`.

* Times are integers: nanoseconds of the steady clock (`now`) and of the wall clock (`wall`);
  both are inputs of every operation.  `time_point::max()` for `next_attempt` is `none`;
  `system_clock::time_point{}` for `manifest_expires` and `steady_clock::time_point{}` for
  `last_availability_check` are the value `0`, as in the code.
* `pending_chunk_fetches_` (`unordered_map` keyed by chunk) is a list of entries with pairwise
  distinct chunks (invariant proved in `Lemmas/C24Fetches.lean`); `active_peer_requests_` is a
  function `String → Nat` (`0` = no entry; the C++ never keeps a zero-valued entry).
* The environment decides, per operation: whether a chunk is held locally
  (`chunk_store_.get_record`), whether a request can be delivered to a peer now
  (`send_chunk_request_direct` or the `request_chunk` fallback), and the provider count the
  directory reports (`count_known_providers`).
* `std::sort`'s order among entries that compare equal (same provider count, remaining TTL,
  attempts and enqueue time) is unspecified; the model breaks such ties by chunk name.  No
  theorem depends on the order (they hold for every order); the correspondence generator never
  creates two entries at the same instant.
* The model follows the repaired code: `schedule_assigned_fetch` releases the provider's slot when
  it re-targets an entry that is in flight (fixes/C24-reannounce-inflight-leak.patch) and stores
  the manifest expiry capped at `now + max_manifest_ttl` (fixes/C03-pending-fetch-cap.patch).
  `variantOld := true` selects the code before the first repair (recorded counterexample only).
-/
import EphVerif.Generated.C24

namespace EphVerif.Fetches

def second : Int := 1000000000

/-- the `fetch_*` fields of `Config` (seconds / counts, unsanitised) and the sanitised
    `max_manifest_ttl` (seconds) -/
structure Cfg where
  base : Int              -- fetch_retry_initial_backoff
  maxBackoff : Int        -- fetch_retry_max_backoff
  successInterval : Int   -- fetch_retry_success_interval
  attemptLimit : Nat      -- fetch_retry_attempt_limit, 0 = unlimited
  maxParallel : Nat       -- fetch_max_parallel_requests, 0 = unlimited
  refresh : Int           -- fetch_availability_refresh
  maxTtl : Int            -- max_manifest_ttl
deriving Repr

/-- `PendingFetchState` (endpoint and manifest URI play no role in scheduling; `lastDispatch` is
    only observed) -/
structure Entry where
  chunk : String
  peer : String
  nextAttempt : Option Int
  attempts : Nat
  expires : Int
  enqueue : Int
  inFlight : Bool
  provCount : Nat
  lastCheck : Int
  lastDispatch : Int
deriving DecidableEq, Repr

structure Env where
  held : String → Bool          -- chunk_store_.get_record(chunk).has_value()
  sendOk : String → Bool        -- a chunk request can be delivered to the peer now
  providers : String → Nat      -- count_known_providers(chunk)

/-- a request frame that reached a peer's socket -/
structure Frame where
  peer : String
  chunk : String
deriving DecidableEq, Repr

structure State where
  pending : List Entry          -- pending_chunk_fetches_
  active : String → Nat         -- active_peer_requests_

def State.init : State := ⟨[], fun _ => 0⟩

/-! ### Back-off arithmetic (`schedule_next_fetch_attempt`) -/

/-- the overflow guard on the exponent: `std::min<std::size_t>(exponent, 8)` -/
def expClamp : Nat := Gen.C24.kBackoffExponentClamp

/-- the `1` of `factor = 1 << clamped_exponent` -/
def factorBase : Nat := Gen.C24.kBackoffFactorBase

/-- `base <= 0 ? 1 : base` -/
def effBase (cfg : Cfg) : Int := if cfg.base ≤ 0 then 1 else cfg.base

/-- delay in seconds after the `k`-th attempt failed (`k = state.attempts`, already incremented),
    when the attempt limit is not reached -/
def backoffSeconds (cfg : Cfg) (k : Nat) : Int :=
  let exponent := if k > 0 then k - 1 else 0
  let clamped := min exponent expClamp
  let backoff := effBase cfg * (factorBase * 2 ^ clamped : Nat)
  let backoff := if cfg.maxBackoff > 0 ∧ backoff > cfg.maxBackoff then cfg.maxBackoff else backoff
  if backoff ≤ 0 then 1 else backoff

/-- `interval <= 0 ? 1 : interval` -/
def successSeconds (cfg : Cfg) : Int := if cfg.successInterval ≤ 0 then 1 else cfg.successInterval

/-- the failed attempt was the last one allowed -/
def exhausted (cfg : Cfg) (attempts : Nat) : Bool := decide (cfg.attemptLimit > 0 ∧ attempts ≥ cfg.attemptLimit)

/-- `schedule_next_fetch_attempt(state, success)` -/
def scheduleNext (cfg : Cfg) (now : Int) (e : Entry) (success : Bool) : Entry :=
  if success then { e with nextAttempt := some (now + successSeconds cfg * second) }
  else if exhausted cfg e.attempts then { e with nextAttempt := none }
  else { e with nextAttempt := some (now + backoffSeconds cfg e.attempts * second) }

/-! ### Counters -/

def bump (f : String → Nat) (p : String) : String → Nat := fun q => if q = p then f q + 1 else f q

/-- `note_dispatch_end`: `if (it->second <= 1) erase(it); else it->second -= 1;` -/
def drop (f : String → Nat) (p : String) : String → Nat := fun q => if q = p then f q - 1 else f q

/-- `can_dispatch_fetch` -/
def canDispatch (cfg : Cfg) (st : State) (p : String) : Bool :=
  cfg.maxParallel == 0 || decide (st.active p < cfg.maxParallel)

/-- number of in-flight entries whose provider is `p` -/
def cnt (p : String) (l : List Entry) : Nat := (l.filter fun e => e.inFlight && e.peer == p).length

/-! ### Map operations -/

def find (l : List Entry) (c : String) : Option Entry := l.find? fun e => e.chunk == c

/-- overwrite the entry of `e.chunk` -/
def replace (l : List Entry) (e : Entry) : List Entry := l.map fun x => if x.chunk == e.chunk then e else x

def erase (l : List Entry) (c : String) : List Entry := l.filter fun e => !(e.chunk == c)

/-- `clear_pending_fetch(key)` -/
def clear (st : State) (c : String) : State :=
  match find st.pending c with
  | none => st
  | some e =>
    { pending := erase st.pending c, active := if e.inFlight then drop st.active e.peer else st.active }

def clearAll (st : State) : List String → State
  | [] => st
  | c :: rest => clearAll (clear st c) rest

/-! ### `process_pending_fetches` -/

/-- `refresh_provider_count(state, now, force)` -/
def refreshProv (cfg : Cfg) (env : Env) (now : Int) (force : Bool) (e : Entry) : Entry :=
  if !force ∧ e.lastCheck ≠ 0 ∧ cfg.refresh > 0 ∧ now - e.lastCheck < cfg.refresh * second then e
  else { e with provCount := env.providers e.chunk, lastCheck := now }

def manifestExpired (wall : Int) (e : Entry) : Bool := decide (e.expires ≠ 0 ∧ wall ≥ e.expires)

/-- the entry is finished: chunk held, manifest expired, or attempts exhausted -/
def completed (env : Env) (wall : Int) (e : Entry) : Bool :=
  env.held e.chunk || manifestExpired wall e || e.nextAttempt.isNone

def due (now : Int) (e : Entry) : Bool :=
  match e.nextAttempt with
  | some t => decide (now ≥ t)
  | none => false

/-- the in-flight request of `e` is given up in this pass (`note_dispatch_end; in_flight = false`) -/
def ends (env : Env) (now wall : Int) (e : Entry) : Bool := !completed env wall e && e.inFlight && due now e

/-- what the first loop does to one entry (besides collecting keys) -/
def touch (cfg : Cfg) (env : Env) (now wall : Int) (e : Entry) : Entry :=
  if env.held e.chunk then e
  else
    let e1 := refreshProv cfg env now false e
    if ends env now wall e1 then { e1 with inFlight := false } else e1

/-- first loop: entries updated in place, provider slots of given-up requests released -/
def pass1 (cfg : Cfg) (env : Env) (now wall : Int) : List Entry → (String → Nat) → List Entry × (String → Nat)
  | [], a => ([], a)
  | e :: es, a =>
    let a' := if ends env now wall (refreshProv cfg env now false e) then drop a e.peer else a
    let r := pass1 cfg env now wall es a'
    (touch cfg env now wall e :: r.1, r.2)

/-- ready for an attempt now (after `touch`) -/
def isReady (env : Env) (now wall : Int) (e : Entry) : Bool := !completed env wall e && !e.inFlight && due now e

/-- still waiting for an answer (counted in `inflight_count`) -/
def isWaiting (env : Env) (wall : Int) (e : Entry) : Bool := !completed env wall e && e.inFlight

/-- `ttl_remaining` of the ready entry; `none` = `seconds::max()` -/
def ttlRemaining (wall : Int) (e : Entry) : Option Int :=
  if e.expires = 0 then none
  else if e.expires ≤ wall then some 0
  else some ((e.expires - wall) / second)

def ttlLess : Option Int → Option Int → Bool
  | some a, some b => decide (a < b)
  | some _, none => true
  | none, _ => false

/-- the comparator of the `std::sort` over ready fetches (ties: chunk name, see the header) -/
def readyLe (wall : Int) (a b : Entry) : Bool :=
  if a.provCount ≠ b.provCount then decide (a.provCount < b.provCount)
  else if ttlRemaining wall a ≠ ttlRemaining wall b then ttlLess (ttlRemaining wall a) (ttlRemaining wall b)
  else if a.attempts ≠ b.attempts then decide (a.attempts > b.attempts)
  else if a.enqueue ≠ b.enqueue then decide (a.enqueue < b.enqueue)
  else decide (a.chunk ≤ b.chunk)

/-- `std::sort` of the ready fetches, as a structural insertion sort (with a strict total
    comparator every sorting algorithm yields the same list) -/
def insertBy (le : Entry → Entry → Bool) (x : Entry) : List Entry → List Entry
  | [] => [x]
  | y :: ys => if le x y then x :: y :: ys else y :: insertBy le x ys

def sortBy (le : Entry → Entry → Bool) : List Entry → List Entry
  | [] => []
  | x :: xs => insertBy le x (sortBy le xs)

/-- `dispatch_pending_fetch(state)`: returns the updated entry and whether the request left -/
def dispatchEntry (cfg : Cfg) (env : Env) (now : Int) (e : Entry) : Entry × Bool :=
  let ok := env.sendOk e.peer
  let e1 := { e with attempts := e.attempts + 1 }
  let e2 := scheduleNext cfg now e1 ok
  ({ e2 with inFlight := ok, lastDispatch := now }, ok)

structure LoopAcc where
  st : State
  inflight : Nat
  frames : List Frame
  exhaustedKeys : List String

/-- second loop: attempt the ready fetches in priority order -/
def dispatchLoop (cfg : Cfg) (env : Env) (now : Int) : List String → LoopAcc → LoopAcc
  | [], acc => acc
  | k :: ks, acc =>
    if cfg.maxParallel ≠ 0 ∧ acc.inflight ≥ cfg.maxParallel then acc
    else
      match find acc.st.pending k with
      | none => dispatchLoop cfg env now ks acc
      | some e =>
        if !canDispatch cfg acc.st e.peer then dispatchLoop cfg env now ks acc
        else
          let r := dispatchEntry cfg env now e
          let st' : State := { pending := replace acc.st.pending r.1,
                               active := if r.2 then bump acc.st.active e.peer else acc.st.active }
          dispatchLoop cfg env now ks
            { st := st',
              inflight := if r.2 then acc.inflight + 1 else acc.inflight,
              frames := if r.2 then acc.frames ++ [⟨e.peer, e.chunk⟩] else acc.frames,
              exhaustedKeys := if !r.2 && exhausted cfg r.1.attempts then acc.exhaustedKeys ++ [k] else acc.exhaustedKeys }

/-- `process_pending_fetches()` -/
def process (cfg : Cfg) (env : Env) (now wall : Int) (st : State) : State × List Frame :=
  let p1 := pass1 cfg env now wall st.pending st.active
  let st1 : State := ⟨p1.1, p1.2⟩
  let completedKeys := (p1.1.filter (completed env wall)).map (·.chunk)
  let ready := (sortBy (readyLe wall) (p1.1.filter (isReady env now wall))).map (·.chunk)
  let inflight := (p1.1.filter (isWaiting env wall)).length
  let acc := dispatchLoop cfg env now ready ⟨st1, inflight, [], []⟩
  (clearAll acc.st (completedKeys ++ acc.exhaustedKeys), acc.frames)

/-! ### `schedule_assigned_fetch` -/

/-- the recorded manifest expiry: capped at `now + max_manifest_ttl` (fixes/C03-pending-fetch-cap.patch) -/
def cappedExpiry (cfg : Cfg) (wall expires : Int) : Int := min expires (wall + cfg.maxTtl * second)

/-- a new entry (`try_emplace` inserted) -/
def freshEntry (cfg : Cfg) (env : Env) (now wall : Int) (chunk peer : String) (expires : Int) : Entry :=
  ⟨chunk, peer, some now, 0, cappedExpiry cfg wall expires, now, false, env.providers chunk, now, 0⟩

/-- an existing entry re-targeted by a new announce -/
def retarget (cfg : Cfg) (env : Env) (now wall : Int) (old : Entry) (peer : String) (expires : Int) : Entry :=
  { old with peer := peer, attempts := if old.peer ≠ peer then 0 else old.attempts,
             expires := cappedExpiry cfg wall expires, nextAttempt := some now, inFlight := false,
             provCount := env.providers old.chunk, lastCheck := now, lastDispatch := 0 }

/-- the map after an announce of `chunk` from `peer` whose manifest expires at `expires`;
    `variantOld`: do not release the slot of an in-flight request (code before the repair) -/
def upsert (cfg : Cfg) (env : Env) (now wall : Int) (st : State) (chunk peer : String) (expires : Int)
    (variantOld : Bool := false) : State :=
  match find st.pending chunk with
  | none => { st with pending := st.pending ++ [freshEntry cfg env now wall chunk peer expires] }
  | some old =>
    { pending := replace st.pending (retarget cfg env now wall old peer expires),
      active := if old.inFlight && !variantOld then drop st.active old.peer else st.active }

/-- `schedule_assigned_fetch(payload)` for a payload with assigned shards and a decodable manifest -/
def announce (cfg : Cfg) (env : Env) (now wall : Int) (st : State) (chunk peer : String) (expires : Int)
    (variantOld : Bool := false) : State × List Frame :=
  if env.held chunk then (st, [])
  else process cfg env now wall (upsert cfg env now wall st chunk peer expires variantOld)

inductive Op where
  | announce (chunk peer : String) (expires : Int)
  | arrive (chunk : String)        -- the chunk was received and stored: `clear_pending_fetch`
  | tick
deriving DecidableEq, Repr

structure Step where
  op : Op
  now : Int
  wall : Int
  env : Env

def step (cfg : Cfg) (st : State) (s : Step) (variantOld : Bool := false) : State × List Frame :=
  match s.op with
  | .announce c p x => announce cfg s.env s.now s.wall st c p x variantOld
  | .arrive c => (clear st c, [])
  | .tick => process cfg s.env s.now s.wall st

def run (cfg : Cfg) (st : State) : List Step → State
  | [] => st
  | s :: rest => run cfg (step cfg st s).1 rest

end EphVerif.Fetches
