import EphVerif.Generated.C33

/-!
# Model of `parse_stun_response` (src/network/NatTraversal.cpp), C33

The C++ indexes a raw buffer `data[0..length)` and a `std::array<uint8_t,12>`.  The model keeps
the same offsets and the same order of tests; every buffer read goes through `rd`, which yields
`Out.oob` when the index is not inside the datagram (resp. the transaction id).  `C33.safe`
proves that constructor unreachable.  All constants come from `Generated/C33.lean`.

`inet_ntop` is modelled as total and injective: the result carries the address bytes.
-/
namespace EphVerif.Stun
open EphVerif.Gen.C33

inductive Out where
  | none                                                   -- std::nullopt
  | addr (family : Nat) (bytes : List UInt8) (port : Nat)  -- StunParserResult
  | oob                                                    -- a read outside the datagram / the txid array
deriving DecidableEq, Repr, Inhabited

/-- checked read of `n` consecutive bytes starting at `off` -/
def rdN (d : List UInt8) (off n : Nat) : Option (List UInt8) :=
  if off + n ≤ d.length then some ((d.drop off).take n) else Option.none

def rd (d : List UInt8) (off : Nat) : Option UInt8 := d[off]?

def be16 (hi lo : UInt8) : Nat := hi.toNat * 256 + lo.toNat

/-- byte `i` (0 = most significant) of the 32-bit cookie constant -/
def cookieByte (i : Nat) : UInt8 := UInt8.ofNat ((kStunMagicCookie >>> (8 * (3 - i))) % 256)

/-- `addr_network ^= htonl(kStunMagicCookie)` on the 4 address bytes in memory order -/
def xorCookie4 (a : List UInt8) : List UInt8 :=
  List.zipWith (· ^^^ ·) a [cookieByte 0, cookieByte 1, cookieByte 2, cookieByte 3]

/-- `addr_bytes[4 + i] ^= transaction_id[i]` for consecutive `i`, each read of the array checked -/
def xorTx : List UInt8 → List UInt8 → Nat → Option (List UInt8)
  | [], _, _ => some []
  | b :: bs, tx, i =>
    match tx[i]? with
    | some k => (xorTx bs tx (i + 1)).map ((b ^^^ k) :: ·)
    | Option.none => Option.none

/-- the IPv6 XOR: bytes 0..3 with the cookie, bytes 4..15 with `transaction_id[0..11]` -/
def xorV6 (a : List UInt8) (tx : List UInt8) : Option (List UInt8) :=
  (xorTx ((a.drop 4).take 12) tx 0).map (fun t => xorCookie4 (a.take 4) ++ t ++ a.drop 16)

/-- `(attr_length + 3u) & ~0x3u` -/
def padded (n : Nat) : Nat := (n + 3) / 4 * 4

/-- The body of the `if ((attr_type == 0x0001 || attr_type == 0x0020) && attr_length >= 4)` block:
`some o` = the function returns `o`, `none` = control falls through to the padding step. -/
def addrBlock (d tx : List UInt8) (value attrType attrLen : Nat) : Option Out :=
  let xorAddress := attrType == kAttrXorMapped
  if (attrType == kAttrMapped || attrType == kAttrXorMapped2) && decide (kAddrMinLen ≤ attrLen) then
    match rd d (value + 1), rd d (value + 2), rd d (value + 3) with
    | some family, some p0, some p1 =>
      let port0 := be16 p0 p1
      let port := if xorAddress then Nat.xor port0 ((kStunMagicCookie >>> kPortXorShift) % 65536) else port0
      if family.toNat = kFamilyV4 ∧ kV4MinLen ≤ attrLen then
        match rdN d (value + 4) 4 with
        | some a => some (Out.addr 1 (if xorAddress then xorCookie4 a else a) port)
        | Option.none => some Out.oob
      else if family.toNat = kFamilyV6 ∧ kV6MinLen ≤ attrLen then
        match rdN d (value + 4) 16 with
        | some a =>
          if xorAddress then
            match xorV6 a tx with
            | some x => some (Out.addr 2 x port)
            | Option.none => some Out.oob
          else some (Out.addr 2 a port)
        | Option.none => some Out.oob
      else Option.none
    | _, _, _ => some Out.oob
  else Option.none

/-- The attribute loop; state = (`offset`, `remaining`).  `fuel` makes the recursion structural (each
iteration consumes at least 4 of the `remaining` bytes; `loop` supplies enough). -/
def loopF (d tx : List UInt8) : Nat → Nat → Nat → Out
  | 0, _, _ => Out.none
  | fuel + 1, offset, remaining =>
    if 4 ≤ remaining ∧ offset + 4 ≤ d.length then
      match rd d offset, rd d (offset + 1), rd d (offset + 2), rd d (offset + 3) with
      | some t0, some t1, some l0, some l1 =>
        let attrType := be16 t0 t1
        let attrLen := be16 l0 l1
        if kAttrHdrInBound + attrLen > remaining ∨ offset + 4 + attrLen > d.length then Out.none   -- break
        else
          match addrBlock d tx (offset + 4) attrType attrLen with
          | some o => o
          | Option.none =>
            let p := padded attrLen
            if remaining < 4 + p then Out.none        -- break
            else loopF d tx fuel (offset + 4 + p) (remaining - (4 + p))
      | _, _, _, _ => Out.oob
    else Out.none

/-- `while (remaining >= 4 && offset + 4 <= length) { ... }` followed by `return std::nullopt` -/
def loop (d tx : List UInt8) (offset remaining : Nat) : Out := loopF d tx (remaining / 4 + 1) offset remaining

/-- `parse_stun_response(data, length, transaction_id)` with `d = data[0..length)`. -/
def parse (d tx : List UInt8) : Out :=
  if d.length < kHeaderMin then Out.none
  else
    match rd d 0, rd d 1, rd d 2, rd d 3 with
    | some t0, some t1, some l0, some l1 =>
      let type := be16 t0 t1
      let messageLength := be16 l0 l1
      let total := kHeaderSize + messageLength
      if type ≠ kBindingSuccess ∨ d.length < total then Out.none
      else
        -- std::equal(transaction_id.begin(), transaction_id.end(), data + 8)
        match rdN d kTxidOffset tx.length with
        | Option.none => Out.oob
        | some t =>
          if t ≠ tx then Out.none
          else loop d tx kBodyOffset messageLength
    | _, _, _, _ => Out.oob

end EphVerif.Stun
