/-
Model of the content pipeline of src/core/Node.cpp and src/main.cpp (C11), core Lean only.

  Node::store_chunk                  -> `storeChunk`   hash, key, nonce, CryptoManager::encrypt_with_key, ChunkStore::put,
                                                        Shamir::split, manifest, manifest cache, publish_shards, announce
  Node::fetch_chunk                  -> `fetchChunk`   record → shard record (or cached manifest) → combine → decrypt_with_key
  Node::receive_chunk                -> `receiveChunk` decode → validate_shards → manifest_ttl → combine → decrypt → digest →
                                                        compare → cache / publish / announce / put / seed
  Node::export_chunk_record          -> `exportRecord`
  decrypt_chunk_with_manifest (CLI)  -> `decryptChunkWithManifest`

It is a composition of the models of the parts, which have their own properties:
`Model.Sha256.digest` (C08), `ChaCha20.encrypt_with_key` / `decrypt_with_key` (C09, including the
"all-zero key is replaced by a random one" constructor), `Shamir.split` / `combine` (C10).
What `std::random_device` / `mt19937_64` produce is a parameter: the chunk key `key`, the nonce
`nonce`, the Shamir coefficient draws `rd`, and the replacement keys `rk…` a temporary
`CryptoManager` would draw for an all-zero key.

Which value flows where (what is hashed, which id / nonce the cipher gets, what is stored and
returned) is read from `Generated/C11.lean` (role names extracted from the source on every run) —
the model follows the source there and the theorems pin the roles, so a re-wiring breaks a proof.

Time: manifests carry a wall-clock expiry (ns); `manifestTtl` is the admission test of
`manifest_ttl()`.  Lifetimes of the records written (ChunkStore / shard table / provider expiry)
are the business of C01–C03: records carry the TTL they were written with and look-ups here are
"within lifetime".  The URI codec is C17's: `receiveChunk` takes the decoded manifest (`none` =
`decode_manifest` threw) and `wire` is what the codec keeps of the modelled fields (expiry floored
to whole seconds).
-/
import EphVerif.Generated.C11
import EphVerif.Model.ChaCha20
import EphVerif.Model.Sha256
import EphVerif.Model.Shamir

namespace EphVerif.StorePipeline
open EphVerif.Gen

abbrev Bytes := List UInt8

def toNats (b : Bytes) : List Nat := b.map UInt8.toNat
def ofNats (l : List Nat) : Bytes := l.map UInt8.ofNat

/-- role look-up in a generated wiring table; an unknown role yields `dflt` -/
def pick {α : Type} (role : String) (table : List (String × α)) (dflt : α) : α :=
  (table.lookup role).getD dflt

structure Manifest where
  chunkId : Bytes
  chunkHash : Bytes
  nonce : Bytes
  threshold : Nat
  totalShares : Nat
  /-- wall clock, ns since the epoch -/
  expiresNs : Int
  shards : List Shamir.Share
deriving Repr, DecidableEq

/-- the modelled fields after `decode_manifest (encode_manifest m)`: the expiry is written in whole
    seconds (`duration_cast<seconds>`, towards zero) -/
def wire (m : Manifest) : Manifest := { m with expiresNs := Int.tdiv m.expiresNs 1000000000 * 1000000000 }

structure Config where
  shardThreshold : Nat
  shardTotal : Nat
  /-- seconds -/
  minTtl : Int
  maxTtl : Int
  defaultTtl : Int
deriving Repr, DecidableEq

/-- `ChunkRecord` (what `export_chunk_record` shows) plus the TTL handed to `ChunkStore::put` -/
structure Record where
  data : Bytes
  nonce : Bytes
  encrypted : Bool
  ttl : Int
deriving Repr, DecidableEq

/-- `KademliaTable::KeyShardRecord` plus the TTL handed to `publish_shards` -/
structure ShardRecord where
  shards : List Shamir.Share
  threshold : Nat
  totalShares : Nat
  ttl : Int
deriving Repr, DecidableEq

/-- the part of a `Node` the pipeline reads and writes -/
structure NodeState where
  /-- `chunk_store_` -/
  chunks : List (Bytes × Record) := []
  /-- `dht_.shard_table_` -/
  shardTable : List (Bytes × ShardRecord) := []
  /-- chunks for which the node lists itself as provider (`announce_chunk`), with the TTL -/
  announced : List (Bytes × Int) := []
  /-- `manifest_cache_` -/
  manifests : List (Bytes × Manifest) := []
  /-- chunks whose swarm ledger says `self_seed` (`note_local_seed`) -/
  seeds : List Bytes := []
deriving Repr, DecidableEq

def upsert {β : Type} (l : List (Bytes × β)) (k : Bytes) (v : β) : List (Bytes × β) :=
  (k, v) :: l.filter (fun e => e.1 != k)

def find {β : Type} (l : List (Bytes × β)) (k : Bytes) : Option β := l.lookup k

/-! ### TTL helpers of Node.cpp -/

def clampChunkTtl (ttl minTtl maxTtl : Int) : Int :=
  let ttl := if ttl < minTtl then minTtl else ttl
  let ttl := if ttl > maxTtl then maxTtl else ttl
  if ttl ≤ 0 then (C11.kMinAllowedManifestTtl : Int) else ttl

def enforceManifestTtl (ttl minTtl maxTtl : Int) : Option Int :=
  if ttl < minTtl then none
  else
    let ttl := if ttl > maxTtl then maxTtl else ttl
    if ttl ≤ 0 then none else some ttl

/-- `manifest_ttl(manifest, config)` at wall-clock time `nowNs` -/
def manifestTtl (expiresNs nowNs minTtl maxTtl : Int) : Option Int :=
  if expiresNs ≤ nowNs then none
  else
    let ttl := Int.tdiv (expiresNs - nowNs) 1000000000
    if ttl ≤ 0 then none else enforceManifestTtl ttl minTtl maxTtl

/-! ### store_chunk -/

/-- `std::max<std::uint8_t>(std::uint8_t{1}, config_.shard_threshold)` -/
def effThreshold (cfg : Config) : Nat := max C11.kStoreMinThreshold cfg.shardThreshold
/-- `std::max(threshold, config_.shard_total)` -/
def effTotal (cfg : Config) : Nat := max (effThreshold cfg) cfg.shardTotal

inductive Outcome (α : Type) where
  | value (v : α)
  /-- an exception leaves the function (`std::invalid_argument` out of Shamir) -/
  | threw
  /-- the call does not return -/
  | hang
deriving Repr, DecidableEq

structure Stored where
  node : NodeState
  manifest : Manifest
deriving Repr, DecidableEq

def storeChunk (cfg : Config) (st : NodeState) (wallNowNs : Int) (id payload : Bytes) (ttl : Int)
    (key nonce rk : Bytes) (rd : Nat → Nat) : Outcome Stored :=
  let threshold := effThreshold cfg
  let total := effTotal cfg
  let effective := if ttl > 0 then ttl else cfg.defaultTtl
  let sanitized := clampChunkTtl effective cfg.minTtl cfg.maxTtl
  let sealed := ChaCha20.encrypt_with_key key
      (pick C11.storeEncryptIdRole [("id", id)] [])
      (pick C11.storeEncryptRole [("payload", payload)] []) nonce rk
  let chunkHash := Model.Sha256.digest (pick C11.storeHashRole [("payload", payload), ("sealed", sealed.data)] [])
  let record : Record := {
    data := pick C11.storePutDataRole [("sealed", sealed.data), ("payload", payload)] []
    nonce := pick C11.storePutNonceRole [("sealed", sealed.nonce)] []
    encrypted := true
    ttl := sanitized }
  let st1 : NodeState := { st with chunks := upsert st.chunks id record }
  match Shamir.split rd (toNats (pick C11.storeSplitRole [("key", key)] [])) threshold total with
  | .invalidArgument => .threw
  | .hang => .hang
  | .ok shares =>
    let manifest : Manifest := {
      chunkId := id
      chunkHash := chunkHash
      nonce := pick C11.storeManifestNonceRole [("sealed", sealed.nonce)] []
      threshold := threshold
      totalShares := total
      expiresNs := wallNowNs + sanitized * 1000000000
      shards := shares }
    let shardRecord : ShardRecord := { shards := shares, threshold := threshold, totalShares := total, ttl := sanitized }
    let node : NodeState := {
      chunks := st1.chunks
      manifests := upsert st1.manifests id manifest
      shardTable := upsert st1.shardTable id shardRecord
      announced := upsert st1.announced id sanitized
      seeds := id :: st1.seeds.filter (· != id) }
    .value { node := node, manifest := manifest }

/-- `Node::export_chunk_record` -/
def exportRecord (st : NodeState) (id : Bytes) : Option Record := find st.chunks id

/-! ### fetch_chunk -/

/-- shard record if usable, else the cached manifest if usable (`threshold > 0`, enough shards) -/
def shardSource (st : NodeState) (id : Bytes) : Option (List Shamir.Share × Nat) :=
  match find st.shardTable id with
  | some r =>
    if r.threshold > 0 ∧ r.shards.length ≥ r.threshold then some (r.shards, r.threshold)
    else
      match find st.manifests id with
      | some m => if m.threshold > 0 ∧ m.shards.length ≥ m.threshold then some (m.shards, m.threshold) else none
      | none => none
  | none =>
    match find st.manifests id with
    | some m => if m.threshold > 0 ∧ m.shards.length ≥ m.threshold then some (m.shards, m.threshold) else none
    | none => none

/-- `Node::fetch_chunk` (the result; a re-publication of the cached manifest's shards when the shard
    record has lapsed is a lifetime matter and not modelled).  `rk` = replacement key a temporary
    `CryptoManager` draws when the reconstructed key is all-zero. -/
def fetchChunk (st : NodeState) (id : Bytes) (rk : Bytes) : Outcome (Option Bytes) :=
  match find st.chunks id with
  | none => .value none
  | some record =>
    if record.encrypted then
      match shardSource st id with
      | none => .value none
      | some (shards, threshold) =>
        match Shamir.combine shards threshold with
        | .invalidArgument => if C11.fetchCombineFailure == "nullopt" then .value none else .threw
        | .hang => .hang
        | .ok keyN =>
          .value (ChaCha20.decrypt_with_key (ofNats keyN)
            (pick C11.fetchDecryptIdRole [("id", id)] [])
            (pick C11.fetchDataRole [("record", record.data)] [])
            (pick C11.fetchNonceRole [("record", record.nonce)] []) rk)
    else .value (some record.data)

/-! ### manifests that arrive without the chunk: ingest_manifest, the accepting branch of handle_announce -/

/-- `Node::manifest_keeps_held_chunk_readable` (fixes/C11-ingest-must-not-poison-held-chunk.patch): a node that holds
    the (encrypted) chunk lets a replica-less manifest take the place of what it knows only if the manifest stands for
    the same content hash as the cached one and for the same key as the shares `fetch_chunk` reads the chunk with. -/
def keepsHeldChunkReadable (st : NodeState) (m : Manifest) : Bool :=
  match find st.chunks m.chunkId with
  | none => true
  | some record =>
    if !record.encrypted then true
    else
      (match find st.manifests m.chunkId with
       | some cached => cached.chunkHash == m.chunkHash
       | none => true) &&
      (match shardSource st m.chunkId with
       | none => true
       | some (shards, threshold) =>
         match Shamir.combine shards threshold, Shamir.combine m.shards m.threshold with
         | .ok k, .ok k' => k == k'
         | _, _ => false)

/-- "held-key" = the source has the guard, anything else = it does not (the tree before the repair) -/
def guardPasses (role : String) (st : NodeState) (m : Manifest) : Bool :=
  if role == "held-key" then keepsHeldChunkReadable st m else true

/-- manifest cache and key-share table take the manifest -/
def adoptManifest (st : NodeState) (m : Manifest) (ttl : Int) : NodeState :=
  let shardRecord : ShardRecord := { shards := m.shards, threshold := m.threshold, totalShares := m.totalShares, ttl := ttl }
  { st with manifests := upsert st.manifests m.chunkId m, shardTable := upsert st.shardTable m.chunkId shardRecord }

/-- `Node::ingest_manifest(uri)`; `decoded` = result of `decode_manifest` -/
def ingestManifest (cfg : Config) (st : NodeState) (wallNowNs : Int) (decoded : Option Manifest) : NodeState × Bool :=
  match decoded with
  | none => (st, false)
  | some m =>
    if ¬ (m.threshold > 0 ∧ m.shards.length ≥ m.threshold) then (st, false)
    else
      match manifestTtl m.expiresNs wallNowNs cfg.minTtl cfg.maxTtl with
      | none => (st, false)
      | some ttl => if guardPasses C11.ingestGuard st m then (adoptManifest st m ttl, true) else (st, false)

/-- the manifest part of a `handle_announce` that passed the admission chain (sender, PoW, throttle, decode, id match,
    shards, TTL, assigned shards: C21) -/
def announceAdmitted (cfg : Config) (st : NodeState) (wallNowNs : Int) (m : Manifest) : NodeState :=
  if ¬ (m.threshold > 0 ∧ m.shards.length ≥ m.threshold) then st
  else
    match manifestTtl m.expiresNs wallNowNs cfg.minTtl cfg.maxTtl with
    | none => st
    | some ttl => if guardPasses C11.announceGuard st m then adoptManifest st m ttl else st

/-! ### receive_chunk -/

inductive Recv where
  | accepted (plaintext : Bytes)
  /-- `std::nullopt` -/
  | rejected
  /-- an exception leaves the function (`Shamir::combine` on repeated / zero indices) -/
  | threw
  | hang
deriving Repr, DecidableEq

def Recv.isAccepted : Recv → Bool
  | .accepted _ => true
  | _ => false

/-- what the caller sees when `Shamir::combine` throws: "nullopt" = the call is wrapped in `try { … } catch (…) { return
    std::nullopt; }` (the repaired Node.cpp), anything else = the exception leaves the function -/
def onCombineFailure (role : String) : Recv := if role == "nullopt" then .rejected else .threw

/-- the manifest field an argument expression of the source denotes -/
def manifestBytes (m : Manifest) (arg : String) : Bytes :=
  pick arg [("manifest.chunk_id", m.chunkId), ("manifest.nonce", m.nonce), ("manifest.chunk_hash", m.chunkHash)] []

def manifestNat (m : Manifest) (arg : String) : Nat :=
  pick arg [("manifest.threshold", m.threshold), ("manifest.total_shares", m.totalShares)] 0

/-- the guard `if (<compare>) return std::nullopt;` — `true` = passes.  "missing" (no comparison in the
    source) lets everything through. -/
def comparePasses (role : String) (digest : Bytes) (m : Manifest) : Bool :=
  pick role [("digest!=manifest.chunk_hash", digest == m.chunkHash), ("missing", true)] false

/-- the effects of an accepted replica, in source order: manifest cache, shard table, provider
    announcement, chunk store, seed ledger -/
def acceptEffects (st : NodeState) (m : Manifest) (ttl : Int) (data : Bytes) : NodeState :=
  let shardRecord : ShardRecord := { shards := m.shards, threshold := m.threshold, totalShares := m.totalShares, ttl := ttl }
  let record : Record := { data := data, nonce := m.nonce, encrypted := true, ttl := ttl }
  { manifests := upsert st.manifests m.chunkId m
    shardTable := upsert st.shardTable m.chunkId shardRecord
    announced := upsert st.announced m.chunkId ttl
    chunks := upsert st.chunks m.chunkId record
    seeds := m.chunkId :: st.seeds.filter (· != m.chunkId) }

/-- `Node::receive_chunk(manifest_uri, ciphertext)` at wall-clock time `wallNowNs`;
    `decoded` = result of `decode_manifest(manifest_uri)` (`none` = it threw). -/
def receiveChunk (cfg : Config) (st : NodeState) (wallNowNs : Int) (decoded : Option Manifest) (ciphertext : Bytes)
    (rk : Bytes) : NodeState × Recv :=
  match decoded with
  | none => (st, .rejected)
  | some m =>
    -- validate_shards
    if ¬ (m.threshold > 0 ∧ m.shards.length ≥ m.threshold) then (st, .rejected)
    else
      match manifestTtl m.expiresNs wallNowNs cfg.minTtl cfg.maxTtl with
      | none => (st, .rejected)
      | some ttl =>
        match Shamir.combine m.shards (manifestNat m C11.receiveCombineThresholdArg) with
        | .invalidArgument => (st, onCombineFailure C11.receiveCombineFailure)
        | .hang => (st, .hang)
        | .ok keyN =>
          match ChaCha20.decrypt_with_key (ofNats keyN) (manifestBytes m C11.receiveDecryptIdArg) ciphertext
              (manifestBytes m C11.receiveDecryptNonceArg) rk with
          | none => (st, .rejected)
          | some plaintext =>
            let digest := Model.Sha256.digest
              (pick C11.receiveHashRole [("decrypted", plaintext), ("ciphertext", ciphertext)] [])
            if comparePasses C11.receiveCompareRole digest m then
              (acceptEffects st m ttl (pick C11.receivePutDataRole [("ciphertext", ciphertext), ("decrypted", plaintext)] []),
               .accepted (pick C11.receiveReturnRole [("decrypted", plaintext), ("ciphertext", ciphertext)] []))
            else (st, .rejected)

/-! ### CLI: decrypt_chunk_with_manifest -/

def decryptChunkWithManifest (m : Manifest) (data : Bytes) (rk : Bytes) : Recv :=
  if m.threshold = 0 ∨ m.shards.length < m.threshold then .rejected
  else
    match Shamir.combine m.shards (manifestNat m C11.cliCombineThresholdArg) with
    | .invalidArgument => onCombineFailure C11.cliCombineFailure
    | .hang => .hang
    | .ok keyN =>
      match ChaCha20.decrypt_with_key (ofNats keyN) (manifestBytes m C11.cliDecryptIdArg) data
          (manifestBytes m C11.cliDecryptNonceArg) rk with
      | none => .rejected
      | some plaintext =>
        let digest := Model.Sha256.digest (pick C11.cliHashRole [("decrypted", plaintext), ("ciphertext", data)] [])
        if comparePasses C11.cliCompareRole digest m then
          .accepted (pick C11.cliReturnRole [("decrypted", plaintext), ("ciphertext", data)] [])
        else .rejected

end EphVerif.StorePipeline
