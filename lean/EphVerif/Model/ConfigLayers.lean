import EphVerif.Generated.C32
/-!
# Model for C32 — configuration layering of the CLI (src/main.cpp)

* `Value` / `Fields`        the JSON/YAML value tree (`config::Value`; arrays and doubles are not needed by the
                             representative settings and are left out)
* `mergeObjects`            `config::merge_objects(base, overlay)`
* `lookup`                  `config::find_path`
* `removeKey`               `config::remove_key`
* `resolve`                 `config::resolve_profile` with its `visiting` set.  The C++ recursion terminates
                             because every nested call adds a new existing profile name to `visiting`
                             (measure `|profiles| − |visiting|`); the model makes that explicit with fuel and
                             `Proofs/C32` shows `|profiles| + 1` is always enough.
* `collectEnv`              `config::collect_environment_overrides` (after the repair
                             `fixes/C32-env-direct-keys-merge.patch`: direct keys are merged, not assigned)
* `loadConfiguration`       `load_configuration`
* `applyProfile`            `apply_profile_to_options` restricted to nine representative settings

An object is an association list read by first match (`Fields.get`); `Fields.set` replaces.  `std::map`
cannot hold duplicate keys, so the model and the code can only differ on inputs the code cannot represent.
-/
namespace EphVerif.ConfigLayers

mutual
inductive Value
  | null
  | bool (b : Bool)
  | int (i : Int)
  | str (s : String)
  | obj (fs : Fields)
inductive Fields
  | nil
  | cons (k : String) (v : Value) (rest : Fields)
end

mutual
def Value.beq : Value → Value → Bool
  | .null, .null => true
  | .bool a, .bool b => a == b
  | .int a, .int b => a == b
  | .str a, .str b => a == b
  | .obj a, .obj b => Fields.beq a b
  | _, _ => false
def Fields.beq : Fields → Fields → Bool
  | .nil, .nil => true
  | .cons k v r, .cons k' v' r' => k == k' && Value.beq v v' && Fields.beq r r'
  | _, _ => false
end

def Value.isObj : Value → Bool
  | .obj _ => true
  | _ => false

def Value.emptyObj : Value := .obj .nil

/-- fields of an object, nothing for any other value (`as_object()` on a const non-object) -/
def Value.fields : Value → Fields
  | .obj fs => fs
  | _ => .nil

namespace Fields

def get (k : String) : Fields → Option Value
  | .nil => none
  | .cons k' v rest => if k' = k then some v else get k rest

/-- remove every entry for `k` -/
def erase (k : String) : Fields → Fields
  | .nil => .nil
  | .cons k' v rest => if k' = k then erase k rest else .cons k' v (erase k rest)

def set (k : String) (v : Value) (fs : Fields) : Fields := .cons k v (fs.erase k)

def length : Fields → Nat
  | .nil => 0
  | .cons _ _ rest => rest.length + 1

def keys : Fields → List String
  | .nil => []
  | .cons k _ rest => k :: rest.keys

def filterKeys (p : String → Bool) : Fields → Fields
  | .nil => .nil
  | .cons k v rest => if p k then .cons k v (filterKeys p rest) else filterKeys p rest

end Fields

/-! ## merge_objects -/

mutual
/-- every overlay entry is written over the base (`result[key] = …`) -/
def mergeFields : Fields → Fields → Fields
  | .nil, base => base
  | .cons k v rest, base => (mergeFields rest base).set k (combine v (base.get k))
/-- the value written for a key: two mappings under the same key are merged recursively, anything else is
replaced by the overlay's value -/
def combine : Value → Option Value → Value
  | .obj ofs, some (.obj bfs) => .obj (mergeFields ofs bfs)
  | v, _ => v
end

/-- `merge overlay base` = `merge_objects(base, overlay)`: a non-mapping overlay replaces the base; a mapping is
merged into the base's fields (a non-mapping base counts as empty) -/
def merge : Value → Value → Value
  | .obj ofs, base => .obj (mergeFields ofs base.fields)
  | v, _ => v

def mergeObjects (base overlay : Value) : Value := merge overlay base

/-- `find_path` -/
def lookup : Value → List String → Option Value
  | v, [] => some v
  | .obj fs, k :: ks =>
    match fs.get k with
    | some c => lookup c ks
    | none => none
  | _, _ :: _ => none

/-- `remove_key` -/
def removeKey (v : Value) (k : String) : Value :=
  match v with
  | .obj fs => .obj (fs.erase k)
  | v => v

/-! ## errors -/

inductive Err
  | notFound        -- E_CONFIG_PROFILE  "Profile not found"
  | cycle           -- E_CONFIG_PROFILE  "Profile inheritance cycle detected"
  | extendsType     -- E_CONFIG_PROFILE  "'extends' must be a string"
  | notMap          -- E_CONFIG_STRUCTURE "Profile must be a mapping"
  | structure       -- E_CONFIG_STRUCTURE (profiles missing / not a mapping)
  | env             -- E_CONFIG_ENVIRONMENT
  | type            -- E_CONFIG_TYPE
  | range           -- E_CONFIG_VALUE
  | fuel            -- not a C++ outcome: the model's recursion budget ran out (proved impossible)
  deriving DecidableEq, Repr

/-! ## resolve_profile -/

/-- `resolve_profile(profiles, name, visiting)`; `profiles` are the fields of the `profiles` mapping -/
def resolve (profiles : Fields) : Nat → List String → String → Except Err Value
  | 0, _, _ => .error .fuel
  | fuel + 1, visiting, name =>
    match profiles.get name with
    | none => .error .notFound
    | some (.obj fs) =>
      if visiting.contains name then .error .cycle
      else
        let own := Value.obj (fs.erase "extends")
        match fs.get "extends" with
        | none => .ok (mergeObjects .emptyObj own)
        | some (.str parent) =>
          match resolve profiles fuel (name :: visiting) parent with
          | .ok base => .ok (mergeObjects base own)
          | .error e => .error e
        | some _ => .error .extendsType
    | some _ => .error .notMap

def resolveProfile (profiles : Fields) (name : String) : Except Err Value :=
  resolve profiles (profiles.length + 1) [] name

/-! ## collect_environment_overrides -/

/-- `std::map` iterates keys in ascending order: direct keys below `"overrides"`, the `overrides` mapping, direct
keys above it; `profile` is skipped.  Every step is a merge into the accumulated overrides. -/
def collectEnv (envNode : Value) : Value :=
  match envNode with
  | .obj fs =>
    let direct := fs.filterKeys fun k => k != "profile" && k != "overrides"
    let below := Value.obj (direct.filterKeys fun k => k < "overrides")
    let above := Value.obj (direct.filterKeys fun k => "overrides" < k)
    let acc := mergeObjects .emptyObj below
    let acc := match fs.get "overrides" with
      | some (.obj o) => mergeObjects acc (.obj o)
      | some v => mergeObjects acc (.obj (.cons "overrides" v .nil))
      | none => acc
    mergeObjects acc above
  | _ => .null

/-! ## typed getters -/

def lowerAscii (s : String) : String := s.map Char.toLower

def getString (root : Value) (path : List String) : Except Err (Option String) :=
  match lookup root path with
  | none => .ok none
  | some (.str s) => .ok (some s)
  | some _ => .error .type

def getBool (root : Value) (path : List String) : Except Err (Option Bool) :=
  match lookup root path with
  | none => .ok none
  | some (.bool b) => .ok (some b)
  | some (.str s) =>
    let l := lowerAscii s
    if l == "true" || l == "yes" || l == "on" then .ok (some true)
    else if l == "false" || l == "no" || l == "off" then .ok (some false)
    else .error .type
  | some _ => .error .type

def getInt (root : Value) (path : List String) : Except Err (Option Int) :=
  match lookup root path with
  | none => .ok none
  | some (.int i) => .ok (some i)
  | some _ => .error .type

/-- `get_*_any`: the first alias path that is present decides (a present value of the wrong type throws) -/
def getAny {α} (get : Value → List String → Except Err (Option α)) (root : Value) : List (List String) → Except Err (Option α)
  | [] => .ok none
  | p :: ps =>
    match get root p with
    | .error e => .error e
    | .ok (some v) => .ok (some v)
    | .ok none => getAny get root ps

/-! ## representative settings -/

structure Options where
  dir : Option String := none
  pers : Option Bool := none
  cport : Option Int := none
  tport : Option Int := none
  tok : Option String := none
  ttl : Option Int := none
  min : Option Int := none
  max : Option Int := none
  pow : Option Int := none
  deriving DecidableEq, Repr

/-! the key spellings each setting is read from, in the order `get_*_any` tries them (regenerated from the source) -/
def dirPaths : List (List String) := EphVerif.Gen.C32.dirPaths
def persPaths : List (List String) := EphVerif.Gen.C32.persPaths
def cportPaths : List (List String) := EphVerif.Gen.C32.cportPaths
def tportPaths : List (List String) := EphVerif.Gen.C32.tportPaths
def tokPaths : List (List String) := EphVerif.Gen.C32.tokPaths
def ttlPaths : List (List String) := EphVerif.Gen.C32.ttlPaths
def minPaths : List (List String) := EphVerif.Gen.C32.minPaths
def maxPaths : List (List String) := EphVerif.Gen.C32.maxPaths
def powPaths : List (List String) := EphVerif.Gen.C32.powPaths

/-- "only fills unset options": a value already present (from a command-line flag) is kept and the profile is not
even read for that setting -/
def fill {α} (cur : Option α) (read : Except Err (Option α)) (valid : α → Bool) : Except Err (Option α) :=
  match cur with
  | some v => .ok (some v)
  | none =>
    match read with
    | .error e => .error e
    | .ok none => .ok none
    | .ok (some v) => if valid v then .ok (some v) else .error .range

def portOk (v : Int) : Bool := decide (0 < v) && decide (v ≤ 65535)
def positive (v : Int) : Bool := decide (0 < v)
def powOk (v : Int) : Bool := decide (0 ≤ v) && decide (v ≤ 24)

/-- `apply_profile_to_options`, in the order of the source -/
def applyProfile (profile : Value) (o : Options) : Except Err Options := do
  if !profile.isObj then throw .structure
  let dir ← fill o.dir (getAny getString profile dirPaths) (fun _ => true)
  let pers ← fill o.pers (getAny getBool profile persPaths) (fun _ => true)
  let cport ← fill o.cport (getAny getInt profile cportPaths) portOk
  let tport ← fill o.tport (getAny getInt profile tportPaths) portOk
  let tok ← fill o.tok (getAny getString profile tokPaths) (fun _ => true)
  let ttl ← fill o.ttl (getAny getInt profile ttlPaths) positive
  let min ← fill o.min (getAny getInt profile minPaths) positive
  let max ← fill o.max (getAny getInt profile maxPaths) positive
  let pow ← fill o.pow (getAny getInt profile powPaths) powOk
  pure { dir, pers, cport, tport, tok, ttl, min, max, pow }

/-! ## load_configuration -/

/-- `doc`: the parsed configuration file (its root is an object); `profileFlag` = `--profile`, `envFlag` = `--env`,
`flags` = the options already set on the command line -/
def loadConfiguration (doc : Value) (profileFlag envFlag : Option String) (flags : Options) : Except Err Options := do
  let profiles ← match lookup doc ["profiles"] with
    | none => throw Err.structure
    | some p => pure p
  let (selected, overrides) ← match envFlag with
    | none => pure (profileFlag.getD "default", Value.emptyObj)
    | some envName =>
      match lookup doc ["environments"] with
      | none => throw Err.env
      | some .null => throw Err.env
      | some (.obj envs) =>
        match envs.get envName with
        | none => throw Err.env
        | some (.obj efs) =>
          let sel ← match profileFlag with
            | some p => pure p
            | none =>
              match ← getString (.obj efs) ["profile"] with
              | some p => pure p
              | none => pure "default"
          pure (sel, collectEnv (.obj efs))
        | some _ => throw Err.env
      | some _ => throw Err.env
  let base ← match profiles with
    | .obj pfs => resolveProfile pfs selected
    | _ => throw Err.structure
  applyProfile (mergeObjects base overrides) flags

end EphVerif.ConfigLayers
