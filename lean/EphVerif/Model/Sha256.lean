/-
Model of src/crypto/Sha256.cpp as it is: the streaming hasher
  state_ (8 words) · buffer_ (64 bytes, the first buffer_size_ are meaningful) · bit_len_ (uint64)
with `update` (memcpy-chunked as in the code), `finalize`, `transform`, `digest`.
Every table entry, rotation amount and size/offset used here comes from `Generated/C08.lean`,
which the plugin rewrites from the working tree on every run.  Core Lean only.

`buffer_` is modelled by the list of its first `buffer_size_` bytes (the bytes beyond are never
read before they are overwritten: `finalize` zero-fills them, `update` memcpy-s over them).
-/
import EphVerif.Generated.C08

namespace EphVerif.Model.Sha256
open EphVerif.Gen.C08

/-! ### anonymous-namespace helpers -/

/-- `rotr(value, shift) = (value >> shift) | (value << (32 - shift))` -/
@[inline] def rotr (value shift : UInt32) : UInt32 := (value >>> shift) ||| (value <<< (32 - shift))

@[inline] def ch (x y z : UInt32) : UInt32 := (x &&& y) ^^^ ((~~~x) &&& z)
@[inline] def maj (x y z : UInt32) : UInt32 := (x &&& y) ^^^ (x &&& z) ^^^ (y &&& z)

@[inline] def bigSigma0 (x : UInt32) : UInt32 :=
  rotr x big_sigma0.1 ^^^ rotr x big_sigma0.2.1 ^^^ rotr x big_sigma0.2.2
@[inline] def bigSigma1 (x : UInt32) : UInt32 :=
  rotr x big_sigma1.1 ^^^ rotr x big_sigma1.2.1 ^^^ rotr x big_sigma1.2.2
@[inline] def smallSigma0 (x : UInt32) : UInt32 :=
  rotr x small_sigma0.1 ^^^ rotr x small_sigma0.2.1 ^^^ (x >>> small_sigma0.2.2)
@[inline] def smallSigma1 (x : UInt32) : UInt32 :=
  rotr x small_sigma1.1 ^^^ rotr x small_sigma1.2.1 ^^^ (x >>> small_sigma1.2.2)

/-- `read_be32` -/
@[inline] def readBe32 (d0 d1 d2 d3 : UInt8) : UInt32 :=
  (d0.toUInt32 <<< 24) ||| (d1.toUInt32 <<< 16) ||| (d2.toUInt32 <<< 8) ||| d3.toUInt32

/-- `write_be32` -/
@[inline] def writeBe32 (value : UInt32) : List UInt8 :=
  [((value >>> 24) &&& 0xFF).toUInt8, ((value >>> 16) &&& 0xFF).toUInt8,
   ((value >>> 8) &&& 0xFF).toUInt8, (value &&& 0xFF).toUInt8]

/-! ### `state_` -/

/-- `std::array<std::uint32_t, 8> state_` (also the working variables `a … h` of `transform`) -/
structure Words8 where
  s0 : UInt32
  s1 : UInt32
  s2 : UInt32
  s3 : UInt32
  s4 : UInt32
  s5 : UInt32
  s6 : UInt32
  s7 : UInt32
deriving DecidableEq, Repr, Inhabited

def Words8.ofList : List UInt32 → Words8
  | [a, b, c, d, e, f, g, h] => ⟨a, b, c, d, e, f, g, h⟩
  | _ => default

def Words8.toList (w : Words8) : List UInt32 := [w.s0, w.s1, w.s2, w.s3, w.s4, w.s5, w.s6, w.s7]

/-! ### `Sha256::transform` -/

/-- first loop: `schedule[i] = read_be32(block + 4 i)` -/
def readWords : List UInt8 → List UInt32
  | d0 :: d1 :: d2 :: d3 :: rest => readBe32 d0 d1 d2 d3 :: readWords rest
  | _ => []

/-- second loop, `n` more iterations; `i` is the number of entries already filled:
    `schedule[i] = small_sigma1(schedule[i-2]) + schedule[i-7] + small_sigma0(schedule[i-15]) + schedule[i-16]` -/
def fillSchedule : Nat → List UInt32 → List UInt32
  | 0, sched => sched
  | n + 1, sched =>
    let i := sched.length
    fillSchedule n (sched ++ [smallSigma1 (sched.getD (i - 2) 0) + sched.getD (i - 7) 0 +
                              smallSigma0 (sched.getD (i - 15) 0) + sched.getD (i - 16) 0])

/-- one iteration of the third loop (`a … h` are `s0 … s7`) -/
@[inline] def roundStep (v : Words8) (k w : UInt32) : Words8 :=
  let temp1 := v.s7 + bigSigma1 v.s4 + ch v.s4 v.s5 v.s6 + k + w
  let temp2 := bigSigma0 v.s0 + maj v.s0 v.s1 v.s2
  { s7 := v.s6, s6 := v.s5, s5 := v.s4, s4 := v.s3 + temp1, s3 := v.s2, s2 := v.s1, s1 := v.s0,
    s0 := temp1 + temp2 }

/-- third loop: `for i < schedule.size()` over `kRoundConstants[i]`, `schedule[i]` -/
def roundsLoop : Words8 → List UInt32 → List UInt32 → Words8
  | v, k :: ks, w :: ws => roundsLoop (roundStep v k w) ks ws
  | v, _, _ => v

def transform (st : Words8) (block : List UInt8) : Words8 :=
  let sched := fillSchedule (blockSize - 16) (readWords block)
  let v := roundsLoop st kRoundConstants sched
  ⟨st.s0 + v.s0, st.s1 + v.s1, st.s2 + v.s2, st.s3 + v.s3, st.s4 + v.s4, st.s5 + v.s5, st.s6 + v.s6, st.s7 + v.s7⟩

/-! ### the hasher object -/

structure State where
  st : Words8
  /-- the first `buffer_size_` bytes of `buffer_` -/
  buf : List UInt8
  bitLen : UInt64
deriving Repr, Inhabited

/-- `Sha256::Sha256()` -/
def init : State := { st := Words8.ofList initState, buf := [], bitLen := 0 }

set_option linter.unusedVariables false in
/-- the `while (offset < data.size())` loop of `update`; `data` is what is left from `offset` on.
    With `buffer_size_ ≥ 64` (`space = 0` or wrapped) the C++ loop would not make progress; that
    state is unreachable (`Lemmas/C08`: `buf.length < 64` is an invariant) and is returned as is. -/
def updateLoop (st : Words8) (buf data : List UInt8) : Words8 × List UInt8 :=
  if hd : data = [] then (st, buf)
  else if hb : spaceBase ≤ buf.length then (st, buf)
  else
    let space := spaceBase - buf.length
    let piece := data.take space                       -- chunk = min(space, data.size() - offset) bytes
    let buf' := buf ++ piece                           -- memcpy, buffer_size_ += chunk
    if buf'.length = blockSize then
      updateLoop (transform st buf') [] (data.drop space)      -- offset += chunk
    else
      updateLoop st buf' (data.drop space)
termination_by data.length
decreasing_by
  all_goals
    have : data.length ≠ 0 := fun h => hd (List.length_eq_zero_iff.mp h)
    simp only [List.length_drop]
    omega

/-- truncation of a value to an unsigned integer type of `bits` bits (the widths of `bit_len_` and of
    the cast applied to `data.size()` are read from the source: `Generated/C08.lean`) -/
def wrapBits (bits : Nat) (x : UInt64) : UInt64 := UInt64.ofNat (x.toNat % 2 ^ bits)

/-- `Sha256::update`: `bit_len_ += static_cast<T>(data.size()) * 8` computed in (at most) 64 bits,
    stored into a `bit_len_` of `bitLenBits` bits -/
def update (s : State) (data : List UInt8) : State :=
  if data.isEmpty then s
  else
    let bitLen := wrapBits bitLenBits
      (s.bitLen + wrapBits bitLenCastBits (UInt64.ofNat data.length) * UInt64.ofNat bitsPerByte)
    let (st, buf) := updateLoop s.st s.buf data
    { st := st, buf := buf, bitLen := bitLen }

/-- the 8 length bytes: `for (i = 7; i >= 0; --i) (bit_len_ >> (i*8)) & 0xFF` -/
def lengthBytes (bitLen : UInt64) : List UInt8 :=
  ((List.range (lengthTopByte + 1)).reverse).map fun i => ((bitLen >>> UInt64.ofNat (i * 8)) &&& 0xFF).toUInt8

/-- the digest loop: `write_be32(digest + 4 i, state_[i])` -/
def digestOf (st : Words8) : List UInt8 := st.toList.flatMap writeBe32

/-- `Sha256::finalize` (the returned digest; the object is not used afterwards) -/
def finalize (s : State) : List UInt8 :=
  let buf := s.buf ++ [UInt8.ofNat terminator]                 -- buffer_[buffer_size_++] = 0x80
  let (st, buf) :=
    if buf.length > padThreshold then                          -- if (buffer_size_ > 56)
      (transform s.st (buf ++ List.replicate (blockSize - buf.length) 0), [])
    else (s.st, buf)
  let buf := buf ++ List.replicate (lengthOffset - buf.length) 0   -- fill up to 56
  let buf := buf.take lengthOffset2 ++ lengthBytes s.bitLen        -- buffer_size_ = 56; 8 length bytes
  digestOf (transform st buf)

/-- `Sha256::digest` -/
def digest (data : List UInt8) : List UInt8 := finalize (update init data)

end EphVerif.Model.Sha256
