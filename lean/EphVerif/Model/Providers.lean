/-
Model of the provider-locator half of `KademliaTable` (src/dht/KademliaTable.cpp):
`add_contact` (locator part), `find_providers`, `sweep_expired` (locator part),
`withdraw_contact`.  Times are integers (nanoseconds of the steady clock); ids are opaque
strings.  `std::unordered_map<std::string, ChunkLocator>` is a finite map, modelled as a
lookup function `String → Option Loc` (`none` = no entry).  `std::sort`'s order among equal expiries
is unspecified, so the truncation step takes an explicit *hint* (the set of peers to keep):
every valid hint is honoured, an invalid or missing one falls back to a stable sort.  All
theorems quantify over every hint.

The holder record `(peer, expiry)` is the observable vocabulary of the specification
(`C06Spec.Ann`); only that type is shared with the specification.
-/
import EphVerif.Generated.C06
import EphVerif.Spec.Providers

namespace EphVerif.Providers

/-- `PeerContact` as far as the locator table is concerned: id and `expires_at` -/
abbrev Holder := EphVerif.C06Spec.Ann

/-- `ChunkLocator`: holders and `expires_at` (the id is the map key) -/
structure Loc where
  holders : List Holder
  exp : Int
deriving DecidableEq, Repr, Inhabited

/-- `unordered_map<string, ChunkLocator> table_`: a finite map, as a lookup function.
    (A structure rather than a bare function type, so that the compiled driver evaluates each
    operation once instead of re-running it inside every later lookup.) -/
structure Table where
  get : String → Option Loc

instance : CoeFun Table (fun _ => String → Option Loc) := ⟨Table.get⟩

def Table.empty : Table := ⟨fun _ => none⟩

/-- `table_[c] = v` / `table_.erase(c)` -/
def Table.set (t : Table) (c : String) (v : Option Loc) : Table := ⟨fun k => if k = c then v else t k⟩

def maxProviders : Nat := EphVerif.Gen.C06.kMaxProviders

/-- `expired(contact, now)`: `now >= contact.expires_at` -/
def expired (now : Int) (h : Holder) : Bool := decide (now ≥ h.exp)

/-- the holders of `c` as `snapshot_locators()` shows them (`[]` if there is no locator) -/
def holdersOf (t : Table) (c : String) : List Holder :=
  match t c with
  | some l => l.holders
  | none => []

/-- insertion into a list sorted by descending expiry, after all entries with expiry ≥ (stable) -/
def insertDesc (h : Holder) : List Holder → List Holder
  | [] => [h]
  | x :: xs => if x.exp ≥ h.exp then x :: insertDesc h xs else h :: x :: xs

def sortDesc (l : List Holder) : List Holder := l.foldl (fun acc h => insertDesc h acc) []

/-- `kept` (given as a peer set) is a legal result of "sort by descending expiry, resize(n)". -/
def validCut (n : Nat) (base : List Holder) (keep : List String) : Bool :=
  let kept := base.filter (fun h => keep.contains h.peer)
  let dropped := base.filter (fun h => !keep.contains h.peer)
  kept.length == n && kept.all (fun k => dropped.all (fun d => decide (d.exp ≤ k.exp)))

def cut (n : Nat) (base : List Holder) (hint : Option (List String)) : List Holder :=
  match hint with
  | some keep => if validCut n base keep then base.filter (fun h => keep.contains h.peer)
                 else (sortDesc base).take n
  | none => (sortDesc base).take n

def maxExp (l : List Holder) (d : Int) : Int := l.foldl (fun m h => max m h.exp) d

/-- the holder list of `add_contact` before truncation: same-id entries removed, new one pushed -/
def addBase (old : List Holder) (p : String) (e : Int) : List Holder :=
  old.filter (fun h => h.peer != p) ++ [⟨p, e⟩]

/-- `add_contact(chunk, contact, ttl)` at time `now`; `ttlNs` is the TTL in nanoseconds. -/
def addContact (t : Table) (now : Int) (c p : String) (ttlNs : Int) (hint : Option (List String)) : Table :=
  let e := now + ttlNs
  let base := addBase (holdersOf t c) p e
  let hs := if base.length > maxProviders then cut maxProviders base hint else base
  -- fix(C06): the locator expires with its longest-lived holder
  t.set c (some ⟨hs, maxExp hs e⟩)

def findProviders (t : Table) (now : Int) (c : String) : Table × List Holder :=
  match t c with
  | none => (t, [])
  | some l =>
    let hs := l.holders.filter (fun h => !expired now h)
    if hs.isEmpty then (t.set c none, [])
    else (t.set c (some { l with holders := hs }), hs)

/-- the locator loop of `sweep_expired`: every entry is visited once -/
def sweep (t : Table) (now : Int) : Table := ⟨fun c =>
  match t c with
  | none => none
  | some l =>
    let hs := l.holders.filter (fun h => !expired now h)
    if hs.isEmpty || decide (now ≥ l.exp) then none else some { l with holders := hs }⟩

def withdraw (t : Table) (c p : String) : Table :=
  match t c with
  | none => t
  | some l =>
    let hs := l.holders.filter (fun h => h.peer != p)
    if hs.isEmpty then t.set c none
    else t.set c (some { l with holders := hs })

/-! ### Histories -/

/-- one operation of a history; `adv` carries a non-negative clock advance, `add` the TTL in
    nanoseconds (any sign) and the tie-break hint for the truncation -/
inductive Op where
  | adv (d : Nat)
  | add (c p : String) (ttlNs : Int) (hint : Option (List String))
  | find (c : String)
  | sweep
  | withdraw (c p : String)
deriving Repr

end EphVerif.Providers
