/-
Model of the provider-locator half of `KademliaTable` (src/dht/KademliaTable.cpp):
`add_contact` (locator part), `find_providers`, `sweep_expired` (locator part),
`withdraw_contact`.  Times are integers (nanoseconds of the steady clock); ids are opaque
strings.  `std::sort`'s order among equal expiries is unspecified, so the truncation step
takes an explicit *hint* (the set of peers to keep): every valid hint is honoured, an invalid
or missing one falls back to a stable sort.  All theorems quantify over every hint.
-/
import EphVerif.Generated.C06

namespace EphVerif.Providers

structure Holder where
  peer : String
  exp : Int
deriving DecidableEq, Repr, Inhabited

structure Loc where
  chunk : String
  holders : List Holder
  exp : Int
deriving DecidableEq, Repr, Inhabited

/-- `unordered_map<string, ChunkLocator>`: association list with unique keys. -/
abbrev Table := List Loc

def maxProviders : Nat := EphVerif.Gen.C06.kMaxProviders

def expired (now : Int) (h : Holder) : Bool := decide (now ≥ h.exp)

def lookup (t : Table) (c : String) : Option Loc := t.find? (·.chunk == c)
def erase (t : Table) (c : String) : Table := t.filter (·.chunk != c)
def upsert (t : Table) (l : Loc) : Table := l :: erase t l.chunk

/-- insertion into a list sorted by descending expiry, after all entries with expiry ≥ (stable) -/
def insertDesc (h : Holder) : List Holder → List Holder
  | [] => [h]
  | x :: xs => if x.exp ≥ h.exp then x :: insertDesc h xs else h :: x :: xs

def sortDesc (l : List Holder) : List Holder := l.foldl (fun acc h => insertDesc h acc) []

/-- `kept` (given as a peer set) is a legal result of "sort by descending expiry, resize(n)". -/
def validCut (n : Nat) (base : List Holder) (keep : List String) : Bool :=
  let kept := base.filter (fun h => keep.contains h.peer)
  let dropped := base.filter (fun h => !keep.contains h.peer)
  kept.length == n && kept.all (fun k => dropped.all (fun d => decide (d.exp ≤ k.exp)))

def cut (n : Nat) (base : List Holder) (hint : Option (List String)) : List Holder :=
  match hint with
  | some keep => if validCut n base keep then base.filter (fun h => keep.contains h.peer)
                 else (sortDesc base).take n
  | none => (sortDesc base).take n

def maxExp (l : List Holder) (d : Int) : Int := l.foldl (fun m h => max m h.exp) d

/-- `add_contact(chunk, contact, ttl)` at time `now`; `ttlNs` is the TTL in nanoseconds. -/
def addContact (t : Table) (now : Int) (c p : String) (ttlNs : Int) (hint : Option (List String)) : Table :=
  let e := now + ttlNs
  let old := match lookup t c with
    | some l => l.holders
    | none => []
  let base := old.filter (·.peer != p) ++ [⟨p, e⟩]
  let hs := if base.length > maxProviders then cut maxProviders base hint else base
  -- fix(C06): the locator expires with its longest-lived holder
  upsert t ⟨c, hs, maxExp hs e⟩

def findProviders (t : Table) (now : Int) (c : String) : Table × List Holder :=
  match lookup t c with
  | none => (t, [])
  | some l =>
    let hs := l.holders.filter (fun h => !expired now h)
    if hs.isEmpty then (erase t c, [])
    else (t.map (fun x => if x.chunk == c then { x with holders := hs } else x), hs)

def sweep (t : Table) (now : Int) : Table :=
  (t.map (fun l => { l with holders := l.holders.filter (fun h => !expired now h) })).filter
    (fun l => !(l.holders.isEmpty || decide (now ≥ l.exp)))

def withdraw (t : Table) (c p : String) : Table :=
  match lookup t c with
  | none => t
  | some l =>
    let hs := l.holders.filter (·.peer != p)
    if hs.isEmpty then erase t c
    else t.map (fun x => if x.chunk == c then { x with holders := hs } else x)

end EphVerif.Providers
