/-
Wire level of the control plane (properties C28 and C29), core Lean only.

Mirrors, function by function (after the `fix:` patches fixes/C29-*.patch):
  src/daemon/ControlServer.cpp   recv_line, to_upper, parse_uint64, parse_request (header loop,
                                 PAYLOAD-LENGTH check, body read), encode_field_value,
                                 send_response, handle_list (entry formatting)
  src/daemon/ControlClient.cpp   recv_line (same text), decode_field_value, parse_response
  src/main.cpp                   print_list_response

Byte strings are `List UInt8`.  A connection is the list of bytes the peer will send before it
closes; `recv` failing = that list being exhausted.  `unordered_map` iteration order is a list
given from outside (any permutation).
-/
import EphVerif.Generated.C28
import EphVerif.Generated.C29

namespace EphVerif.Control

abbrev Bytes := List UInt8

/-- ASCII bytes of a literal -/
def ascii (s : String) : Bytes := s.toList.map fun c => UInt8.ofNat c.toNat

/-- `std::toupper` in the "C" locale, applied bytewise (`to_upper`) -/
def upperByte (b : UInt8) : UInt8 := if 97 ≤ b.toNat ∧ b.toNat ≤ 122 then UInt8.ofNat (b.toNat - 32) else b
def toUpper (s : Bytes) : Bytes := s.map upperByte

/-! ## decimal numbers: `std::to_string(size_t)` / `operator<<` and `std::from_chars(uint64)` -/

def digit (d : Nat) : UInt8 := UInt8.ofNat (48 + d % 10)

/-- decimal rendering without leading zeros (`0` ↦ "0") -/
def toDec (n : Nat) : Bytes :=
  if _h : n < 10 then [digit n] else toDec (n / 10) ++ [digit (n % 10)]
termination_by n
decreasing_by omega

def isDigit (c : UInt8) : Bool := 48 ≤ c.toNat && c.toNat ≤ 57

/-- the digit loop of `from_chars`: every byte must be a digit (the caller demands
    `ptr == end`), the accumulated value must stay below `2^64` (`result_out_of_range`) -/
def ofDecAux : Bytes → Nat → Option Nat
  | [], acc => some acc
  | c :: rest, acc =>
    if isDigit c then
      let acc' := acc * 10 + (c.toNat - 48)
      if acc' < 18446744073709551616 then ofDecAux rest acc' else none
    else none

/-- `parse_uint64` / the PAYLOAD-LENGTH parse of the client: non-empty, digits only, `< 2^64` -/
def parseU64 (s : Bytes) : Option Nat := if s.isEmpty then none else ofDecAux s 0

/-- a comparison whose strictness is read from the source by the extractor:
    `a > b` when `strict = 1`, `a ≥ b` otherwise -/
def cmpGt (strict : Nat) (a b : Int) : Bool := if strict = 1 then decide (a > b) else decide (a ≥ b)

/-! ## `recv_line` and the `while (recv_line(...))` loops -/

/-- what the body of a header loop does with one non-empty line -/
inductive Step (σ : Type) where
  | next (s : σ)    -- fall through to the next `recv_line`
  | stop (s : σ)    -- `break` / `return` out of the loop
deriving Repr, DecidableEq

/-- how a header loop ended -/
inductive LoopEnd where
  | blank        -- an empty line was read
  | recvFailed   -- `recv_line` returned false: peer closed, or a line longer than the limit
  | stopped      -- the body left the loop
deriving DecidableEq, Repr

/-- `while (recv_line(sock, line)) { if (line.empty()) break; body }` over the bytes still to come.
    `acc` is the line read so far (reversed), `n` the `count` of `recv_line`; CR bytes are dropped
    wherever they occur, LF ends the line, a line of more than `maxLine` bytes makes `recv_line`
    fail after having consumed those bytes.  Returns the final state, how the loop ended and the
    bytes not yet read from the connection. -/
def lineLoop {σ : Type} (maxLine : Nat) (body : σ → Bytes → Step σ) : Bytes → Bytes → Nat → σ → σ × LoopEnd × Bytes
  | [], _, _, st => (st, .recvFailed, [])
  | c :: rest, acc, n, st =>
    if c = 10 then
      if acc.isEmpty then (st, .blank, rest)
      else match body st acc.reverse with
        | .next st' => lineLoop maxLine body rest [] 0 st'
        | .stop st' => (st', .stopped, rest)
    else if c = 13 then lineLoop maxLine body rest acc n st
    else if n + 1 > maxLine then (st, .recvFailed, rest)
    else lineLoop maxLine body rest (c :: acc) (n + 1) st

/-- `line.find(':')`: the part before the first colon and the part after it -/
def splitColon : Bytes → Option (Bytes × Bytes)
  | [] => none
  | c :: rest =>
    if c = 58 then some ([], rest)
    else match splitColon rest with
      | some (k, v) => some (c :: k, v)
      | none => none

/-! ## field maps

`ControlFields` is an `unordered_map<string,string>`.  The model keeps the entries in insertion
order; `setField` is `fields[key] = value`. -/

abbrev Fields := List (Bytes × Bytes)

def hasKey (fs : Fields) (k : Bytes) : Bool := fs.any fun p => p.1 == k

def setField (fs : Fields) (k v : Bytes) : Fields :=
  if hasKey fs k then fs.map fun p => if p.1 == k then (p.1, v) else p else fs ++ [(k, v)]

def getField (fs : Fields) (k : Bytes) : Option Bytes := (fs.find? fun p => p.1 == k).map (·.2)

/-- `slot.push_back('\n'); slot.append(extra)` through a pointer to the value of `k` -/
def appendToField (fs : Fields) (k extra : Bytes) : Fields :=
  fs.map fun p => if p.1 == k then (p.1, p.2 ++ extra) else p

/-! ## the daemon's request parser (`parse_request`) -/

structure Request where
  /-- `result.request.fields` (keys upper-cased, later duplicates overwrite) -/
  fields : Fields := []
  payload : Bytes := []
  payloadHeaderPresent : Bool := false
deriving Repr, DecidableEq

structure ReqState where
  fields : Fields := []
  payloadLength : Option Nat := none
  headerPresent : Bool := false
  sawAnyLines : Bool := false
  /-- error code of an early `return result;` -/
  error : Option String := none
deriving Repr

/-- body of the header loop of `parse_request`; `cap` is `max_control_stream_bytes()` -/
def reqLine (cap : Nat) (st : ReqState) (line : Bytes) : Step ReqState :=
  let st := { st with sawAnyLines := true }
  match splitColon line with
  | none => .stop { st with error := some "ERR_CONTROL_HEADER" }
  | some (k, value) =>
    let key := toUpper k
    if key = ascii "PAYLOAD-LENGTH" then
      match parseU64 value with
      | none => .stop { st with error := some "ERR_CONTROL_PAYLOAD_LENGTH" }
      | some n =>
        if cmpGt Gen.C28.payloadCapStrict n cap then .stop { st with error := some "ERR_CONTROL_PAYLOAD_TOO_LARGE" }
        else .next { st with payloadLength := some n, headerPresent := true, fields := setField st.fields key value }
    else .next { st with fields := setField st.fields key value }

inductive ParseOutcome where
  /-- no line at all: the connection is dropped without a response -/
  | closed
  /-- error response with this code; `unread` = bytes of the connection never read -/
  | error (code : String) (unread : Bytes)
  | ok (req : Request) (unread : Bytes)
deriving Repr

def serverMaxLine : Nat := Gen.C28.kMaxLineLength

/-- `parse_request(client)` -/
def parseRequest (cap : Nat) (input : Bytes) : ParseOutcome :=
  match lineLoop serverMaxLine (reqLine cap) input [] 0 {} with
  | (st, _, rest) =>
    match st.error with
    | some code => .error code rest
    | none =>
      if !st.sawAnyLines then .closed
      else
        let n := st.payloadLength.getD 0
        if n > 0 then
          if rest.length < n then .error "ERR_CONTROL_PAYLOAD_TRUNCATED" []
          else .ok { fields := st.fields, payload := rest.take n, payloadHeaderPresent := st.headerPresent } (rest.drop n)
        else .ok { fields := st.fields, payload := [], payloadHeaderPresent := st.headerPresent } rest

/-! ## responses: `send_response` -/

/-- `encode_field_value`: backslash and CR escaped, every LF followed by a TAB (continuation line) -/
def encodeValue (v : Bytes) : Bytes :=
  v.flatMap fun c => if c = 92 then [92, 92] else if c = 13 then [92, 114] else if c = 10 then [10, 9] else [c]

/-- `decode_field_value` -/
def decodeValue : Bytes → Bytes
  | [] => []
  | [c] => [c]
  | c :: d :: rest =>
    if c = 92 ∧ (d = 92 ∨ d = 114) then (if d = 114 then 13 else 92) :: decodeValue rest
    else c :: decodeValue (d :: rest)

def fieldLine (p : Bytes × Bytes) : Bytes := p.1 ++ 58 :: (encodeValue p.2 ++ [10])

/-- the bytes `send_response` writes.  `emitted` is the field map in the iteration order of the
    `unordered_map` (with the PAYLOAD-LENGTH entry already assigned when there is a payload). -/
def serialise (success : Bool) (emitted : Fields) (payload : Bytes) : Bytes :=
  ascii (if success then "STATUS:OK\n" else "STATUS:ERROR\n") ++ (emitted.flatMap fieldLine ++ 10 :: payload)

/-- what the handler hands to `send_response` -/
structure Response where
  success : Bool
  fields : Fields
  /-- `payload.data() != nullptr || payload.size() > 0` -/
  hasPayload : Bool := false
  payload : Bytes := []
deriving Repr, DecidableEq

/-- `fields["PAYLOAD-LENGTH"] = std::to_string(payload.size())` when there is a payload -/
def Response.wireFields (r : Response) : Fields :=
  if r.hasPayload then setField r.fields (ascii "PAYLOAD-LENGTH") (toDec r.payload.length) else r.fields

/-! ## the client's parser (`parse_response`) -/

structure ClientState where
  success : Bool := false
  statusSeen : Bool := false
  fields : Fields := []
  /-- `continued_value`: the key whose value continuation lines extend -/
  cont : Option Bytes := none
  payloadLength : Option Nat := none
deriving Repr, DecidableEq

def clientLine (st : ClientState) (line : Bytes) : Step ClientState :=
  if line.head? = some 9 then
    match st.cont with
    | some k => .next { st with fields := appendToField st.fields k (10 :: decodeValue (line.drop 1)) }
    | none => .next st
  else
    let st := { st with cont := none }
    match splitColon line with
    | none => .next st
    | some (k, raw) =>
      let key := toUpper k
      let value := decodeValue raw
      if key = ascii "STATUS" then .next { st with statusSeen := true, success := (toUpper value == ascii "OK") }
      else if key = ascii "PAYLOAD-LENGTH" then
        match parseU64 value with
        | some n => .next { st with fields := setField st.fields key value, payloadLength := some n }
        | none => .stop { st with success := false, fields := setField st.fields (ascii "MESSAGE") (ascii "Invalid payload length") }
      else .next { st with fields := setField st.fields key value, cont := some key }

structure ClientResponse where
  success : Bool
  fields : Fields
  hasPayload : Bool
  payload : Bytes
deriving Repr, DecidableEq

def clientMaxLine : Nat := Gen.C29.kClientMaxLineLength

/-- `parse_response(socket)`; `limit` is the client's `max_control_stream_bytes()` -/
def parseResponse (limit : Nat) (input : Bytes) : ClientResponse :=
  match lineLoop clientMaxLine clientLine input [] 0 {} with
  | (st, _, rest) =>
    let st := if st.statusSeen then st
              else { st with success := false, fields := setField st.fields (ascii "MESSAGE") (ascii "Respuesta incompleta del daemon") }
    match st.payloadLength with
    | none => { success := st.success, fields := st.fields, hasPayload := false, payload := [] }
    | some n =>
      if n > limit then
        { success := false, fields := setField st.fields (ascii "MESSAGE") (ascii "Payload exceeds client limit"), hasPayload := false, payload := [] }
      else if n > 0 ∧ rest.length < n then
        { success := false, fields := setField st.fields (ascii "MESSAGE") (ascii "Truncated control payload"), hasPayload := false, payload := [] }
      else { success := st.success, fields := st.fields, hasPayload := true, payload := rest.take n }

/-! ## LIST: `handle_list` and the CLI's `print_list_response` -/

structure ChunkEntry where
  /-- `chunk_id_to_string(entry.id)`: 64 lowercase hex digits -/
  idHex : Bytes
  size : Nat
  encrypted : Bool
  /-- `ttl_seconds_remaining` (never negative) -/
  ttl : Nat
deriving Repr, DecidableEq

def entryText (e : ChunkEntry) : Bytes :=
  e.idHex ++ 44 :: (toDec e.size ++ 44 :: ((if e.encrypted then ascii "encrypted" else ascii "plain") ++ 44 :: toDec e.ttl))

/-- `handle_list`: CODE, COUNT and ENTRIES (one line per chunk, each terminated by LF) -/
def handleList (snapshot : List ChunkEntry) : Response :=
  { success := true,
    fields := [(ascii "CODE", ascii "OK_LIST"), (ascii "COUNT", toDec snapshot.length),
               (ascii "ENTRIES", snapshot.flatMap fun e => entryText e ++ [10])] }

/-- split at every `sep` (the pieces between separators, including empty ones) -/
def splitBy (sep : UInt8) : Bytes → Bytes → List Bytes
  | [], acc => [acc.reverse]
  | c :: rest, acc => if c = sep then acc.reverse :: splitBy sep rest [] else splitBy sep rest (c :: acc)

/-- the lines the CLI prints for an entry with exactly four comma-separated tokens -/
def entryLine (tokens : List Bytes) : Option Bytes :=
  match tokens with
  | [a, b, c, d] => some (ascii "  ID=" ++ a ++ ascii " size=" ++ b ++ ascii " bytes, state=" ++ c ++ ascii ", ttl=" ++ d ++ ascii "s")
  | _ => none

/-- `print_list_response`: the lines written to stdout -/
def printList (r : ClientResponse) : List Bytes :=
  let entries : List Bytes :=
    match getField r.fields (ascii "ENTRIES") with
    | none => []
    | some v => ((splitBy 10 v []).filter fun l => !l.isEmpty).filterMap fun l => entryLine (splitBy 44 l [])
  -- `display_count` is `entries.size()` whether or not COUNT agrees with it
  (ascii "Local chunks: " ++ toDec entries.length) :: entries

def expectedListing (snapshot : List ChunkEntry) : List Bytes :=
  (ascii "Local chunks: " ++ toDec snapshot.length) ::
    snapshot.map fun e => ascii "  ID=" ++ e.idHex ++ ascii " size=" ++ toDec e.size ++ ascii " bytes, state=" ++
      (if e.encrypted then ascii "encrypted" else ascii "plain") ++ ascii ", ttl=" ++ toDec e.ttl ++ ascii "s"

end EphVerif.Control
