import EphVerif.Generated.C07

/-!
Model of the routing-table half of `KademliaTable` (C07): `/repo/src/dht/KademliaTable.cpp`,
`bucket_index_for`, `upsert_bucket`, `register_peer`, `sweep_buckets`, `closest_peers`, and the
`upsert_bucket(contact)` call of `add_contact`.  Core Lean only (links into `drv_c07`).

* A `PeerId` (`std::array<std::uint8_t, 32>`) is a `List Nat` of bytes (`< 256`; the theorems
  carry that as a hypothesis, the driver converts hex at the boundary).
* `steady_clock::time_point` is an `Int` count of nanoseconds since the clock's epoch.
* `buckets_` (`std::array<std::deque<PeerContact>, kIdBits>`) is a function `Nat → List Contact`
  (front of the deque = head of the list); the code only ever indexes it below `kIdBits`.
* `kBucketSize` and `kIdBits` are regenerated from the working tree (`Generated/C07.lean`).
-/
namespace EphVerif.Routing

abbrev Id := List Nat

structure Contact where
  id : Id
  addr : String
  exp : Int
deriving DecidableEq, Repr, Inhabited

structure Table where
  self : Id
  buckets : Nat → List Contact

def kBucketSize : Nat := EphVerif.Gen.C07.kBucketSize
def kIdBits : Nat := EphVerif.Gen.C07.kIdBits

def Table.empty (self : Id) : Table := { self := self, buckets := fun _ => [] }

/-- `std::countl_zero(static_cast<unsigned int>(d)) - 24` for a byte `d` (8 for `d = 0`,
    which the caller never asks for). -/
def clz8 (d : Nat) : Nat :=
  if d ≥ 128 then 0 else if d ≥ 64 then 1 else if d ≥ 32 then 2 else if d ≥ 16 then 3
  else if d ≥ 8 then 4 else if d ≥ 4 then 5 else if d ≥ 2 then 6 else if d ≥ 1 then 7 else 8

/-- The `for` loop of `bucket_index_for`: returns `(leading_zeros, all_zero)`.
    `diff == 0 → leading_zeros += 8; continue`, otherwise add the byte's leading zeros and `break`. -/
def scan : Id → Id → Nat → Nat × Bool
  | a :: as, b :: bs, lz =>
    let diff := a ^^^ b
    if diff = 0 then scan as bs (lz + 8) else (lz + clz8 diff, false)
  | _, _, lz => (lz, true)

/-- `KademliaTable::bucket_index_for` -/
def bucketIndexFor (self peer : Id) : Option Nat :=
  let r := scan self peer 0
  if r.2 || r.1 ≥ kIdBits then none else some (kIdBits - r.1 - 1)

/-- anonymous-namespace `expired(contact, now)`: `now >= contact.expires_at` -/
def expired (now : Int) (c : Contact) : Bool := decide (now ≥ c.exp)

def live (now : Int) (c : Contact) : Bool := !expired now c

/-- body of `upsert_bucket` once the bucket is chosen: prune expired entries, refresh an existing
    entry in place (erase it, push the refreshed copy to the back), otherwise `pop_front` when the
    bucket already holds `kBucketSize` entries, then `push_back`. -/
def upsertList (now : Int) (c : Contact) (bucket : List Contact) : List Contact :=
  let b := bucket.filter (live now)
  match b.find? (fun e => e.id == c.id) with
  | some e => b.eraseP (fun e => e.id == c.id) ++ [{ e with addr := c.addr, exp := c.exp }]
  | none => (if b.length ≥ kBucketSize then b.drop 1 else b) ++ [c]

/-- `KademliaTable::upsert_bucket` -/
def upsertBucket (t : Table) (now : Int) (c : Contact) : Table :=
  match bucketIndexFor t.self c.id with
  | none => t
  | some i => { t with buckets := fun j => if j = i then upsertList now c (t.buckets i) else t.buckets j }

/-- `KademliaTable::register_peer`: an `expires_at` equal to the clock's epoch means "now". -/
def registerPeer (t : Table) (now : Int) (c : Contact) : Table :=
  upsertBucket t now (if c.exp = 0 then { c with exp := now } else c)

/-- the routing-table effect of `KademliaTable::add_contact(chunk, contact, ttl)`:
    `contact.expires_at = now + ttl; upsert_bucket(contact)` (`ttlNs` = the ttl in nanoseconds). -/
def addContactBucket (t : Table) (now : Int) (c : Contact) (ttlNs : Int) : Table :=
  upsertBucket t now { c with exp := now + ttlNs }

/-- `KademliaTable::sweep_buckets` (all that `sweep_expired` does to the buckets) -/
def sweepBuckets (t : Table) (now : Int) : Table :=
  { t with buckets := fun j => (t.buckets j).filter (live now) }

/-- every contact, in the iteration order of `for (bucket : buckets_) for (contact : bucket)` -/
def allContacts (t : Table) : List Contact := (List.range kIdBits).flatMap t.buckets

/-- `KademliaTable::xor_distance` -/
def xorDistance (a b : Id) : List Nat := List.zipWith (· ^^^ ·) a b

/-- `std::array::operator<` = `std::lexicographical_compare` on the distance bytes -/
def lexLt : List Nat → List Nat → Bool
  | a :: as, b :: bs => if a < b then true else if b < a then false else lexLt as bs
  | [], _ :: _ => true
  | _, [] => false

structure Candidate where
  distance : List Nat
  contact : Contact

/-- `!(rhs.distance < lhs.distance)`: the non-strict order the sort comparator induces -/
def candLe (x y : Candidate) : Bool := !lexLt y.distance x.distance

/-- `KademliaTable::closest_peers`; `std::sort` is modelled by `List.mergeSort`
    (`C07.sort_unique`: every correct sort yields the same list here). -/
def closestPeers (t : Table) (now : Int) (target : Id) (limit : Nat) : List Contact :=
  let candidates := ((allContacts t).filter (live now)).map fun c => Candidate.mk (xorDistance c.id target) c
  let sorted := candidates.mergeSort candLe
  if limit = 0 then []
  else (sorted.take (min limit sorted.length)).map (·.contact)

/-! ### operations and histories -/

inductive Op where
  /-- the virtual clock moves (any amount, also backwards: the theorems do not need monotone time) -/
  | adv (ns : Int)
  /-- `register_peer` with the given `expires_at` (0 = epoch sentinel) -/
  | reg (id : Id) (addr : String) (exp : Int)
  /-- `add_contact` with a ttl in nanoseconds -/
  | add (id : Id) (addr : String) (ttlNs : Int)
  | sweep
  /-- `closest_peers` is `const`: no state change -/
  | closest (target : Id) (limit : Nat)

structure State where
  now : Int
  table : Table

def step (s : State) : Op → State
  | .adv d => { s with now := s.now + d }
  | .reg id addr exp => { s with table := registerPeer s.table s.now ⟨id, addr, exp⟩ }
  | .add id addr ttl => { s with table := addContactBucket s.table s.now ⟨id, addr, 0⟩ ttl }
  | .sweep => { s with table := sweepBuckets s.table s.now }
  | .closest _ _ => s

def run (s : State) (ops : List Op) : State := ops.foldl step s

def State.init (self : Id) (t0 : Int) : State := { now := t0, table := Table.empty self }

end EphVerif.Routing
