/-
Model of the session-key schedule as the code has it (known finding C39: nothing here is repaired):
src/network/KeyManager.cpp (`register_session`, `register_session_with_material`,
`rotate_if_needed`, `derive_key`) and the parts of src/core/Node.cpp that use it
(`perform_handshake` → `register_session_with_material`, `tick` → `rotate_session_keys` →
`SessionManager::register_peer_key`, `send_secure`, `handle_transport_message`).  Core Lean only.

* HMAC-SHA256 is a parameter `hmac key data` (instantiated with `EphVerif.Spec.hmacSha256`, which C08
  proves equal to the code's `HmacSha256::compute`).
* `steady_clock::time_point`s are `Int` nanoseconds, one clock reading per call, supplied by the
  schedule — each node reads *its own* clock.  `counter` is a `uint64` (wraps at 2^64); the signed
  64-bit tick count is serialised byte by byte with `>>`/`& 0xFF`, i.e. in two's complement.
* A node, as far as this property is concerned, is: the sanitised rotation interval, the
  `KeyManager` context for the peer, the key its `SessionManager` session encrypts with, and
  whether that session is up.  Rotation re-registers the key and leaves the session up.
-/
import EphVerif.Generated.C39

namespace EphVerif.Rotation
open EphVerif.Gen

abbrev Bytes := List UInt8

/-- `(v >> (i * 8)) & 0xFF` -/
def byteAt (v i : Nat) : UInt8 := UInt8.ofNat (v / 2 ^ (8 * i) % 256)

/-- the bit pattern of an `int64` tick count -/
def tickBits (t : Int) : Nat := (t % 18446744073709551616).toNat

/-- byte `p` of `material` after the two loops of `derive_key` (the tick loop runs second) -/
def materialByte (counter ticks p : Nat) : UInt8 :=
  if p ≤ C39.ticksBase ∧ C39.ticksBase - p < C39.fieldBytes then byteAt ticks (C39.ticksBase - p)
  else if p ≤ C39.counterBase ∧ C39.counterBase - p < C39.fieldBytes then byteAt counter (C39.counterBase - p)
  else 0

/-- `material` of `derive_key(secret, counter, timestamp)` / `register_session` -/
def material (counter : Nat) (timestamp : Int) : Bytes :=
  (List.range C39.materialSize).map (materialByte (counter % 18446744073709551616) (tickBits timestamp))

/-- `make_handshake_material(local_public, remote_public)`: the two 32-bit public values, smaller
first, big-endian -/
def handshakeMaterial (x y : Nat) : Bytes :=
  let lo := min x y
  let hi := max x y
  [byteAt lo 3, byteAt lo 2, byteAt lo 1, byteAt lo 0, byteAt hi 3, byteAt hi 2, byteAt hi 1, byteAt hi 0]

/-- `SessionKeyContext` -/
structure Endpoint where
  secret : Bytes
  key : Bytes
  counter : Nat
  lastRotation : Int
deriving DecidableEq, Repr

section
variable (hmac : Bytes → Bytes → Bytes)

/-- `KeyManager::register_session_with_material` -/
def registerWithMaterial (secret mat : Bytes) (now : Int) : Endpoint :=
  { secret := secret, key := hmac secret mat, counter := 0, lastRotation := now }

/-- `KeyManager::register_session` (uses the registering node's clock as material) -/
def register (secret : Bytes) (now : Int) : Endpoint := registerWithMaterial hmac secret (material 0 now) now

/-- `KeyManager::derive_key` -/
def deriveKey (secret : Bytes) (counter : Nat) (timestamp : Int) : Bytes := hmac secret (material counter timestamp)

/-- `KeyManager::rotate_if_needed(peer, now)`; `interval` in nanoseconds -/
def rotateIfNeeded (interval : Int) (e : Endpoint) (now : Int) : Endpoint × Option Bytes :=
  if C39.notDue (now - e.lastRotation) interval then (e, none)
  else
    let c := (e.counter + 1) % 18446744073709551616
    let k := deriveKey hmac e.secret c now
    ({ e with counter := c, lastRotation := now, key := k }, some k)

/-- `sanitize_key_rotation_interval`, seconds -/
def sanitizeInterval (secs : Int) : Int :=
  let s := if secs ≤ 0 then (C39.kMinKeyRotationInterval : Int) else secs
  let s := if s < C39.kMinKeyRotationInterval then (C39.kMinKeyRotationInterval : Int) else s
  if s > C39.kMaxKeyRotationInterval then (C39.kMaxKeyRotationInterval : Int) else s

/-- one end of a session -/
structure Node where
  /-- rotation interval, nanoseconds -/
  interval : Int
  /-- `key_manager_` context for the peer -/
  ctx : Option Endpoint
  /-- `Session::key` / `keys_[peer]` in this node's `SessionManager` -/
  sessionKey : Option Bytes
  /-- a running `Session` for the peer exists -/
  sessionOpen : Bool
deriving DecidableEq, Repr

def Node.fresh (intervalSecs : Int) : Node :=
  { interval := sanitizeInterval intervalSecs * 1000000000, ctx := none, sessionKey := none, sessionOpen := false }

/-- the key this node signs and verifies protocol messages with (`session_shared_key`) -/
def Node.key (n : Node) : Option Bytes := n.ctx.map (·.key)

/-- `Node::perform_handshake` (success path): context from the shared secret and the handshake
material, key registered with the session manager -/
def Node.handshake (n : Node) (secret mat : Bytes) (now : Int) : Node :=
  let e := registerWithMaterial hmac secret mat now
  { n with ctx := some e, sessionKey := some e.key }

/-- `Node::register_shared_secret` -/
def Node.registerSecret (n : Node) (secret : Bytes) (now : Int) : Node :=
  let e := register hmac secret now
  { n with ctx := some e, sessionKey := some e.key }

/-- `Node::tick` → `rotate_session_keys(now)` (also `Node::rotate_session_key`): the rotated key is
re-registered; the session is neither closed nor told anything -/
def Node.tick (n : Node) (now : Int) : Node :=
  match n.ctx with
  | none => n
  | some e =>
    match rotateIfNeeded hmac n.interval e now with
    | (e', some k) => { n with ctx := some e', sessionKey := some k }
    | (e', none) => { n with ctx := some e' }

/-- `Node::send_secure`: re-registers the current key before sending -/
def Node.beforeSend (n : Node) : Node :=
  match n.key with
  | some k => { n with sessionKey := some k }
  | none => n

/-- the two ends of one session -/
structure Sys where
  a : Node
  b : Node
deriving DecidableEq, Repr

inductive Ev
  /-- node A's periodic tick, at this reading of A's clock -/
  | tickA (now : Int)
  /-- node B's periodic tick, at this reading of B's clock -/
  | tickB (now : Int)
deriving DecidableEq, Repr

def Sys.step (s : Sys) : Ev → Sys
  | .tickA now => { s with a := s.a.tick hmac now }
  | .tickB now => { s with b := s.b.tick hmac now }

def Sys.run (s : Sys) (evs : List Ev) : Sys := evs.foldl (Sys.step hmac) s

/-- both ends after a mutual handshake on one shared secret and one handshake material (C12), with
the transport session established; `ta`/`tb` are the two nodes' clock readings at their
`perform_handshake` -/
def Sys.afterHandshake (ivA ivB : Int) (secret mat : Bytes) (ta tb : Int) : Sys :=
  { a := { (Node.fresh ivA).handshake hmac secret mat ta with sessionOpen := true },
    b := { (Node.fresh ivB).handshake hmac secret mat tb with sessionOpen := true } }

end

end EphVerif.Rotation
