/-
Model of the relay server (src/relay/RelayServer.cpp) for C25 and C26.  Core Lean only.

Clients are natural numbers (one per accepted connection, never reused; the real server
reuses descriptor numbers but a `weak_ptr` names the session object, not the number).
The transitions mirror, function by function,

  on_client_event / handle_read / handle_write / process_protocol / handle_line /
  handle_register / handle_connect / handle_identity_ready / forward_to_partner /
  queue_binary / close_session / detach_partner / remove_registration / find_registered

of the repaired source (REGISTER from a session that is currently claimed is refused).
One `Event` is one thing the kernel can report for a client:

  accept c      ::accept returned a new connection
  recv c bytes  one ::recv call in handle_read returned `bytes` (at most 4096 of them)
  eof c         ::recv returned 0
  err c         ::recv / ::send failed, or the loop reported EPOLLERR/EPOLLHUP
  flush c n     handle_write: ::send accepted `n` bytes of c's write buffer

`weak_ptr::lock()` is "the client is still in `sessions`": a session leaves `sessions_` in
the same call that sets `closing`, and nothing runs in between except work on the *partner*.
The one place where the C++ can fail to terminate (handle_identity_ready closing the session
inside process_protocol's loop, which then spins on the unconsumed buffer) is the explicit
outcome `hung := true`; `C26.total` shows it is unreachable.
-/
import EphVerif.Generated.C25

namespace EphVerif.Relay
open EphVerif.Gen.C25

abbrev Client := Nat
abbrev Bytes := List UInt8

/-! ### association lists (std::unordered_map) -/

def mget {κ α : Type} [BEq κ] (m : List (κ × α)) (k : κ) : Option α := m.lookup k
def merase {κ α : Type} [BEq κ] (m : List (κ × α)) (k : κ) : List (κ × α) := m.filter fun p => !(p.1 == k)
def mset {κ α : Type} [BEq κ] (m : List (κ × α)) (k : κ) (v : α) : List (κ × α) := (k, v) :: merase m k

/-! ### state -/

inductive SState where
  | awaitingCommand | registered | awaitingIdentity | bridged
  deriving DecidableEq, Repr, Inhabited

structure Session where
  state : SState := .awaitingCommand
  readBuf : Bytes := []
  writeBuf : Bytes := []
  peerHex : Bytes := []
  connectSelf : Bytes := []
  partner : Option Client := none
  deriving DecidableEq, Repr, Inhabited

/-- What is appended to a write buffer: server-originated text, or bytes relayed from `src`. -/
inductive Item where
  | ctrl (text : Bytes)
  | relay (src : Client) (data : Bytes)
  deriving DecidableEq, Repr, Inhabited

def Item.bytes : Item → Bytes
  | .ctrl t => t
  | .relay _ d => d

/-- Observable effects, newest first in `State.out`. -/
inductive Out where
  | queued (c : Client) (item : Item)   -- appended to c's write buffer
  | sent (c : Client) (data : Bytes)    -- put on the wire to c
  | closed (c : Client)                 -- ::close(fd) of c
  deriving DecidableEq, Repr, Inhabited

structure State where
  sessions : List (Client × Session) := []   -- sessions_
  registered : List (Bytes × Client) := []   -- registered_ (peer hex ↦ session)
  used : List Client := []                   -- every client ever accepted
  out : List Out := []
  hung : Bool := false
  deriving Repr, Inhabited

def State.get (σ : State) (c : Client) : Option Session := mget σ.sessions c
def State.put (σ : State) (c : Client) (s : Session) : State := { σ with sessions := mset σ.sessions c s }
def State.drop (σ : State) (c : Client) : State := { σ with sessions := merase σ.sessions c }
def State.emit (σ : State) (o : Out) : State := { σ with out := o :: σ.out }
def State.reg (σ : State) (k : Bytes) : Option Client := mget σ.registered k
def State.setReg (σ : State) (k : Bytes) (c : Client) : State := { σ with registered := mset σ.registered k c }
def State.eraseReg (σ : State) (k : Bytes) : State := { σ with registered := merase σ.registered k }

/-- `weak_ptr::lock()` -/
def State.lock (σ : State) (p : Option Client) : Option Client :=
  match p with
  | none => none
  | some q => if (σ.get q).isSome then some q else none

/-! ### bytes -/

def nl : UInt8 := 10
def cr : UInt8 := 13
def sp : UInt8 := 32

def isHexDigit (b : UInt8) : Bool :=
  (48 ≤ b && b ≤ 57) || (97 ≤ b && b ≤ 102) || (65 ≤ b && b ≤ 70)

/-- is_hex_string -/
def isHexString (t : Bytes) : Bool := !t.isEmpty && t.all isHexDigit

/-- peer_id_to_string ∘ peer_id_from_string on 64 hex digits: lower-case -/
def lowerHex (b : UInt8) : UInt8 := if 65 ≤ b && b ≤ 70 then b + 32 else b

/-- `read_buffer.find('\n')`, `substr(0,pos)`, `erase(0,pos+1)` -/
def splitLine : Bytes → Option (Bytes × Bytes)
  | [] => none
  | b :: rest =>
    if b == nl then some ([], rest)
    else match splitLine rest with
      | none => none
      | some (l, r) => some (b :: l, r)

/-- `if (!line.empty() && line.back() == '\r') line.pop_back()` -/
def stripCr (line : Bytes) : Bytes :=
  match line.getLast? with
  | some b => if b == cr then line.dropLast else line
  | none => line

/-- split_command: up to the first space / everything after it -/
def splitCommand : Bytes → Bytes × Bytes
  | [] => ([], [])
  | b :: rest =>
    if b == sp then ([], rest)
    else let (c, a) := splitCommand rest; (b :: c, a)

/-- split_arguments: space-separated, empty tokens dropped -/
def splitArgsAux : Bytes → Bytes → List Bytes
  | [], cur => if cur.isEmpty then [] else [cur.reverse]
  | b :: rest, cur =>
    if b == sp then (if cur.isEmpty then splitArgsAux rest [] else cur.reverse :: splitArgsAux rest [])
    else splitArgsAux rest (b :: cur)

def splitArguments (t : Bytes) : List Bytes := splitArgsAux t []

/-! ### queueing and closing -/

/-- queue_binary / queue_text -/
def queue (σ : State) (c : Client) (item : Item) : State :=
  match σ.get c with
  | none => σ
  | some s => (σ.put c { s with writeBuf := s.writeBuf ++ item.bytes }).emit (.queued c item)

/-- remove_registration(session) for session `c` with record `s` -/
def removeRegistration (σ : State) (c : Client) (s : Session) : State :=
  if s.peerHex.isEmpty then σ else
  match σ.reg s.peerHex with
  | none => σ
  | some e =>
    if (σ.get e).isSome then (if e = c then σ.eraseReg s.peerHex else σ)
    else σ.eraseReg s.peerHex

/-- close_session(p) for a session whose partner pointer has just been reset
    (detach_partner inside it returns at `if (!partner)`). -/
def closeNoPartner (σ : State) (p : Client) : State :=
  match σ.get p with
  | none => σ
  | some s => ((removeRegistration σ p s).drop p).emit (.closed p)

/-- detach_partner(session), `s` being the closing session's record -/
def detachPartner (σ : State) (s : Session) : State :=
  match s.partner with
  | none => σ
  | some p =>
    match σ.get p with
    | none => σ
    | some ps =>
      let σ1 := σ.put p { ps with partner := none }
      if ps.state = .awaitingIdentity ∨ ps.state = .bridged then closeNoPartner σ1 p
      else if ps.state = .registered ∧ !ps.peerHex.isEmpty then σ1.setReg ps.peerHex p
      else σ1

/-- close_session(c) -/
def closeSession (σ : State) (c : Client) : State :=
  match σ.get c with
  | none => σ                                   -- closing already
  | some s =>
    let σ1 := removeRegistration σ c s
    let σ2 := σ1.drop c                         -- closing := true … sessions_.erase(fd)
    let σ3 := detachPartner σ2 s
    σ3.emit (.closed c)

/-- find_registered -/
def findRegistered (σ : State) (hex : Bytes) : State × Option Client :=
  match σ.reg hex with
  | none => (σ, none)
  | some t =>
    match σ.get t with
    | none => (σ.eraseReg hex, none)
    | some ts => if ts.state = .registered then (σ, some t) else (σ.eraseReg hex, none)

/-! ### protocol handlers -/

/-- handle_register -/
def handleRegister (σ : State) (c : Client) (hex : Bytes) : State :=
  match σ.get c with
  | none => σ
  | some s =>
    if !isHexString hex then queue σ c (.ctrl errRegNotHex)
    else if hex.length ≠ 2 * kPeerIdBytes then queue σ c (.ctrl errRegBadLength)
    else if (σ.lock s.partner).isSome then queue σ c (.ctrl errAlreadyClaimed)
    else
      let σ1 := removeRegistration σ c s
      let key := hex.map lowerHex
      let σ2 := σ1.put c { s with peerHex := key, state := .registered }
      let σ3 := σ2.setReg key c
      queue σ3 c (.ctrl okRegister)

/-- handle_connect -/
def handleConnect (σ : State) (c : Client) (self target : Bytes) : State :=
  match σ.get c with
  | none => σ
  | some s =>
    if s.state = .registered then queue σ c (.ctrl errAlreadyRegistered)
    else if !isHexString self || !isHexString target then queue σ c (.ctrl errConInvalidPeer)
    else if self = target then queue σ c (.ctrl errInvalidTarget)
    else
      match findRegistered σ target with
      | (σ1, none) => queue σ1 c (.ctrl errConTargetUnavailable)
      | (σ1, some t) =>
        let σ2 := σ1.eraseReg target
        let σ3 := σ2.put c { s with state := .awaitingIdentity, connectSelf := self, partner := some t }
        let σ4 := match σ3.get t with
          | some ts => σ3.put t { ts with partner := some c }
          | none => σ3
        queue σ4 c (.ctrl okConnect)

/-- handle_identity_ready (its two early returns are checked by the caller, as in the C++) -/
def handleIdentityReady (σ : State) (c : Client) : State :=
  match σ.get c with
  | none => σ
  | some s =>
    match σ.lock s.partner with
    | none => closeSession (queue σ c (.ctrl errIdTargetUnavailable)) c
    | some t =>
      let identity := s.readBuf.take kPeerIdBytes
      let rest := s.readBuf.drop kPeerIdBytes
      let σ1 := queue σ t (.ctrl (beginPrefix ++ s.connectSelf ++ [nl]))
      let σ2 := match σ1.get c with
        | some s1 => σ1.put c { s1 with readBuf := [], state := .bridged }
        | none => σ1
      let σ3 := match σ2.get t with
        | some ts => σ2.put t { ts with state := .bridged }
        | none => σ2
      let σ4 := queue σ3 t (.relay c identity)
      if rest.isEmpty then σ4 else queue σ4 t (.relay c rest)

/-- handle_line -/
def handleLine (σ : State) (c : Client) (line : Bytes) : State :=
  if line.isEmpty then σ else
  let (command, arguments) := splitCommand line
  if command = cmdRegister then handleRegister σ c arguments
  else if command = cmdConnect then
    match splitArguments arguments with
    | [a, b] => handleConnect σ c a b
    | _ => queue σ c (.ctrl errInvalidArgs)
  else if command = cmdPong then σ
  else queue σ c (.ctrl errUnknownCommand)

/-- process_protocol.  Every iteration that makes progress consumes at least one byte of the
    read buffer, so `fuel = |read_buffer| + 1` is enough — except in the branch where
    handle_identity_ready closes the session without consuming anything: there the C++ loops
    forever, which is recorded as `hung`.  Running out of fuel is recorded the same way. -/
def processProtocol : Nat → State → Client → State
  | 0, σ, _ => { σ with hung := true }
  | fuel + 1, σ, c =>
    match σ.get c with
    | none => σ
    | some s =>
      if s.state = .awaitingIdentity then
        if s.readBuf.length < kPeerIdBytes then σ
        else
          let σ' := handleIdentityReady σ c
          match σ'.get c with
          | none => { σ' with hung := true }
          | some _ => processProtocol fuel σ' c
      else
        match splitLine s.readBuf with
        | none => σ
        | some (line, rest) =>
          processProtocol fuel (handleLine (σ.put c { s with readBuf := rest }) c (stripCr line)) c

/-- forward_to_partner -/
def forwardToPartner (σ : State) (c : Client) (s : Session) (data : Bytes) : State :=
  match σ.lock s.partner with
  | none => closeSession σ c
  | some p => queue σ p (.relay c data)

/-! ### events -/

inductive Event where
  | accept (c : Client)
  | recv (c : Client) (data : Bytes)
  | eof (c : Client)
  | err (c : Client)
  | flush (c : Client) (n : Nat)
  deriving DecidableEq, Repr, Inhabited

def step (σ : State) : Event → State
  | .accept c =>
    if c ∈ σ.used then σ else { σ.put c {} with used := c :: σ.used }
  | .recv c data =>
    match σ.get c with
    | none => σ                               -- closed: recv fails with EBADF, nothing happens
    | some s =>
      if s.state = .bridged then forwardToPartner σ c s data
      else processProtocol (s.readBuf.length + data.length + 1) (σ.put c { s with readBuf := s.readBuf ++ data }) c
  | .eof c => closeSession σ c
  | .err c => closeSession σ c
  | .flush c n =>
    match σ.get c with
    | none => σ
    | some s => (σ.put c { s with writeBuf := s.writeBuf.drop n }).emit (.sent c (s.writeBuf.take n))

def run (σ : State) (evs : List Event) : State := evs.foldl step σ

def init : State := {}

end EphVerif.Relay
