/-
Model of src/crypto/Shamir.cpp (C10), core Lean only.

Bytes are `Nat` (< 256 by invariant); every numeric literal of the source comes from
`Generated/C10.lean`.  The control flow mirrors the C++:

  build_exp_table / build_log_table   -> `expPacked` / `logPacked`, `expTable` / `logTable`
  gf_add / gf_mul / gf_div            -> `gfAdd` / `gfMul` / `gfDiv` (throw = `invalidArgument`)
  evaluate_polynomial                 -> `evalPoly` (running power, not Horner, as in the source)
  interpolate                         -> `interpolateByte` / `interpolate` (skip of zero-valued shares included)
  Shamir::split                       -> `split`: the share-index loop is explicit (`shareIndices`) with the
                                         counter's modulus as a parameter, so that non-termination of the
                                         original `uint8_t` counter at n = 255 and termination of the repaired
                                         one are both statements about this loop; `std::random_device` is the
                                         parameter `rd : Nat → Nat` (k-th draw), truncated to a byte as the
                                         `static_cast<std::uint8_t>` does
  Shamir::combine                     -> `combine`: size check, first `t` shares, validation of distinct
                                         non-zero indices (the repaired code), interpolation
-/
import EphVerif.Generated.C10

namespace EphVerif.Shamir
open EphVerif.Gen.C10

inductive Outcome (α : Type) where
  | ok (v : α)
  | invalidArgument          -- std::invalid_argument
  | hang                     -- the loop never exits (only `split` can produce it)
deriving Repr, DecidableEq, Inhabited

structure Share where
  index : Nat
  value : List Nat
deriving Repr, DecidableEq, Inhabited

/-! ### Tables

`build_exp_table` / `build_log_table` write into zero-initialised `std::array`s.  While a table is
under construction it is held here as one natural number (entry `i` in bits `8i … 8i+7`) and every
loop iteration forces its result (`force`): all intermediate values are then numerals, which keeps
evaluation by the Lean kernel (`decide +kernel` in `Lemmas/C10Tables.lean`) linear instead of
re-walking a tower of unevaluated updates.  The finished tables are ordinary arrays. -/

/-- evaluate `t` before continuing (semantically `k t`) -/
@[inline] def force {α : Type} (t : Nat) (k : Nat → α) : α :=
  match t with
  | 0 => k 0
  | n + 1 => k (n + 1)

/-- entry `i` of a packed byte table -/
def tget (t i : Nat) : Nat := (t >>> (8 * i)) % 256

/-- `table[i] = static_cast<uint8_t>(v)` on a packed table of `size` entries (no write outside the array) -/
def tset (size t i v : Nat) : Nat :=
  if i < size then t - tget t i * 2 ^ (8 * i) + (v % 256) * 2 ^ (8 * i) else t

/-- `x <<= 1; if (x & 0x100) x ^= kFieldPolynomial;` on a `uint16_t`. -/
def expStep (x : Nat) : Nat :=
  let y := (x <<< 1) % 65536
  if y &&& kReduceBit ≠ 0 then (y ^^^ kFieldPolynomial) % 65536 else y

/-- first loop of `build_exp_table`: `count` iterations from index `i` with generator state `x`:
    `exp[i] = x & 0xFF; x = expStep x`. -/
def expFill (size : Nat) : Nat → Nat → Nat → Nat → Nat
  | 0, _, _, t => t
  | count + 1, i, x, t =>
    force (tset size t i (x &&& 0xFF)) fun t' =>
    force (expStep x) fun x' => expFill size count (i + 1) x' t'

/-- second loop: `exp[i] = exp[i - 255]`, `count` iterations from index `i`. -/
def expWrap (size : Nat) : Nat → Nat → Nat → Nat
  | 0, _, t => t
  | count + 1, i, t =>
    force (tset size t i (tget t (i - kExpWrap))) fun t' => expWrap size count (i + 1) t'

def expPacked : Nat :=
  expWrap kExpTableSize (kExpTableSize - kExpWrapStart) kExpWrapStart (expFill kExpTableSize kExpFill 0 1 0)

/-- `for i < 255: log[exp[i]] = i` (`log[0] = 0` is the zero initialisation) -/
def logFill (size expT : Nat) : Nat → Nat → Nat → Nat
  | 0, _, t => t
  | count + 1, i, t => force (tset size t (tget expT i) i) fun t' => logFill size expT count (i + 1) t'

def logPacked : Nat := force expPacked fun e => logFill kLogTableSize e kLogFill 0 0

def unpack (t size : Nat) : List Nat := (List.range size).map (tget t)

def expList : List Nat := unpack expPacked kExpTableSize
def logList : List Nat := unpack logPacked kLogTableSize

def expTable : Array Nat := expList.toArray
def logTable : Array Nat := logList.toArray

@[inline] def expAt (i : Nat) : Nat := expTable.getD i 0
@[inline] def logAt (a : Nat) : Nat := logTable.getD a 0

/-! ### Field operations -/

def gfAdd (a b : Nat) : Nat := a ^^^ b

def gfMul (a b : Nat) : Nat :=
  if a = 0 ∨ b = 0 then 0 else expAt ((logAt a + logAt b) % kMulMod)

/-- the index computed by `gf_div`: `diff % 255` (C++ truncated remainder of an `int16_t`), `+ 255` when negative. -/
def divIndex (la lb : Nat) : Nat :=
  if lb ≤ la then (la - lb) % kDivMod
  else
    let r := (lb - la) % kDivMod      -- |diff % 255| for a negative diff
    if r = 0 then 0 else kDivAdd - r

def gfDiv (a b : Nat) : Outcome Nat :=
  if b = 0 then .invalidArgument
  else if a = 0 then .ok 0
  else .ok (expAt (divIndex (logAt a) (logAt b)))

/-! ### evaluate_polynomial -/

def evalPolyLoop (x : Nat) : List Nat → Nat → Nat → Nat
  | [], _, result => result
  | c :: cs, power, result =>
    let power := gfMul power x
    evalPolyLoop x cs power (gfAdd result (gfMul c power))

def evalPoly (x constant : Nat) (coefficients : List Nat) : Nat :=
  evalPolyLoop x coefficients 1 constant

/-! ### interpolate (at 0) -/

/-- inner `j` loop for share position `i` with index `xi`: numerator and denominator. -/
def numDen (xs : List Nat) (i xi : Nat) : Nat × Nat :=
  (List.range xs.length).foldl (fun (nd : Nat × Nat) j =>
    if i = j then nd
    else (gfMul nd.1 (xs.getD j 0), gfMul nd.2 (gfAdd (xs.getD j 0) xi))) (1, 1)

/-- one iteration of the `i` loop for one secret byte; an exception in flight stays in flight. -/
def interpStep (xs ys : List Nat) (acc : Outcome Nat) (i : Nat) : Outcome Nat :=
  match acc with
  | .ok value =>
    let yi := ys.getD i 0
    if yi = 0 then .ok value
    else
      let nd := numDen xs i (xs.getD i 0)
      match gfDiv nd.1 nd.2 with
      | .ok factor => .ok (gfAdd value (gfMul yi factor))
      | .invalidArgument => .invalidArgument
      | .hang => .hang
  | e => e

/-- one secret byte from share indices `xs` and that byte of every share `ys`. -/
def interpolateByte (xs ys : List Nat) : Outcome Nat :=
  (List.range xs.length).foldl (interpStep xs ys) (.ok 0)

def sequence {α : Type} : List (Outcome α) → Outcome (List α)
  | [] => .ok []
  | .ok v :: rest =>
    match sequence rest with
    | .ok vs => .ok (v :: vs)
    | .invalidArgument => .invalidArgument
    | .hang => .hang
  | .invalidArgument :: _ => .invalidArgument
  | .hang :: _ => .hang

def interpolate (bytes : Nat) (shares : List Share) : Outcome (List Nat) :=
  sequence ((List.range bytes).map fun b =>
    interpolateByte (shares.map (·.index)) (shares.map fun s => s.value.getD b 0))

/-! ### split -/

/-- `for (T idx = start; idx <= count; ++idx) push(idx)` with `T` an unsigned type of `modulus` values.
    `none` = fuel exhausted. -/
def shareIndices (modulus count : Nat) : Nat → Nat → List Nat → Option (List Nat)
  | 0, _, _ => none
  | fuel + 1, idx, acc =>
    if idx ≤ count then shareIndices modulus count fuel ((idx + 1) % modulus) (acc ++ [idx])
    else some acc

/-- more than enough iterations for every `share_count ≤ 255` when the loop does exit. -/
def splitFuel : Nat := 1024

/-! The random draws.  `std::random_device` is the stream `rd` (`rd k` = the k-th draw made by this call of `split`).
Which draw becomes which coefficient is the *consumption pattern* of the code: with the draw call inside the
per-byte loop (`perByte = true`, what `Generated/C10.lean` reports for the source) byte `b` uses the fresh draws
`b·(t-1), …, b·(t-1)+t-2`; with the call hoisted out of the loop (`perByte = false`) every byte re-uses the draws
`0, …, t-2`.  Both patterns reconstruct; only the first one hides the secret (`Proofs/C10.lean`: `secrecy_joint`,
`shared_draws_leak`). -/

/-- number of the draw that becomes the coefficient of `X^(d+1)` of secret byte `b` -/
def drawIndex (perByte : Bool) (t b d : Nat) : Nat :=
  if perByte then b * (t - kDegreeStart) + d else d

/-- how many draws one `split` of `bytes` secret bytes consumes -/
def drawsConsumed (perByte : Bool) (bytes t : Nat) : Nat :=
  if perByte then bytes * (t - kDegreeStart) else t - kDegreeStart

/-- coefficients used for secret byte `b`: `threshold - 1` draws, each cast to a byte. -/
def coeffsForP (perByte : Bool) (rd : Nat → Nat) (t b : Nat) : List Nat :=
  (List.range (t - kDegreeStart)).map fun d => rd (drawIndex perByte t b d) % 256

def mkShareP (perByte : Bool) (rd : Nat → Nat) (secret : List Nat) (t : Nat) (x : Nat) : Share :=
  { index := x % 256
    value := secret.zipIdx.map fun (s, b) => evalPoly (x % 256) s (coeffsForP perByte rd t b) }

/-- the source's pattern -/
def coeffsFor (rd : Nat → Nat) (t b : Nat) : List Nat := coeffsForP kDrawPerByte rd t b

def mkShare (rd : Nat → Nat) (secret : List Nat) (t : Nat) (x : Nat) : Share := mkShareP kDrawPerByte rd secret t x

def split (rd : Nat → Nat) (secret : List Nat) (t n : Nat) : Outcome (List Share) :=
  if t = 0 ∨ n = 0 then .invalidArgument
  else if t > n then .invalidArgument
  else
    match shareIndices kShareIndexModulus n splitFuel kShareIndexStart [] with
    | none => .hang
    | some idxs => .ok (idxs.map (mkShare rd secret t))

/-! ### combine -/

/-- the repaired validation loop: every index non-zero and not seen before. -/
def validIndices : List Nat → List Nat → Bool
  | [], _ => true
  | x :: xs, seen => if x = 0 ∨ x ∈ seen then false else validIndices xs (x :: seen)

def combineN (bytes : Nat) (shares : List Share) (t : Nat) : Outcome (List Nat) :=
  if shares.length < t then .invalidArgument
  else
    let subset := shares.take t
    if validIndices (subset.map (·.index)) [] then interpolate bytes subset
    else .invalidArgument

def combine (shares : List Share) (t : Nat) : Outcome (List Nat) := combineN kInterpolateBytes shares t

end EphVerif.Shamir
