/-
Model of src/crypto/Shamir.cpp (C10), core Lean only.

Bytes are `Nat` (< 256 by invariant); every numeric literal of the source comes from
`Generated/C10.lean`.  The control flow mirrors the C++:

  build_exp_table / build_log_table   -> `expTable` / `logTable`
  gf_add / gf_mul / gf_div            -> `gfAdd` / `gfMul` / `gfDiv` (throw = `invalidArgument`)
  evaluate_polynomial                 -> `evalPoly` (running power, not Horner, as in the source)
  interpolate                         -> `interpolateByte` / `interpolate` (skip of zero-valued shares included)
  Shamir::split                       -> `split`: the share-index loop is explicit (`shareIndices`) with the
                                         counter's modulus as a parameter, so that non-termination of the
                                         original `uint8_t` counter at n = 255 and termination of the repaired
                                         one are both statements about this loop; `std::random_device` is the
                                         parameter `rd : Nat → Nat` (k-th draw), truncated to a byte as the
                                         `static_cast<std::uint8_t>` does
  Shamir::combine                     -> `combine`: size check, first `t` shares, validation of distinct
                                         non-zero indices (the repaired code), interpolation
-/
import EphVerif.Generated.C10

namespace EphVerif.Shamir
open EphVerif.Gen.C10

inductive Outcome (α : Type) where
  | ok (v : α)
  | invalidArgument          -- std::invalid_argument
  | hang                     -- the loop never exits (only `split` can produce it)
deriving Repr, DecidableEq, Inhabited

structure Share where
  index : Nat
  value : List Nat
deriving Repr, DecidableEq, Inhabited

/-! ### Tables -/

/-- `x <<= 1; if (x & 0x100) x ^= kFieldPolynomial;` on a `uint16_t`. -/
def expStep (x : Nat) : Nat :=
  let y := (x <<< 1) % 65536
  if y &&& kReduceBit ≠ 0 then (y ^^^ kFieldPolynomial) % 65536 else y

/-- the values `x & 0xFF` written by the first loop of `build_exp_table`, starting from `x`. -/
def expSeq : Nat → Nat → List Nat
  | 0, _ => []
  | n + 1, x => (x &&& 0xFF) :: expSeq n (expStep x)

/-- second loop of `build_exp_table`: `exp[i] = exp[i - 255]` for `i = start, start+1, …` (`count` iterations). -/
def expWrap (a : Array Nat) : Nat → Nat → Array Nat
  | _, 0 => a
  | i, count + 1 => expWrap (a.setIfInBounds i (a.getD (i - kExpWrap) 0)) (i + 1) count

def fillFrom (a : Array Nat) : Nat → List Nat → Array Nat
  | _, [] => a
  | i, v :: vs => fillFrom (a.setIfInBounds i v) (i + 1) vs

def expTable : Array Nat :=
  let a := fillFrom (Array.replicate kExpTableSize 0) 0 (expSeq kExpFill 1)
  expWrap a kExpWrapStart (kExpTableSize - kExpWrapStart)

/-- `for i < 255: log[exp[i]] = i` -/
def logFill (exp : Array Nat) (a : Array Nat) : Nat → Nat → Array Nat
  | _, 0 => a
  | i, count + 1 => logFill exp (a.setIfInBounds (exp.getD i 0) i) (i + 1) count

def logTable : Array Nat := logFill expTable (Array.replicate kLogTableSize 0) 0 kLogFill

@[inline] def expAt (i : Nat) : Nat := expTable.getD i 0
@[inline] def logAt (a : Nat) : Nat := logTable.getD a 0

/-! ### Field operations -/

def gfAdd (a b : Nat) : Nat := a ^^^ b

def gfMul (a b : Nat) : Nat :=
  if a = 0 ∨ b = 0 then 0 else expAt ((logAt a + logAt b) % kMulMod)

/-- the index computed by `gf_div`: `diff % 255` (C++ truncated remainder of an `int16_t`), `+ 255` when negative. -/
def divIndex (la lb : Nat) : Nat :=
  if lb ≤ la then (la - lb) % kDivMod
  else
    let r := (lb - la) % kDivMod      -- |diff % 255| for a negative diff
    if r = 0 then 0 else kDivAdd - r

def gfDiv (a b : Nat) : Outcome Nat :=
  if b = 0 then .invalidArgument
  else if a = 0 then .ok 0
  else .ok (expAt (divIndex (logAt a) (logAt b)))

/-! ### evaluate_polynomial -/

def evalPolyLoop (x : Nat) : List Nat → Nat → Nat → Nat
  | [], _, result => result
  | c :: cs, power, result =>
    let power := gfMul power x
    evalPolyLoop x cs power (gfAdd result (gfMul c power))

def evalPoly (x constant : Nat) (coefficients : List Nat) : Nat :=
  evalPolyLoop x coefficients 1 constant

/-! ### interpolate (at 0) -/

/-- inner `j` loop for share position `i` with index `xi`: numerator and denominator. -/
def numDen (xs : List Nat) (i xi : Nat) : Nat × Nat :=
  (List.range xs.length).foldl (fun (nd : Nat × Nat) j =>
    if i = j then nd
    else (gfMul nd.1 (xs.getD j 0), gfMul nd.2 (gfAdd (xs.getD j 0) xi))) (1, 1)

/-- one iteration of the `i` loop for one secret byte; an exception in flight stays in flight. -/
def interpStep (xs ys : List Nat) (acc : Outcome Nat) (i : Nat) : Outcome Nat :=
  match acc with
  | .ok value =>
    let yi := ys.getD i 0
    if yi = 0 then .ok value
    else
      let nd := numDen xs i (xs.getD i 0)
      match gfDiv nd.1 nd.2 with
      | .ok factor => .ok (gfAdd value (gfMul yi factor))
      | .invalidArgument => .invalidArgument
      | .hang => .hang
  | e => e

/-- one secret byte from share indices `xs` and that byte of every share `ys`. -/
def interpolateByte (xs ys : List Nat) : Outcome Nat :=
  (List.range xs.length).foldl (interpStep xs ys) (.ok 0)

def sequence {α : Type} : List (Outcome α) → Outcome (List α)
  | [] => .ok []
  | .ok v :: rest =>
    match sequence rest with
    | .ok vs => .ok (v :: vs)
    | .invalidArgument => .invalidArgument
    | .hang => .hang
  | .invalidArgument :: _ => .invalidArgument
  | .hang :: _ => .hang

def interpolate (bytes : Nat) (shares : List Share) : Outcome (List Nat) :=
  sequence ((List.range bytes).map fun b =>
    interpolateByte (shares.map (·.index)) (shares.map fun s => s.value.getD b 0))

/-! ### split -/

/-- `for (T idx = start; idx <= count; ++idx) push(idx)` with `T` an unsigned type of `modulus` values.
    `none` = fuel exhausted. -/
def shareIndices (modulus count : Nat) : Nat → Nat → List Nat → Option (List Nat)
  | 0, _, _ => none
  | fuel + 1, idx, acc =>
    if idx ≤ count then shareIndices modulus count fuel ((idx + 1) % modulus) (acc ++ [idx])
    else some acc

/-- more than enough iterations for every `share_count ≤ 255` when the loop does exit. -/
def splitFuel : Nat := 1024

/-- coefficients drawn for secret byte `b`: `threshold - 1` consecutive draws, each cast to a byte. -/
def coeffsFor (rd : Nat → Nat) (t b : Nat) : List Nat :=
  (List.range (t - 1)).map fun d => rd (b * (t - 1) + d) % 256

def mkShare (rd : Nat → Nat) (secret : List Nat) (t : Nat) (x : Nat) : Share :=
  { index := x % 256
    value := secret.zipIdx.map fun (s, b) => evalPoly (x % 256) s (coeffsFor rd t b) }

def split (rd : Nat → Nat) (secret : List Nat) (t n : Nat) : Outcome (List Share) :=
  if t = 0 ∨ n = 0 then .invalidArgument
  else if t > n then .invalidArgument
  else
    match shareIndices kShareIndexModulus n splitFuel kShareIndexStart [] with
    | none => .hang
    | some idxs => .ok (idxs.map (mkShare rd secret t))

/-! ### combine -/

/-- the repaired validation loop: every index non-zero and not seen before. -/
def validIndices : List Nat → List Nat → Bool
  | [], _ => true
  | x :: xs, seen => if x = 0 ∨ x ∈ seen then false else validIndices xs (x :: seen)

def combineN (bytes : Nat) (shares : List Share) (t : Nat) : Outcome (List Nat) :=
  if shares.length < t then .invalidArgument
  else
    let subset := shares.take t
    if validIndices (subset.map (·.index)) [] then interpolate bytes subset
    else .invalidArgument

def combine (shares : List Share) (t : Nat) : Outcome (List Nat) := combineN kInterpolateBytes shares t

end EphVerif.Shamir
