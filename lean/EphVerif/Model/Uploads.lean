/-
Model of the upload scheduler of `Node` (src/core/Node.cpp): `handle_request`,
`enqueue_upload_request`, `process_pending_uploads` (stale pruning, queue rotation, the
can-accept / can-dispatch loop), `dispatch_upload` (negative-acknowledgement paths),
`note_upload_start`, `note_upload_end`, `prune_stale_uploads`, `handle_acknowledge`.

* Times are integers (nanoseconds of the steady clock); ids are opaque strings.
* `active_uploads_` (`unordered_map` keyed by `peer:chunk`) is a list of records with at most
  one record per `(peer, chunk)` (an invariant proved in `Lemmas/C23Uploads.lean`);
  `active_uploads_per_peer_` is a function `String → Nat` (`0` = no entry: the C++ never keeps a
  zero-valued entry, `+= 1` creates and the decrement erases at `<= 1`).
* What the environment decides is an input of every step (`Env`): whether the peer has a session
  key (`session_shared_key`), whether a send to it succeeds (`SessionManager::send`), whether a
  chunk can be served now (manifest cached ∧ record live ∧ `manifest_ttl` has a value).
* `note_upload_start` follows the repaired code (fixes/C23-duplicate-start-slot-leak.patch): a
  start that overwrites a live `(peer, chunk)` entry does not take a second per-peer slot.
  `noteStartOld` is the code before the repair (used only for the recorded counterexample).
-/
namespace EphVerif.Uploads

/-- the `upload_*` fields of `Config`; intervals already converted to nanoseconds -/
structure Cfg where
  maxParallel : Nat      -- upload_max_parallel_transfers, 0 = unlimited
  maxPerPeer : Nat       -- upload_max_transfers_per_peer, 0 = unlimited
  reconsider : Int       -- upload_reconsider_interval, ≤ 0 = never rotate
  timeout : Int          -- upload_transfer_timeout, ≤ 0 = never prune
deriving Repr

/-- `PendingUploadRequest` (enqueue time and payload size play no role in scheduling) -/
structure Req where
  peer : String
  chunk : String
deriving DecidableEq, Repr

/-- `ActiveUploadState` -/
structure Act where
  peer : String
  chunk : String
  started : Int
deriving DecidableEq, Repr

structure Env where
  hasKey : String → Bool      -- session_shared_key(peer).has_value()
  linkUp : String → Bool      -- sessions_.send(peer, …) succeeds
  servable : String → Bool    -- manifest ∧ record ∧ manifest_ttl

/-- a frame that reached a peer's socket -/
inductive Frame where
  | chunk (peer chunk : String)
  | nack (peer chunk : String)
deriving DecidableEq, Repr

structure State where
  queue : List Req            -- pending_uploads_ (front = head)
  active : List Act           -- active_uploads_
  perPeer : String → Nat      -- active_uploads_per_peer_
  lastRotation : Int          -- last_upload_rotation_
  completed : Nat             -- total_completed_uploads_

def State.init (t0 : Int) : State := ⟨[], [], fun _ => 0, t0, 0⟩

def isKey (p c : String) (a : Act) : Bool := a.peer == p && a.chunk == c

/-- `active_uploads_.find(key) != end()` -/
def hasAct (l : List Act) (p c : String) : Bool := l.any (isKey p c)

/-- `active_uploads_.erase(key)` -/
def eraseAct (l : List Act) (p c : String) : List Act := l.filter (fun a => !isKey p c a)

/-- number of live transfers towards `p` -/
def countPeer (p : String) (l : List Act) : Nat := (l.filter (fun a => a.peer == p)).length

def matchCount (p c : String) (l : List Act) : Nat := (l.filter (isKey p c)).length

def bump (f : String → Nat) (p : String) : String → Nat := fun q => if q = p then f q + 1 else f q

/-- `if (it->second <= 1) erase(it); else it->second -= 1;` (no entry: nothing) -/
def drop (f : String → Nat) (p : String) : String → Nat := fun q => if q = p then f q - 1 else f q

/-- `send_secure` as used by the scheduler: needs the key and a live session -/
def sendOk (env : Env) (p : String) : Bool := env.hasKey p && env.linkUp p

/-- `can_accept_more_uploads` -/
def canAccept (cfg : Cfg) (st : State) : Bool :=
  cfg.maxParallel == 0 || decide (st.active.length < cfg.maxParallel)

/-- `can_dispatch_upload` -/
def canDispatch (cfg : Cfg) (st : State) (p : String) : Bool :=
  canAccept cfg st && (cfg.maxPerPeer == 0 || decide (st.perPeer p < cfg.maxPerPeer))

/-- `note_upload_start` (repaired) -/
def noteStart (st : State) (p c : String) (now : Int) : State :=
  let inserted := !hasAct st.active p c
  { st with active := eraseAct st.active p c ++ [⟨p, c, now⟩],
            perPeer := if inserted then bump st.perPeer p else st.perPeer }

/-- `note_upload_start` before the repair: the counter is incremented on every start -/
def noteStartOld (st : State) (p c : String) (now : Int) : State :=
  { st with active := eraseAct st.active p c ++ [⟨p, c, now⟩], perPeer := bump st.perPeer p }

/-- `note_upload_end` -/
def noteEnd (st : State) (p c : String) : State :=
  if hasAct st.active p c then
    { st with active := eraseAct st.active p c, perPeer := drop st.perPeer p, completed := st.completed + 1 }
  else st

def isStale (cfg : Cfg) (now : Int) (a : Act) : Bool := decide (now - a.started ≥ cfg.timeout)

def endAll (st : State) : List (String × String) → State
  | [] => st
  | (p, c) :: rest => endAll (noteEnd st p c) rest

/-- `prune_stale_uploads(now)` -/
def prune (cfg : Cfg) (now : Int) (st : State) : State :=
  if cfg.timeout ≤ 0 then st
  else endAll st ((st.active.filter (isStale cfg now)).map fun a => (a.peer, a.chunk))

/-- `send_negative_ack`: the frame reaches the peer iff it has a key and the send succeeds -/
def nackFrames (env : Env) (p c : String) : List Frame :=
  if sendOk env p then [Frame.nack p c] else []

/-- `dispatch_upload(request)`; `variantOld` selects the unrepaired `note_upload_start` -/
def dispatch (env : Env) (now : Int) (st : State) (r : Req) (variantOld : Bool := false) : State × List Frame :=
  if !env.servable r.chunk then (st, nackFrames env r.peer r.chunk)
  else if !env.hasKey r.peer then (st, [])
  else if !env.linkUp r.peer then (st, nackFrames env r.peer r.chunk)     -- the nack fails as well
  else ((if variantOld then noteStartOld st r.peer r.chunk now else noteStart st r.peer r.chunk now),
        [Frame.chunk r.peer r.chunk])

/-- the `while (iterations-- > 0)` loop of `process_pending_uploads` -/
def loop (cfg : Cfg) (env : Env) (now : Int) (old : Bool) : Nat → State → List Frame → State × List Frame
  | 0, st, fr => (st, fr)
  | n + 1, st, fr =>
    if !canAccept cfg st then (st, fr)
    else
      match st.queue with
      | [] => (st, fr)
      | r :: rest =>
        let st1 := { st with queue := rest }
        if !canDispatch cfg st1 r.peer then loop cfg env now old n { st1 with queue := rest ++ [r] } fr
        else
          let res := dispatch env now st1 r old
          loop cfg env now old n res.1 (fr ++ res.2)

/-- the rotation step of `process_pending_uploads` -/
def rotate (cfg : Cfg) (now : Int) (st : State) : State :=
  if st.queue.length > 1 ∧ cfg.reconsider > 0 ∧ now - st.lastRotation ≥ cfg.reconsider then
    match st.queue with
    | [] => st
    | r :: rest => { st with queue := rest ++ [r], lastRotation := now }
  else st

/-- `process_pending_uploads()` -/
def process (cfg : Cfg) (env : Env) (now : Int) (st : State) (old : Bool := false) : State × List Frame :=
  let st1 := prune cfg now st
  if st1.queue.isEmpty then (st1, [])
  else
    let st2 := rotate cfg now st1
    loop cfg env now old st2.queue.length st2 []

/-- `handle_request(payload, sender)` -/
def handleRequest (cfg : Cfg) (env : Env) (now : Int) (st : State) (p c : String) (old : Bool := false) :
    State × List Frame :=
  if !env.hasKey p then (st, [])
  else if !env.servable c then (st, nackFrames env p c)
  else process cfg env now { st with queue := st.queue ++ [⟨p, c⟩] } old

/-- `handle_acknowledge(payload, sender)` (reputation and swarm roles are not modelled) -/
def handleAck (cfg : Cfg) (env : Env) (now : Int) (st : State) (p c : String) (old : Bool := false) :
    State × List Frame :=
  process cfg env now (noteEnd st p c) old

inductive Op where
  | request (p c : String)
  | ack (p c : String)
  | tick
deriving DecidableEq, Repr

/-- one event of a history: what happened, when, and what the environment answers during it -/
structure Step where
  op : Op
  now : Int
  env : Env

def step (cfg : Cfg) (st : State) (s : Step) (old : Bool := false) : State × List Frame :=
  match s.op with
  | .request p c => handleRequest cfg s.env s.now st p c old
  | .ack p c => handleAck cfg s.env s.now st p c old
  | .tick => process cfg s.env s.now st old

/-- the state after a history (frames dropped) -/
def run (cfg : Cfg) (st : State) : List Step → State
  | [] => st
  | s :: rest => run cfg (step cfg st s).1 rest

end EphVerif.Uploads
