import EphVerif.Generated.C31
/-!
# Model for C31 — the three file-name sanitisers and `destination / name`

* `filename`      `std::filesystem::path::filename()` on POSIX: the text after the last `/`
* `cliSanitize`   the `sanitize_filename` lambda of `eph fetch` (src/main.cpp)
* `nodeName`      what `Node::store_chunk` records as `metadata["filename"]` (src/core/Node.cpp)
* `hint`          `security::sanitize_filename_hint` (src/security/StoreProof.cpp)
* `join`          `destination /= name` for POSIX paths, `parentPath` = `path::parent_path()`

The reserved-character lists, the `.`/`..` guards and the length limits are regenerated from the source
(`EphVerif.Gen.C31`); `std::iscntrl` in the "C" locale is modelled as `< 0x20 ∨ = 0x7f`.
-/
namespace EphVerif.Filename
open EphVerif.Gen.C31

abbrev Bytes := List UInt8

def slash : UInt8 := 0x2f
def underscore : UInt8 := 0x5f
def dot : Bytes := [0x2e]
def dotdot : Bytes := [0x2e, 0x2e]

/-- text after the last `/` -/
def filename (s : Bytes) : Bytes := (s.reverse.takeWhile (· != slash)).reverse

/-- `std::iscntrl` ("C" locale) -/
def isCntrl (b : UInt8) : Bool := b.toNat < 32 || b.toNat == 127

def replaceReserved (reserved : List Nat) (s : Bytes) : Bytes :=
  s.map fun b => if reserved.contains b.toNat then underscore else b

def isDots (s : Bytes) : Bool := s == dot || s == dotdot

/-- `sanitize_filename` of `eph fetch`; `[]` makes the caller fall back to the hex chunk id. -/
def cliSanitize (candidate : Bytes) : Bytes :=
  let base := filename candidate
  let base := base.filter (fun b => !isCntrl b)
  let base := replaceReserved cliReserved base
  if base.isEmpty || (cliDotCheck != 0 && isDots base) then []
  else base.take cliMaxLen

/-- the `sanitize_filename` lambda inside `Node::store_chunk` -/
def nodeLambda (value : Bytes) : Bytes :=
  let value := value.filter (fun b => !isCntrl b)
  let value := replaceReserved nodeReserved value
  if nodeDotCheck != 0 && isDots value then [] else value

/-- `metadata["filename"]` recorded by `Node::store_chunk(…, original_name)`; `none` = no entry. -/
def nodeName (original : Bytes) : Option Bytes :=
  let base := nodeLambda (filename original)
  if base.isEmpty then none else some (base.take nodeMaxLen)

/-- `security::sanitize_filename_hint` -/
def hint (raw : Bytes) : Option Bytes :=
  if raw.isEmpty then none
  else
    let base := filename raw
    if base.isEmpty || (hintDotCheck != 0 && isDots base) then none
    else some (base.take hintMaxLen)

/-- the daemon's STORE command: hint first, then `store_chunk` -/
def viaHint (raw : Bytes) : Option Bytes := (hint raw).bind nodeName

/-- `dir /= name` (POSIX, no root-name): an absolute right-hand side replaces; otherwise a separator is
inserted unless `dir` is empty or already ends in one. -/
def join (dir name : Bytes) : Bytes :=
  if name.head? == some slash then name
  else if dir.isEmpty then name
  else if dir.getLast? == some slash then dir ++ name
  else dir ++ [slash] ++ name

/-- `path::parent_path()`: everything before the last component, without the separators in between;
`/` for a child of the root; empty when there is no separator. -/
def parentPath (p : Bytes) : Bytes :=
  let pre := p.reverse.dropWhile (· != slash)      -- reversed text up to and including the last '/'
  if pre.isEmpty then []
  else
    let stripped := pre.dropWhile (· == slash)
    if stripped.isEmpty then [slash] else stripped.reverse

/-- the directory as `parent_path()` reports it: trailing separators dropped, root kept -/
def normDir (dir : Bytes) : Bytes :=
  if dir.isEmpty then []
  else
    let stripped := dir.reverse.dropWhile (· == slash)
    if stripped.isEmpty then [slash] else stripped.reverse

end EphVerif.Filename
