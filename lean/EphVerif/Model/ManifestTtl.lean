/-
C03 — model of the lifetimes a node derives from a received manifest, built from the *generated*
definitions of `Generated/C02.lean` (manifest_ttl, enforce_manifest_ttl, clamp_chunk_ttl translated
whole; the TTL slices of Node::ingest_manifest, receive_chunk, handle_announce,
schedule_assigned_fetch, announce_chunk, ChunkStore::put, KademliaTable::publish_shards /
add_contact translated from the clang AST on every run).  Written by hand: which slice feeds which
record, the accept/reject control flow around `manifest_ttl`, and the expiry test of
`process_pending_fetches`.

  ingest_manifest(uri)      ttl = manifest_ttl(m, config_) else return false;  dht_.publish_shards(.., *ttl)
  request_chunk(.., uri)    = ingest_manifest(uri) first (the rest needs a route to the peer)
  receive_chunk(uri, data)  ttl = manifest_ttl(..) else return; decrypt + hash check else return;
                            publish_shards(.., *ttl); announce_chunk(id, *ttl); chunk_store_.put(.., *ttl, ..); clear_pending_fetch
  handle_announce(p)        (sender / PoW / throttle checks: C21)  ttl_opt = manifest_ttl(..) else failure;
                            publish_shards(.., *ttl_opt); if endpoint: dht_.add_contact(.., advertised_ttl);
                            schedule_assigned_fetch(p): if assigned shards and no live replica: pending entry with
                            manifest_expires, then process_pending_fetches()
  process_pending_fetches   per entry: replica present -> drop; wall_now >= manifest_expires -> drop; else maybe dispatch
                            (dispatch = request_chunk with the stored manifest, i.e. another ingest)

Clocks: `now` is the steady clock (ns), the wall clock is `now + off` with `off` constant.
Steady deadlines are stored as such; the pending entry stores a wall-clock time, as the code does.
-/
import EphVerif.Model.Ttl
import EphVerif.Spec.ManifestTtl

namespace EphVerif.MTtl
open EphVerif.Gen.C02 EphVerif.C03Spec

/-- a record written by one step: steady-clock deadline for shard / contact / chunk, wall-clock
    expiry for the pending fetch (exactly what the code stores) -/
structure Write where
  slot : Slot
  deadline : Int
  deriving Repr, DecidableEq

/-- the deadline as wall-clock time -/
def Write.wall (w : Write) (off : Int) : Int :=
  match w.slot with
  | .pending => w.deadline
  | _ => w.deadline + off

/-- how a manifest reaches the node -/
inductive Path where
  /-- `ingest_manifest`; also `request_chunk`, control FETCH and the dispatch of a pending fetch -/
  | ingest
  /-- `receive_chunk`; `good` = the replica decrypts and hashes to the manifest's digest -/
  | receive (good : Bool)
  /-- `handle_announce` past the sender checks: announced TTL, endpoint given?, shards assigned?,
      is a live replica already stored? -/
  | announce (peer : String) (ttl : Int) (endpoint assigned replicaLive : Bool)
  deriving Repr, DecidableEq

/-- the records an arriving manifest (expiry `E`, wall ns) makes the node write at steady time
    `now`; `none` = the manifest is rejected.  `prev` is the deadline of the key-share record the
    table already holds for the chunk id (0 = none): `publish_shards` as it stands replaces the record
    and ignores it, the generated slice says so on every run -/
def writes (cfg : Cfg) (off now E prev : Int) : Path → Option (List Write)
  | .ingest =>
    match ingest_ttl_source E cfg (now + off) with
    | none => none
    | some ttl => some [⟨.shard, publish_shards_expires (ingest_shard_ttl ttl cfg) now prev⟩]
  | .receive good =>
    match receive_ttl_source E cfg (now + off) with
    | none => none
    | some ttl =>
      if good then
        some [⟨.shard, publish_shards_expires (receive_shard_ttl ttl cfg) now prev⟩,
              ⟨.contact "self", add_contact_expires (announce_chunk_contact_ttl (receive_announce_ttl ttl cfg)) now⟩,
              ⟨.chunk, Ttl.chunkStorePut cfg (receive_put_ttl ttl cfg) now⟩]
      else none
  | .announce peer attl endpoint assigned replicaLive =>
    match announce_ttl_source E cfg (now + off) with
    | none => none
    | some ttl =>
      some ([⟨.shard, publish_shards_expires (announce_shard_ttl ttl cfg) now prev⟩] ++
            (if endpoint then [⟨.contact peer, add_contact_expires (announce_advertised_ttl attl ttl cfg) now⟩] else []) ++
            (if assigned && !replicaLive then [⟨.pending, pending_manifest_expires E cfg (now + off)⟩] else []))

/-! ### Node state (per chunk) and steps -/

structure Pending where
  /-- `manifest_expires` as recorded (wall ns) -/
  exp : Int
  attempts : Nat
  /-- expiry of the manifest whose URI the entry carries (re-ingested by every dispatch) -/
  srcE : Int
  deriving Repr, DecidableEq

structure ChunkSt where
  /-- expiry (wall ns) of the manifest the node has adopted for the chunk (`manifest_cache_`) -/
  adopted : Option Int := none
  shard : Option Int := none
  contacts : List (String × Int) := []
  chunk : Option Int := none
  pending : Option Pending := none
  deriving Repr, DecidableEq

def live (d : Option Int) (now : Int) : Bool :=
  match d with
  | some x => decide (now < x)
  | none => false

def upsertContact (cs : List (String × Int)) (peer : String) (d : Int) : List (String × Int) :=
  (cs.filter fun c => c.1 != peer) ++ [(peer, d)]

def applyWrite (E : Int) (c : ChunkSt) (w : Write) : ChunkSt :=
  match w.slot with
  | .shard => { c with shard := some w.deadline }
  | .contact p => { c with contacts := upsertContact c.contacts p w.deadline }
  | .chunk => { c with chunk := some w.deadline, pending := none }       -- receive_chunk clears the pending fetch
  | .pending =>
    { c with pending := some { exp := w.deadline, attempts := (c.pending.map (·.attempts)).getD 0, srcE := E } }

def applyWrites (E : Int) (c : ChunkSt) (ws : List Write) : ChunkSt := ws.foldl (applyWrite E) c

/-- one manifest arriving for a chunk whose state is `c`; returns the new state and "accepted?" -/
def arrive (cfg : Cfg) (off now E : Int) (p : Path) (c : ChunkSt) : ChunkSt × Bool :=
  match writes cfg off now E (c.shard.getD 0) p with
  | none => (c, false)
  | some ws => ({ applyWrites E c ws with adopted := some E }, true)

/-- `manifest_expires != time_point{} && wall_now >= manifest_expires` -/
def pendingDue (wall : Int) (p : Pending) : Bool := p.exp != 0 && decide (wall ≥ p.exp)

/-- number of fetch requests the scheduler pass at steady time `now` sends for this chunk, given
    that the scheduler (C24: back-off, limits) *wants* to send `want` -/
def dispatched (off now : Int) (want : Nat) (c : ChunkSt) : Nat :=
  match c.pending with
  | none => 0
  | some p => if live c.chunk now then 0 else if pendingDue (now + off) p then 0 else want

/-- one scheduler pass (`process_pending_fetches`) over a chunk: drop the entry when the replica is
    there or the recorded expiry has passed; otherwise dispatch `want` requests, each of which
    re-ingests the entry's manifest -/
def processPending (cfg : Cfg) (off now : Int) (want : Nat) (c : ChunkSt) : ChunkSt :=
  match c.pending with
  | none => c
  | some p =>
    if live c.chunk now then { c with pending := none }
    else if pendingDue (now + off) p then { c with pending := none }
    else if want = 0 then c
    else
      let c' := (arrive cfg off now p.srcE .ingest c).1
      { c' with pending := some { p with attempts := p.attempts + want } }

/-- what the harness shows of a chunk at steady time `now` (live records only) -/
def observe (off now : Int) (c : ChunkSt) : Obs :=
  { shard := if live c.shard now then (c.shard.map (· + off)) else none
    contacts := (c.contacts.filter fun pc => decide (now < pc.2)).map fun pc => (pc.1, pc.2 + off)
    chunk := if live c.chunk now then (c.chunk.map (· + off)) else none
    pending := c.pending.map (·.exp)
    manifest := c.adopted.filter fun e => decide (now + off < e) }

end EphVerif.MTtl
