/-
Lock-based mutual exclusion (property C36): the abstract machine the lockset discipline is
stated and proved on, and the executable checker that is run on the access table extracted
from the C++ sources (`Generated/C36.lean`).

* A *thread* executes a finite list of events `acq l | rel l | access f k` (`k` = read or
  write of shared location `f`).  The number of threads is unbounded (`Tid = Nat`; threads that
  do not exist have the empty program).
* Locks are exclusive and **not** re-entrant: `acq l` is enabled only if no thread (the
  acquiring one included) holds `l`.  (`std::recursive_mutex` re-acquisitions by the owner are
  flattened away by the extractor: only the outermost acquisition is an event.)
* Interleaving semantics: one enabled event of one thread per step.  A thread is *at* an access
  when that access is its next event; a *race* is a state in which two different threads are at
  accesses of the same location, at least one of them a write.
* A *table* is a list of rows `(role, field, kind, lockset)`: "a thread of this role may perform
  this access, and whenever it does it holds at least these locks".  Roles listed in `multi`
  may have any number of thread instances; every other role has at most one.

Core Lean only (linked into `drv_c36`).
-/
namespace EphVerif.Lockset

abbrev Lock := Nat
abbrev Field := Nat
abbrev Role := Nat
abbrev Tid := Nat

inductive Kind where
  | R
  | W
deriving DecidableEq, Repr, Inhabited

inductive Event where
  | acq (l : Lock)
  | rel (l : Lock)
  | access (f : Field) (k : Kind)
deriving DecidableEq, Repr

/-- global state: what each thread still has to execute, and which locks it holds -/
structure State where
  prog : Tid → List Event
  held : Tid → List Lock

/-- point update of a per-thread map -/
def upd {α : Type} (g : Tid → α) (t : Tid) (v : α) : Tid → α := fun u => if u = t then v else g u

inductive Step : State → State → Prop where
  | acq {s : State} {t : Tid} {l : Lock} {rest : List Event} :
      s.prog t = Event.acq l :: rest → (∀ u, l ∉ s.held u) →
      Step s ⟨upd s.prog t rest, upd s.held t (l :: s.held t)⟩
  | rel {s : State} {t : Tid} {l : Lock} {rest : List Event} :
      s.prog t = Event.rel l :: rest →
      Step s ⟨upd s.prog t rest, upd s.held t ((s.held t).erase l)⟩
  | access {s : State} {t : Tid} {f : Field} {k : Kind} {rest : List Event} :
      s.prog t = Event.access f k :: rest →
      Step s ⟨upd s.prog t rest, s.held⟩

/-- states reachable from `s0` by any schedule of any length -/
inductive Reach (s0 : State) : State → Prop where
  | refl : Reach s0 s0
  | step {s s' : State} : Reach s0 s → Step s s' → Reach s0 s'

/-- the next event of thread `t` is the access `(f, k)` -/
def At (s : State) (t : Tid) (f : Field) (k : Kind) : Prop :=
  ∃ rest, s.prog t = Event.access f k :: rest

/-- two different threads are simultaneously at conflicting accesses -/
def Race (s : State) : Prop :=
  ∃ t u f k1 k2, t ≠ u ∧ At s t f k1 ∧ At s u f k2 ∧ (k1 = Kind.W ∨ k2 = Kind.W)

/-- one row of the access table -/
structure Row where
  role : Role
  field : Field
  kind : Kind
  locks : List Lock
deriving DecidableEq, Repr

/-- A thread of role `role`, currently holding `h`, whose remaining program is the given list,
    *follows* table `T`: at every access it will perform there is a row of its role for that
    field and kind all of whose locks it holds at that moment.  This is a property of the
    thread's own sequential code (what the extractor computes), not of the schedule. -/
def Follows (T : List Row) (role : Role) : List Lock → List Event → Prop
  | _, [] => True
  | h, Event.acq l :: r => Follows T role (l :: h) r
  | h, Event.rel l :: r => Follows T role (h.erase l) r
  | h, Event.access f k :: r =>
      (∃ row, row ∈ T ∧ row.role = role ∧ row.field = f ∧ row.kind = k ∧ ∀ l, l ∈ row.locks → l ∈ h)
        ∧ Follows T role h r

/-- The hypotheses under which the theorems speak about a system: nobody holds a lock initially,
    every thread follows the table in its role, and two different threads have the same role only
    if that role is declared multi-instance. -/
def Admissible (multi : List Role) (T : List Row) (roleOf : Tid → Role) (s0 : State) : Prop :=
  (∀ t, s0.held t = []) ∧
  (∀ t, Follows T (roleOf t) (s0.held t) (s0.prog t)) ∧
  (∀ t u, t ≠ u → roleOf t = roleOf u → roleOf t ∈ multi)

/-! ### the checker -/

/-- rows that may be executed by two different threads on the same location, one writing -/
def conflict (multi : List Role) (a b : Row) : Bool :=
  a.field == b.field && (a.kind == Kind.W || b.kind == Kind.W) &&
    (a.role != b.role || multi.contains a.role)

def shareLock (a b : Row) : Bool := a.locks.any (fun l => b.locks.contains l)

def normPair (a b : Role) : Role × Role := if a ≤ b then (a, b) else (b, a)

abbrev Viol := Field × Role × Role

def dedup : List Viol → List Viol
  | [] => []
  | x :: xs => if xs.contains x then dedup xs else x :: dedup xs

/-- all `(field, role, role)` triples for which the table has two conflicting rows without a
    common lock (unordered role pair, smaller role first; each triple once) -/
def violations (multi : List Role) (T : List Row) : List Viol :=
  dedup (T.flatMap fun a => T.filterMap fun b =>
    if conflict multi a b && !shareLock a b then some (a.field, normPair a.role b.role) else none)


/-- every lockset is duplicate-free (the extractor emits sets) -/
def locksNodup (T : List Row) : Bool := T.all fun r => decide r.locks.Nodup

/-- the premise of the lockset theorem: conflicting rows share a lock -/
def Premise (multi : List Role) (T : List Row) : Prop :=
  ∀ a, a ∈ T → ∀ b, b ∈ T → conflict multi a b = true → shareLock a b = true

/-! ### grouped tables (what the extractor emits; evaluated group by group) -/

/-- the conflicts of one row against a list of rows -/
def violationsOf (multi : List Role) (T : List Row) (a : Row) : List Viol :=
  T.filterMap fun b =>
    if conflict multi a b && !shareLock a b then some (a.field, normPair a.role b.role) else none

/-- all rows of one location: `(field, [(role, kind (0 = read, otherwise write), locks)])` -/
abbrev Group := Field × List (Role × Nat × List Lock)

def groupRows (g : Group) : List Row :=
  g.2.map fun r => ⟨r.1, g.1, if r.2.1 = 0 then Kind.R else Kind.W, r.2.2⟩

/-- the flat table denoted by a grouped one -/
def flattenG (G : List Group) : List Row := G.flatMap groupRows

/-- no location has two groups -/
def keysNodup (G : List Group) : Bool := decide (G.map (·.1)).Nodup

/-- the checker evaluated group by group (rows of different locations never conflict); equal as a
    set to `violations multi (flattenG G)` when `keysNodup G` (`Lemmas/C36Lockset.lean`) -/
def violationsG (multi : List Role) (G : List Group) : List Viol :=
  dedup (G.flatMap fun g => (groupRows g).flatMap (violationsOf multi (groupRows g)))


/-! ### lock order (deadlock freedom) -/

/-- Lock-order discipline of one thread w.r.t. a ranking of the locks: every acquisition happens
    while holding only locks of strictly smaller rank, ranks stay below `B`, and a thread that has
    finished holds nothing (acquisitions are bracketed by releases). -/
def Ordered (rank : Lock → Nat) (B : Nat) : List Lock → List Event → Prop
  | h, [] => h = []
  | h, Event.acq l :: r => (∀ x, x ∈ h → rank x < rank l) ∧ rank l < B ∧ Ordered rank B (l :: h) r
  | h, Event.rel l :: r => Ordered rank B (h.erase l) r
  | h, Event.access _ _ :: r => Ordered rank B h r

/-- The same discipline stated with the extracted edge list: a lock is acquired only while holding
    locks `x` for which the table records the edge `x → l` ("some role acquires `l` while holding `x`"). -/
def FollowsOrder (edges : List (Lock × Lock)) : List Lock → List Event → Prop
  | h, [] => h = []
  | h, Event.acq l :: r => (∀ x, x ∈ h → (x, l) ∈ edges) ∧ FollowsOrder edges (l :: h) r
  | h, Event.rel l :: r => FollowsOrder edges (h.erase l) r
  | h, Event.access _ _ :: r => FollowsOrder edges h r

def rankOf (ranks : List Nat) (l : Lock) : Nat := ranks.getD l 0

/-- decidable acyclicity check of the lock-order graph, by a rank certificate (a topological
    numbering emitted by the extractor): every edge goes strictly upwards -/
def lockOrderAcyclic (ranks : List Nat) (edges : List (Lock × Lock)) : Bool :=
  edges.all fun e => decide (rankOf ranks e.1 < rankOf ranks e.2)

/-- a path in the lock-order graph -/
inductive OrderPath (edges : List (Lock × Lock)) : Lock → Lock → Prop where
  | single {a b : Lock} : (a, b) ∈ edges → OrderPath edges a b
  | cons {a b c : Lock} : (a, b) ∈ edges → OrderPath edges b c → OrderPath edges a c

/-! ### the canonical two-thread program of a pair of rows (used for the counterexamples) -/

def acqs (ls : List Lock) : List Event := ls.map Event.acq

def rowProg (a : Row) : List Event := acqs a.locks ++ [Event.access a.field a.kind]

/-- thread 0 runs row `a`, thread 1 runs row `b`, nobody else runs anything -/
def pairProg (a b : Row) : Tid → List Event := fun t =>
  if t = 0 then rowProg a else if t = 1 then rowProg b else []

/-- roles of the threads of `pairProg` (all other, idle, threads get pairwise different fresh roles) -/
def pairRole (a b : Row) : Tid → Role := fun t =>
  if t = 0 then a.role else if t = 1 then b.role else a.role + b.role + t

def pairInit (a b : Row) : State := ⟨pairProg a b, fun _ => []⟩

end EphVerif.Lockset
