/-
Model of `src/protocol/Manifest.cpp` (anonymous-namespace `base64_encode` / `base64_decode`,
`append_u64/u16`, `read_u64/u16`, and `encode_manifest` / `decode_manifest`) as the code is
after the two repairs `fixes/C17-shard-count-unchecked` and `fixes/C18-expiry-conversion-overflow`.

Conventions
* strings and buffers are `List UInt8`; the decoder walks the *remaining suffix* of the payload
  instead of `(payload, offset)`: `offset >= size` is `rest.length = 0`, `offset + n > size` is
  `n > rest.length`, `offset + 1 >= size` is `rest.length ≤ 1`.
* every guard of the C++ (`if (...) throw std::invalid_argument`) is an explicit `if … then
  .invalidArg`; every *unguarded* read (`payload[offset++]`, `copy_n`, `read_u64`) is a checked
  read `rawByte` / `rawTake` that answers `.oob` when it leaves the buffer.  That guards make the
  `.oob` answers unreachable is a theorem (`C18.total`), not built into the model.
* shifts and masks of unsigned values are written `/ 2^k` and `% 2^k`; `a | b` of fields that
  occupy disjoint bits is written `a + b`.
* the clock conversion `seconds → time_point` (nanoseconds in `int64`) answers `.ub` when the
  product does not fit; the range check added by the C18 repair comes before it.
Constants and the per-field refusal tests come from `Generated/C17.lean`.
-/
import EphVerif.Generated.C17
import EphVerif.Spec.Manifest

namespace EphVerif.Manifest
open EphVerif.Gen.C17

/-! ### sequencing of outcomes -/

@[inline] def Res.bind {α β : Type} (r : Res α) (f : α → Res β) : Res β :=
  match r with
  | .ok a => f a
  | .invalidArg => .invalidArg
  | .oob => .oob
  | .ub => .ub
  | .otherExc => .otherExc

instance : Monad Res where
  pure := Res.ok
  bind := Res.bind

/-! ### base64 -/

def padChar : UInt8 := 61   -- '='

/-- `kBase64Alphabet[i]` -/
def alphaAt (i : Nat) : UInt8 := kBase64Alphabet.getD i 0

/-- `kBase64Alphabet[(triple >> shift) & 0x3F]` -/
def sextet (triple shift : Nat) : UInt8 := alphaAt ((triple / 2 ^ shift) % 64)

def b64Encode : Bytes → Bytes
  | a :: b :: c :: rest =>
    let t := a.toNat * 65536 + b.toNat * 256 + c.toNat
    sextet t 18 :: sextet t 12 :: sextet t 6 :: sextet t 0 :: b64Encode rest
  | [a, b] =>
    let t := a.toNat * 65536 + b.toNat * 256
    [sextet t 18, sextet t 12, sextet t 6, padChar]
  | [a] =>
    let t := a.toNat * 65536
    [sextet t 18, sextet t 12, padChar, padChar]
  | [] => []

/-- the loop `for i in 0..63: decode[alphabet[i]] = i` over an array pre-filled with -1:
    the last assignment to a slot wins -/
def tableLookup : List UInt8 → Nat → UInt8 → Int → Int
  | [], _, _, acc => acc
  | a :: as, i, c, acc => tableLookup as (i + 1) c (if a == c then (i : Int) else acc)

/-- `decode[c]` after the table is built (`decode['='] = 0` is assigned last) -/
def decVal (c : UInt8) : Int :=
  if c == padChar then 0 else tableLookup (kBase64Alphabet.take 64) 0 c (-1)

/-- the loop over groups of four characters -/
def b64Quads : Bytes → Res Bytes
  | [] => .ok []
  | ca :: cb :: cc :: cd :: rest =>
    let a := decVal ca
    let b := decVal cb
    let c := decVal cc
    let d := decVal cd
    if a < 0 || b < 0 || c < 0 || d < 0 then .invalidArg
    else
      let t := (a * 262144 + b * 4096 + c * 64 + d).toNat
      let o0 : Bytes := [UInt8.ofNat ((t / 65536) % 256)]
      let o1 : Bytes := if cc != padChar then [UInt8.ofNat ((t / 256) % 256)] else []
      let o2 : Bytes := if cd != padChar then [UInt8.ofNat (t % 256)] else []
      (b64Quads rest).bind fun tail => .ok (o0 ++ o1 ++ o2 ++ tail)
  | _ => .oob   -- `input[i + k]` past the end

def b64Decode (input : Bytes) : Res Bytes :=
  if input.length % 4 != 0 then .invalidArg else b64Quads input

/-! ### integers on the wire -/

/-- `static_cast<std::uint8_t>(n)` -/
def u8 (n : Nat) : UInt8 := UInt8.ofNat n

/-- `append_u64` -/
def appendU64 (v : Nat) : Bytes :=
  [56, 48, 40, 32, 24, 16, 8, 0].map fun shift => UInt8.ofNat ((v / 2 ^ shift) % 256)

/-- `append_u16(buffer, static_cast<std::uint16_t>(n))` -/
def appendU16 (n : Nat) : Bytes :=
  let v := n % 65536
  [UInt8.ofNat ((v / 256) % 256), UInt8.ofNat (v % 256)]

/-- big-endian value of a byte string (`value |= byte << shift`, shift descending) -/
def beNat (bs : Bytes) : Nat := bs.foldl (fun acc b => acc * 256 + b.toNat) 0

/-- `static_cast<std::uint64_t>(int64)` -/
def toU64 (x : Int) : Nat := (x % 18446744073709551616).toNat

/-- `static_cast<std::int64_t>(uint64)` -/
def toI64 (u : Nat) : Int := if u < 9223372036854775808 then (u : Int) else (u : Int) - 18446744073709551616

def int64Min : Int := -9223372036854775808
def int64Max : Int := 9223372036854775807
def nsPerSecond : Int := 1000000000

/-- `duration_cast<seconds>(system_clock::duration::min()/max())` (division truncates toward zero) -/
def minExpirySeconds : Int := Int.tdiv int64Min nsPerSecond
def maxExpirySeconds : Int := Int.tdiv int64Max nsPerSecond

/-- `system_clock::time_point{seconds}`: multiplication by 10^9 in `int64` -/
def secondsToTicks (secs : Int) : Res Int :=
  let ns := secs * nsPerSecond
  if int64Min ≤ ns ∧ ns ≤ int64Max then .ok ns else .ub

/-! ### encoder -/

/-- `hint.scheme.empty() ? hint.transport : hint.scheme` -/
def effScheme (h : DiscoveryHint) : Bytes := if h.scheme.isEmpty then h.transport else h.scheme

/-- the chain of `throw std::length_error` tests, in source order; `true` = no test fires -/
def encodeChecks (m : Manifest) : Bool :=
  !refuseShardCount m.shards.length &&
  !refuseMetadataCount m.metadata.length &&
  m.metadata.all (fun e => !refuseMetadataKey e.1.length && !refuseMetadataValue e.2.length) &&
  !refuseDiscoveryCount m.discovery.length &&
  m.discovery.all (fun h => !refuseDiscoveryScheme (effScheme h).length &&
                            !refuseDiscoveryTransport h.transport.length &&
                            !refuseDiscoveryEndpoint h.endpoint.length) &&
  !refuseFallbackCount m.fallback.length &&
  m.fallback.all (fun f => !refuseFallbackUri f.uri.length) &&
  !refuseAdvisory m.security.advisory.length

def encShard (s : KeyShard) : Bytes := s.index :: s.value

def encMeta (e : Bytes × Bytes) : Bytes :=
  u8 e.1.length :: (e.1 ++ (appendU16 e.2.length ++ e.2))

def encDisc (h : DiscoveryHint) : Bytes :=
  u8 (effScheme h).length :: (effScheme h ++
    (u8 h.transport.length :: (h.transport ++
      (appendU16 h.endpoint.length ++ (h.endpoint ++ [h.priority])))))

def encFallback (f : FallbackHint) : Bytes :=
  appendU16 f.uri.length ++ (f.uri ++ [f.priority])

def encSecurity (s : Security) : Bytes :=
  s.tokenBits :: (appendU16 s.advisory.length ++ (s.advisory ++
    ((if s.hasDigest then 1 else 0) :: (if s.hasDigest then s.digest else []))))

/-- `duration_cast<seconds>(expires_at.time_since_epoch()).count()` as `uint64` -/
def expiryField (m : Manifest) : Nat := toU64 (Int.tdiv m.expiresNs nsPerSecond)

def encFallbackSection (m : Manifest) : Bytes :=
  u8 m.fallback.length :: m.fallback.flatMap encFallback

def encDiscoverySection (m : Manifest) : Bytes :=
  u8 m.discovery.length :: m.discovery.flatMap encDisc

def encMetadataSection (m : Manifest) : Bytes :=
  u8 m.metadata.length :: m.metadata.flatMap encMeta

def encShardSection (m : Manifest) : Bytes :=
  u8 m.shards.length :: m.shards.flatMap encShard

def encHeader (m : Manifest) : Bytes :=
  u8 kManifestVersion :: (m.chunkId ++ (m.chunkHash ++ (m.nonce ++ (appendU64 (expiryField m) ++
    [m.threshold, m.totalShares]))))

def payload (m : Manifest) : Bytes :=
  encHeader m ++ (encShardSection m ++ (encMetadataSection m ++ (encDiscoverySection m ++
    (encSecurity m.security ++ encFallbackSection m))))

def encodeManifest (m : Manifest) : EncOut :=
  if encodeChecks m then .ok (kScheme ++ b64Encode (payload m)) else .lengthError

/-! ### decoder: reads -/

/-- `payload[offset++]` with no guard of its own -/
def rawByte : Bytes → Res (UInt8 × Bytes)
  | [] => .oob
  | b :: r => .ok (b, r)

/-- `copy_n(payload.begin() + offset, n, …); offset += n` with no guard of its own -/
def rawTake (n : Nat) (s : Bytes) : Res (Bytes × Bytes) :=
  if n ≤ s.length then .ok (s.take n, s.drop n) else .oob

/-- `if (offset >= payload.size()) throw …; x = payload[offset++]` -/
def needByte (s : Bytes) : Res (UInt8 × Bytes) :=
  if s.length = 0 then .invalidArg else rawByte s

/-- `if (offset + n > payload.size()) throw …; string(…, n); offset += n` -/
def needBytes (n : Nat) (s : Bytes) : Res (Bytes × Bytes) :=
  if n > s.length then .invalidArg else rawTake n s

/-- `read_u16` (has its own guard) followed by `offset += 2` -/
def readU16 (s : Bytes) : Res (Nat × Bytes) :=
  if s.length ≤ 1 then .invalidArg
  else (rawByte s).bind fun (hi, s1) => (rawByte s1).bind fun (lo, s2) => .ok (hi.toNat * 256 + lo.toNat, s2)

/-- `if (offset + 1 >= payload.size()) throw …; v = read_u16(payload, offset); offset += 2` -/
def needU16 (s : Bytes) : Res (Nat × Bytes) :=
  if s.length ≤ 1 then .invalidArg else readU16 s

/-- length byte, then that many bytes -/
def str8 (s : Bytes) : Res (Bytes × Bytes) :=
  (needByte s).bind fun (n, s1) => needBytes n.toNat s1

/-- 16-bit length, then that many bytes -/
def str16 (s : Bytes) : Res (Bytes × Bytes) :=
  (needU16 s).bind fun (n, s1) => needBytes n s1

/-! ### decoder: sections -/

structure Header where
  version : UInt8
  chunkId : Bytes
  chunkHash : Bytes
  nonce : Bytes
  expiresNs : Int
  threshold : UInt8
  totalShares : UInt8
  shardCount : UInt8
deriving DecidableEq, Repr

def headerMin : Nat := headerMinTerms.foldl (· + ·) 0

/-- the expiry field: `read_u64`, the range check of the C18 repair, the clock conversion -/
def readExpiry (s : Bytes) : Res (Int × Bytes) :=
  (rawTake 8 s).bind fun (e, s1) =>
    let secs := toI64 (beNat e)
    if secs < minExpirySeconds || secs > maxExpirySeconds then .invalidArg
    else (secondsToTicks secs).bind fun ns => .ok (ns, s1)

/-- everything up to and including the shard count byte: one size guard, then unguarded reads -/
def readHeader (p : Bytes) : Res (Header × Bytes) :=
  if p.length < headerMin then .invalidArg
  else (rawByte p).bind fun (version, s) =>
    if !supportedVersions.contains version.toNat then .invalidArg
    else (rawTake chunkIdSize s).bind fun (cid, s) =>
      (rawTake chunkHashSize s).bind fun (hash, s) =>
      (rawTake nonceSize s).bind fun (nonce, s) =>
      (readExpiry s).bind fun (ns, s) =>
      (rawByte s).bind fun (thr, s) =>
      (rawByte s).bind fun (tot, s) =>
      (rawByte s).bind fun (cnt, s) =>
      .ok (⟨version, cid, hash, nonce, ns, thr, tot, cnt⟩, s)

/-- the shard loop: unguarded reads of index and value -/
def readShards : Nat → Bytes → Res (List KeyShard × Bytes)
  | 0, s => .ok ([], s)
  | n + 1, s =>
    (rawByte s).bind fun (idx, s1) =>
    (rawTake shardValueSize s1).bind fun (v, s2) =>
    (readShards n s2).bind fun (rest, s3) => .ok (⟨idx, v⟩ :: rest, s3)

/-- `if (offset + shard_count * 33 > payload.size()) throw …;` then the loop -/
def readShardSection (count : Nat) (s : Bytes) : Res (List KeyShard × Bytes) :=
  if count * shardStride > s.length then .invalidArg else readShards count s

/-- `std::map::emplace`: insert in key order unless an equivalent key is present -/
def mapInsert (k v : Bytes) : List (Bytes × Bytes) → List (Bytes × Bytes)
  | [] => [(k, v)]
  | e :: rest =>
    if bytesLt k e.1 then (k, v) :: e :: rest
    else if bytesLt e.1 k then e :: mapInsert k v rest
    else e :: rest

def readMetaEntries : Nat → List (Bytes × Bytes) → Bytes → Res (List (Bytes × Bytes) × Bytes)
  | 0, acc, s => .ok (acc, s)
  | n + 1, acc, s =>
    (str8 s).bind fun (k, s1) =>
    (str16 s1).bind fun (v, s2) =>
    readMetaEntries n (mapInsert k v acc) s2

def readMetaSection (s : Bytes) : Res (List (Bytes × Bytes) × Bytes) :=
  (needByte s).bind fun (n, s1) => readMetaEntries n.toNat [] s1

def readDiscEntry (v4 : Bool) (s : Bytes) : Res (DiscoveryHint × Bytes) :=
  (if v4 then str8 s else .ok ([], s)).bind fun (scheme, s1) =>
  (str8 s1).bind fun (transport, s2) =>
  (str16 s2).bind fun (endpoint, s3) =>
  (needByte s3).bind fun (prio, s4) =>
  .ok (⟨if scheme.isEmpty then transport else scheme, transport, endpoint, prio⟩, s4)

def readDiscEntries (v4 : Bool) : Nat → Bytes → Res (List DiscoveryHint × Bytes)
  | 0, s => .ok ([], s)
  | n + 1, s =>
    (readDiscEntry v4 s).bind fun (h, s1) =>
    (readDiscEntries v4 n s1).bind fun (rest, s2) => .ok (h :: rest, s2)

def readDiscSection (v4 : Bool) (s : Bytes) : Res (List DiscoveryHint × Bytes) :=
  (needByte s).bind fun (n, s1) => readDiscEntries v4 n.toNat s1

def zeroDigest : Bytes := List.replicate digestArraySize 0

def readSecurity (s : Bytes) : Res (Security × Bytes) :=
  (needByte s).bind fun (bits, s1) =>
  (str16 s1).bind fun (advisory, s2) =>
  (needByte s2).bind fun (flag, s3) =>
  if flag != 0 then
    if kAttestationDigestSize > s3.length then .invalidArg
    else (rawTake digestArraySize s3).bind fun (d, s4) => .ok (⟨advisory, d, true, bits⟩, s4)
  else .ok (⟨advisory, zeroDigest, false, bits⟩, s3)

def readFallbackEntries : Nat → Bytes → Res (List FallbackHint × Bytes)
  | 0, s => .ok ([], s)
  | n + 1, s =>
    (str16 s).bind fun (uri, s1) =>
    (needByte s1).bind fun (prio, s2) =>
    (readFallbackEntries n s2).bind fun (rest, s3) => .ok (⟨uri, prio⟩ :: rest, s3)

def readFallbackSection (s : Bytes) : Res (List FallbackHint × Bytes) :=
  (needByte s).bind fun (n, s1) => readFallbackEntries n.toNat s1

/-- `Manifest manifest{}` with the header fields filled in -/
def baseManifest (h : Header) (shards : List KeyShard) : Manifest :=
  { chunkId := h.chunkId, chunkHash := h.chunkHash, nonce := h.nonce,
    threshold := h.threshold, totalShares := h.totalShares, expiresNs := h.expiresNs,
    shards := shards, metadata := [], discovery := [],
    security := ⟨[], zeroDigest, false, 0⟩, fallback := [] }

def decodePayload (p : Bytes) : Res Manifest :=
  (readHeader p).bind fun (h, s) =>
  (readShardSection h.shardCount.toNat s).bind fun (shards, s) =>
  let m0 := baseManifest h shards
  if h.version == 1 then .ok m0
  else (readMetaSection s).bind fun (md, s) =>
    let m1 := { m0 with metadata := md }
    if h.version == 2 then .ok m1
    else (readDiscSection (decide (h.version.toNat ≥ 4)) s).bind fun (disc, s) =>
      (readSecurity s).bind fun (sec, s) =>
      (readFallbackSection s).bind fun (fb, _) =>
      .ok { m1 with discovery := disc, security := sec, fallback := fb }

/-- `uri.rfind(kScheme, 0) != 0` is "does not start with" -/
def decodeManifest (uri : Bytes) : Res Manifest :=
  if !kScheme.isPrefixOf uri then .invalidArg
  else (b64Decode (uri.drop kScheme.length)).bind decodePayload

end EphVerif.Manifest
