/-!
# Model for C30 — the delivery decision of `eph fetch`

Mirrors `attempt_direct_fetch` / `finalize_fetch` / the local-daemon tail of the `fetch` command in
src/main.cpp *after* the repair `fixes/C30-verify-control-payload.patch`: `finalize_fetch` compares the
SHA-256 of every payload with the manifest's `chunk_hash` before anything is written, on every path.

A discovery path is described by what its endpoint does (`Resp`); for the transport paths the payload
is the plaintext the received chunk decrypts to under the manifest's key (the cipher is a bijection on
the ciphertext, so this loses nothing).  `sha` is a parameter: the theorems hold for every hash function,
the driver instantiates it with the FIPS 180-4 specification.
-/
namespace EphVerif.CliFetch

abbrev Bytes := List UInt8

inductive Kind
  | transport   -- discovery hint, scheme transport / transport tcp
  | relay       -- discovery hint, scheme transport / transport relay
  | control     -- discovery hint, scheme control
  | fallback    -- fallback hint control://host:port
  deriving DecidableEq, Repr

/-- what an endpoint does when contacted -/
inductive Resp
  | down                    -- nothing listens / cannot connect
  | fail                    -- reachable, but no payload arrives: error status, rejected handshake, nack,
                            -- connection closed, truncated stream, response without status line
  | payload (b : Bytes)     -- control: `STATUS:OK` + payload `b`;  transport: a chunk that decrypts to `b`
  | okNoPayload             -- control only: `STATUS:OK` without payload ("written on the daemon host")
  deriving DecidableEq, Repr

structure Path where
  idx : Nat                 -- position in the operation (only used to report which endpoints were contacted)
  kind : Kind
  prio : Nat
  resp : Resp
  deriving Repr

inductive Mode
  | auto | direct | transportOnly | controlFallback
  deriving DecidableEq, Repr

def Mode.directOnly : Mode → Bool
  | .direct | .transportOnly => true
  | _ => false

/-- outcome of one attempt -/
inductive Step
  | wrote (b : Bytes)       -- the output file now holds `b`; the command ends with exit code 0
  | remote                  -- success reported without a local file (payload-less OK); exit code 0
  | next                    -- this path failed; try the next one
  deriving DecidableEq, Repr

def isTransportKind : Kind → Bool
  | .transport | .relay => true
  | _ => false

section
variable (sha : Bytes → Bytes)

/-- `finalize_fetch` (with the hash comparison) as reached from one attempt.  `viaTransport`: the transport
path only ever produces payloads (it has no payload-less success). -/
def deliver (h : Bytes) (viaTransport : Bool) : Resp → Step
  | .payload b => if sha b = h then .wrote b else .next
  | .okNoPayload => if viaTransport then .next else .remote
  | .down => .next
  | .fail => .next

/-- `std::stable_sort` by ascending priority -/
def insertPrio (p : Path) : List Path → List Path
  | [] => [p]
  | q :: qs => if p.prio ≤ q.prio then p :: q :: qs else q :: insertPrio p qs

def sortPrio : List Path → List Path
  | [] => []
  | p :: ps => insertPrio p (sortPrio ps)

/-- the order in which `attempt_direct_fetch` walks the manifest's hints -/
def directOrder (mode : Mode) (paths : List Path) : List Path :=
  let t := sortPrio (paths.filter fun p => isTransportKind p.kind)
  let c := sortPrio (paths.filter fun p => p.kind == .control)
  let f := sortPrio (paths.filter fun p => p.kind == .fallback)
  (if mode == .controlFallback then [] else t) ++ (if mode == .transportOnly then [] else c ++ f)

def contacted (idx : Nat) : Resp → List Nat
  | .down => []
  | _ => [idx]

/-- walk the ordered paths until one ends the search; also report which endpoints were contacted -/
def run (h : Bytes) : List Path → Step × List Nat
  | [] => (.next, [])
  | p :: ps =>
    match deliver sha h (isTransportKind p.kind) p.resp with
    | .next => let r := run h ps; (r.1, contacted p.idx p.resp ++ r.2)
    | s => (s, contacted p.idx p.resp)

structure Result where
  file : Option Bytes
  exit : Nat
  tried : List Nat
  deriving DecidableEq, Repr

/-- the `fetch` command from the decoded manifest on: direct discovery, then (unless a direct-only mode was
requested) the local daemon -/
def fetch (mode : Mode) (h : Bytes) (paths : List Path) (localIdx : Nat) (localResp : Resp) : Result :=
  match run sha h (directOrder mode paths) with
  | (.wrote b, l) => ⟨some b, 0, l⟩
  | (.remote, l) => ⟨none, 0, l⟩
  | (.next, l) =>
    if mode.directOnly then ⟨none, 1, l⟩
    else
      match deliver sha h false localResp with
      | .wrote b => ⟨some b, 0, l ++ contacted localIdx localResp⟩
      | .remote => ⟨none, 0, l ++ contacted localIdx localResp⟩
      | .next => ⟨none, 1, l ++ contacted localIdx localResp⟩

/-! ### the state of the manifest itself -/

/-- what the CLI can do with the manifest it was handed -/
structure MState where
  /-- `protocol::decode_manifest` succeeds: only then does the CLI know hints and `chunk_hash` -/
  decodable : Bool
  /-- `manifest_expired`: `expires_at <= now` at the time of the fetch -/
  expired : Bool
  /-- `decrypt_chunk_with_manifest` can rebuild the chunk key: `threshold > 0` and enough shards -/
  keyOk : Bool
  /-- the metadata names the publisher (`publisher_peer`, `publisher_public`), needed for a transport handshake -/
  publisher : Bool
  deriving DecidableEq, Repr

/-- What a path amounts to for this manifest.  `attempt_transport_hint` refuses to dial when the publisher identity is
missing or the manifest has expired (the endpoint is then never contacted, like one that is down); a chunk that cannot
be decrypted is a failed attempt.  The control paths do not look at the manifest before asking. -/
def effResp (m : MState) (k : Kind) (r : Resp) : Resp :=
  if isTransportKind k then
    if m.publisher && !m.expired then
      match r with
      | .payload b => if m.keyOk then .payload b else .fail
      | .okNoPayload => .fail
      | r => r
    else .down
  else r

def view (m : MState) (p : Path) : Path := { p with resp := effResp m p.kind p.resp }

/-- The manifest cannot be decoded: no hints, no hash.  A direct-only mode is an error; otherwise the URI is handed to
the local daemon, whose payload — which nothing could be compared with — is refused (after the repair
`fixes/C30-refuse-unverifiable-payload.patch`); a payload-less success is reported as before. -/
def fetchUndecodable (mode : Mode) (localIdx : Nat) (localResp : Resp) : Result :=
  if mode.directOnly then ⟨none, 1, []⟩
  else
    match localResp with
    | .okNoPayload => ⟨none, 0, contacted localIdx localResp⟩
    | r => ⟨none, 1, contacted localIdx r⟩

/-- the whole command, for a manifest in state `m` -/
def fetchM (m : MState) (mode : Mode) (h : Bytes) (paths : List Path) (localIdx : Nat) (localResp : Resp) : Result :=
  if m.decodable then fetch sha mode h (paths.map (view m)) localIdx localResp
  else fetchUndecodable mode localIdx localResp

/-- A response whose payload does not hash to `h`, replaced by an outright failure. -/
def neutral (h : Bytes) : Resp → Resp
  | .payload b => if sha b = h then .payload b else .fail
  | r => r

end

end EphVerif.CliFetch
