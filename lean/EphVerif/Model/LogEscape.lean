/-
Model of src/daemon/StructuredLogger.cpp: `escape_control_characters` (= `escape_json`) and the
framing of `StructuredLogger::log`.  Core Lean only.  Bytes are naturals.

The timestamp (`format_timestamp()`, wall clock + `gmtime`) is an *opaque parameter* `ts`: the
record theorems hold for every timestamp string, and the correspondence run takes the value the
implementation printed (under the virtual clock) as the parameter.
-/
namespace EphVerif.LogEscape

abbrev Bytes := List Nat

/-- `std::hex << std::uppercase` digit -/
def hexUpper (n : Nat) : Nat := if n < 10 then 0x30 + n else 0x41 + (n - 10)

/-- one iteration of the `switch (ch)` in `escape_control_characters` -/
def escapeByte (ch : Nat) : Bytes :=
  if ch = 0x22 then [0x5C, 0x22]            -- case '"'
  else if ch = 0x5C then [0x5C, 0x5C]       -- case '\\'
  else if ch = 0x08 then [0x5C, 0x62]       -- case '\b'
  else if ch = 0x0C then [0x5C, 0x66]       -- case '\f'
  else if ch = 0x0A then [0x5C, 0x6E]       -- case '\n'
  else if ch = 0x0D then [0x5C, 0x72]       -- case '\r'
  else if ch = 0x09 then [0x5C, 0x74]       -- case '\t'
  else if ch < 0x20 then                    -- "\\u" << hex << uppercase << setw(4) << setfill('0')
    [0x5C, 0x75, 0x30, 0x30, hexUpper (ch / 16), hexUpper (ch % 16)]
  else [ch]

/-- `escape_control_characters(value)` -/
def escape : Bytes → Bytes
  | [] => []
  | ch :: rest => escapeByte ch ++ escape rest

/-- `level_to_string` (0 = Info, 1 = Warning, 2 = Error; anything else falls out of the switch) -/
def levelToString (lv : Nat) : Bytes :=
  if lv = 1 then [0x77, 0x61, 0x72, 0x6E, 0x69, 0x6E, 0x67]      -- warning
  else if lv = 2 then [0x65, 0x72, 0x72, 0x6F, 0x72]            -- error
  else [0x69, 0x6E, 0x66, 0x6F]                                 -- info

/-- `"\"" << escape_json(x) << "\""` -/
def quoted (s : Bytes) : Bytes := 0x22 :: (escape s ++ [0x22])

/-- `"key":"value"` -/
def renderField (f : Bytes × Bytes) : Bytes := quoted f.1 ++ 0x3A :: quoted f.2

/-- the loop over `fields` with `','` between consecutive entries -/
def renderFields : List (Bytes × Bytes) → Bytes
  | [] => []
  | [f] => renderField f
  | f :: g :: rest => renderField f ++ 0x2C :: renderFields (g :: rest)

def keyTs : Bytes := [0x74, 0x73]                                   -- ts
def keyLevel : Bytes := [0x6C, 0x65, 0x76, 0x65, 0x6C]              -- level
def keyEvent : Bytes := [0x65, 0x76, 0x65, 0x6E, 0x74]              -- event
def keyFields : Bytes := [0x66, 0x69, 0x65, 0x6C, 0x64, 0x73]       -- fields

/-- the bytes `StructuredLogger::log` writes to `std::clog` for one call (logger enabled) -/
def logRecord (ts level event : Bytes) (fields : List (Bytes × Bytes)) : Bytes :=
  0x7B :: (quoted keyTs ++ 0x3A :: quoted ts) ++ 0x2C ::
  (quoted keyLevel ++ 0x3A :: quoted level) ++ 0x2C ::
  (quoted keyEvent ++ 0x3A :: quoted event) ++
  (if fields.isEmpty then [] else 0x2C :: (quoted keyFields ++ 0x3A :: 0x7B :: (renderFields fields ++ [0x7D]))) ++
  [0x7D, 0x0A]

end EphVerif.LogEscape
