/-
Glue between the component models for the replication path of src/core/Node.cpp (core Lean only):

  Node::dispatch_upload     -> `chunkMessage`   what the CHUNK message of a served request carries (C23's model only says
                                                *that* a `Frame.chunk peer chunk` is sent)
  Node::handle_request      -> `servable`       the `servable` fact of C23's environment for a concrete node
  Node::handle_chunk        -> `handleChunk`    session key check, `manifest_for_chunk`, `encode_manifest` → `receive_chunk`
                                                (C11's model), the ACK flag that is sent back
  receive_chunk's `clear_pending_fetch` together with C24's pending-fetch map -> `Importer`, `importerChunk`
  events at an importing node (CHUNK messages from any peer with any bytes, admitted announces, replica-less ingests)
                            -> `Event`, `step`, `run` with the log of accepted replicas

Chunk ids are byte strings in C11's model and opaque strings in C21 / C23 / C24: `chunkName` (lower-case hex) relates them.
-/
import EphVerif.Model.StorePipeline
import EphVerif.Model.Fetches
import EphVerif.Model.Uploads

namespace EphVerif.ReplicationGlue
open EphVerif.StorePipeline

def hexDigit (n : Nat) : Char := if n < 10 then Char.ofNat (48 + n) else Char.ofNat (87 + n)

/-- the name of a chunk id in the string-keyed component models -/
def chunkName (id : Bytes) : String :=
  String.ofList (id.flatMap fun b => [hexDigit (b.toNat / 16), hexDigit (b.toNat % 16)])

/-- `protocol::ChunkPayload` -/
structure ChunkMsg where
  chunkId : Bytes
  data : Bytes
  ttl : Int
deriving Repr, DecidableEq

/-- `handle_request` / `dispatch_upload`: a cached manifest, a held record, and `manifest_ttl` has a value -/
def servable (cfg : Config) (st : NodeState) (wallNowNs : Int) (id : Bytes) : Bool :=
  match find st.manifests id, find st.chunks id with
  | some m, some _ => (manifestTtl m.expiresNs wallNowNs cfg.minTtl cfg.maxTtl).isSome
  | _, _ => false

/-- `dispatch_upload`: the CHUNK message (`chunk_payload.data = record->data`, `ttl = *ttl_opt`) -/
def chunkMessage (cfg : Config) (st : NodeState) (wallNowNs : Int) (id : Bytes) : Option ChunkMsg :=
  match find st.manifests id, find st.chunks id with
  | some m, some record =>
    match manifestTtl m.expiresNs wallNowNs cfg.minTtl cfg.maxTtl with
    | some ttl => some { chunkId := id, data := record.data, ttl := ttl }
    | none => none
  | _, _ => none

/-- `Node::handle_chunk(payload, sender)`: new node state and the `accepted` flag of the ACK that is sent
    (`none` = no session key for the sender: nothing happens, nothing is sent) -/
def handleChunk (cfg : Config) (st : NodeState) (wallNowNs : Int) (hasKey : Bool) (msg : ChunkMsg) (rk : Bytes) :
    NodeState × Option Bool :=
  if !hasKey then (st, none)
  else
    match find st.manifests msg.chunkId with
    | none => (st, some false)
    | some m =>
      let r := receiveChunk cfg st wallNowNs (some (wire m)) msg.data rk
      (r.1, some r.2.isAccepted)

/-- what `handle_chunk` makes `receive_chunk` return (for the log) -/
def handleChunkResult (cfg : Config) (st : NodeState) (wallNowNs : Int) (hasKey : Bool) (msg : ChunkMsg) (rk : Bytes) : Recv :=
  if !hasKey then .rejected
  else
    match find st.manifests msg.chunkId with
    | none => .rejected
    | some m => (receiveChunk cfg st wallNowNs (some (wire m)) msg.data rk).2

/-- an importing node: C11's node state and C24's pending-fetch bookkeeping -/
structure Importer where
  node : NodeState
  fetches : Fetches.State

/-- `handle_chunk` on the importer: an accepted replica also runs `clear_pending_fetch` (inside `receive_chunk`) -/
def importerChunk (cfg : Config) (b : Importer) (wallNowNs : Int) (hasKey : Bool) (msg : ChunkMsg) (rk : Bytes) :
    Importer × Option Bool :=
  let r := handleChunk cfg b.node wallNowNs hasKey msg rk
  ({ node := r.1, fetches := if r.2 = some true then Fetches.clear b.fetches (chunkName msg.chunkId) else b.fetches }, r.2)

/-- what can happen at an importing node, each with the wall-clock time at which it happens -/
inductive Event where
  /-- a CHUNK message from some peer (`hasKey`: a session key exists for it) with arbitrary bytes; `rk` = replacement key draw -/
  | chunk (wallNowNs : Int) (hasKey : Bool) (msg : ChunkMsg) (rk : Bytes)
  /-- an ANNOUNCE that passed C21's admission chain, carrying manifest `m` -/
  | announce (wallNowNs : Int) (m : Manifest)
  /-- an ANNOUNCE that did not: the node state is untouched (C21.admission) -/
  | announceRejected
  /-- `ingest_manifest` (control FETCH, request_chunk, pending-fetch dispatch) -/
  | ingest (wallNowNs : Int) (decoded : Option Manifest)

/-- an accepted replica: id, the manifest that was cached for it at that moment, the bytes returned -/
structure Accepted where
  chunkId : Bytes
  manifest : Manifest
  plaintext : Bytes

def step (cfg : Config) (b : Importer) : Event → Importer × List Accepted
  | .chunk now hasKey msg rk =>
    let r := importerChunk cfg b now hasKey msg rk
    (r.1,
      match find b.node.manifests msg.chunkId, handleChunkResult cfg b.node now hasKey msg rk with
      | some m, .accepted pt => [{ chunkId := msg.chunkId, manifest := wire m, plaintext := pt }]
      | _, _ => [])
  | .announce now m => ({ b with node := announceAdmitted cfg b.node now m }, [])
  | .announceRejected => (b, [])
  | .ingest now d => ({ b with node := (ingestManifest cfg b.node now d).1 }, [])

def run (cfg : Config) : Importer × List Accepted → List Event → Importer × List Accepted
  | acc, [] => acc
  | (b, log), e :: rest => let r := step cfg b e; run cfg (r.1, log ++ r.2) rest

end EphVerif.ReplicationGlue
