/-
Model of the JSON reader in src/core/UpdateCheck.cpp (`JsonParser`, `parse_update_metadata`)
*after* the three C38 repairs (nesting limit `kMaxJsonDepth`, surrogate pairs combined / lone
surrogates rejected, bounds-checked `peek()`).  Core Lean only.  Bytes are naturals.

Conventions
* The document is `inp : Array Nat`, the cursor `pos_` is an explicit `Nat` threaded through.
* Every C++ read `input_[i]` that is not itself preceded by a bounds test is `rawAt`, which
  yields the outcome `oob` when `i` is outside the document.  `C38_total` proves `oob` is
  never produced.
* Every `while` loop runs on structural *fuel*, started at `inp.size + 1`; running out of it
  is the outcome `outOfFuel` (= the C++ would still be looping).  `C38_total` proves it is
  never produced (each iteration advances the cursor).
* The recursion `parse_value → parse_object/parse_array → parse_value` is structural on the
  remaining nesting budget `d`, started at `kMaxJsonDepth` (generated from the source): the
  C++ test `depth_ >= kMaxJsonDepth` is `d = 0`.
* C++ exceptions (all `std::runtime_error`, caught in `parse_update_metadata`) are `err msg`.
* Number literals are kept as their source text (`strtod` is not modelled; the `ERANGE`
  branch is outside the model).
* String nodes carry a ghost field `off`: the offset of their opening quotation mark in the
  document.  It has no C++ counterpart and is used only to state `C38_strings`.
-/
import EphVerif.Generated.C38

namespace EphVerif.UpdateJson

abbrev Bytes := List Nat
abbrev Input := Array Nat

inductive Res (α : Type) where
  | ok (a : α)
  | err (msg : String)
  | oob
  | outOfFuel
deriving Repr, DecidableEq

def Res.bind {α β : Type} (r : Res α) (f : α → Res β) : Res β :=
  match r with
  | .ok a => f a
  | .err m => .err m
  | .oob => .oob
  | .outOfFuel => .outOfFuel

instance : Monad Res where
  pure := Res.ok
  bind := Res.bind

inductive JV where
  | null
  | bool (b : Bool)
  | num (text : Bytes)
  | str (off : Nat) (s : Bytes)
  | arr (xs : List JV)
  | obj (ms : List (Nat × Bytes × JV))       -- (ghost offset of the key, key, value)

def ascii (s : String) : Bytes := s.toList.map Char.toNat

/-! ### cursor primitives -/

/-- `eof()` -/
def eof (inp : Input) (pos : Nat) : Bool := decide (inp.size ≤ pos)

/-- an unchecked `input_[pos]` -/
def rawAt (inp : Input) (pos : Nat) : Res Nat :=
  match inp[pos]? with
  | some b => .ok b
  | none => .oob

/-- `peek()` (repaired: throws at end of input) -/
def peek (inp : Input) (pos : Nat) : Res Nat :=
  if eof inp pos then .err "Unexpected end of JSON input" else rawAt inp pos

/-- `get()` -/
def get (inp : Input) (pos : Nat) : Res (Nat × Nat) := do
  let b ← rawAt inp pos
  pure (b, pos + 1)

/-- `expect(c)` -/
def expect (inp : Input) (pos : Nat) (c : Nat) : Res Nat :=
  if eof inp pos then .err "Unexpected character in JSON input"
  else do
    let b ← rawAt inp pos
    if b = c then pure (pos + 1) else .err "Unexpected character in JSON input"

/-- `match(c)` -/
def matchCh (inp : Input) (pos : Nat) (c : Nat) : Res (Bool × Nat) :=
  if eof inp pos then pure (false, pos)
  else do
    let b ← rawAt inp pos
    if b = c then pure (true, pos + 1) else pure (false, pos)

/-- `match_literal(lit)`: `input_.substr(pos_, n) == lit` (`substr` throws `out_of_range` when
    `pos_ > size()`, which is an ordinary caught exception) -/
def matchLiteral (inp : Input) (pos : Nat) (lit : Bytes) : Res (Bool × Nat) :=
  if inp.size < pos then .err "basic_string_view::substr"
  else if (inp.extract pos (pos + lit.length)).toList = lit then pure (true, pos + lit.length)
  else pure (false, pos)

def isWs (ch : Nat) : Bool := ch = 0x20 || ch = 0x0A || ch = 0x0D || ch = 0x09
def isDigit (ch : Nat) : Bool := decide (0x30 ≤ ch ∧ ch ≤ 0x39)

/-- `skip_whitespace()` -/
def skipWs (inp : Input) : Nat → Nat → Res Nat
  | 0, _ => .outOfFuel
  | fuel + 1, pos =>
    if eof inp pos then pure pos
    else
      match rawAt inp pos with
      | .ok ch => if isWs ch then skipWs inp fuel (pos + 1) else pure pos
      | .err m => .err m
      | .oob => .oob
      | .outOfFuel => .outOfFuel

def fuelFor (inp : Input) : Nat := inp.size + 1

/-! ### strings -/

/-- `append_utf8(codepoint, out)` — shifts and masks as in the source -/
def appendUtf8 (cp : Nat) : Bytes :=
  if cp ≤ 0x7F then [cp]
  else if cp ≤ 0x7FF then [0xC0 ||| ((cp >>> 6) &&& 0x1F), 0x80 ||| (cp &&& 0x3F)]
  else if cp ≤ 0xFFFF then
    [0xE0 ||| ((cp >>> 12) &&& 0x0F), 0x80 ||| ((cp >>> 6) &&& 0x3F), 0x80 ||| (cp &&& 0x3F)]
  else
    [0xF0 ||| ((cp >>> 18) &&& 0x07), 0x80 ||| ((cp >>> 12) &&& 0x3F), 0x80 ||| ((cp >>> 6) &&& 0x3F),
      0x80 ||| (cp &&& 0x3F)]

/-- one iteration of the digit loop of `parse_hex4` -/
def hexDigit (ch : Nat) : Option Nat :=
  if 0x30 ≤ ch ∧ ch ≤ 0x39 then some (ch - 0x30)
  else if 0x61 ≤ ch ∧ ch ≤ 0x66 then some (10 + ch - 0x61)
  else if 0x41 ≤ ch ∧ ch ≤ 0x46 then some (10 + ch - 0x41)
  else none

def hexStep (acc : Nat) (ch : Nat) : Res Nat :=
  match hexDigit ch with
  | some v => pure ((acc <<< 4) ||| v)
  | none => .err "Invalid unicode escape"

/-- `parse_hex4()`: four hex digits at the cursor -/
def parseHex4 (inp : Input) (pos : Nat) : Res (Nat × Nat) :=
  if inp.size < pos + 4 then .err "Truncated unicode escape"
  else do
    let a ← rawAt inp pos
    let b ← rawAt inp (pos + 1)
    let c ← rawAt inp (pos + 2)
    let d ← rawAt inp (pos + 3)
    let v ← hexStep 0 a
    let v ← hexStep v b
    let v ← hexStep v c
    let v ← hexStep v d
    pure (v, pos + 4)

/-- `parse_unicode_escape()` (repaired), cursor just after `\u` -/
def parseUnicodeEscape (inp : Input) (pos : Nat) : Res (Bytes × Nat) := do
  let (cp, p1) ← parseHex4 inp pos
  if 0xDC00 ≤ cp ∧ cp ≤ 0xDFFF then .err "Unpaired low surrogate in unicode escape"
  else if 0xD800 ≤ cp ∧ cp ≤ 0xDBFF then
    if inp.size < p1 + 2 then .err "Unpaired high surrogate in unicode escape"
    else do
      let bs ← rawAt inp p1
      if bs ≠ 0x5C then .err "Unpaired high surrogate in unicode escape"
      else do
        let bu ← rawAt inp (p1 + 1)
        if bu ≠ 0x75 then .err "Unpaired high surrogate in unicode escape"
        else do
          let (lo, p2) ← parseHex4 inp (p1 + 2)
          if lo < 0xDC00 ∨ 0xDFFF < lo then .err "Unpaired high surrogate in unicode escape"
          else pure (appendUtf8 (0x10000 + ((cp - 0xD800) <<< 10) + (lo - 0xDC00)), p2)
  else pure (appendUtf8 cp, p1)

/-- the `while (true)` of `parse_string()`, cursor after the opening quotation mark -/
def strLoop (inp : Input) : Nat → Nat → Bytes → Res (Bytes × Nat)
  | 0, _, _ => .outOfFuel
  | fuel + 1, pos, out =>
    if eof inp pos then .err "Unterminated string literal"
    else
      match get inp pos with
      | .ok (ch, p1) =>
        if ch = 0x22 then pure (out, p1)
        else if ch = 0x5C then
          if eof inp p1 then .err "Unterminated escape sequence"
          else
            match get inp p1 with
            | .ok (esc, p2) =>
              if esc = 0x22 ∨ esc = 0x5C ∨ esc = 0x2F then strLoop inp fuel p2 (out ++ [esc])
              else if esc = 0x62 then strLoop inp fuel p2 (out ++ [0x08])
              else if esc = 0x66 then strLoop inp fuel p2 (out ++ [0x0C])
              else if esc = 0x6E then strLoop inp fuel p2 (out ++ [0x0A])
              else if esc = 0x72 then strLoop inp fuel p2 (out ++ [0x0D])
              else if esc = 0x74 then strLoop inp fuel p2 (out ++ [0x09])
              else if esc = 0x75 then
                match parseUnicodeEscape inp p2 with
                | .ok (bytes, p3) => strLoop inp fuel p3 (out ++ bytes)
                | .err m => .err m
                | .oob => .oob
                | .outOfFuel => .outOfFuel
              else .err "Invalid escape sequence in string"
            | .err m => .err m
            | .oob => .oob
            | .outOfFuel => .outOfFuel
        else strLoop inp fuel p1 (out ++ [ch])
      | .err m => .err m
      | .oob => .oob
      | .outOfFuel => .outOfFuel

/-- `parse_string()` -/
def parseString (inp : Input) (pos : Nat) : Res (Bytes × Nat) := do
  let p1 ← expect inp pos 0x22
  strLoop inp (fuelFor inp) p1 []

/-! ### literals and numbers -/

/-- `parse_boolean()` -/
def parseBoolean (inp : Input) (pos : Nat) : Res (JV × Nat) := do
  let (t, p) ← matchLiteral inp pos (ascii "true")
  if t then pure (.bool true, p)
  else do
    let (f, p) ← matchLiteral inp pos (ascii "false")
    if f then pure (.bool false, p) else .err "Invalid boolean literal"

/-- `parse_null()` -/
def parseNull (inp : Input) (pos : Nat) : Res (JV × Nat) := do
  let (n, p) ← matchLiteral inp pos (ascii "null")
  if n then pure (.null, p) else .err "Invalid null literal"

/-- `while (!eof() && isdigit(peek())) ++pos_;` -/
def digitsLoop (inp : Input) : Nat → Nat → Res Nat
  | 0, _ => .outOfFuel
  | fuel + 1, pos =>
    if eof inp pos then pure pos
    else
      match peek inp pos with
      | .ok ch => if isDigit ch then digitsLoop inp fuel (pos + 1) else pure pos
      | .err m => .err m
      | .oob => .oob
      | .outOfFuel => .outOfFuel

/-- integer part: `0`, or a digit followed by the digit loop, else "Invalid number literal" -/
def numInt (inp : Input) (pos : Nat) : Res Nat := do
  let (z, p) ← matchCh inp pos 0x30
  if z then pure p
  else do
    let ch ← peek inp p
    if isDigit ch then digitsLoop inp (fuelFor inp) p else .err "Invalid number literal"

/-- optional fraction: `.` then at least one digit -/
def numFrac (inp : Input) (pos : Nat) : Res Nat := do
  let (dot, p) ← matchCh inp pos 0x2E
  if dot then
    if eof inp p then .err "Invalid fractional number"
    else do
      let ch ← peek inp p
      if isDigit ch then digitsLoop inp (fuelFor inp) p else .err "Invalid fractional number"
  else pure p

/-- optional sign of the exponent -/
def numExpSign (inp : Input) (pos : Nat) : Res Nat :=
  if eof inp pos then pure pos
  else do
    let s ← peek inp pos
    if s = 0x2B ∨ s = 0x2D then pure (pos + 1) else pure pos

/-- optional exponent: `e`/`E`, optional sign, at least one digit -/
def numExp (inp : Input) (pos : Nat) : Res Nat :=
  if eof inp pos then pure pos
  else do
    let ch ← peek inp pos
    if ch = 0x65 ∨ ch = 0x45 then do
      let p ← numExpSign inp (pos + 1)
      if eof inp p then .err "Invalid exponent in number"
      else do
        let ch ← peek inp p
        if isDigit ch then digitsLoop inp (fuelFor inp) p else .err "Invalid exponent in number"
    else pure pos

/-- `parse_number()`; the value is the literal's text (its four stages are separate functions
    here only to keep the term small; they are consecutive blocks of one C++ function) -/
def parseNumber (inp : Input) (pos : Nat) : Res (JV × Nat) := do
  let (_, p) ← matchCh inp pos 0x2D
  let p ← numInt inp p
  let p ← numFrac inp p
  let p ← numExp inp p
  pure (.num (inp.extract pos p).toList, p)

/-! ### containers (the callee `pv` is `parse_value` one nesting level down) -/

/-- the `while (true)` of `parse_array()` -/
def arrLoop (inp : Input) (pv : Nat → Res (JV × Nat)) : Nat → Nat → List JV → Res (JV × Nat)
  | 0, _, _ => .outOfFuel
  | fuel + 1, pos, acc => do
    let p ← skipWs inp (fuelFor inp) pos
    let (child, p) ← pv p
    let acc := acc ++ [child]
    let p ← skipWs inp (fuelFor inp) p
    let (close, p) ← matchCh inp p 0x5D
    if close then pure (.arr acc, p)
    else do
      let p ← expect inp p 0x2C
      let p ← skipWs inp (fuelFor inp) p
      arrLoop inp pv fuel p acc

/-- `parse_array()` -/
def parseArray (inp : Input) (pv : Nat → Res (JV × Nat)) (pos : Nat) : Res (JV × Nat) := do
  let p ← expect inp pos 0x5B
  let p ← skipWs inp (fuelFor inp) p
  let (close, p) ← matchCh inp p 0x5D
  if close then pure (.arr [], p) else arrLoop inp pv (fuelFor inp) p []

/-- the `while (true)` of `parse_object()` -/
def objLoop (inp : Input) (pv : Nat → Res (JV × Nat)) :
    Nat → Nat → List (Nat × Bytes × JV) → Res (JV × Nat)
  | 0, _, _ => .outOfFuel
  | fuel + 1, pos, acc => do
    let p ← skipWs inp (fuelFor inp) pos
    let ch ← peek inp p
    if ch ≠ 0x22 then .err "Expected string key in object"
    else do
      let keyOff := p
      let (key, p) ← parseString inp p
      let p ← skipWs inp (fuelFor inp) p
      let p ← expect inp p 0x3A
      let p ← skipWs inp (fuelFor inp) p
      let (child, p) ← pv p
      let acc := acc ++ [(keyOff, key, child)]
      let p ← skipWs inp (fuelFor inp) p
      let (close, p) ← matchCh inp p 0x7D
      if close then pure (.obj acc, p)
      else do
        let p ← expect inp p 0x2C
        let p ← skipWs inp (fuelFor inp) p
        objLoop inp pv fuel p acc

/-- `parse_object()` -/
def parseObject (inp : Input) (pv : Nat → Res (JV × Nat)) (pos : Nat) : Res (JV × Nat) := do
  let p ← expect inp pos 0x7B
  let p ← skipWs inp (fuelFor inp) p
  let (close, p) ← matchCh inp p 0x7D
  if close then pure (.obj [], p) else objLoop inp pv (fuelFor inp) p []

/-- `parse_value()` with `d` nesting levels still allowed (`depth_ = kMaxJsonDepth - d`) -/
def parseValue (inp : Input) : Nat → Nat → Res (JV × Nat)
  | d, pos =>
    if eof inp pos then .err "Unexpected end of JSON input"
    else
      match peek inp pos with
      | .ok ch =>
        if ch = 0x22 then
          match parseString inp pos with
          | .ok (s, p) => pure (.str pos s, p)
          | .err m => .err m
          | .oob => .oob
          | .outOfFuel => .outOfFuel
        else if ch = 0x7B ∨ ch = 0x5B then
          match d with
          | 0 => .err "JSON nesting too deep"
          | d' + 1 =>
            if ch = 0x7B then parseObject inp (fun p => parseValue inp d' p) pos
            else parseArray inp (fun p => parseValue inp d' p) pos
        else if ch = 0x74 ∨ ch = 0x66 then parseBoolean inp pos
        else if ch = 0x6E then parseNull inp pos
        else if ch = 0x2D ∨ isDigit ch then parseNumber inp pos
        else .err "Invalid JSON token start"
      | .err m => .err m
      | .oob => .oob
      | .outOfFuel => .outOfFuel

/-- `JsonParser::parse()` -/
def parseDocument (inp : Input) : Res JV := do
  let p ← skipWs inp (fuelFor inp) 0
  let (v, p) ← parseValue inp EphVerif.Gen.C38.kMaxJsonDepth p
  let p ← skipWs inp (fuelFor inp) p
  if eof inp p then pure v else .err "Unexpected trailing data after JSON document"

/-! ### `parse_update_metadata` -/

structure Download where
  platform : Bytes
  url : Bytes
  sha256 : Option Bytes
  arch : Bytes
  format : Bytes
deriving Repr, DecidableEq

structure Metadata where
  version : Bytes
  tag : Bytes
  commit : Bytes
  channel : Bytes
  generatedAt : Bytes
  notesUrl : Option Bytes
  downloads : List Download
deriving Repr, DecidableEq

/-- `JsonValue::find` on the member list: first member with that key -/
def findMember (ms : List (Nat × Bytes × JV)) (key : Bytes) : Option JV :=
  match ms with
  | [] => none
  | (_, k, v) :: rest => if k = key then some v else findMember rest key

/-- `JsonValue::find` -/
def JV.find (v : JV) (key : Bytes) : Option JV :=
  match v with
  | .obj ms => findMember ms key
  | _ => none

/-- `expect_string_field` -/
def expectStringField (object : JV) (key : String) : Res Bytes :=
  match object.find (ascii key) with
  | some (.str _ s) => pure s
  | _ => .err ("Missing or invalid string field: " ++ key)

/-- `if (x && x->is_string())` → value, else the default -/
def optStringField (object : JV) (key : String) : Option Bytes :=
  match object.find (ascii key) with
  | some (.str _ s) => some s
  | _ => none

/-- the loop over `downloads->object_value` -/
def downloadsLoop : List (Nat × Bytes × JV) → List Download → Res (List Download)
  | [], acc => pure acc
  | (_, platform, value) :: rest, acc =>
    match value with
    | .obj _ => do
      let url ← expectStringField value "url"
      let info : Download :=
        { platform := platform, url := url,
          arch := (optStringField value "arch").getD [],
          format := (optStringField value "format").getD [],
          sha256 := optStringField value "sha256" }
      downloadsLoop rest (acc ++ [info])
    | _ => downloadsLoop rest acc

/-- the body of `parse_update_metadata` after parsing -/
def extractMetadata (root : JV) : Res Metadata :=
  match root with
  | .obj _ => do
    let version ← expectStringField root "version"
    let tag ← expectStringField root "tag"
    let commit ← expectStringField root "commit"
    let channel ← expectStringField root "channel"
    let generatedAt ← expectStringField root "generated_at"
    let notes := optStringField root "notes_url"
    match root.find (ascii "downloads") with
    | some (.obj dls) => do
      let downloads ← downloadsLoop dls []
      if downloads.isEmpty then .err "No valid downloads found in metadata"
      else pure { version, tag, commit, channel, generatedAt, notesUrl := notes, downloads }
    | _ => .err "Downloads block missing or invalid"
  | _ => .err "Version metadata must be a JSON object"

/-- `parse_update_metadata(json, output, error_message)`: `ok` = returned true with `output`,
    `err msg` = returned false with `error_message = msg` -/
def parseUpdateMetadata (inp : Input) : Res Metadata := do
  let root ← parseDocument inp
  extractMetadata root

end EphVerif.UpdateJson
