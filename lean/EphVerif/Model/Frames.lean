/-
Model of the transport framing of src/network/SessionManager.cpp, as written (core Lean only;
linked into drv_c14).

  wire frame  =  nonce (kNonceSize bytes) ‖ length (kLengthFieldSize bytes, big-endian)
                 ‖ ChaCha20::apply(key, nonce, payload, counter 0)

`ChaCha20::apply` is taken at its specification, `EphVerif.Spec.chacha20` (RFC 8439; C09 proves the
code's cipher equal to it for 32-byte keys and 12-byte nonces).  Doing so keeps this model
independent of C09's generated definitions; the differential run compares the real wire bytes
with it on every captured frame.

* `send` / `encodeFrame` mirror `SessionManager::send` (the size guard, the random nonce taken as a
  parameter, the four length bytes, the cipher call).
* The receiver is modelled twice and the two are proved equal (Lemmas/C14Reader.lean):
  - `Reader` + `stepByte` / `feed` / `feedChunks`: the reader *thread* as a resumable machine.  Its
    states are the three `recv_all` calls of `receive_loop` (nonce, length field, body) with the
    number of bytes still missing; it is advanced by whatever piece of the TCP stream arrives
    next, of any size.  `recv_all` asks `recv` for exactly the bytes it still misses, so bytes of a
    later frame are never pulled into the current buffer: feeding a chunk is feeding its bytes one
    after the other.
  - `receiveLoop` / `parse`: `receive_loop` as a function over the whole byte string the peer has
    sent so far, written frame by frame like the C++ (`recv_all` = "the next n bytes, or block").
* What a `Reader` records is what the property talks about: the payloads handed to the message
  handler (in order), whether the session was ended and why, how many bytes were taken from the
  socket, and the largest ciphertext buffer ever allocated.

Numbers, comparison operators, shift amounts and the cipher's initial counter come from
`EphVerif.Gen.C14` (regenerated from the working tree on every run).  The big-endian length is
written arithmetically (`/ 2^s % 256`, `* 2^s` and `+` for `>> s & 0xFF`, `<< s` and `|` on
disjoint byte lanes); `static_cast<std::uint32_t>(size)` is `% 2^32`.
-/
import EphVerif.Generated.C14
import EphVerif.Spec.ChaCha20

namespace EphVerif.Frames
open EphVerif.Gen

abbrev Bytes := List UInt8

/-- `crypto::ChaCha20::apply(key, nonce, input, output, counter)`: the bytes left in `output` -/
def cipher (key nonce : Bytes) (counter : Nat) (input : Bytes) : Bytes :=
  Spec.chacha20 key nonce (UInt32.ofNat counter) input

/-! ## sender -/

/-- the four length bytes written by `send`: `(static_cast<uint32_t>(n) >> s) & 0xFF` for the
generated shifts, in order -/
def lengthBytes (n : Nat) : Bytes :=
  C14.sendShifts.map fun s => UInt8.ofNat ((n % 4294967296) / 2 ^ s % 256)

/-- the buffer handed to `send_all` by `SessionManager::send` -/
def encodeFrame (key nonce payload : Bytes) : Bytes :=
  nonce ++ lengthBytes payload.length ++ cipher key nonce C14.sendCounter payload

/-- `SessionManager::send` on a running session: `none` = returned false before touching the
socket, `some bytes` = what was written -/
def send (key nonce payload : Bytes) : Option Bytes :=
  if C14.sendRefuses payload.length then none else some (encodeFrame key nonce payload)

/-! ## receiver -/

/-- `(b[0] << s0) | (b[1] << s1) | …` for the generated shifts -/
def readLength (b : Bytes) : Nat :=
  (List.zipWith (fun (x : UInt8) s => x.toNat * 2 ^ s) b C14.recvShifts).foldl (· + ·) 0

inductive EndReason
  /-- `length > kMaxPayloadSize`: `break` before the body buffer is allocated -/
  | oversized (announced : Nat)
  /-- `recv_all` failed: peer closed / socket error -/
  | closed
deriving DecidableEq, Repr

/-- which `recv_all` of the loop body the reader thread is in -/
inductive Want
  | nonce
  | length (nonce : Bytes)
  | body (nonce : Bytes)
deriving DecidableEq, Repr

structure Reader where
  /-- `some _` once the loop has been left (socket closed, session erased) -/
  ended : Option EndReason
  want : Want
  /-- bytes the current `recv_all` still misses (> 0 while the session is up) -/
  need : Nat
  /-- bytes the current `recv_all` has got so far, newest first -/
  acc : Bytes
  /-- payloads handed to the message handler, oldest first -/
  delivered : List Bytes
  /-- bytes taken from the socket -/
  consumed : Nat
  /-- size of the largest `ciphertext` vector allocated so far -/
  maxAlloc : Nat
deriving DecidableEq, Repr

/-- a fresh session: the reader thread waits for the first nonce -/
def Reader.init : Reader :=
  { ended := none, want := .nonce, need := C14.kNonceSize, acc := [], delivered := [], consumed := 0, maxAlloc := 0 }

/-- decrypt and dispatch (`handler_copy(message)`), then go round the loop -/
def deliver (key : Bytes) (r : Reader) (nonce ct : Bytes) : Reader :=
  { r with want := .nonce, need := C14.kNonceSize, acc := [],
           delivered := r.delivered ++ [cipher key nonce C14.recvCounter ct] }

/-- the code between the length `recv_all` and the body `recv_all` -/
def afterHeader (key : Bytes) (r : Reader) (nonce : Bytes) (len : Nat) : Reader :=
  if C14.recvRefuses len then { r with ended := some (.oversized len), need := 0, acc := [] }
  else if len = 0 then deliver key r nonce []                 -- `if (!ciphertext.empty())` skipped
  else { r with want := .body nonce, need := len, acc := [], maxAlloc := max r.maxAlloc len }

/-- a `recv_all` has returned `buf` -/
def complete (key : Bytes) (r : Reader) (buf : Bytes) : Reader :=
  match r.want with
  | .nonce => { r with want := .length buf, need := C14.kLengthFieldSize, acc := [] }
  | .length nonce => afterHeader key r nonce (readLength buf)
  | .body nonce => deliver key r nonce buf

/-- one more byte of the TCP stream reaches the reader thread -/
def stepByte (key : Bytes) (r : Reader) (b : UInt8) : Reader :=
  match r.ended with
  | some _ => r                                   -- loop left, socket closed: nothing is read any more
  | none =>
    if r.need ≤ 1 then complete key { r with consumed := r.consumed + 1 } (b :: r.acc).reverse
    else { r with need := r.need - 1, acc := b :: r.acc, consumed := r.consumed + 1 }

/-- a piece of the stream, of any size, arrives.  `key` is the key registered for the session while
these bytes are read: `receive_loop` copies `session->key` *after* the frame has been read (flag
`Gen.C14.recvKeySnapshotAfterFrame`), so a frame is decrypted with the key in force when its last
byte arrives — `register_peer_key` on a live session takes effect for the next frame completed. -/
def feed (key : Bytes) (r : Reader) (chunk : Bytes) : Reader := chunk.foldl (stepByte key) r

/-- the stream arrives cut into these pieces -/
def feedChunks (key : Bytes) (r : Reader) (chunks : List Bytes) : Reader := chunks.foldl (feed key) r

/-- a history with key replacements: each segment is fed under the key registered while it arrives -/
def feedSegments (r : Reader) (segs : List (Bytes × List Bytes)) : Reader :=
  segs.foldl (fun r seg => feedChunks seg.1 r seg.2) r

/-- the peer closes the connection (or the socket fails): the pending `recv_all` returns false -/
def close (r : Reader) : Reader :=
  match r.ended with
  | some _ => r
  | none => { r with ended := some .closed }

/-! ## `receive_loop` over the whole byte string received so far -/

/-- what can be observed of a session's receiving side -/
structure Outcome where
  delivered : List Bytes
  ended : Option EndReason
  consumed : Nat
  maxAlloc : Nat
deriving DecidableEq, Repr

def Reader.outcome (r : Reader) : Outcome :=
  { delivered := r.delivered, ended := r.ended, consumed := r.consumed, maxAlloc := r.maxAlloc }

def Outcome.init : Outcome := { delivered := [], ended := none, consumed := 0, maxAlloc := 0 }

/-- `fuel` iterations of the `while (session->running)` loop over the not yet consumed bytes `s`.
A `recv_all` that finds fewer bytes than it asks for takes them and blocks (the outcome so far is
what an observer sees). -/
def receiveLoop (key : Bytes) : Nat → Bytes → Outcome → Outcome
  | 0, _, o => o
  | fuel + 1, s, o =>
    if s.length < C14.kNonceSize then { o with consumed := o.consumed + s.length }
    else
      let nonce := s.take C14.kNonceSize
      let s1 := s.drop C14.kNonceSize
      if s1.length < C14.kLengthFieldSize then { o with consumed := o.consumed + s.length }
      else
        let len := readLength (s1.take C14.kLengthFieldSize)
        let s2 := s1.drop C14.kLengthFieldSize
        let o := { o with consumed := o.consumed + C14.kNonceSize + C14.kLengthFieldSize }
        if C14.recvRefuses len then { o with ended := some (.oversized len) }
        else if len = 0 then
          receiveLoop key fuel s2
            { o with delivered := o.delivered ++ [cipher key nonce C14.recvCounter []] }
        else
          let o := { o with maxAlloc := max o.maxAlloc len }
          if s2.length < len then { o with consumed := o.consumed + s2.length }
          else
            receiveLoop key fuel (s2.drop len)
              { o with consumed := o.consumed + len,
                       delivered := o.delivered ++ [cipher key nonce C14.recvCounter (s2.take len)] }

/-- the receiving side after the peer has sent `s` (every iteration consumes at least one byte, so
`s.length + 1` iterations are enough) -/
def parse (key : Bytes) (s : Bytes) : Outcome := receiveLoop key (s.length + 1) s Outcome.init

/-! ## several threads sending to one session

`SessionManager::send` may be called for one peer from several threads (reader threads answering
requests, the tick and control threads).  Each call builds its frame privately and then runs
`send_all(session->socket, …)`, a loop of `::send` calls; for a stream socket the kernel decides
how many bytes each call takes, so a frame reaches the socket as a sequence of *pieces* chosen by
the environment.  Threads are interleaved by an arbitrary schedule.  With the per-session
`send_mutex` (held around `send_all`, flag `Gen.C14.sendHoldsSessionLock`) a thread that wants to
start writing waits while another thread is inside `send_all`. -/

/-- one `send()` call: its arguments, the nonce it draws, and the pieces in which the kernel will
take its frame -/
structure SendCall where
  nonce : Bytes
  payload : Bytes
  pieces : List Bytes
deriving DecidableEq, Repr

/-- the pieces are a cutting of the frame `send` builds for these arguments -/
def SendCall.wellSplit (key : Bytes) (c : SendCall) : Prop := c.pieces.flatten = encodeFrame key c.nonce c.payload

instance (key : Bytes) (c : SendCall) : Decidable (c.wellSplit key) := by unfold SendCall.wellSplit; exact inferInstance

/-- pointwise update of a per-thread table -/
def upd {α : Type} (f : Nat → α) (i : Nat) (v : α) : Nat → α := fun j => if j = i then v else f j

structure Senders where
  /-- per thread: the `send()` calls it has not started yet, in program order -/
  todo : Nat → List SendCall
  /-- per thread: the pieces its current `send_all` still has to write (`[]`: not inside `send_all`) -/
  cur : Nat → List Bytes
  /-- owner of the session's `send_mutex` -/
  holder : Option Nat
  /-- the bytes written to the socket so far, in order -/
  wire : Bytes

def Senders.init (calls : Nat → List SendCall) : Senders :=
  { todo := calls, cur := fun _ => [], holder := none, wire := [] }

/-- the scheduler lets thread `i` run until its next interaction with the session's socket or lock.
`locked = true`: `send()` takes `send_mutex` before `send_all` and releases it afterwards. -/
def Senders.step (locked : Bool) (s : Senders) (i : Nat) : Senders :=
  match s.cur i with
  | w :: ws =>
    -- inside send_all: one more `::send` call; after the last piece the lock (if any) is released
    { s with cur := upd s.cur i ws, wire := s.wire ++ w,
             holder := if ws.isEmpty then none else s.holder }
  | [] =>
    match s.todo i with
    | [] => s                                             -- this thread has nothing more to send
    | c :: more =>
      if locked && s.holder.isSome then s                 -- waits for send_mutex
      else if c.pieces.isEmpty then { s with todo := upd s.todo i more }
      else { s with todo := upd s.todo i more, cur := upd s.cur i c.pieces,
                    holder := if locked then some i else s.holder }

def Senders.run (locked : Bool) (s : Senders) (sched : List Nat) : Senders := sched.foldl (Senders.step locked) s

/-- the code as it is: whether `send()` holds the lock is read off the source -/
def Senders.runAsCoded (s : Senders) (sched : List Nat) : Senders := Senders.run C14.sendHoldsSessionLock s sched

/-- every thread has returned from all its `send()` calls -/
def Senders.Done (s : Senders) : Prop := ∀ i, s.todo i = [] ∧ s.cur i = []

/-- `l` is an interleaving of the per-thread lists `t`: every element of every thread exactly once,
each thread's elements in that thread's order -/
inductive Merge {α : Type} : (Nat → List α) → List α → Prop
  | nil {t : Nat → List α} (h : ∀ i, t i = []) : Merge t []
  | cons {t : Nat → List α} {l : List α} (i : Nat) (x : α) (rest : List α) (h : t i = x :: rest)
      (m : Merge (upd t i rest) l) : Merge t (x :: l)

end EphVerif.Frames
