/-
Model of the expiry bookkeeping of `Node` (src/core/Node.cpp) for property C05: what `store_chunk`,
`ingest_manifest`, `handle_announce`, `announce_chunk`, `fetch_chunk`, `count_known_providers`,
`tick` (cleanup branch + `rebalance_swarm_plans`), `drain_cleanup_notifications` and `audit_ttl` do to
the structures that carry a lifetime.  The state is the product of

  * the chunk store                       — `ChunkStore.Recs`      (model of C01/C04, imported)
  * the provider locators                 — `Providers.Table`      (model of C06, imported)
  * the routing table                     — `Routing.Table`        (model of C07, imported)
  * `KademliaTable::shard_table_`         — key ↦ `expires_at` (steady ns)
  * `Node::manifest_cache_`               — key ↦ `manifest.expires_at` (wall-clock ns)
  * `Node::swarm_plans_`                  — key ↦ `next_rebalance` (steady ns)
  * `Node::cleanup_notifications_`, `Node::last_cleanup_`.

Two clocks: steady `now`, wall `now + wallOff` (constant offset).  The model follows the code after the
repair proposed with this property (`fixes/C05-prune-expired-manifests.patch`: the cleanup branch of
`tick` drops every cached manifest whose `expires_at` has passed together with the swarm plan of the
same key), after the C01/C04/C06 repairs already in the tree, and after repair C11-1 (a manifest arriving
without its chunk does not re-key a chunk the node holds: `keepsReadable`).

Not modelled: sender admission of `handle_announce` (PoW, throttle, lock-out: C21), the content of
manifests, key shares and plans (only their lifetimes), the swarm role ledger, uploads, the pending
fetch table (C24; a dispatch of a pending fetch is an `ingest` of its manifest preceded by a `probe`,
both of which are operations here, so every schedule is a history of this model), session keys.
-/
import EphVerif.Generated.C05
import EphVerif.Spec.NodeCleanup
import EphVerif.Model.ChunkStore
import EphVerif.Model.Providers
import EphVerif.Model.Routing

namespace EphVerif.NodeCleanup

open EphVerif.ChunkStore (aget aset adel Recs)

def ns : Int := 1000000000

structure Cfg where
  /-- default/min/max TTL, cleanup interval (seconds, as sanitised by the node) -/
  node : ChunkStore.NodeCfg
  /-- `swarm_rebalance_interval` (seconds) -/
  rebalance : Int
  /-- the node's own peer id as it appears in locators -/
  self : String
  /-- … and in the routing table -/
  selfId : Routing.Id
  /-- `system_clock::now() - steady_clock::now()` (nanoseconds) -/
  wallOff : Int

structure State where
  now : Int
  recs : Recs
  locs : Providers.Table
  routes : Routing.Table
  shards : List (String × Int)
  cache : List (String × Int)
  plans : List (String × Int)
  notes : List String
  lastCleanup : Int

def State.init (cfg : Cfg) (t0 : Int) : State :=
  { now := t0, recs := [], locs := Providers.Table.empty, routes := Routing.Table.empty cfg.selfId,
    shards := [], cache := [], plans := [], notes := [], lastCleanup := t0 }

def wall (cfg : Cfg) (s : State) : Int := s.now + cfg.wallOff

/-- `a >= b` or `a > b`, whichever the source says (the flag is regenerated) -/
def cmp (isGe : Bool) (a b : Int) : Bool := if isGe then decide (a ≥ b) else decide (a > b)

/-- `manifest_ttl` ∘ `enforce_manifest_ttl`: whole seconds left, refused below the minimum, capped at
    the maximum (`e` = `manifest.expires_at`, wall ns) -/
def manifestTtl (cfg : Cfg) (wallNow e : Int) : Option Int :=
  if e ≤ wallNow then none else
  let t := (e - wallNow) / ns
  if t ≤ 0 then none
  else if t < cfg.node.minTtl then none
  else
    let t := if t > cfg.node.maxTtl then cfg.node.maxTtl else t
    if t ≤ 0 then none else some t

/-- what every accepted manifest does: `manifest_cache_[c] = m; publish_shards(c, …, ttl);
    update_swarm_plan(m)` -/
def acceptManifest (cfg : Cfg) (s : State) (c : String) (e ttl : Int) : State :=
  { s with cache := aset s.cache c e,
           shards := aset s.shards c (s.now + ttl * ns),
           plans := aset s.plans c (s.now + cfg.rebalance * ns) }

/-- `Node::announce_chunk`: `dht_.add_contact(chunk, self, ttl)` (bucket upsert + locator) -/
def selfAnnounce (cfg : Cfg) (s : State) (c : String) (ttlNs : Int) (hint : Option (List String)) : State :=
  { s with locs := Providers.addContact s.locs s.now c cfg.self ttlNs hint,
           routes := Routing.addContactBucket s.routes s.now ⟨cfg.selfId, cfg.self, 0⟩ ttlNs }

/-- `Node::store_chunk` -/
def store (cfg : Cfg) (s : State) (c : String) (ttl : Int) (hint : Option (List String)) : State :=
  let t := ChunkStore.nodeTtl cfg.node ttl
  let s1 := { s with recs := ChunkStore.put cfg.node.store s.recs s.now c [] [] t [] true,
                     cache := aset s.cache c (wall cfg s + t * ns),
                     shards := aset s.shards c (s.now + t * ns) }
  let s2 := selfAnnounce cfg s1 c (t * ns) hint
  { s2 with plans := aset s2.plans c (s.now + cfg.rebalance * ns) }

/-- `KademliaTable::shard_record` finds a live record -/
def shardLive (s : State) (c : String) : Bool :=
  match aget s.shards c with
  | some e => !(cmp EphVerif.Gen.C05.shardRecordExpiredIsGe s.now e)
  | none => false

/-- `Node::manifest_keeps_held_chunk_readable` (repair C11-1): a manifest that arrives without its chunk may
    replace the cached manifest / key shares / plan of a chunk the node **holds** only if it stands for the same
    content and key.  This model carries lifetimes, not contents: `same` is the outcome of the comparisons the
    code performs (content hash against the cached manifest, if one is cached; reconstructed key against the
    shares the chunk is read with at present — the live key-share record, else the cached manifest's).
    Not held, or nothing to compare with: adopt. -/
def keepsReadable (s : State) (c : String) (same : Bool) : Bool :=
  match ChunkStore.getRecord s.recs s.now c with
  | none => true
  | some _ => if (aget s.cache c).isNone && !(shardLive s c) then true else same

/-- `Node::ingest_manifest` (also the effect of `request_chunk`, i.e. of a dispatched pending fetch) -/
def ingest (cfg : Cfg) (s : State) (c : String) (e : Int) (same : Bool) : State :=
  match manifestTtl cfg (wall cfg s) e with
  | none => s
  | some t =>
    if EphVerif.Gen.C05.ingestGuardsHeld && !(keepsReadable s c same) then s
    else acceptManifest cfg s c e t

/-- `Node::handle_announce` once the sender checks have passed: the provider contact is recorded in any case,
    manifest cache / key shares / plan only if the manifest keeps a held chunk readable -/
def announce (cfg : Cfg) (s : State) (c : String) (e : Int) (same : Bool) (p : String) (pid : Routing.Id) (addr : String)
    (ttl : Int) (hint : Option (List String)) : State :=
  match manifestTtl cfg (wall cfg s) e with
  | none => s
  | some t =>
    let s1 := if EphVerif.Gen.C05.announceGuardsHeld && !(keepsReadable s c same) then s else acceptManifest cfg s c e t
    let a := if ttl > 0 then ttl else t
    let a := if a > t then t else a
    let a := ChunkStore.clampChunkTtl a cfg.node.minTtl cfg.node.maxTtl
    if addr = "" then s1
    else { s1 with locs := Providers.addContact s1.locs s.now c p (a * ns) hint,
                   routes := Routing.addContactBucket s1.routes s.now ⟨pid, addr, 0⟩ (a * ns) }

/-- the node announcing a chunk it holds again (`announce_chunk` runs after `put` in `store_chunk`
    and `receive_chunk`, so its deadline is never earlier than the record's) -/
def reannounce (cfg : Cfg) (s : State) (c : String) (ttl : Int) (hint : Option (List String)) : State :=
  match ChunkStore.getRecord s.recs s.now c with
  | none => s
  | some r => if s.now + ttl * ns < r.expires then s else selfAnnounce cfg s c (ttl * ns) hint

/-- `Node::fetch_chunk`: a held (encrypted) chunk whose key-share record is gone gets it re-published from
    the cached manifest; a chunk that is not held is looked up in the provider directory, which prunes -/
def lookup (cfg : Cfg) (s : State) (c : String) : State :=
  match ChunkStore.getRecord s.recs s.now c with
  | some _ =>
    if shardLive s c then s
    else match aget s.cache c with
      | none => s
      | some e =>
        match manifestTtl cfg (wall cfg s) e with
        | some t => { s with shards := aset s.shards c (s.now + t * ns) }
        | none => s
  | none => { s with locs := (Providers.findProviders s.locs s.now c).1 }

/-- `Node::count_known_providers` (`find_providers` prunes the locator) -/
def probe (s : State) (c : String) : State :=
  { s with locs := (Providers.findProviders s.locs s.now c).1 }

/-- number it returns: distinct live providers other than the node itself -/
def probeCount (cfg : Cfg) (s : State) (c : String) : Nat :=
  (((Providers.findProviders s.locs s.now c).2.filter (fun h => h.peer != cfg.self)).map (·.peer)).eraseDups.length

def withdrawAll (t : Providers.Table) (self : String) (cs : List String) : Providers.Table :=
  cs.foldl (fun t c => Providers.withdraw t c self) t

def manifestDead (W e : Int) : Bool := cmp EphVerif.Gen.C05.manifestPruneIsGe W e
def shardDead (now e : Int) : Bool := cmp EphVerif.Gen.C05.shardSweepIsGe now e

/-- the cached manifest of `k` has expired -/
def planDead (cache : List (String × Int)) (W : Int) (k : String) : Bool :=
  match aget cache k with
  | some e => manifestDead W e
  | none => false

/-- the cleanup branch of `Node::tick` -/
def cleanup (cfg : Cfg) (s : State) : State :=
  let sw := ChunkStore.sweep s.recs s.now
  let locs1 := if EphVerif.Gen.C05.tickWithdrawsSelf then withdrawAll s.locs cfg.self sw.2 else s.locs
  let W := wall cfg s
  { s with recs := sw.1,
           notes := if EphVerif.Gen.C05.tickNotifiesInSweepLoop then s.notes ++ sw.2 else s.notes,
           locs := if EphVerif.Gen.C05.tickSweepsDht then Providers.sweep locs1 s.now else locs1,
           routes := if EphVerif.Gen.C05.tickSweepsDht then Routing.sweepBuckets s.routes s.now else s.routes,
           shards := if EphVerif.Gen.C05.tickSweepsDht then s.shards.filter (fun e => !(shardDead s.now e.2)) else s.shards,
           cache := if EphVerif.Gen.C05.tickPrunesManifests then s.cache.filter (fun e => !(manifestDead W e.2)) else s.cache,
           plans := if EphVerif.Gen.C05.tickPrunesPlans then s.plans.filter (fun e => !(planDead s.cache W e.1)) else s.plans,
           lastCleanup := s.now }

/-- `Node::rebalance_swarm_plans` (keys and `next_rebalance` only) -/
def rebalance (cfg : Cfg) (s : State) : State :=
  { s with plans := s.plans.filterMap fun e =>
      if s.now < e.2 then some e
      else match aget s.cache e.1 with
        | none => none
        | some _ => some (e.1, s.now + cfg.rebalance * ns) }

/-- does `tick` enter the cleanup branch? (`elapsed >= config_.cleanup_interval`) -/
def gate (cfg : Cfg) (s : State) : Bool :=
  cmp EphVerif.Gen.C05.tickGateIsGe (s.now - s.lastCleanup) (cfg.node.cleanupInterval * ns)

/-- `Node::tick` without the upload/fetch schedulers and key rotation -/
def tick (cfg : Cfg) (s : State) : State :=
  rebalance cfg (if gate cfg s then cleanup cfg s else s)

/-! ### observations -/

open EphVerif.C05Spec (Dump Audit)

/-- everything the node holds with its expiry; locators are listed for the chunk names `ks`
    (the table is a lookup function), routing contacts are named by `nameOf` -/
def dumpOf (ks : List String) (nameOf : Routing.Id → String) (s : State) : Dump :=
  { chunks := s.recs.map fun e => (e.1, e.2.expires),
    locators := ks.eraseDups.filterMap fun c => (s.locs c).map fun l => (c, l.exp, l.holders.map fun h => (h.peer, h.exp)),
    contacts := (Routing.allContacts s.routes).map fun c => (nameOf c.id, c.exp),
    shards := s.shards,
    manifests := s.cache,
    plans := s.plans.map fun e => (e.1, aget s.cache e.1) }

/-- `Node::audit_ttl` -/
def audit (cfg : Cfg) (ks : List String) (s : State) : Audit :=
  let locators := ks.eraseDups.filterMap fun c => (s.locs c).map fun l => (c, l)
  let hasSelf := fun (l : Providers.Loc) => l.holders.any (fun h => h.peer == cfg.self)
  { expiredLocal := (s.recs.filter fun e => cmp EphVerif.Gen.C05.auditLocalIsGe s.now e.2.expires).map (·.1),
    expiredLocators := (locators.filter fun cl => cmp EphVerif.Gen.C05.auditLocatorIsGe s.now cl.2.exp).map (·.1),
    expiredContacts := locators.flatMap fun cl =>
      (cl.2.holders.filter fun h => cmp EphVerif.Gen.C05.auditContactIsGe s.now h.exp).map fun h => (cl.1, h.peer),
    missing := (s.recs.map (·.1)).filter fun c => !(match s.locs c with | some l => hasSelf l | none => false),
    orphans := (locators.filter fun cl => hasSelf cl.2 && !((s.recs.map (·.1)).contains cl.1)).map (·.1) }

/-! ### histories -/

inductive Op where
  | adv (d : Nat)
  | store (c : String) (ttl : Int) (hint : Option (List String))
  | ingest (c : String) (e : Int) (same : Bool)
  | announce (c : String) (e : Int) (same : Bool) (p : String) (pid : Routing.Id) (addr : String) (ttl : Int) (hint : Option (List String))
  | reannounce (c : String) (ttl : Int) (hint : Option (List String))
  | lookup (c : String)
  | probe (c : String)
  | tick
  | drain
  | audit
deriving Repr

/-- the state together with everything `drain_cleanup_notifications` has handed out so far -/
structure Run where
  s : State
  drained : List String

def step (cfg : Cfg) (s : State) : Op → State
  | .adv d => { s with now := s.now + d }
  | .store c ttl hint => store cfg s c ttl hint
  | .ingest c e same => ingest cfg s c e same
  | .announce c e same p pid addr ttl hint => announce cfg s c e same p pid addr ttl hint
  | .reannounce c ttl hint => reannounce cfg s c ttl hint
  | .lookup c => lookup cfg s c
  | .probe c => probe s c
  | .tick => tick cfg s
  | .drain => { s with notes := [] }
  | .audit => s

def exec (cfg : Cfg) (r : Run) (op : Op) : Run :=
  { s := step cfg r.s op,
    drained := match op with
      | .drain => r.drained ++ r.s.notes
      | _ => r.drained }

def run (cfg : Cfg) (r : Run) (ops : List Op) : Run := ops.foldl (exec cfg) r

def Run.init (cfg : Cfg) (t0 : Int) : Run := { s := State.init cfg t0, drained := [] }

/-- every notification the node has produced so far, drained or not -/
def Run.notified (r : Run) : List String := r.drained ++ r.s.notes

/-- the event of the specification that an operation is -/
def evOf : Op → EphVerif.C05Spec.Ev
  | .adv d => .adv d
  | .store c ttl _ => .store c ttl
  | .tick => .tick
  | _ => .other

end EphVerif.NodeCleanup
