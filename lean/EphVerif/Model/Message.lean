/-
Model of the wire codec of `protocol::Message` (src/protocol/Message.cpp), shared by C13, C15, C16.
Core Lean only.

The model follows the C++ statement by statement, *after* the two repairs proposed with it
(fixes/C15-announce-nonce-v3.patch: the encoder writes the announce PoW nonce from the same version
the decoder expects it; fixes/C16-canonical-flag-byte.patch: the `accepted` flag byte is 0 or 1).

* A decoder works on a span `d` (a `List UInt8`); every access `data[off .. off+n)` is the checked
  read `rd d off n`, which is `none` exactly when the C++ pointer access would leave the span.  A
  failed read surfaces as the outcome `oob`, so "never reads out of bounds" is a statement about
  the model (`C16.total`) and not an accident of totality.
* `std::optional` results are `ok m` / `reject`.
* Lengths and cursors are `Nat`; `Lemmas/C16Size.lean` shows every intermediate value is below
  2^64, i.e. the `std::size_t` arithmetic of the code cannot wrap on LP64.
* Version limits, type tags, id/digest sizes, the two "announce carries the nonce" thresholds and
  the body of `clamp_version` are regenerated from the source: `Generated/C15.lean`.
* The MAC is a parameter `mac key data` (the driver passes `Spec.hmacSha256`, RFC 2104).
-/
import EphVerif.Generated.C15

namespace EphVerif.Message
open EphVerif.Gen.C15

abbrev Bytes := List UInt8

/-- result of a decoder: a message, `std::nullopt`, or an access outside the input span -/
inductive Outcome (α : Type) where
  | ok (a : α)
  | reject
  | oob
deriving DecidableEq, Repr

/-- `AnnouncePayload` -/
structure Announce where
  chunkId : Bytes
  peerId : Bytes
  endpoint : Bytes
  /-- `std::chrono::seconds` (signed 64-bit count) -/
  ttl : Int
  manifestUri : Bytes
  shards : Bytes
  nonce : Nat
deriving DecidableEq, Repr

/-- `std::variant<AnnouncePayload, …, HandshakeAckPayload>` -/
inductive Payload where
  | announce (a : Announce)
  | request (chunkId requester : Bytes)
  | chunk (chunkId data : Bytes) (ttl : Int)
  | ack (chunkId peerId : Bytes) (accepted : Bool)
  | handshake (publicIdentity workNonce requestedVersion : Nat)
  | handshakeAck (accepted : Bool) (negotiatedVersion responderPublic : Nat)
deriving DecidableEq, Repr

/-- `struct Message`: the type byte is a field of its own, independent of the payload alternative -/
structure Msg where
  version : Nat
  type : Nat
  payload : Payload
deriving DecidableEq, Repr

/-! ### scalars on the wire (big-endian) -/

/-- the `k` low-order base-256 digits of `v`, most significant first
    (`write_u32` = `beBytes 4`, `write_u64` = `beBytes 8`: shifts by 8·i, masked with 0xFF) -/
def beBytes : Nat → Nat → Bytes
  | 0, _ => []
  | k + 1, v => beBytes k (v / 256) ++ [UInt8.ofNat (v % 256)]

/-- `read_u32` / `read_u64`: `value = (value << 8) | byte` over the bytes in order -/
def beNat (b : Bytes) : Nat := b.foldl (fun acc x => acc * 256 + x.toNat) 0

def writeU32 (v : Nat) : Bytes := beBytes 4 v
def writeU64 (v : Nat) : Bytes := beBytes 8 v

/-- `static_cast<std::uint32_t>(std::size_t)` -/
def castU32 (n : Nat) : Nat := n % 4294967296
/-- `static_cast<std::uint32_t>(ttl.count())` (two's complement truncation of an int64) -/
def castU32i (n : Int) : Nat := (n % 4294967296).toNat

/-! ### checked reads -/

/-- bytes `[off, off+n)` of the span; `none` iff the access leaves the span -/
def rd (d : Bytes) (off n : Nat) : Option Bytes :=
  if off + n ≤ d.length then some ((d.drop off).take n) else none

def rdU8 (d : Bytes) (off : Nat) : Option Nat := (rd d off 1).map beNat
def rdU32 (d : Bytes) (off : Nat) : Option Nat := (rd d off 4).map beNat
def rdU64 (d : Bytes) (off : Nat) : Option Nat := (rd d off 8).map beNat

/-- continue with the value read, or stop with `oob` -/
@[inline] def chk {α β : Type} (o : Option α) (k : α → Outcome β) : Outcome β :=
  match o with
  | some a => k a
  | none => .oob

def Outcome.map {α β : Type} (f : α → β) : Outcome α → Outcome β
  | .ok a => .ok (f a)
  | .reject => .reject
  | .oob => .oob

/-! ### encoder -/

def clampVersion (v : Nat) : Nat := EphVerif.Gen.C15.clampVersion v

def flagByte (b : Bool) : UInt8 := if b then 1 else 0

/-- the `std::visit` body of `encode`; `version` is the clamped version -/
def encodePayload (version : Nat) : Payload → Bytes
  | .announce a =>
    let includePow := decide (version ≥ encPowMinVersion)
    writeU32 (castU32i a.ttl) ++ writeU32 (castU32 a.endpoint.length) ++ writeU32 (castU32 a.manifestUri.length)
      ++ writeU32 (castU32 a.shards.length)
      ++ a.chunkId ++ a.peerId ++ a.endpoint ++ a.manifestUri ++ a.shards
      ++ (if includePow then writeU64 a.nonce else [])
  | .request c r => c ++ r
  | .chunk c data ttl => writeU32 (castU32i ttl) ++ writeU32 (castU32 data.length) ++ c ++ data
  | .ack c p acc => [flagByte acc] ++ c ++ p
  | .handshake pub nonce rv => writeU32 pub ++ writeU64 nonce ++ [UInt8.ofNat rv]
  | .handshakeAck acc nv pub => [flagByte acc] ++ [UInt8.ofNat nv] ++ writeU32 pub

/-- `protocol::encode` -/
def encode (m : Msg) : Bytes :=
  let version := clampVersion m.version
  UInt8.ofNat version :: UInt8.ofNat m.type :: encodePayload version m.payload

/-! ### decoder -/

def isSupportedVersion (v : Nat) : Bool := decide (v ≥ kMinimumMessageVersion ∧ v ≤ kCurrentMessageVersion)

/-- `parse_announce_payload(data, remaining, include_pow)`; `d` is the span `[data, data+remaining)` -/
def parseAnnounce (d : Bytes) (includePow : Bool) : Outcome Announce :=
  let remaining := d.length
  let headerBytes := 4 * 4
  let extraBytes := if includePow then 8 else 0
  if remaining < headerBytes + kChunkIdSize + kPeerIdSize + extraBytes then .reject else
  chk (rdU32 d 0) fun ttl =>
  chk (rdU32 d 4) fun endpointLen =>
  chk (rdU32 d 8) fun manifestLen =>
  chk (rdU32 d 12) fun assignmentsLen =>
  let cursor := 16
  let expectedSize := cursor + kChunkIdSize + kPeerIdSize + endpointLen + manifestLen + assignmentsLen + extraBytes
  if remaining < expectedSize then .reject else
  chk (rd d cursor kChunkIdSize) fun chunkId =>
  let cursor := cursor + kChunkIdSize
  chk (rd d cursor kPeerIdSize) fun peerId =>
  let cursor := cursor + kPeerIdSize
  chk (rd d cursor endpointLen) fun endpoint =>
  let cursor := cursor + endpointLen
  chk (rd d cursor manifestLen) fun manifestUri =>
  let cursor := cursor + manifestLen
  chk (rd d cursor assignmentsLen) fun shards =>
  let cursor := cursor + assignmentsLen
  if includePow then
    chk (rdU64 d cursor) fun nonce =>
    .ok { chunkId, peerId, endpoint, ttl := Int.ofNat ttl, manifestUri, shards, nonce }
  else
    .ok { chunkId, peerId, endpoint, ttl := Int.ofNat ttl, manifestUri, shards, nonce := 0 }

/-- `decode_payload_v1(type, data, remaining)` -/
def decodePayloadV1 (type : Nat) (d : Bytes) : Outcome Payload :=
  let remaining := d.length
  if type = tagAnnounce then
    (parseAnnounce d false).map .announce
  else if type = tagRequest then
    if remaining < kChunkIdSize + kPeerIdSize then .reject else
    chk (rd d 0 kChunkIdSize) fun c =>
    chk (rd d kChunkIdSize kPeerIdSize) fun r =>
    .ok (.request c r)
  else if type = tagChunk then
    if remaining < 8 + kChunkIdSize then .reject else
    chk (rdU32 d 0) fun ttl =>
    chk (rdU32 d 4) fun dataLen =>
    let expected := 8 + kChunkIdSize + dataLen
    if remaining < expected then .reject else
    chk (rd d 8 kChunkIdSize) fun c =>
    chk (rd d (8 + kChunkIdSize) dataLen) fun data =>
    .ok (.chunk c data (Int.ofNat ttl))
  else if type = tagAcknowledge then
    if remaining < 1 + kChunkIdSize + kPeerIdSize then .reject else
    chk (rdU8 d 0) fun flag =>
    if flag > 1 then .reject else
    chk (rd d 1 kChunkIdSize) fun c =>
    chk (rd d (1 + kChunkIdSize) kPeerIdSize) fun p =>
    .ok (.ack c p (flag != 0))
  else if type = tagTransportHandshake then
    if remaining < 4 + 8 + 1 then .reject else
    chk (rdU32 d 0) fun pub =>
    chk (rdU64 d 4) fun nonce =>
    chk (rdU8 d 12) fun rv =>
    .ok (.handshake pub nonce rv)
  else if type = tagHandshakeAck then
    if remaining < 1 + 1 + 4 then .reject else
    chk (rdU8 d 0) fun flag =>
    if flag > 1 then .reject else
    chk (rdU8 d 1) fun nv =>
    chk (rdU32 d 2) fun pub =>
    .ok (.handshakeAck (flag != 0) nv pub)
  else .reject

/-- `protocol::decode` -/
def decode (buf : Bytes) : Outcome Msg :=
  if buf.length < 2 then .reject else
  chk (rdU8 buf 0) fun version =>
  chk (rdU8 buf 1) fun type =>
  if !isSupportedVersion version then .reject else
  let data := buf.drop 2
  let payload :=
    if version ≥ decPowMinVersion ∧ type = tagAnnounce then (parseAnnounce data true).map .announce
    else decodePayloadV1 type data
  payload.map fun p => { version, type, payload := p }

/-! ### signed variants -/

/-- `span.first(n)` / `span.last(n)`: undefined unless `n ≤ size()` -/
def spanFirst (b : Bytes) (n : Nat) : Option Bytes := if n ≤ b.length then some (b.take n) else none
def spanLast (b : Bytes) (n : Nat) : Option Bytes := if n ≤ b.length then some (b.drop (b.length - n)) else none

/-- `HmacSha256::verify`: size check, then the branch-free comparison `diff |= expected[i] ^ mac[i]` -/
def hmacVerify (mac : Bytes → Bytes → Bytes) (key data tag : Bytes) : Bool :=
  if tag.length ≠ kDigestSize then false else
  let expected := mac key data
  (List.zipWith (· ^^^ ·) expected tag).foldl (· ||| ·) (0 : UInt8) == 0

/-- `protocol::encode_signed` -/
def encodeSigned (mac : Bytes → Bytes → Bytes) (m : Msg) (key : Bytes) : Bytes :=
  let encoded := encode m
  encoded ++ mac key encoded

/-- `protocol::decode_signed` -/
def decodeSigned (mac : Bytes → Bytes → Bytes) (buf key : Bytes) : Outcome Msg :=
  if buf.length < kDigestSize then .reject else
  let messageSize := buf.length - kDigestSize
  chk (spanFirst buf messageSize) fun messageSpan =>
  chk (spanLast buf kDigestSize) fun macSpan =>
  if !hmacVerify mac key messageSpan macSpan then .reject else
  decode messageSpan

end EphVerif.Message
