/-
Model of the handshake key path of EphemeralNet (property C12), core Lean only.

Mirrors:
  src/network/KeyExchange.cpp   modexp (square-and-multiply on uint64), compute_public,
                                validate_public, derive_shared_secret
  src/core/Node.cpp             make_handshake_material (sorted publics), the key path of
                                Node::perform_handshake (validate_public, PoW check, derive, register)
  src/network/KeyManager.cpp    register_session_with_material (HMAC(shared secret, material))

`uint64` products are modelled with their wrap-around (`% 2^64`); `Lemmas/C12.lean` proves that
the wrap never happens for 32-bit moduli.  The hash and the MAC are parameters.
-/
import EphVerif.Generated.C12
import EphVerif.Model.Pow

namespace EphVerif.Kex
open EphVerif.Gen

def two64 : Nat := 18446744073709551616
def two32 : Nat := 4294967296

/-- `uint64_t * uint64_t` -/
def mul64 (a b : Nat) : Nat := (a * b) % two64

/-- the `while (exponent > 0)` loop of `KeyExchange::modexp`; `exponent` is a `uint32_t`, so the loop
    body runs at most 32 times (first argument) -/
def modexpLoop : Nat → Nat → Nat → Nat → Nat → Nat
  | 0, result, _, _, _ => result
  | fuel + 1, result, base, exponent, modulus =>
    if exponent > 0 then
      let result' := if exponent % 2 == 1 then mul64 result base % modulus else result
      let base' := mul64 base base % modulus
      modexpLoop fuel result' base' (exponent / 2) modulus
    else result

/-- `KeyExchange::modexp(uint64 base, uint32 exponent, uint32 modulus)`, `modulus ≠ 0` -/
def modexp (base exponent modulus : Nat) : Nat :=
  let result := 1 % modulus
  let base := base % modulus
  (modexpLoop 32 result base exponent modulus % modulus) % two32

/-- `KeyExchange::compute_public` -/
def computePublic (privateKey : Nat) : Nat := modexp C12.kGenerator privateKey C12.kPrime

/-- `KeyExchange::validate_public` -/
def validatePublic (candidate : Nat) : Bool := decide (candidate > 1) && decide (candidate < C12.kPrime)

/-- the scalar inside `derive_shared_secret` -/
def sharedScalar (privateKey remotePublic : Nat) : Nat :=
  modexp (remotePublic % C12.kPrime) privateKey C12.kPrime

section
variable (sha : List UInt8 → List UInt8) (hmac : List UInt8 → List UInt8 → List UInt8)

/-- `KeyExchange::derive_shared_secret`: SHA-256 of the 4 big-endian bytes of the scalar -/
def deriveSharedSecret (privateKey remotePublic : Nat) : List UInt8 :=
  sha (Pow.beBytes 4 (sharedScalar privateKey remotePublic))

/-- Node.cpp `make_handshake_material`: the two publics sorted ascending, 4 big-endian bytes each -/
def handshakeMaterial (localPublic remotePublic : Nat) : List UInt8 :=
  let lo := if remotePublic < localPublic then remotePublic else localPublic
  let hi := if remotePublic < localPublic then localPublic else remotePublic
  Pow.beBytes 4 lo ++ Pow.beBytes 4 hi

/-- `KeyManager::register_session_with_material`: the session key -/
def sessionKey (localPrivate localPublic remotePublic : Nat) : List UInt8 :=
  hmac (deriveSharedSecret sha localPrivate remotePublic) (handshakeMaterial localPublic remotePublic)

/-- a node's identity as far as the handshake is concerned -/
structure Identity where
  peerId : List UInt8
  scalar : Nat
deriving Repr, Inhabited

def Identity.pub (i : Identity) : Nat := computePublic i.scalar

/-- the key path of `Node::perform_handshake` on a node without an earlier handshake with that peer:
    the session key registered for the peer, or `none` when the handshake is refused -/
def performHandshake (self : Identity) (powBits : Nat) (peerId : List UInt8) (remotePublic remoteNonce : Nat) :
    Option (List UInt8) :=
  if !validatePublic remotePublic then none
  else if !Pow.nodeVerifyHandshake sha powBits ⟨peerId, self.peerId, remotePublic⟩ remoteNonce then none
  else some (sessionKey sha hmac self.scalar self.pub remotePublic)

end

end EphVerif.Kex
