/-
Model of the handshake key path of EphemeralNet (property C12), core Lean only.

Mirrors:
  src/network/KeyExchange.cpp   modexp (square-and-multiply on uint64), compute_public,
                                validate_public, derive_shared_secret
  src/core/Node.cpp             make_handshake_material (sorted publics), the key path of
                                Node::perform_handshake (validate_public, PoW check, derive, register)
  src/network/KeyManager.cpp    register_session_with_material (HMAC(shared secret, material))

`uint64` products are modelled with their wrap-around (`% 2^64`); `Lemmas/C12.lean` proves that
the wrap never happens for 32-bit moduli.  The hash and the MAC are parameters.
-/
import EphVerif.Generated.C12
import EphVerif.Model.Pow

namespace EphVerif.Kex
open EphVerif.Gen

def two64 : Nat := 18446744073709551616
def two32 : Nat := 4294967296

/-- `uint64_t * uint64_t` -/
def mul64 (a b : Nat) : Nat := (a * b) % two64

/-- the `while (exponent > 0)` loop of `KeyExchange::modexp`; `exponent` is a `uint32_t`, so the loop
    body runs at most 32 times (first argument) -/
def modexpLoop : Nat → Nat → Nat → Nat → Nat → Nat
  | 0, result, _, _, _ => result
  | fuel + 1, result, base, exponent, modulus =>
    if exponent > 0 then
      let result' := if exponent % 2 == 1 then mul64 result base % modulus else result
      let base' := mul64 base base % modulus
      modexpLoop fuel result' base' (exponent / 2) modulus
    else result

/-- `KeyExchange::modexp(uint64 base, uint32 exponent, uint32 modulus)`, `modulus ≠ 0` -/
def modexp (base exponent modulus : Nat) : Nat :=
  let result := 1 % modulus
  let base := base % modulus
  (modexpLoop 32 result base exponent modulus % modulus) % two32

/-- `KeyExchange::compute_public` -/
def computePublic (privateKey : Nat) : Nat := modexp C12.kGenerator privateKey C12.kPrime

/-- `KeyExchange::validate_public` -/
def validatePublic (candidate : Nat) : Bool := decide (candidate > 1) && decide (candidate < C12.kPrime)

/-- the scalar inside `derive_shared_secret` -/
def sharedScalar (privateKey remotePublic : Nat) : Nat :=
  modexp (remotePublic % C12.kPrime) privateKey C12.kPrime

/-! ### identity scalar from the configured seed (`generate_identity_scalar`, Node.cpp; `derive_public_identity_from_seed`, main.cpp)

`std::mt19937 g; g.seed(seed); std::uniform_int_distribution<uint32_t>(2, kPrime − 2)(g)`.
ISO C++ [rand.eng.mers] `mt19937` (w=32, n=624, m=397, r=31, a=0x9908B0DF, u=11, d=0xFFFFFFFF, s=7,
b=0x9D2C5680, t=15, c=0xEFC60000, l=18, f=1812433253); libstdc++'s distribution for a 32-bit engine and a
smaller range is Lemire's multiply-shift with rejection (`uniform_int_distribution::_S_nd`). -/

structure Mt32 where
  mt : Array UInt32
  idx : Nat
deriving Inhabited

namespace Mt32

def seed (s : Nat) : Mt32 := Id.run do
  let mut a : Array UInt32 := Array.replicate 624 0
  let mut prev : UInt32 := UInt32.ofNat s
  a := a.set! 0 prev
  for i in [1:624] do
    prev := (1812433253 : UInt32) * (prev ^^^ (prev >>> 30)) + UInt32.ofNat i
    a := a.set! i prev
  return ⟨a, 624⟩

def twist (a : Array UInt32) : Array UInt32 := Id.run do
  let mut a := a
  for i in [0:624] do
    let x := (a[i]! &&& 0x80000000) ||| (a[(i + 1) % 624]! &&& 0x7FFFFFFF)
    let xA := if x &&& 1 != 0 then (x >>> 1) ^^^ 0x9908B0DF else x >>> 1
    a := a.set! i (a[(i + 397) % 624]! ^^^ xA)
  return a

def next (g : Mt32) : Nat × Mt32 :=
  let g := if g.idx ≥ 624 then { mt := twist g.mt, idx := 0 } else g
  let y := g.mt[g.idx]!
  let y := y ^^^ (y >>> 11)
  let y := y ^^^ ((y <<< 7) &&& 0x9D2C5680)
  let y := y ^^^ ((y <<< 15) &&& 0xEFC60000)
  let y := y ^^^ (y >>> 18)
  (y.toNat, { g with idx := g.idx + 1 })

end Mt32

/-- libstdc++ `_S_nd<uint64_t>(urng, range)`: `product = urng() * range; low = uint32(product);
    if (low < range) { threshold = -range % range; while (low < threshold) redraw; } return product >> 32`
    (`fuel` bounds the rejection loop, which repeats with probability < 2^-31 here) -/
def lemire {σ : Type} (range : Nat) (next : σ → Nat × σ) : Nat → σ → Nat
  | 0, s => ((next s).1 * range) >>> 32
  | fuel + 1, s =>
    let (x, s') := next s
    let product := x * range
    let low := product % two32
    if low < range ∧ low < (two32 - range) % range then lemire range next fuel s' else product >>> 32

/-- `uniform_int_distribution<uint32_t>(2, kPrime − 2)` over any 32-bit engine -/
def drawScalar {σ : Type} (next : σ → Nat × σ) (s : σ) : Nat :=
  lemire (C12.kPrime - 3) next 64 s + 2

/-- the private scalar of a node configured with `identity_seed = seed`
    (the seed is used whenever one is configured — `has_value()`, including seed 0) -/
def scalarOfSeed (seed : Nat) : Nat := drawScalar Mt32.next (Mt32.seed seed)

/-- its public identity, which `main.cpp` recomputes from the seed alone for bootstrap entries -/
def publicOfSeed (seed : Nat) : Nat := computePublic (scalarOfSeed seed)

section
variable (sha : List UInt8 → List UInt8) (hmac : List UInt8 → List UInt8 → List UInt8)

/-- `KeyExchange::derive_shared_secret`: SHA-256 of the 4 big-endian bytes of the scalar -/
def deriveSharedSecret (privateKey remotePublic : Nat) : List UInt8 :=
  sha (Pow.beBytes 4 (sharedScalar privateKey remotePublic))

/-- Node.cpp `make_handshake_material`: the two publics sorted ascending, 4 big-endian bytes each -/
def handshakeMaterial (localPublic remotePublic : Nat) : List UInt8 :=
  let lo := if remotePublic < localPublic then remotePublic else localPublic
  let hi := if remotePublic < localPublic then localPublic else remotePublic
  Pow.beBytes 4 lo ++ Pow.beBytes 4 hi

/-- `KeyManager::register_session_with_material`: the session key -/
def sessionKey (localPrivate localPublic remotePublic : Nat) : List UInt8 :=
  hmac (deriveSharedSecret sha localPrivate remotePublic) (handshakeMaterial localPublic remotePublic)

/-- a node's identity as far as the handshake is concerned -/
structure Identity where
  peerId : List UInt8
  scalar : Nat
deriving Repr, Inhabited

def Identity.pub (i : Identity) : Nat := computePublic i.scalar

/-- the key path of `Node::perform_handshake` on a node without an earlier handshake with that peer:
    the session key registered for the peer, or `none` when the handshake is refused -/
def performHandshake (self : Identity) (powBits : Nat) (peerId : List UInt8) (remotePublic remoteNonce : Nat) :
    Option (List UInt8) :=
  if !validatePublic remotePublic then none
  else if !Pow.nodeVerifyHandshake sha powBits ⟨peerId, self.peerId, remotePublic⟩ remoteNonce then none
  else some (sessionKey sha hmac self.scalar self.pub remotePublic)

/-! ### the node's tables across a history of handshakes

`KeyManager::contexts_` (peer id ↦ current session key) and `Node::handshake_state_` (peer id ↦ last
`HandshakeRecord`) as association lists; `put` is `map[key] = value` (insert **or replace**). -/

/-- `map.find(key)` -/
def get {β : Type} : List (List UInt8 × β) → List UInt8 → Option β
  | [], _ => none
  | (q, v) :: rest, p => if q = p then some v else get rest p

/-- `map[key] = value`: the new entry shadows (replaces) any earlier one -/
def put {β : Type} (l : List (List UInt8 × β)) (p : List UInt8) (v : β) : List (List UInt8 × β) := (p, v) :: l

/-- `Node::HandshakeRecord` -/
structure HsRecord where
  lastAttempt : Int
  remotePublic : Nat
  remoteNonce : Nat
  success : Bool
deriving Repr, Inhabited

/-- what `perform_handshake` reads and writes -/
structure NodeState where
  self : Identity
  /-- `config_.handshake_pow_difficulty` as configured (the cap is applied by `nodeVerifyHandshake`) -/
  bits : Nat
  /-- `config_.handshake_cooldown` in nanoseconds -/
  cooldown : Int
  keys : List (List UInt8 × List UInt8) := []
  records : List (List UInt8 × HsRecord) := []
deriving Inhabited

def NodeState.fresh (self : Identity) (bits : Nat) (cooldown : Int) : NodeState := { self, bits, cooldown }

/-- `Node::session_key(peer)` = `KeyManager::current_key` -/
def NodeState.sessionKeyOf (s : NodeState) (peer : List UInt8) : Option (List UInt8) := get s.keys peer

/-- the cooldown short-circuit: only an exact repeat of the validated handshake skips validation -/
def repeatOfValidated (s : NodeState) (now : Int) (peer : List UInt8) (pub nonce : Nat) : Bool :=
  match get s.records peer with
  | some r => r.success && decide (now - r.lastAttempt < s.cooldown) && r.remotePublic == pub && r.remoteNonce == nonce
  | none => false

/-- `Node::perform_handshake(peer, remote_public_key, remote_work_nonce)` at steady-clock time `now` -/
def performHandshakeSt (s : NodeState) (now : Int) (peer : List UInt8) (pub nonce : Nat) : NodeState × Bool :=
  if repeatOfValidated s now peer pub nonce then (s, true)
  else if !validatePublic pub then
    ({ s with records := put s.records peer ⟨now, pub, nonce, false⟩ }, false)
  else if !Pow.nodeVerifyHandshake sha s.bits ⟨peer, s.self.peerId, pub⟩ nonce then
    ({ s with records := put s.records peer ⟨now, pub, nonce, false⟩ }, false)
  else
    ({ s with keys := put s.keys peer (sessionKey sha hmac s.self.scalar s.self.pub pub),
              records := put s.records peer ⟨now, pub, nonce, true⟩ }, true)

/-- one inbound handshake of a history -/
structure Call where
  now : Int
  peer : List UInt8
  pub : Nat
  nonce : Nat
deriving Repr, Inhabited

/-- a history of inbound handshakes: final state and the verdict of every call -/
def runCalls (s : NodeState) : List Call → NodeState × List (Call × Bool)
  | [] => (s, [])
  | c :: cs =>
    let r := performHandshakeSt sha hmac s c.now c.peer c.pub c.nonce
    let rest := runCalls r.1 cs
    (rest.1, (c, r.2) :: rest.2)

/-- the public key offered in the last accepted handshake claiming `peer` (starting from `init`) -/
def lastAccepted (init : Option Nat) (peer : List UInt8) : List (Call × Bool) → Option Nat
  | [] => init
  | (c, ok) :: es => lastAccepted (if ok && decide (c.peer = peer) then some c.pub else init) peer es

end

end EphVerif.Kex
