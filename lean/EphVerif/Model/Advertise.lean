import EphVerif.Generated.C34

/-!
# Model of auto-advertise (C34)

* `fmt4` / `fmt6`: the canonical text `inet_ntop` produces for a numeric address (RFC 5952 zero compression,
  first longest run of at least two zero groups, lower-case hex without leading zeros, embedded dotted IPv4 for
  `::a.b.c.d` and `::ffff:a.b.c.d` exactly as glibc's `inet_ntop6` does).  libc is *modelled*: the
  correspondence run compares `fmt4`/`fmt6` with the real `inet_ntop` on every numeric case.
* `parseIpv4`, `normalizeIpv6`, `isPrivV6`, `isPrivHost`: the text classification of
  src/network/AdvertiseDiscovery.cpp; the IPv4 range test `isPrivateOrReservedIpv4`, the IPv6 literal / prefix lists
  and the reserved names are (T) regenerated from the source (`Generated/C34.lean`).
* `build` = `build_transport_advertise_candidates`, `refresh` = `Node::refresh_advertised_endpoints`,
  `preferred` = `Node::preferred_control_endpoints` (with `Node::self_endpoint`), `hints` = the discovery-hint
  loop of `Node::store_chunk`, `startTransport` = `Node::start_transport` up to the NAT step.

Strings are `List Char` (ASCII); the driver converts at the boundary.
-/
namespace EphVerif.Adv
open EphVerif.Gen.C34

abbrev Str := List Char

/-! ## canonical text of numeric addresses (libc, modelled) -/

def digitChar (d : Nat) : Char := Char.ofNat (48 + d)

/-- decimal text of an octet (`%u`) -/
def dec8 (n : Nat) : Str :=
  if n < 10 then [digitChar n]
  else if n < 100 then [digitChar (n / 10), digitChar (n % 10)]
  else [digitChar (n / 100), digitChar (n / 10 % 10), digitChar (n % 10)]

/-- `inet_ntop(AF_INET)` -/
def fmt4 (a b c d : Nat) : Str := dec8 a ++ ('.' :: (dec8 b ++ ('.' :: (dec8 c ++ ('.' :: dec8 d)))))

def hexChar (d : Nat) : Char := if d < 10 then Char.ofNat (48 + d) else Char.ofNat (87 + d)

/-- `%x` of a 16-bit group -/
def hex16 (g : Nat) : Str :=
  if g < 16 then [hexChar g]
  else if g < 256 then [hexChar (g / 16), hexChar (g % 16)]
  else if g < 4096 then [hexChar (g / 256), hexChar (g / 16 % 16), hexChar (g % 16)]
  else [hexChar (g / 4096 % 16), hexChar (g / 256 % 16), hexChar (g / 16 % 16), hexChar (g % 16)]

def joinColon : List Str → Str
  | [] => []
  | [x] => x
  | x :: y :: r => x ++ ':' :: joinColon (y :: r)

def closeRun (cur best : Option (Nat × Nat)) : Option (Nat × Nat) :=
  match cur with
  | none => best
  | some (b, l) =>
    match best with
    | none => some (b, l)
    | some (bb, bl) => if l > bl then some (b, l) else some (bb, bl)

/-- glibc's scan for the first longest run of zero groups; input = "group i is zero" -/
def scan : List Bool → Nat → Option (Nat × Nat) → Option (Nat × Nat) → Option (Nat × Nat)
  | [], _, cur, best => closeRun cur best
  | true :: zs, i, cur, best =>
    scan zs (i + 1) (match cur with | none => some (i, 1) | some (b, l) => some (b, l + 1)) best
  | false :: zs, i, cur, best => scan zs (i + 1) none (closeRun cur best)

def bestRun (z : List Bool) : Option (Nat × Nat) :=
  match scan z 0 none none with
  | some (b, l) => if l < 2 then none else some (b, l)
  | none => none

/-- `inet_ntop(AF_INET6)` on eight 16-bit groups -/
def fmt6 (g : List Nat) : Str :=
  match bestRun (g.map (· == 0)) with
  | none => joinColon (g.map hex16)
  | some (b, l) =>
    if b == 0 && (l == 6 || (l == 5 && g.getD 5 0 == 0xffff)) then
      let g6 := g.getD 6 0
      let g7 := g.getD 7 0
      [':', ':'] ++ ((if l == 5 then ['f', 'f', 'f', 'f', ':'] else []) ++ fmt4 (g6 / 256) (g6 % 256) (g7 / 256) (g7 % 256))
    else joinColon ((g.take b).map hex16) ++ ([':', ':'] ++ joinColon ((g.drop (b + l)).map hex16))

/-! ## text classification (src/network/AdvertiseDiscovery.cpp) -/

/-- `std::isdigit` ("C" locale) -/
def isDigit (c : Char) : Bool := decide (48 ≤ c.toNat ∧ c.toNat ≤ 57)

/-- the digit loop of `parse_ipv4`: running value, refused as soon as it exceeds 255 -/
def parseOctetAux : Str → Nat → Option Nat
  | [], v => some v
  | c :: cs, v =>
    if !isDigit c then none
    else
      let v' := v * 10 + (c.toNat - 48)
      if v' > 255 then none else parseOctetAux cs v'

def parseOctet (s : Str) : Option Nat := if s.isEmpty then none else parseOctetAux s 0

/-- `parse_ipv4`: three segments ended by `find('.')`, the fourth is the rest of the string -/
def parseIpv4Aux : Nat → Str → Option (List Nat)
  | 0, s => (parseOctet s).map ([·])
  | k + 1, s =>
    match s.dropWhile (· != '.') with
    | [] => none                                              -- find('.') == npos
    | _ :: rest =>
      match parseOctet (s.takeWhile (· != '.')) with
      | none => none
      | some v => (parseIpv4Aux k rest).map (v :: ·)

def parseIpv4 (s : Str) : Option (List Nat) := parseIpv4Aux 3 s

/-- `std::tolower` ("C" locale) -/
def lowerC (c : Char) : Char := if 65 ≤ c.toNat ∧ c.toNat ≤ 90 then Char.ofNat (c.toNat + 32) else c

def lower (s : Str) : Str := s.map lowerC

def stripBrackets (s : Str) : Str :=
  if s.head? == some '[' && s.getLast? == some ']' then (s.drop 1).dropLast else s

/-- `normalize_ipv6`: strip `[...]`, cut at `%`, lower-case -/
def normalizeIpv6 (s : Str) : Str := lower ((stripBrackets s).takeWhile (· != '%'))

def v4OfList (r : Option (List Nat)) : Option (Nat × Nat × Nat × Nat) :=
  match r with
  | some [a, b, c, d] => some (a, b, c, d)
  | _ => none

/-- the IPv4-mapped test of `is_private_or_reserved_ipv6` -/
def mappedCheck (n : Str) : Bool :=
  let p := kMappedPrefix.toList
  !p.isEmpty && p.isPrefixOf n &&
    (match v4OfList (parseIpv4 (n.drop p.length)) with
     | some (a, b, c, d) => isPrivateOrReservedIpv4 a b c d
     | none => kMappedUnparsed)

/-- `is_private_or_reserved_ipv6` (every test before the last returns `true`, so the chain of `if`s is a disjunction) -/
def isPrivV6 (host : Str) : Bool :=
  let n := normalizeIpv6 host
  n.isEmpty || kV6Exact.any (·.toList == n) || kV6Prefixes.any (·.toList.isPrefixOf n) || mappedCheck n

/-- `is_private_or_reserved_host` -/
def isPrivHost (host : Str) : Bool :=
  if host.isEmpty then true
  else
    match v4OfList (parseIpv4 host) with
    | some (a, b, c, d) => isPrivateOrReservedIpv4 a b c d
    | none =>
      let lowered := lower host
      if kReservedNamesExact.any (·.toList == host) || kReservedNames.any (·.toList == lowered) then true
      else if host.contains ':' || lowered.contains ':' then isPrivV6 host
      else false

/-! ## candidates, advertised endpoints, manifest hints -/

inductive Mode where
  | on | warn | off
deriving DecidableEq, Repr, Inhabited

structure Ep where
  host : Str
  port : Nat
  manual : Bool
  source : Str
deriving DecidableEq, Repr, Inhabited

structure Cand where
  via : Str
  host : Str
  port : Nat
deriving DecidableEq, Repr, Inhabited

structure Cfg where
  mode : Mode
  allowPrivate : Bool
  controlHost : Str
  controlPort : Nat
  advHost : Option Str
  advPort : Option Nat
  endpoints : List Ep
deriving Repr, Inhabited

/-- `NatTraversalResult` (diagnostics omitted) -/
structure NatRes where
  addr : Str
  port : Nat
  stunOk : Bool
deriving Repr, Inhabited

def sStun : Str := "stun".toList
def sEcho : Str := "https-echo".toList
def sLocal : Str := "local-fallback".toList
def sAny : Str := "0.0.0.0".toList
def sLoop : Str := "127.0.0.1".toList

/-- `NatTraversalManager::coordinate("0.0.0.0", port)`; `stun` = what the STUN query returned -/
def coordinate (stunEnabled : Bool) (stun : Option Str) (localPort : Nat) : NatRes :=
  match (if stunEnabled then stun else none) with
  | some a => ⟨a, localPort, true⟩
  | none => ⟨sAny, localPort, false⟩

/-- `is_valid_host` -/
def validHost (h : Str) : Bool := !h.isEmpty && h != kInvalidHost.toList

/-- the three guards of `append_candidate` (the `seen` key never repeats: each method is tried once) -/
def admissible (allowPrivate : Bool) (h : Str) (port : Nat) : Bool :=
  validHost h && port != 0 && (allowPrivate || !isPrivHost h)

def conflictOf : List Cand → Bool
  | [a, b] => !(a.host == b.host && a.port == b.port)
  | _ => false

/-- one call of the `append_candidate` lambda -/
def candIf (allowPrivate : Bool) (via host : Str) (port : Nat) : List Cand :=
  if admissible allowPrivate host port then [⟨via, host, port⟩] else []

/-- the STUN / https-echo branch of `build_transport_advertise_candidates` -/
def firstCands (cfg : Cfg) (echo : Str) (tp : Nat) (nat : NatRes) : List Cand :=
  let resolved := if nat.port != 0 then nat.port else tp
  if nat.stunOk && validHost nat.addr && resolved != 0 then candIf cfg.allowPrivate sStun nat.addr resolved
  else
    candIf cfg.allowPrivate sEcho (if !validHost nat.addr || isPrivHost nat.addr then echo else nat.addr)
      (if resolved != 0 then resolved else tp)

/-- the local-fallback branch (both C++ branches call the same `append_candidate`) -/
def secondCands (cfg : Cfg) (tp : Nat) (first : List Cand) : List Cand :=
  let loc := if cfg.controlHost.isEmpty then sAny else cfg.controlHost
  if (cfg.allowPrivate && validHost loc) || (first.isEmpty && validHost loc) then candIf cfg.allowPrivate sLocal loc tp
  else []

/-- `build_transport_advertise_candidates`; `echo` = `fallback_echo_address(config)` (seeded PRNG, an input here) -/
def build (cfg : Cfg) (echo : Str) (tp : Nat) (nat : NatRes) : List Cand × Bool :=
  let first := firstCands cfg echo tp nat
  let cands := first ++ secondCands cfg tp first
  (cands, conflictOf cands)

/-- `append_endpoint` of `refresh_advertised_endpoints`, folded over the candidates to promote -/
def appendEps : List Cand → Nat → List (Str × Nat) → List Ep → List Ep
  | [], _, _, acc => acc
  | c :: cs, tp, seen, acc =>
    let port := if c.port != 0 then c.port else tp
    if c.host.isEmpty || port == 0 || seen.contains (c.host, port) then appendEps cs tp seen acc
    else appendEps cs tp ((c.host, port) :: seen) (acc ++ [⟨c.host, port, false, c.via⟩])

/-- the node after `start_transport` -/
structure Node where
  cfg : Cfg
  tp : Nat
  nat : Option NatRes
  cands : List Cand
  conflict : Bool
  endpoints : List Ep
deriving Repr, Inhabited

/-- which candidates `refresh_advertised_endpoints` promotes to advertised endpoints -/
def promoted (mode : Mode) (conflict manualEmpty : Bool) (cands : List Cand) : List Cand :=
  if cands.isEmpty then []                                       -- "no transport endpoints were discovered"
  else if mode == Mode.on || !conflict then                      -- promote_candidates
    (if manualEmpty then                                         -- should_infer_public_endpoint
      (match cands.find? (·.via == kPreferredMethod.toList) with -- select_public_advertise_candidate
       | some c => [c]
       | none => cands.take 1)
     else cands)
  else []

/-- the `seen` set seeded with the manual endpoints -/
def seenOf (manual : List Ep) (tp : Nat) : List (Str × Nat) :=
  manual.filterMap fun e =>
    let p := if e.port != 0 then e.port else tp
    if !e.host.isEmpty && p != 0 then some (e.host, p) else none

/-- the early returns: only the manual endpoints stay -/
def refreshIdle (cfg : Cfg) (tp : Nat) (nat : Option NatRes) : Node :=
  ⟨cfg, tp, nat, [], false, cfg.endpoints.filter (·.manual)⟩

def refreshActive (cfg : Cfg) (echo : Str) (tp : Nat) (nr : NatRes) : Node :=
  let manual := cfg.endpoints.filter (·.manual)
  let bc := build cfg echo tp nr
  ⟨cfg, tp, some nr, bc.1, bc.2, appendEps (promoted cfg.mode bc.2 manual.isEmpty bc.1) tp (seenOf manual tp) manual⟩

/-- `Node::refresh_advertised_endpoints` -/
def refresh (cfg : Cfg) (echo : Str) (tp : Nat) (nat : Option NatRes) : Node :=
  if cfg.mode == Mode.off then refreshIdle cfg tp nat
  else if tp == 0 then refreshIdle cfg tp nat
  else
    match nat with
    | none => refreshIdle cfg tp nat
    | some nr => refreshActive cfg echo tp nr

/-- `Node::start_transport(0)`: the listener got port `tp`; `stun` is what the STUN query answered -/
def startTransport (cfg : Cfg) (stunEnabled : Bool) (stun : Option Str) (echo : Str) (tp : Nat) : Node :=
  refresh cfg echo tp (some (coordinate stunEnabled stun tp))

/-- `Node::self_endpoint()` followed by `parse_endpoint` (host:port is split again at the last ':' — the identity,
since the port text has no ':') -/
def selfEndpoint (n : Node) : Option (Str × Nat) :=
  if n.tp == 0 then none
  else
    match n.nat with
    | some nr =>
      if !nr.addr.isEmpty && nr.port != 0 then some (nr.addr, nr.port)
      else some (if !n.cfg.controlHost.isEmpty then n.cfg.controlHost else sLoop, n.tp)
    | none => some (if !n.cfg.controlHost.isEmpty then n.cfg.controlHost else sLoop, n.tp)

structure CEp where
  host : Str
  port : Nat
  manual : Bool
deriving DecidableEq, Repr, Inhabited

/-- the `append` lambda with its `seen` set: first occurrence of a `host:port` key wins -/
def appendAll : List CEp → List (Str × Nat) → List CEp
  | [], _ => []
  | e :: es, seen =>
    if e.host.isEmpty || e.port == 0 || e.host == sAny || seen.contains (e.host, e.port) then appendAll es seen
    else e :: appendAll es ((e.host, e.port) :: seen)

def fallbackPort (n : Node) : Nat := if n.tp != 0 then n.tp else n.cfg.controlPort

/-- the gate `publish_auto` of `preferred_control_endpoints` -/
def publishAuto (n : Node) : Bool := n.cfg.mode == Mode.on || (n.cfg.mode == Mode.warn && !n.conflict)

/-- first block: the advertised endpoint list, else the manual control endpoint -/
def prefListed (n : Node) : List CEp :=
  if !n.endpoints.isEmpty then
    n.endpoints.map fun e => ⟨e.host, if e.port != 0 then e.port else fallbackPort n, e.manual⟩
  else
    match n.cfg.advHost with
    | some h => [⟨h, n.cfg.advPort.getD (fallbackPort n), true⟩]
    | none => if !n.cfg.controlHost.isEmpty then [⟨n.cfg.controlHost, fallbackPort n, true⟩] else []

/-- second block: the auto-advertise candidates -/
def prefCands (n : Node) : List CEp :=
  if publishAuto n then n.cands.map fun c => ⟨c.host, if c.port != 0 then c.port else fallbackPort n, false⟩ else []

/-- third block: `append_self_endpoint()` -/
def prefSelf (n : Node) : List CEp :=
  if publishAuto n && n.tp != 0 then
    match selfEndpoint n with
    | some (h, p) => if n.cfg.allowPrivate || !isPrivHost h then [⟨h, p, false⟩] else []
    | none => []
  else []

/-- `Node::preferred_control_endpoints` -/
def preferred (n : Node) : List CEp := appendAll (prefListed n ++ prefCands n ++ prefSelf n) []

structure Hint where
  scheme : Str
  host : Str
  port : Nat
deriving DecidableEq, Repr, Inhabited

def sTransport : Str := "transport".toList
def sControl : Str := "control".toList

/-- discovery hints of `Node::store_chunk` (no relay client, no bootstrap nodes): non-manual endpoints first -/
def hints (n : Node) : List Hint :=
  let pe := preferred n
  (pe.filter (!·.manual) ++ pe.filter (·.manual)).map fun e =>
    ⟨if e.manual then sControl else sTransport, e.host, e.port⟩

/-! ## what the property observes -/

/-- hosts of the automatically added entries of `Config::advertised_endpoints` -/
def autoAdvertised (n : Node) : List Str := (n.endpoints.filter (!·.manual)).map (·.host)

/-- hosts of the non-manual (`transport`) discovery hints of a manifest -/
def autoHints (n : Node) : List Str := ((hints n).filter (·.scheme == sTransport)).map (·.host)

end EphVerif.Adv
