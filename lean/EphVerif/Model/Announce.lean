/-
Model of announce admission in `Node` (src/core/Node.cpp): `sanitize_config` (announce fields),
`handle_announce`, `announce_sender_locked`, `record_announce_failure`,
`register_incoming_announce`, `verify_announce_pow`, `clear_announce_failures`, and the
`ReputationManager` score updates they perform.

The announce payload is abstracted to the facts the admission chain checks (`Ann`).  Times are
integers (nanoseconds of the steady clock), configuration durations are seconds as in `Config`.
The per-peer maps of `Node` are total functions `String → PeerSt` (absent = default entry).
`Obs` is the part of the node state the property talks about: cached manifests, published key
shares, provider contacts, pending fetches.
-/
import EphVerif.Generated.C21

namespace EphVerif.Announce
open EphVerif.Gen.C21

/-- nanoseconds per second -/
def NS : Int := 1000000000

/-- `Config` as given to the constructor (seconds / counts). -/
structure RawCfg where
  minInterval : Int
  burstWindow : Int
  burstLimit : Nat
  powDifficulty : Nat
deriving Repr, DecidableEq

/-- `Node::config_` (after `sanitize_config`), announce fields. -/
structure Cfg where
  minInterval : Int
  burstWindow : Int
  burstLimit : Nat
  powDifficulty : Nat
deriving Repr, DecidableEq

/-- `sanitize_announce_interval` (with the C21 repair: the upper clamp, if the tree has it). -/
def sanitizeInterval (v : Int) : Int :=
  if v ≤ 0 then kMinAnnounceInterval
  else if v < kMinAnnounceInterval then kMinAnnounceInterval
  else match announceIntervalCap with
    | some c => if v > c then c else v
    | none => v

/-- `sanitize_announce_window` -/
def sanitizeWindow (v : Int) : Int :=
  if v ≤ 0 then kMinAnnounceInterval
  else if v > kMaxAnnounceWindow then kMaxAnnounceWindow
  else v

/-- the announce part of `sanitize_config` -/
def sanitize (r : RawCfg) : Cfg :=
  let mi := sanitizeInterval r.minInterval
  let bl := if r.burstLimit = 0 then 1 else r.burstLimit
  let bw := sanitizeWindow r.burstWindow
  let bw := if bw < mi then mi else bw
  let d := if r.powDifficulty > kMaxAnnouncePowDifficulty then kMaxAnnouncePowDifficulty else r.powDifficulty
  { minInterval := mi, burstWindow := bw, burstLimit := bl, powDifficulty := d }

def failureWindow : Int := kAnnounceFailureWindow * NS
def lockoutDuration : Int := kAnnounceLockoutDuration * NS
def failureThreshold : Nat := kAnnounceFailureThreshold

/-- `ReputationManager::record_success` / `record_failure` on one score -/
def repSuccess (s : Int) : Int := min (s + repSuccessReward) repMaxScore
def repFailure (s : Int) : Int := max (s - repFailurePenalty) repMinScore

/-- per-peer entries of `peer_announce_history_`, `peer_announce_failure_history_`,
    `peer_announce_lockouts_` and the reputation score -/
structure PeerSt where
  hist : List Int := []
  fails : List Int := []
  lock : Option Int := none
  rep : Int := 0
deriving Repr, DecidableEq, Inhabited

/-- the node state the property is about -/
structure Obs where
  cache : List (String × String) := []      -- chunk ↦ manifest
  shares : List (String × String) := []     -- chunk ↦ manifest whose shards are published
  contacts : List (String × String) := []   -- (chunk, provider)
  pending : List (String × String) := []    -- chunk ↦ peer to fetch from
deriving Repr, DecidableEq, Inhabited

structure State where
  now : Int
  peers : String → PeerSt
  obs : Obs

def init (t0 : Int) : State := { now := t0, peers := fun _ => {}, obs := {} }

/-- An ANNOUNCE as `handle_announce` sees it, reduced to the facts it checks. -/
structure Ann where
  peer : String          -- the session's sender
  chunk : String
  man : String           -- identity of the carried manifest
  senderMatch : Bool     -- payload.peer_id == sender
  uriNonEmpty : Bool
  powOk : Bool           -- announce_pow_valid(payload, difficulty)
  version : Nat          -- message version
  decodable : Bool
  idMatch : Bool         -- manifest.chunk_id == payload.chunk_id
  thresholdMet : Bool    -- validate_shards
  unexpired : Bool       -- manifest_ttl has a value
  assignedOk : Bool      -- every assigned shard index occurs in the manifest
  hasEndpoint : Bool
  hasAssigned : Bool
  keepsReadable : Bool := true   -- manifest_keeps_held_chunk_readable: false only for a held chunk and a foreign manifest
deriving Repr, DecidableEq, Inhabited

inductive Reject where
  | locked | sender | emptyUri | pow | throttle | decode | idMismatch | shards | ttl | assigned
deriving Repr, DecidableEq, Inhabited

inductive Outcome where
  | accepted
  | rejected (r : Reject)
deriving Repr, DecidableEq, Inhabited

/-- did the announce get through the throttle (`register_incoming_announce` returned true)? -/
def Outcome.passed : Outcome → Bool
  | .accepted => true
  | .rejected .decode | .rejected .idMismatch | .rejected .shards | .rejected .ttl | .rejected .assigned => true
  | _ => false

def setPeer (s : State) (p : String) (ps : PeerSt) : State :=
  { s with peers := fun q => if q = p then ps else s.peers q }

/-- `announce_sender_locked`: an expired lockout is erased. -/
def senderLocked (now : Int) (ps : PeerSt) : PeerSt × Bool :=
  match ps.lock with
  | none => (ps, false)
  | some u => if u ≤ now then ({ ps with lock := none }, false) else (ps, true)

def pushFailure (now : Int) (ps : PeerSt) (pruned : List Int) : PeerSt :=
  let f := pruned ++ [now]
  if f.length ≥ failureThreshold then { ps with fails := [], lock := some (now + lockoutDuration) }
  else { ps with fails := f }

/-- `record_announce_failure` -/
def recordFailure (now : Int) (ps : PeerSt) : PeerSt :=
  let pruned := ps.fails.dropWhile (fun t => decide (now - t > failureWindow))
  match ps.lock with
  | none => pushFailure now ps pruned
  | some u =>
    if u ≤ now then pushFailure now { ps with lock := none } pruned
    else { ps with fails := pruned }

/-- `register_incoming_announce` on one peer's history: new history, accepted? -/
def register (cfg : Cfg) (now : Int) (hist : List Int) : List Int × Bool :=
  let h := if cfg.burstWindow > 0 then hist.dropWhile (fun t => decide (t < now - cfg.burstWindow * NS)) else hist
  let tooSoon := match h.getLast? with
    | some last => decide (cfg.minInterval > 0) && decide (now - last < cfg.minInterval * NS)
    | none => false
  if tooSoon then (h, false)
  else if decide (cfg.burstLimit > 0) && decide (h.length ≥ cfg.burstLimit) then (h, false)
  else (h ++ [now], true)

/-- `verify_announce_pow` -/
def verifyPow (cfg : Cfg) (a : Ann) : Bool :=
  if cfg.powDifficulty = 0 then true
  else if a.version < kPowMinVersion then false
  else a.powOk

def upsert (l : List (String × String)) (k v : String) : List (String × String) :=
  (k, v) :: l.filter (fun e => e.1 != k)

/-- the state changes of the accepting branch of `handle_announce` -/
def applyAccepted (o : Obs) (a : Ann) : Obs :=
  { cache := if a.keepsReadable then upsert o.cache a.chunk a.man else o.cache,
    shares := if a.keepsReadable then upsert o.shares a.chunk a.man else o.shares,
    contacts := if a.hasEndpoint then (a.chunk, a.peer) :: o.contacts.filter (fun e => !(e.1 == a.chunk && e.2 == a.peer)) else o.contacts,
    pending := if a.hasAssigned then upsert o.pending a.chunk a.peer else o.pending }

/-- the rejecting exits of `handle_announce`: `record_announce_failure` + `record_failure` -/
def rejectP (now : Int) (ps : PeerSt) (r : Reject) : PeerSt × Outcome :=
  let ps1 := recordFailure now ps
  ({ ps1 with rep := repFailure ps1.rep }, .rejected r)

/-- the checks of `handle_announce` that precede the throttle, in the order of the code -/
def preCheck (cfg : Cfg) (a : Ann) : Option Reject :=
  if !a.senderMatch then some .sender
  else if !a.uriNonEmpty then some .emptyUri
  else if !verifyPow cfg a then some .pow
  else none

/-- the checks that follow the throttle (manifest decoding and validation), in the order of the code -/
def postCheck (a : Ann) : Option Reject :=
  if !a.decodable then some .decode
  else if !a.idMatch then some .idMismatch
  else if !a.thresholdMet then some .shards
  else if !a.unexpired then some .ttl
  else if !a.assignedOk then some .assigned
  else none

/-- `Node::handle_announce` at time `now`, as far as the sender's own bookkeeping goes -/
def peerAnnounce (cfg : Cfg) (now : Int) (ps0 : PeerSt) (a : Ann) : PeerSt × Outcome :=
  let l := senderLocked now ps0
  if l.2 then ({ l.1 with rep := repFailure l.1.rep }, .rejected .locked)
  else match preCheck cfg a with
    | some r => rejectP now l.1 r
    | none =>
      let reg := register cfg now l.1.hist
      let ps := { l.1 with hist := reg.1 }
      if !reg.2 then rejectP now ps .throttle
      else match postCheck a with
        | some r => rejectP now ps r
        | none =>
          -- clear_announce_failures, (state updates), record_success
          ({ ps with fails := [], lock := none, rep := repSuccess ps.rep }, .accepted)

/-- `Node::handle_announce` at time `s.now`: only the accepting exit touches the node state `obs` -/
def announce (cfg : Cfg) (s : State) (a : Ann) : State × Outcome :=
  let r := peerAnnounce cfg s.now (s.peers a.peer) a
  ({ setPeer s a.peer r.1 with obs := if r.2 = .accepted then applyAccepted s.obs a else s.obs }, r.2)

inductive Op where
  | adv (d : Nat)          -- the steady clock never goes back
  | ann (a : Ann)
deriving Repr, Inhabited

structure Ev where
  t : Int
  a : Ann
  out : Outcome
deriving Repr, Inhabited

def step (cfg : Cfg) (s : State) : Op → State × List Ev
  | .adv d => ({ s with now := s.now + d }, [])
  | .ann a => let r := announce cfg s a; (r.1, [⟨s.now, a, r.2⟩])

/-- run a history; the log of announce events accumulates in order -/
def run (cfg : Cfg) : State × List Ev → List Op → State × List Ev
  | acc, [] => acc
  | (s, log), op :: rest => let r := step cfg s op; run cfg (r.1, log ++ r.2) rest

/-- times at which peer `p` got through the throttle -/
def passedTimes (p : String) (log : List Ev) : List Int :=
  (log.filter (fun e => e.a.peer == p && e.out.passed)).map (·.t)

/-- times at which an announce of peer `p` was accepted (changed state) -/
def acceptedTimes (p : String) (log : List Ev) : List Int :=
  (log.filter (fun e => e.a.peer == p && e.out == .accepted)).map (·.t)

end EphVerif.Announce
