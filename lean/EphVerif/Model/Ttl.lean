/-
C02 — model of where `Node` records a lifetime for a store, built from the *generated* definitions
(`Generated/C02.lean`: the sanitize_* functions, clamp_chunk_ttl and the slices of Node::store_chunk,
Node::announce_chunk, ChunkStore::put, KademliaTable::publish_shards / add_contact and the control
STORE handler, translated from the clang AST on every run).  What is written by hand here is only the
plumbing between those pieces (which callee receives which argument object):

  Node::Node            config_ = sanitize_config(config); chunk_store_(config_); dht_(id, config_)
  Node::store_chunk     chunk_store_.put(.., sanitized_ttl, ..)      -> ChunkStore::put -> compute_expiry
                        manifest.expires_at = system_clock::now() + sanitized_ttl
                        dht_.publish_shards(.., sanitized_ttl)       -> record.expires_at = now + ttl
                        announce_chunk(chunk_id, sanitized_ttl)      -> dht_.add_contact(.., ttl) -> contact.expires_at = now + ttl
  ControlServer STORE   ttl = seconds(parsed u64); rejected iff ttl < min || ttl > max; else node.store_chunk(.., ttl)
-/
import EphVerif.Generated.C02
import EphVerif.Spec.Ttl

namespace EphVerif.Ttl
open EphVerif.Gen.C02

/-- the node's effective configuration -/
def effective (cfg : Cfg) : Cfg := sanitize_config cfg

def limits (c : Cfg) : C02Spec.Limits :=
  { default := c.default_chunk_ttl, min := c.min_manifest_ttl, max := c.max_manifest_ttl,
    rotation := c.key_rotation_interval, announcePow := c.announce_pow_difficulty,
    handshakePow := c.handshake_pow_difficulty, storePow := c.store_pow_difficulty }

/-- `ChunkStore::put(ttl)` at steady time `now`: the recorded deadline -/
def chunkStorePut (c : Cfg) (ttl now : Int) : Int := compute_expiry (chunkstore_put_ttl ttl c) now

/-- the four lifetimes (ns) recorded by `Node::store_chunk(ttl)` on a node constructed from `cfg`,
    at steady time `steady` and wall time `wall`; `prevShard` is the deadline of the key-share record
    the table already holds for that chunk id (0 = none) -/
def storeChunk (cfg : Cfg) (ttl steady wall : Int) (prevShard : Int := 0) : C02Spec.StoreDurations :=
  let c := effective cfg
  { chunk := chunkStorePut c (store_chunk_put_ttl ttl c) steady - steady
    manifest := store_chunk_manifest_expires ttl c wall - wall
    shard := publish_shards_expires (store_chunk_shard_ttl ttl c) steady prevShard - steady
    announce := add_contact_expires (announce_chunk_contact_ttl (store_chunk_announce_ttl ttl c)) steady - steady }

/-- control-plane STORE with a TTL header whose numeric value is `header`: the TTL handed to
    `store_chunk`, or `none` when the request is refused with ERR_STORE_TTL_OUT_OF_RANGE -/
def controlStore (cfg : Cfg) (header : Nat) : Option Int :=
  let c := effective cfg
  let ttl := control_store_ttl header
  if control_store_ttl_rejected ttl c.min_manifest_ttl c.max_manifest_ttl = true then none else some ttl

/-- control-plane STORE without a TTL header: the default TTL is checked the same way -/
def controlStoreDefault (cfg : Cfg) : Option Int :=
  let c := effective cfg
  let ttl := c.default_chunk_ttl
  if control_store_ttl_rejected ttl c.min_manifest_ttl c.max_manifest_ttl = true then none else some ttl

end EphVerif.Ttl
