/-
Model of src/crypto/ChaCha20.cpp and of the ChaCha20 path of src/crypto/CryptoManager.cpp, as
written (core Lean only; linked into drv_c09).

Everything that is a number, a table or a straight-line statement list in the C++ comes from
`EphVerif.Gen.C09` (regenerated from the working tree on every run): kSigma, kBlockSize, the
statement list of `quarter_round` (with its rotation distances), the bound of the round loop, the
index 4-tuples of the eight `quarter_round` calls, the initialisation pattern of `state[0..15]`,
the shift/OR terms of `load32_le`, `store32_le` and `derive_counter`.

Modelling decisions (validated by the differential run, see props/C09.py):
* `std::uint32_t` is `UInt32` (wrapping `+`, and `++counter` wraps at 2^32 as in C++);
* the reference parameters of `quarter_round(working_state[x], …)` are modelled copy-in /
  copy-out; this is exact because the four indices of every call are pairwise distinct
  (theorem `C09.gen_qrIndices_distinct` checks that on the generated tuples);
* `Key`/`Nonce` are `std::array<uint8_t, 32/12>`; the model takes `List UInt8` and reads with
  default 0, theorems carry `key.length = 32`, `nonce.length = 12`;
* `std::random_device` / `mt19937_64` output is a parameter (`randomKey`, `nonce`).
-/
import EphVerif.Generated.C09

namespace EphVerif.ChaCha20
open EphVerif.Gen

/-- `rotl32(value, shift)`: `(value << shift) | (value >> (32 - shift))`.
(C++ shifts by ≥ 32 are undefined; every generated distance is in 1…31, theorem
`C09.gen_rotations_in_range`.) -/
def rotl32 (value : UInt32) (shift : Nat) : UInt32 :=
  (value <<< shift.toUInt32) ||| (value >>> (C09.rotlWidth - shift).toUInt32)

/-- `load32_le(&data[off])` -/
def load32_le (data : List UInt8) (off : Nat) : UInt32 :=
  C09.load32Terms.foldl (fun acc t => acc ||| ((data.getD (off + t.1) 0).toUInt32 <<< t.2.toUInt32)) 0

/-- `store32_le(dst, value)`: the four bytes written to `dst[0..3]` -/
def store32_le (value : UInt32) : List UInt8 :=
  C09.store32Shifts.map fun s => ((value >>> s.toUInt32) &&& C09.store32Mask).toUInt8

/-- the four registers `a b c d` of `quarter_round` -/
abbrev Regs := UInt32 × UInt32 × UInt32 × UInt32

def getReg (r : Regs) : Nat → UInt32
  | 0 => r.1
  | 1 => r.2.1
  | 2 => r.2.2.1
  | _ => r.2.2.2

def setReg (r : Regs) (i : Nat) (v : UInt32) : Regs :=
  match i with
  | 0 => (v, r.2.1, r.2.2.1, r.2.2.2)
  | 1 => (r.1, v, r.2.2.1, r.2.2.2)
  | 2 => (r.1, r.2.1, v, r.2.2.2)
  | _ => (r.1, r.2.1, r.2.2.1, v)

/-- one statement of `quarter_round` (encoding: see `Gen.C09.qrProgram`) -/
def qrStep (r : Regs) (st : Nat × Nat × Nat × Nat) : Regs :=
  match st with
  | (0, x, y, _) => setReg r x (getReg r x + getReg r y)
  | (1, x, y, _) => setReg r x (getReg r x ^^^ getReg r y)
  | (_, x, y, n) => setReg r x (rotl32 (getReg r y) n)

/-- `quarter_round(a, b, c, d)`: the statements of the C++ body, in order -/
def quarter_round (a b c d : UInt32) : Regs := C09.qrProgram.foldl qrStep (a, b, c, d)

/-- `quarter_round(ws[x], ws[y], ws[z], ws[w])` -/
def qrOnState (ws : List UInt32) (t : Nat × Nat × Nat × Nat) : List UInt32 :=
  let r := quarter_round (ws.getD t.1 0) (ws.getD t.2.1 0) (ws.getD t.2.2.1 0) (ws.getD t.2.2.2 0)
  (((ws.set t.1 r.1).set t.2.1 r.2.1).set t.2.2.1 r.2.2.1).set t.2.2.2 r.2.2.2

/-- body of the round loop: the eight `quarter_round` calls -/
def doubleRound (ws : List UInt32) : List UInt32 := C09.qrIndices.foldl qrOnState ws

/-- `for (int i = 0; i < n; ++i) { … }` -/
def roundLoop : Nat → List UInt32 → List UInt32
  | 0, ws => ws
  | n + 1, ws => roundLoop n (doubleRound ws)

/-- the value assigned to one word of `state` -/
def initWord (key nonce : List UInt8) (counter : UInt32) : Nat × Nat → UInt32
  | (0, j) => C09.sigma.getD j 0
  | (1, o) => load32_le key o
  | (2, _) => counter
  | (3, o) => load32_le nonce o
  | _ => 0

/-- `state` after the initialisation part of `chacha20_block` -/
def initState (key nonce : List UInt8) (counter : UInt32) : List UInt32 :=
  C09.stateInit.map (initWord key nonce counter)

/-- `chacha20_block(key, nonce, counter, buffer)`: the 64 bytes left in `buffer` -/
def chacha20_block (key nonce : List UInt8) (counter : UInt32) : List UInt8 :=
  let state := initState key nonce counter
  let working := roundLoop C09.doubleRounds state
  let working := List.zipWith (· + ·) working state     -- working_state[i] += state[i]
  working.flatMap store32_le                            -- store32_le(&buffer[i * 4], working_state[i])

/-- `for (i = 0; i < block_size; ++i) output[processed + i] = input[processed + i] ^ keystream[i];` -/
def xorBlock (input : Array UInt8) (keystream : List UInt8) (processed blockSize : Nat)
    (output : Array UInt8) : Array UInt8 :=
  (List.range blockSize).foldl
    (fun out i => out.setIfInBounds (processed + i) (input.getD (processed + i) 0 ^^^ keystream.getD i 0)) output

/-- the `while (processed < input.size())` loop of `ChaCha20::apply`. The counter advance is hand-modelled for
the shape `chacha20_block(…, counter, …); ++counter;` on the `std::uint32_t` parameter; that the code has this
shape is the generated obligation `C09.gen_counterAdvance` (`Gen.C09.counterMode = 0`, `counterWidth = 32`). -/
def applyLoop (key nonce : List UInt8) (input : Array UInt8) (processed : Nat) (counter : UInt32)
    (output : Array UInt8) : Array UInt8 :=
  if processed < input.size then
    let keystream := chacha20_block key nonce counter
    let counter := counter + 1                                        -- ++counter (wraps at 2^32)
    let blockSize := min C09.kBlockSize (input.size - processed)      -- std::min(kBlockSize, input.size() - processed)
    let output := xorBlock input keystream processed blockSize output
    applyLoop key nonce input (processed + blockSize) counter output
  else output
termination_by input.size - processed
decreasing_by
  have : 0 < C09.kBlockSize := by decide
  omega

/-- `output.resize(n)`: keeps the first `n` old elements, pads with zeros -/
def resize (output : Array UInt8) (n : Nat) : Array UInt8 :=
  output.extract 0 n ++ Array.replicate (n - output.size) 0

/-- first statement of `ChaCha20::apply`: how the output vector is brought to length `n`
(`Gen.C09.outputPrep`: 0 = `output.resize(n)`, otherwise re-initialised with `Gen.C09.outputFill`) -/
def prepare (output : Array UInt8) (n : Nat) : Array UInt8 :=
  if C09.outputPrep = 0 then resize output n else Array.replicate n C09.outputFill

/-- `ChaCha20::apply(key, nonce, input, output, counter)` where `output` holds `out0` on entry and
`input` is storage disjoint from `output` -/
def applyInto (key nonce input : List UInt8) (counter : UInt32) (out0 : List UInt8) : List UInt8 :=
  (applyLoop key nonce input.toArray 0 counter (prepare out0.toArray input.length)).toList

/-- `ChaCha20::apply` into a fresh vector -/
def apply (key nonce input : List UInt8) (counter : UInt32) : List UInt8 :=
  applyInto key nonce input counter []

/-! ## Aliased use: the input span points into the output vector

`apply(key, nonce, std::span(vec.data(), n), vec, counter)`: the span covers the first `n` bytes of the
very vector that is written. After the preparation step (no reallocation: `n ≤ capacity`) `input[j]`
*is* `output[j]`, so every read of the loop sees whatever the vector holds at that moment. -/

/-- the inner `for` when `input` aliases `output`: `output[p+i] = output[p+i] ^ keystream[i]`,
each byte read immediately before it is overwritten -/
def xorBlockAliased (buf : Array UInt8) (keystream : List UInt8) (processed blockSize : Nat) : Array UInt8 :=
  (List.range blockSize).foldl
    (fun b i => b.setIfInBounds (processed + i) (b.getD (processed + i) 0 ^^^ keystream.getD i 0)) buf

/-- the `while` loop with `input.size() = n` and `input[j] ≡ output[j]` -/
def applyLoopAliased (key nonce : List UInt8) (n : Nat) (processed : Nat) (counter : UInt32)
    (buf : Array UInt8) : Array UInt8 :=
  if processed < n then
    let keystream := chacha20_block key nonce counter
    let counter := counter + 1
    let blockSize := min C09.kBlockSize (n - processed)
    let buf := xorBlockAliased buf keystream processed blockSize
    applyLoopAliased key nonce n (processed + blockSize) counter buf
  else buf
termination_by n - processed
decreasing_by
  have : 0 < C09.kBlockSize := by decide
  omega

/-- `ChaCha20::apply(key, nonce, span(vec.data(), n), vec, counter)`: the vector afterwards.
(`n > vec.length` is the case "span over reserved capacity": the preparation step creates those
bytes before they are read.) -/
def applyAliased (key nonce vec : List UInt8) (n : Nat) (counter : UInt32) : List UInt8 :=
  (applyLoopAliased key nonce n 0 counter (prepare vec.toArray n)).toList

/-- in-place transformation of a buffer: `apply(key, nonce, buf, buf, counter)` -/
def applyInPlace (key nonce buf : List UInt8) (counter : UInt32) : List UInt8 :=
  applyAliased key nonce buf buf.length counter

/-! ## CryptoManager -/

/-- `derive_counter(chunk_id)` -/
def derive_counter (chunkId : List UInt8) : UInt32 :=
  C09.deriveCounterTerms.foldl (fun acc t => acc ||| ((chunkId.getD t.1 0).toUInt32 <<< t.2.toUInt32)) 0

/-- `std::all_of(key_.bytes…, value == 0)` -/
def allZero (key : List UInt8) : Bool := key.all (· == 0)

/-- `CryptoManager::CryptoManager(Key key)`: `key_` after construction; `randomKey` is what
`fill_random(key_.bytes)` would write. -/
def ctorKey (key randomKey : List UInt8) : List UInt8 :=
  if allZero key then randomKey else key

structure CipherText where
  data : List UInt8
  nonce : List UInt8
deriving Repr, DecidableEq

/-- `CryptoManager::encrypt` on a manager whose `key_` is `key_`; `nonce` is what
`fill_random(output.nonce.bytes)` writes. `output.data.resize(plaintext.size())` precedes `apply`,
which resizes to the same length again. -/
def encrypt (key_ chunkId plaintext nonce : List UInt8) : CipherText :=
  { data := applyInto key_ nonce plaintext (derive_counter chunkId) (List.replicate plaintext.length 0), nonce := nonce }

/-- `CryptoManager::decrypt` (always engaged optional) -/
def decrypt (key_ chunkId ciphertext nonce : List UInt8) : Option (List UInt8) :=
  some (applyInto key_ nonce ciphertext (derive_counter chunkId) (List.replicate ciphertext.length 0))

/-- `CryptoManager::encrypt_with_key`: a temporary manager is constructed from `key` -/
def encrypt_with_key (key chunkId plaintext nonce randomKey : List UInt8) : CipherText :=
  encrypt (ctorKey key randomKey) chunkId plaintext nonce

/-- `CryptoManager::decrypt_with_key`: another temporary manager is constructed from `key` -/
def decrypt_with_key (key chunkId ciphertext nonce randomKey : List UInt8) : Option (List UInt8) :=
  decrypt (ctorKey key randomKey) chunkId ciphertext nonce

end EphVerif.ChaCha20
