/-
C35 — exception / termination flow of the remote-input surfaces.

The call tree itself is data regenerated from the clang AST of the working tree
(`Generated/C35.lean`, written by `props/C35_extract.py`): for every function on a path from a
thread boundary (session reader thread, transport accept thread, control accept thread, relay
worker thread, the daemon's main-loop tick) to a throwing primitive, the list of its steps in
source order, each step being

* `prim site exc guards` — an explicit `throw`, a throwing library call (`std::stoul`,
  `std::filesystem::…` without `error_code`, `.at()`, `optional::value()`) or a call of a
  summarised leaf callee (`decode_manifest`, `encode_manifest`, `Shamir::combine`, …) that may
  raise an exception of class `exc`;
* `call fn guards` — a call of another function of the table;

`guards` being the `try` blocks of the function that enclose the step (innermost first), each
with the list of its `catch` clauses.

This file gives the tree its meaning.

* `Facts = site ↦ Bool` abstracts the input bytes *and* the node state: `facts s` says that on
  this delivery the primitive at site `s` is executed and throws (duplicate shard indices reach
  `combine`, the manifest is undecodable, the `OUT` path is empty, the storage directory is
  unreadable …).  Nothing relates different sites: theorems quantify over every assignment.
* `escFn facts fuel f` — the exception classes that leave function `f` in an execution whose call
  depth below `f` is at most `fuel`: a primitive contributes its class when it fires and no
  enclosing handler of the function catches that class; a call contributes what leaves the callee
  and is not caught around the call.
* a thread boundary has nothing above it: anything that leaves the boundary function is
  `std::terminate` for the process (`outcome`).
* `analyse` is the facts-free may-analysis (every primitive fires), iterated to a fixpoint;
  `Lemmas/C35Sound.lean` proves that a post-fixpoint bounds `escFn` for every `facts` and `fuel`.
-/
import EphVerif.Generated.C35

namespace EphVerif.Escape
open EphVerif.Gen.C35

/-- does this `catch` clause handle an exception of class `e`?  (`std::exception` is a base of every
    class but `other`; `logic_error` ⊇ invalid_argument / out_of_range / length_error;
    `runtime_error` ⊇ filesystem_error ⊆ system_error) -/
def catches : Handler → Exc → Bool
  | .all, _ => true
  | .std_exception, e => e != .other
  | .logic_error, e => e == .invalid_argument || e == .out_of_range || e == .length_error
  | .runtime_error_h, e => e == .runtime_error || e == .filesystem_error || e == .system_error
  | .exact c, e => c == e || (c == .system_error && e == .filesystem_error)
  | .unrelated, _ => false

/-- is `e` caught by one of the enclosing `try` blocks of the function? -/
def caught (guards : List (List Handler)) (e : Exc) : Bool :=
  guards.any fun blk => blk.any fun h => catches h e

/-- site number ↦ "on this delivery the primitive is executed and throws" -/
abbrev Facts := Nat → Bool

/-- what one step lets out of its function, given what leaves the callees (`callee`) -/
def stepEsc (facts : Facts) (callee : Nat → List Exc) : Step → List Exc
  | .prim s e g => if facts s && !caught g e then [e] else []
  | .call f g => (callee f).filter fun e => !caught g e

/-- exception classes leaving function `f` in executions of call depth ≤ `fuel` below it -/
def escFn (table : List (List Step)) (facts : Facts) : Nat → Nat → List Exc
  | 0, _ => []
  | fuel + 1, f => (table.getD f []).flatMap (stepEsc facts (escFn table facts fuel))

/-- what happens to the process when the boundary function `root` handles one delivery -/
inductive Outcome where
  | survives
  | terminate (e : Exc)
deriving DecidableEq, Repr

def outcome (table : List (List Step)) (facts : Facts) (fuel root : Nat) : Outcome :=
  match escFn table facts fuel root with
  | [] => .survives
  | e :: _ => .terminate e

/-! ### facts-free may-analysis -/

def allFire : Facts := fun _ => true

/-- one round: recompute every function's set from the previous approximation -/
def iter (table : List (List Step)) (S : List (List Exc)) : List (List Exc) :=
  table.map fun steps => (steps.flatMap (stepEsc allFire fun f => S.getD f [])).eraseDups

def analyse (table : List (List Step)) : Nat → List (List Exc)
  | 0 => table.map fun _ => []
  | n + 1 => iter table (analyse table n)

/-- `S` is closed under one more round (a post-fixpoint of the analysis) -/
def isPostFix (table : List (List Step)) (S : List (List Exc)) : Bool :=
  (List.range table.length).all fun f =>
    ((table.getD f []).flatMap (stepEsc allFire fun g => S.getD g [])).all fun e => (S.getD f []).contains e

/-- the analysis of the generated tree (as many rounds as there are functions) -/
def summary : List (List Exc) := analyse fns fns.length

/-- every boundary of the generated tree lets nothing out -/
def rootsClosed (S : List (List Exc)) : Bool :=
  roots.all fun r => (S.getD r.2 []).isEmpty

/-! ### the input facts the driver computes -/

/-- `Shamir::combine` refuses its input: fewer shares than the threshold, or a zero / repeated index
    among the first `t` shares (`Proofs/C35.lean` proves this is exactly when the C10 model of
    `combine` answers `invalid_argument`) -/
def combineThrows (idx : List Nat) (t : Nat) : Bool :=
  decide (idx.length < t) || (idx.take t).contains 0 || !decide (idx.take t).Nodup

/-! ### serial accept loops: who is served while one client stays silent

Both accept threads (`SessionManager::accept_loop`, `ControlServer::Impl::accept_loop`) take one
connection at a time and read from it with blocking `recv` before they accept the next one.
A connection is abstracted to what it costs the accept thread: it completes its request after
some time, or it stalls for good at one of the blocking steps of the accept thread. -/

/-- the blocking steps of an accept thread on an accepted connection: reading a header line
    (`recv_line`; for the transport: the peer id), reading the announced payload (`recv_exact`; for the
    transport: the handshake payload), writing the answer (`send_all`) -/
inductive Site where
  | header | payload | write
deriving DecidableEq, Repr

inductive Conn where
  /-- sends what is expected of it and reads its answer; the accept thread is busy for `work` time units -/
  | completes (work : Nat)
  /-- behaves for `work` time units and then stops for good while the accept thread waits at `site`:
      silent client / stops inside the header block (`header`), delivers less payload than announced
      (`payload`), never reads its answer (`write`) -/
  | stalls (site : Site) (work : Nat)
deriving DecidableEq, Repr

/-- sends its request and reads its answer -/
def Conn.wellBehaved : Conn → Bool
  | .completes _ => true
  | _ => false

/-- the work the accept thread does for the connection before it can get stuck -/
def Conn.work : Conn → Nat
  | .completes w => w
  | .stalls _ w => w

/-- per blocking site: how long one wait can last (`none` = unbounded) -/
abbrev Bounds := Site → Option Nat

/-- time the accept thread spends on one connection; `none` = it never comes back -/
def holdTime (b : Bounds) : Conn → Option Nat
  | .completes w => some w
  | .stalls s w => (b s).map (w + ·)

/-- when the accept thread gets to the `k`-th queued connection (`none` = never) -/
def pickedUpAt (b : Bounds) : List Conn → Nat → Option Nat
  | _, 0 => some 0
  | [], _ + 1 => some 0
  | c :: rest, k + 1 =>
    match holdTime b c, pickedUpAt b rest k with
    | some h, some t => some (h + t)
    | _, _ => none

/-- a wait is bounded by the timeout constant `T` when the timeout is set on the socket *and* the loop around
    the call gives up on a timeout instead of going round again -/
def ioBound (timeoutSet retriesOnTimeout : Bool) (T : Nat) : Option Nat :=
  if timeoutSet && !retriesOnTimeout then some T else none

/-- the bounds the control accept thread has, from the flags regenerated from the source -/
def controlBounds (T : Nat) : Bounds
  | .header => ioBound controlReadTimeout controlLineReadRetries T
  | .payload => ioBound controlReadTimeout controlPayloadReadRetries T
  | .write => ioBound controlWriteTimeout controlWriteRetries T

/-- … and the transport accept thread (its answer is one small frame: no blocking write) -/
def transportBounds (T : Nat) : Bounds
  | .header => ioBound transportPeerIdTimeout transportReadRetries T
  | .payload => ioBound transportPeerIdTimeout transportReadRetries T
  | .write => some T

/-- what the real-thread probe `rt stall` must observe for a well-behaved client queued behind one that
    stalls at `site` -/
def servedBehind (b : Bounds) (site : Site) : Bool :=
  (pickedUpAt b [.stalls site 0, .completes 0] 1).isSome

/-! ### helpers for the driver -/

def excName : Exc → String
  | .invalid_argument => "invalid_argument"
  | .out_of_range => "out_of_range"
  | .length_error => "length_error"
  | .runtime_error => "runtime_error"
  | .filesystem_error => "filesystem_error"
  | .system_error => "system_error"
  | .bad_optional_access => "bad_optional_access"
  | .bad_variant_access => "bad_variant_access"
  | .other => "other"

/-- facts from the list of fired site names (unknown names fire nothing) -/
def factsOfNames (fired : List String) : Facts := fun s =>
  match siteNames[s]? with
  | some n => fired.contains n
  | none => false

def rootByName (name : String) : Option Nat := (roots.find? fun r => r.1 == name).map (·.2)

/-- call-depth bound used by the driver: no path of the table is longer than the table -/
def driverFuel : Nat := fns.length + 1

end EphVerif.Escape
