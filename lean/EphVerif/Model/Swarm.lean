/-
Model of `SwarmCoordinator::compute_plan` (src/core/SwarmCoordinator.cpp).

The floating-point score, the jitter drawn from `mt19937` and `std::sort` are abstracted:
the *ranked* candidate list is an input, and every theorem quantifies over every ranking
(any permutation of the candidates).  Candidates are what `closest_peers` returned minus the
node itself (`candidatePeers`).  Shards are handed out round-robin by position.
The provider-count formula is generated from the source (Generated/C22.lean).
-/
import EphVerif.Generated.C22

namespace EphVerif.Swarm

structure Assignment where
  peer : String
  shards : List Nat        -- shard labels (manifest.shards[i].index), in hand-out order
deriving DecidableEq, Repr, Inhabited

/-- `candidate_peers`: closest peers minus self -/
def candidatePeers (closest : List String) (self : String) : List String :=
  closest.filter (· != self)

def providerCount (cands shards thr minCfg targetCfg : Nat) : Nat :=
  EphVerif.Gen.C22.providerCount cands shards thr minCfg targetCfg

/-- positions `j < s` with `j % n = i`, ascending: what provider `i` receives -/
def slots (s n i : Nat) : List Nat := (List.range s).filter (fun j => j % n == i)

/-- `compute_plan` given the ranked candidates and the manifest's shard labels (by position) -/
def computePlan (ranked : List String) (labels : List Nat) (thr minCfg targetCfg : Nat) : List Assignment :=
  if labels.isEmpty then []
  else if ranked.isEmpty then []
  else
    let n := providerCount ranked.length labels.length thr minCfg targetCfg
    if n == 0 then []
    else
      (List.range n).map fun i =>
        { peer := ranked.getD i "", shards := (slots labels.length n i).map (fun j => labels.getD j 0) }

end EphVerif.Swarm
