/-
Model of inbound handshake admission in `Node` (src/core/Node.cpp): `perform_handshake`
(cooldown record, reputation, key registration), `handle_transport_handshake`, and the part of
`SessionManager::handle_pending_handshake` that acknowledges and registers the session.

The validity of the proof-of-work nonce is a parameter (`Env.powValid`, for this node and the
configured difficulty); the theorems hold for every such predicate.  `KeyExchange::validate_public`
is modelled exactly.  A session key is identified by the public key it was derived from
(the derivation is a function of this node's scalar and the remote public key only).
-/
import EphVerif.Generated.C20

namespace EphVerif.Handshake
open EphVerif.Gen.C20

def NS : Int := 1000000000

structure Env where
  cooldown : Int                              -- `Config::handshake_cooldown`, seconds
  powValid : String → Nat → Nat → Bool        -- claimed peer, offered public key, nonce

/-- `KeyExchange::validate_public` -/
def keyValid (pub : Nat) : Bool := decide (1 < pub) && decide (pub < kPrime)

def repSuccess (s : Int) : Int := min (s + repSuccessReward) repMaxScore
def repFailure (s : Int) : Int := max (s - repFailurePenalty) repMinScore

/-- `Node::HandshakeRecord` -/
structure Rec where
  last : Int
  pub : Nat
  nonce : Nat
  success : Bool
deriving Repr, DecidableEq, Inhabited

structure PeerSt where
  hrec : Option Rec := none       -- handshake_state_
  sess : Option Nat := none      -- key_manager_ context (public key the current key derives from)
  smKey : Option Nat := none     -- SessionManager::keys_
  conn : Bool := false           -- a session is registered in SessionManager::sessions_
  rep : Int := 0
deriving Repr, DecidableEq, Inhabited

structure State where
  now : Int
  peers : String → PeerSt

def init (t0 : Int) : State := { now := t0, peers := fun _ => {} }

def setPeer (s : State) (p : String) (ps : PeerSt) : State :=
  { s with peers := fun q => if q = p then ps else s.peers q }

/-- the cooldown short-circuit of `perform_handshake` (repaired: only an exact repeat of the
    validated handshake skips validation) -/
def shortcut (env : Env) (now : Int) (ps : PeerSt) (pub nonce : Nat) : Bool :=
  match ps.hrec with
  | some r => r.success && decide (now - r.last < env.cooldown * NS) && r.pub == pub && r.nonce == nonce
  | none => false

/-- `Node::perform_handshake` -/
def perform (env : Env) (s : State) (p : String) (pub nonce : Nat) : State × Bool :=
  let ps := s.peers p
  if shortcut env s.now ps pub nonce then (s, true)
  else if !keyValid pub then
    (setPeer s p { ps with hrec := some ⟨s.now, pub, nonce, false⟩, rep := repFailure ps.rep }, false)
  else if !env.powValid p pub nonce then
    (setPeer s p { ps with hrec := some ⟨s.now, pub, nonce, false⟩, rep := repFailure (repFailure ps.rep) }, false)
  else
    (setPeer s p { ps with hrec := some ⟨s.now, pub, nonce, true⟩, sess := some pub, smKey := some pub,
                           rep := repSuccess ps.rep }, true)

/-- `Node::handle_transport_handshake`: `some k` = acceptance carrying the session key derived from `k`
    (repaired: the invalid-key exit records the failure) -/
def transport (env : Env) (s : State) (p : String) (pub nonce : Nat) : State × Option Nat :=
  if !keyValid pub then
    let ps := s.peers p
    (setPeer s p { ps with rep := repFailure ps.rep }, none)
  else
    let r := perform env s p pub nonce
    if !r.2 then (r.1, none)
    else match (r.1.peers p).sess with
      | none => (r.1, none)
      | some k => (r.1, some k)

/-- `SessionManager::handle_pending_handshake` with `Node`'s handler: on acceptance the ACK is sent,
    the session registered and the key stored (no other live session of that peer) -/
def pending (env : Env) (s : State) (p : String) (pub nonce : Nat) : State × Option Nat :=
  let r := transport env s p pub nonce
  match r.2 with
  | none => (r.1, none)
  | some k =>
    let ps := r.1.peers p
    (setPeer r.1 p { ps with smKey := some k, conn := true }, some k)

inductive Kind where
  | direct | transport | socket
deriving Repr, DecidableEq, Inhabited

inductive Op where
  | adv (d : Nat)
  | hs (k : Kind) (p : String) (pub nonce : Nat)
  | drop (p : String)        -- the remote end closes the connection
deriving Repr, Inhabited

structure Ev where
  t : Int
  kind : Kind
  peer : String
  pub : Nat
  nonce : Nat
  accepted : Bool
deriving Repr, Inhabited

def handshake (env : Env) (s : State) (k : Kind) (p : String) (pub nonce : Nat) : State × Bool :=
  match k with
  | .direct => perform env s p pub nonce
  | .transport => let r := transport env s p pub nonce; (r.1, r.2.isSome)
  | .socket => let r := pending env s p pub nonce; (r.1, r.2.isSome)

def step (env : Env) (s : State) : Op → State × List Ev
  | .adv d => ({ s with now := s.now + d }, [])
  | .hs k p pub nonce => let r := handshake env s k p pub nonce; (r.1, [⟨s.now, k, p, pub, nonce, r.2⟩])
  | .drop p => (setPeer s p { s.peers p with conn := false }, [])

def run (env : Env) : State × List Ev → List Op → State × List Ev
  | acc, [] => acc
  | (s, log), op :: rest => let r := step env s op; run env (r.1, log ++ r.2) rest

end EphVerif.Handshake
