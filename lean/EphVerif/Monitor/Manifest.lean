/-
Line-protocol vocabulary shared by the C17 and C18 drivers (see harness/manifest_h.cpp for the
grammar), and the executable monitors: the *specification's* verdict on an implementation line.
-/
import EphVerif.Driver.Proto
import EphVerif.Model.Manifest

namespace EphVerif.Manifest.Wire
open EphVerif.Proto EphVerif.Manifest

/-! ### byte strings -/

def hexByte (b : UInt8) : List Char := [hexDigit (b.toNat / 16), hexDigit (b.toNat % 16)]

/-- length of the run of `b` at the head of the list, and the remainder -/
def spanRun (b : UInt8) : Bytes → Nat → Nat × Bytes
  | [], n => (n, [])
  | x :: xs, n => if x == b then spanRun b xs (n + 1) else (n, x :: xs)

/-- canonical pieces: runs of ≥ 8 equal bytes as `rHHxN`, the rest as hex literals.
    `lit` is the pending literal (reversed chars), `fuel` bounds the recursion by the length. -/
def fmtPieces : Nat → Bytes → List Char → List String → List String
  | 0, _, lit, acc => (if lit.isEmpty then acc else String.ofList lit.reverse :: acc).reverse
  | _, [], lit, acc => (if lit.isEmpty then acc else String.ofList lit.reverse :: acc).reverse
  | fuel + 1, b :: rest, lit, acc =>
    let (n, rest') := spanRun b rest 1
    if n ≥ 8 then
      let acc := if lit.isEmpty then acc else String.ofList lit.reverse :: acc
      fmtPieces fuel rest' [] (s!"r{String.ofList (hexByte b)}x{n}" :: acc)
    else
      let lit := (List.replicate n (hexByte b).reverse).flatten ++ lit
      fmtPieces fuel rest' lit acc

def fmtBs (bs : Bytes) : String :=
  if bs.isEmpty then "-" else "+".intercalate (fmtPieces (bs.length + 1) bs [] [])

def parsePart (p : String) : Option Bytes :=
  match p.toList with
  | 'r' :: h1 :: h2 :: 'x' :: n =>
    match hexVal h1, hexVal h2, (String.ofList n).toNat? with
    | some a, some b, some k => some (List.replicate k (UInt8.ofNat (a * 16 + b)))
    | _, _, _ => none
  | _ => bytesOfHex p

def parseBs (s : String) : Option Bytes :=
  if s == "-" || s.isEmpty then some []
  else (s.splitOn "+").foldlM (fun acc p => (parsePart p).map (acc ++ ·)) []

/-! ### manifests -/

def fit (n : Nat) (b : Bytes) : Bytes := (b ++ List.replicate n 0).take n

def valueOf (tok key : String) : Option String :=
  let k := (key ++ "=").toList
  if k.isPrefixOf tok.toList then some (String.ofList (tok.toList.drop k.length)) else none

def items (v : String) : List String := if v == "-" || v.isEmpty then [] else v.splitOn ","

def byteOf (s : String) : Option UInt8 := s.toNat?.map UInt8.ofNat

def parseManifest (t : List String) : Option Manifest :=
  match t with
  | [tid, thash, tnonce, texp, tthr, ttot, tsh, tmeta, tdisc, ttok, tadv, tdig, tfb] => do
    let id ← (valueOf tid "id").bind parseBs
    let hash ← (valueOf thash "hash").bind parseBs
    let nonce ← (valueOf tnonce "nonce").bind parseBs
    let exp ← (valueOf texp "exp").bind String.toInt?
    let thr ← (valueOf tthr "thr").bind byteOf
    let tot ← (valueOf ttot "tot").bind byteOf
    let sh ← (items (← valueOf tsh "sh")).mapM fun it =>
      match it.splitOn ":" with
      | [i, v] => do pure (⟨← byteOf i, fit 32 (← parseBs v)⟩ : KeyShard)
      | _ => none
    let md ← (items (← valueOf tmeta "meta")).mapM fun it =>
      match it.splitOn ":" with
      | [k, v] => do pure ((← parseBs k), (← parseBs v))
      | _ => none
    let disc ← (items (← valueOf tdisc "disc")).mapM fun it =>
      match it.splitOn ":" with
      | [s, tr, e, p] => do pure (⟨← parseBs s, ← parseBs tr, ← parseBs e, ← byteOf p⟩ : DiscoveryHint)
      | _ => none
    let tok ← (valueOf ttok "tok").bind byteOf
    let adv ← (valueOf tadv "adv").bind parseBs
    let (flag, dig) ← match (← valueOf tdig "dig").splitOn ":" with
      | [f, d] => do pure (f != "0", fit 32 (← parseBs d))
      | _ => none
    let fb ← (items (← valueOf tfb "fb")).mapM fun it =>
      match it.splitOn ":" with
      | [u, p] => do pure (⟨← parseBs u, ← byteOf p⟩ : FallbackHint)
      | _ => none
    pure { chunkId := fit 32 id, chunkHash := fit 32 hash, nonce := fit 12 nonce,
           threshold := thr, totalShares := tot, expiresNs := exp, shards := sh,
           -- the harness fills a std::map with emplace
           metadata := md.foldl (fun acc e => mapInsert e.1 e.2 acc) [],
           discovery := disc, security := ⟨adv, dig, flag, tok⟩, fallback := fb }
  | _ => none

def fmtList {α : Type} (xs : List α) (f : α → String) : String :=
  if xs.isEmpty then "-" else ",".intercalate (xs.map f)

def dump (m : Manifest) : String :=
  s!"id={fmtBs m.chunkId} hash={fmtBs m.chunkHash} nonce={fmtBs m.nonce} exp={m.expiresNs}" ++
  s!" thr={m.threshold.toNat} tot={m.totalShares.toNat}" ++
  " sh=" ++ fmtList m.shards (fun s => s!"{s.index.toNat}:{fmtBs s.value}") ++
  " meta=" ++ fmtList m.metadata (fun e => s!"{fmtBs e.1}:{fmtBs e.2}") ++
  " disc=" ++ fmtList m.discovery (fun h => s!"{fmtBs h.scheme}:{fmtBs h.transport}:{fmtBs h.endpoint}:{h.priority.toNat}") ++
  s!" tok={m.security.tokenBits.toNat} adv={fmtBs m.security.advisory}" ++
  s!" dig={if m.security.hasDigest then "1" else "0"}:{fmtBs m.security.digest}" ++
  " fb=" ++ fmtList m.fallback (fun f => s!"{fmtBs f.uri}:{f.priority.toNat}")

def textOf (bs : Bytes) : String := String.ofList (bs.map fun b => Char.ofNat b.toNat)

def fmtDecode : Res Manifest → String
  | .ok m => "ok " ++ dump m
  | .invalidArg => "throw:invalid_argument"
  | .oob => "oob"
  | .ub => "ub"
  | .otherExc => "throw:other"

def fmtEncode : EncOut → String
  | .ok uri => "ok " ++ textOf uri
  | .lengthError => "throw:length_error"

/-- model of the harness op `rt`: decode (encode m) -/
def fmtRoundTrip (m : Manifest) : String :=
  match encodeManifest m with
  | .lengthError => "throw:length_error"
  | .ok uri =>
    match decodeManifest uri with
    | .ok m' => "ok " ++ dump m'
    | .invalidArg => "dthrow:invalid_argument"
    | .oob => "oob"
    | .ub => "ub"
    | .otherExc => "dthrow:other"

/-! ### monitors (specification only: `Encodable`, `normalise`, `Res.Acceptable`) -/

/-- C17 on an `rt` line: an encodable manifest must come back as its normal form, any other
    manifest must be refused with a length error -/
def monitorRoundTrip (m : Manifest) (impl : String) : String :=
  if decide (Encodable m) then
    if impl == "ok " ++ dump (normalise m) then "ok"
    else if impl.startsWith "ok " then "viol:roundtrip:decoded manifest differs from the normal form of the input"
    else s!"viol:roundtrip-refused:encodable manifest answered {impl.take 60}"
  else
    if impl == "throw:length_error" then "ok"
    else s!"viol:refuse:unrepresentable manifest answered {impl.take 40}"

/-- C17 on an `enc` line: refusal exactly for the unrepresentable manifests -/
def monitorEncode (m : Manifest) (impl : String) : String :=
  if decide (Encodable m) then
    if impl.startsWith "ok " then "ok" else s!"viol:roundtrip-refused:encodable manifest answered {impl.take 60}"
  else
    if impl == "throw:length_error" then "ok" else s!"viol:refuse:unrepresentable manifest answered {impl.take 40}"

/-- C18 on a `dec` line: a manifest or invalid_argument, nothing else -/
def monitorDecode (impl : String) : String :=
  if impl.startsWith "ok " || impl == "throw:invalid_argument" then "ok"
  else if impl.startsWith "crash:" then s!"viol:crash:{impl.take 80}"
  else s!"viol:other-outcome:{impl.take 60}"

end EphVerif.Manifest.Wire
